#!/usr/bin/env python3
"""Adds the self-test tallies of a thorough run to the evidence file written by tallycheck."""
import json, sys
ev_path, st_path = sys.argv[1], sys.argv[2]
try:
    ev = json.load(open(ev_path)); st = json.load(open(st_path))
except Exception as e:  # evidence stays as tallycheck wrote it
    print("merge_selftest:", e); sys.exit(0)
t = st.get("tally", {})
ev["coverage"]["selftest"] = {
    "mutants_applied": sum(v for k, v in t.items() if k in ("killed", "killed-other", "SURVIVED")),
    "mutants_killed": t.get("killed", 0) + t.get("killed-other", 0),
    "mutants_survived": t.get("SURVIVED", 0),
    "skipped": t.get("skipped", 0),
    "benign_variants_silent": t.get("silent", 0),
    "benign_variants_false_alarm": t.get("FALSE-ALARM", 0),
    "seeded_changes_applied": sum(1 for r in st.get("results", []) if r.get("kind") == "seeded" and r.get("status") != "skipped"),
    "seeded_changes_detected": sum(1 for r in st.get("results", []) if r.get("kind") == "seeded" and r.get("status", "").startswith("killed")),
    "independent_refactors_silent": sum(1 for r in st.get("results", []) if r.get("name", "").startswith("refactor-") and r.get("status") == "silent"),
    "independent_refactors_false_alarm": sum(1 for r in st.get("results", []) if r.get("name", "").startswith("refactor-") and r.get("status") == "FALSE-ALARM"),
    "results": [{k: r[k] for k in ("name", "kind", "status") if k in r} for r in st.get("results", [])],
    "note": "scratch copies outside /repo; evidence about the checker only, never part of the verdict",
}
json.dump(ev, open(ev_path, "w"), indent=1)
