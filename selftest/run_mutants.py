#!/usr/bin/env python3
"""Rule-sensitivity self-test of tallycheck (DESIGN.md section 8).

Every entry of mutants.py is a small semantic edit of /repo, given as exact string replacement(s)
located by content (not by line).  Each is applied to a scratch copy outside /repo and /verif,
must still compile, and the property's check must report a violation (kind "mutant": expect
a VIOLATION whose text contains `expect`) or stay silent (kind "benign": behaviour-preserving
variant, expect exit 0).  The scratch copy is removed immediately afterwards.

This is evidence about the checker, not about tally: it never touches /repo and never affects the
verdict of a check.
"""
import argparse, json, os, shutil, subprocess, sys, tempfile, concurrent.futures as cf

HERE = os.path.dirname(os.path.abspath(__file__))
VERIF = os.path.dirname(HERE)
ENV = dict(os.environ, GOFLAGS="-mod=mod", GOPROXY="off", GOSUMDB="off", GOTOOLCHAIN="local", GOWORK="off")


def run_one(m, repo, binary, keep=False):
    tmp = tempfile.mkdtemp(prefix="tc-mut-", dir=os.environ.get("TC_SCRATCH", "/tmp"))
    res = {"name": m["name"], "prop": m["prop"], "kind": m.get("kind", "mutant")}
    try:
        dst = os.path.join(tmp, "repo")
        subprocess.run(["rsync", "-a", "--exclude", ".git", repo + "/", dst + "/"], check=True)
        if m.get("patch"):
            pr = subprocess.run(["patch", "-p1", "-s", "-f", "-i", m["patch"]], cwd=dst, capture_output=True, text=True)
            if pr.returncode != 0:
                res["status"] = "skipped"
                res["why"] = "seeded patch does not apply to the current tree: " + (pr.stdout + pr.stderr).strip()[:200]
                return res
        for e in m.get("edits", []):
            p = os.path.join(dst, e["file"])
            s = open(p).read()
            n = s.count(e["old"])
            want = e.get("count", 1)
            if n != want:
                res["status"] = "skipped"
                res["why"] = "anchor text occurs %d times in %s (expected %d)" % (n, e["file"], want)
                return res
            s = s.replace(e["old"], e["new"])
            open(p, "w").write(s)
        pkgs = sorted({"./" + os.path.dirname(e["file"]) if os.path.dirname(e["file"]) else "." for e in m.get("edits", [])}) or ["./..."]
        b = subprocess.run(["go", "build"] + pkgs, cwd=dst, env=ENV, capture_output=True, text=True)
        if b.returncode != 0:
            res["status"] = "skipped"
            res["why"] = "does not compile: " + b.stderr.strip()[:300]
            return res
        r = subprocess.run([binary, "-repo", dst, "-prop", m["prop"], "-known", os.path.join(VERIF, "known_findings.json")],
                           capture_output=True, text=True, env=ENV)
        out = r.stdout
        viol = [l for l in out.splitlines() if l.startswith("VIOLATION ") or l.startswith("UNDECIDED ")]
        viol = [l for l in viol if not l.startswith("VIOLATION property=")]
        res["exit"] = r.returncode
        if res["kind"] == "benign":
            if r.returncode == 0:
                res["status"] = "silent"
            else:
                res["status"] = "FALSE-ALARM"
                res["lines"] = viol[:5] + [l for l in out.splitlines() if l.startswith("ERROR")][:3]
        else:
            exp = m.get("expect", "")
            hit = [l for l in viol if exp in l]
            if r.returncode == 1 and hit:
                res["status"] = "killed"
                res["by"] = hit[0][:240]
            elif r.returncode == 1:
                res["status"] = "killed-other"
                res["by"] = (viol or ["?"])[0][:240]
            else:
                res["status"] = "SURVIVED"
                res["lines"] = [l for l in out.splitlines() if l.startswith("ERROR")][:3]
        return res
    finally:
        if not keep:
            shutil.rmtree(tmp, ignore_errors=True)


def main():
    ap = argparse.ArgumentParser()
    ap.add_argument("--repo", default="/repo")
    ap.add_argument("--bin", default=os.path.join(VERIF, "bin", "tallycheck"))
    ap.add_argument("--prop")
    ap.add_argument("--name")
    ap.add_argument("--jobs", type=int, default=6)
    ap.add_argument("--json")
    a = ap.parse_args()
    sys.path.insert(0, HERE)
    from mutants import MUTANTS
    ms = list(MUTANTS)
    # independently produced breaking changes (see /verif/seeded/*/meta.json): each must be reported
    sd = os.path.join(VERIF, "seeded")
    if os.path.isdir(sd):
        for d in sorted(os.listdir(sd)):
            mp = os.path.join(sd, d, "meta.json")
            if not os.path.exists(mp):
                continue
            meta = json.load(open(mp))
            for prop in sorted(set([meta["property"]] + meta.get("detected_by", []))):
                ms.append({"name": "seeded-" + d, "prop": prop, "kind": "seeded", "expect": "", "patch": os.path.join(sd, d, "patch.diff")})
    # independently produced behaviour-preserving refactors (see /verif/benign/*/meta.json): each must
    # leave every check silent.  Without --prop each is run once against all checks.
    bd = os.path.join(VERIF, "benign")
    if os.path.isdir(bd):
        for d in sorted(os.listdir(bd)):
            mp = os.path.join(bd, d, "meta.json")
            if not os.path.exists(mp):
                continue
            meta = json.load(open(mp))
            if a.prop:
                for prop in meta.get("props", []):
                    ms.append({"name": "refactor-" + d, "prop": prop, "kind": "benign", "patch": os.path.join(bd, d, "patch.diff")})
            else:
                ms.append({"name": "refactor-" + d, "prop": "all", "kind": "benign", "patch": os.path.join(bd, d, "patch.diff")})
    if a.prop:
        ms = [m for m in ms if m["prop"] in a.prop.split(",")]
    if a.name:
        ms = [m for m in ms if a.name in m["name"]]
    results = []
    with cf.ThreadPoolExecutor(max_workers=a.jobs) as ex:
        for r in ex.map(lambda m: run_one(m, a.repo, a.bin), ms):
            results.append(r)
            extra = r.get("by") or r.get("why") or "; ".join(r.get("lines", []))
            print("%-12s %-4s %-44s %s" % (r["status"], r["prop"], r["name"], extra), flush=True)
    tally = {}
    for r in results:
        tally[r["status"]] = tally.get(r["status"], 0) + 1
    print("TOTAL", json.dumps(tally, sort_keys=True))
    if a.json:
        json.dump({"results": results, "tally": tally}, open(a.json, "w"), indent=1)
    bad = [r for r in results if r["status"] in ("SURVIVED", "FALSE-ALARM")]
    sys.exit(1 if bad else 0)


if __name__ == "__main__":
    main()
