"""Semantic mutants and behaviour-preserving variants of /repo for the tallycheck self-test.

Edits are exact string replacements located by content.  `expect` is a substring of the
VIOLATION/UNDECIDED obligation line that must report the mutant (rule name or construct key).
"""

MUTANTS = []


def M(name, prop, file, old, new, expect="", kind="mutant", count=1, more=None):
    edits = [{"file": file, "old": old, "new": new, "count": count}]
    for (f, o, n) in (more or []):
        edits.append({"file": f, "old": o, "new": n, "count": 1})
    MUTANTS.append({"name": name, "prop": prop, "kind": kind, "expect": expect, "edits": edits})


def B(name, prop, file, old, new, count=1, more=None):
    M(name, prop, file, old, new, kind="benign", count=count, more=more)


# ---------------------------------------------------------------- C02 gauge
M("c02-swap-stores", "C02", "stats.go",
  """	atomic.StoreUint64(&g.curr, math.Float64bits(v))
	atomic.StoreUint64(&g.updated, 1)
""", """	atomic.StoreUint64(&g.updated, 1)
	atomic.StoreUint64(&g.curr, math.Float64bits(v))
""", expect="O2 update-order")
M("c02-load-then-store", "C02", "stats.go",
  """	if atomic.SwapUint64(&g.updated, 0) == 1 {
		r.ReportGauge(name, tags, g.value())
	}""", """	if atomic.LoadUint64(&g.updated) == 1 {
		atomic.StoreUint64(&g.updated, 0)
		r.ReportGauge(name, tags, g.value())
	}""", expect="O4 flag-writers")
M("c02-value-before-swap", "C02", "stats.go",
  """	if atomic.SwapUint64(&g.updated, 0) == 1 {
		g.cachedGauge.ReportGauge(g.value())
	}""", """	v := g.value()
	if atomic.SwapUint64(&g.updated, 0) == 1 {
		g.cachedGauge.ReportGauge(v)
	}""", expect="O2 delivery")
M("c02-no-flag-test", "C02", "stats.go",
  """	if atomic.SwapUint64(&g.updated, 0) == 1 {
		g.cachedGauge.ReportGauge(g.value())
	}""", """	atomic.SwapUint64(&g.updated, 0)
	g.cachedGauge.ReportGauge(g.value())
""", expect="O2 delivery")
M("c02-unconditional-delivery", "C02", "stats.go",
  """	if atomic.SwapUint64(&g.updated, 0) == 1 {
		r.ReportGauge(name, tags, g.value())
	}""", """	r.ReportGauge(name, tags, g.value())""", expect="O2 delivery")
M("c02-float-arith", "C02", "stats.go",
  """		r.ReportGauge(name, tags, g.value())""", """		r.ReportGauge(name, tags, g.value()+0)""", expect="O3 bit-exact")
M("c02-update-no-flag", "C02", "stats.go",
  """	atomic.StoreUint64(&g.updated, 1)
""", """""", expect="O2 update-order")
M("c02-inverted-test", "C02", "stats.go",
  """	if atomic.SwapUint64(&g.updated, 0) == 1 {
		g.cachedGauge.ReportGauge(g.value())
	}""", """	if atomic.SwapUint64(&g.updated, 0) != 1 {
		g.cachedGauge.ReportGauge(g.value())
	}""", expect="O2 delivery")
M("c02-pass-skips-gauges", "C02", "scope.go",
  """	for _, gauge := range s.gaugesSlice {
		gauge.cachedReport()
	}""", """	for _, gauge := range s.gaugesSlice[1:] {
		gauge.cachedReport()
	}""", expect="O5 pass-coverage")
M("c02-pass-breaks", "C02", "scope.go",
  """	for name, gauge := range s.gauges {
		gauge.report(s.fullyQualifiedName(name), s.tags, r)
	}""", """	for name, gauge := range s.gauges {
		gauge.report(s.fullyQualifiedName(name), s.tags, r)
		if len(name) == 0 {
			break
		}
	}""", expect="O5 pass-coverage")
B("c02-benign-cas", "C02", "stats.go",
  """	if atomic.SwapUint64(&g.updated, 0) == 1 {
		g.cachedGauge.ReportGauge(g.value())
	}""", """	if atomic.CompareAndSwapUint64(&g.updated, 1, 0) {
		g.cachedGauge.ReportGauge(g.value())
	}""")
B("c02-benign-neq0-inline", "C02", "stats.go",
  """	if atomic.SwapUint64(&g.updated, 0) == 1 {
		r.ReportGauge(name, tags, g.value())
	}""", """	old := atomic.SwapUint64(&g.updated, 0)
	if old != 0 {
		bits := atomic.LoadUint64(&g.curr)
		r.ReportGauge(name, tags, math.Float64frombits(bits))
	}""")
B("c02-benign-early-return", "C02", "stats.go",
  """	if atomic.SwapUint64(&g.updated, 0) == 1 {
		g.cachedGauge.ReportGauge(g.value())
	}""", """	if atomic.SwapUint64(&g.updated, 0) == 0 {
		return
	}
	g.cachedGauge.ReportGauge(g.value())""")

# ---------------------------------------------------------------- C01 counter
M("c01-revert-fix-load-store", "C01", "stats.go",
  """	for {
		// n.b. prev must be read before curr so that, with non-negative
		//      increments, the delta handed to concurrent reporters is never
		//      negative; the CAS makes "subtract prev, advance prev" one step.
		prev := atomic.LoadInt64(&c.prev)
		curr := atomic.LoadInt64(&c.curr)
		if prev == curr {
			return 0
		}
		if atomic.CompareAndSwapInt64(&c.prev, prev, curr) {
			return curr - prev
		}
	}
""", """	curr := atomic.LoadInt64(&c.curr)

	prev := atomic.LoadInt64(&c.prev)
	if prev == curr {
		return 0
	}
	atomic.StoreInt64(&c.prev, curr)
	return curr - prev
""", expect="O2 delta-rmw")
M("c01-curr-before-prev", "C01", "stats.go",
  """		prev := atomic.LoadInt64(&c.prev)
		curr := atomic.LoadInt64(&c.curr)
""", """		curr := atomic.LoadInt64(&c.curr)
		prev := atomic.LoadInt64(&c.prev)
""", expect="O2 delta-rmw")
M("c01-swap", "C01", "stats.go",
  """		prev := atomic.LoadInt64(&c.prev)
		curr := atomic.LoadInt64(&c.curr)
		if prev == curr {
			return 0
		}
		if atomic.CompareAndSwapInt64(&c.prev, prev, curr) {
			return curr - prev
		}
""", """		curr := atomic.LoadInt64(&c.curr)
		prev := atomic.SwapInt64(&c.prev, curr)
		return curr - prev
""", expect="O2 delta-rmw")
M("c01-cas-ignored", "C01", "stats.go",
  """		if atomic.CompareAndSwapInt64(&c.prev, prev, curr) {
			return curr - prev
		}
""", """		atomic.CompareAndSwapInt64(&c.prev, prev, curr)
		return curr - prev
""", expect="O2 delta-rmw")
M("c01-prev-not-advanced", "C01", "stats.go",
  """		if atomic.CompareAndSwapInt64(&c.prev, prev, curr) {
			return curr - prev
		}
""", """		return curr - prev
""", expect="O2 delta-rmw")
M("c01-zero-not-suppressed", "C01", "stats.go",
  """	delta := c.value()
	if delta == 0 {
		return
	}

	c.cachedCount.ReportCount(delta)""", """	delta := c.value()
	c.cachedCount.ReportCount(delta)""", expect="O3 delivery")
M("c01-double-delivery", "C01", "stats.go",
  """	r.ReportCounter(name, tags, delta)
""", """	r.ReportCounter(name, tags, delta)
	r.ReportCounter(name, tags, delta)
""", expect="O3 delivery")
M("c01-delta-twice", "C01", "stats.go",
  """	delta := c.value()
	if delta == 0 {
		return
	}

	r.ReportCounter(name, tags, delta)""", """	delta := c.value()
	if delta == 0 {
		return
	}
	delta = c.value()
	r.ReportCounter(name, tags, delta)""", expect="O3")
M("c01-constant-samples", "C01", "stats.go",
  """				durationLowerBound(h.buckets, i),
				h.buckets[i].durationUpperBound,
				samples,
			)""", """				durationLowerBound(h.buckets, i),
				h.buckets[i].durationUpperBound,
				1,
			)""", expect="O3")
M("c01-duration-arm-dropped", "C01", "stats.go",
  """		case valueHistogramType:
			h.samples[i].cachedBucket.ReportSamples(samples)
		case durationHistogramType:
			h.samples[i].cachedBucket.ReportSamples(samples)
		}""", """		case valueHistogramType:
			h.samples[i].cachedBucket.ReportSamples(samples)
		}""", expect="O3 delivery")
M("c01-inc-plain", "C01", "stats.go",
  """	atomic.AddInt64(&c.curr, v)""", """	c.curr += v""", expect="O1 atomic-only")
M("c01-inc-abs", "C01", "stats.go",
  """	atomic.AddInt64(&c.curr, v)""", """	if v > 0 {
		atomic.AddInt64(&c.curr, v)
	}""", expect="O4 inc")
M("c01-no-slice-append", "C01", "scope.go",
  """	s.countersSlice = append(s.countersSlice, c)
""", "", expect="O6 slice-sibling")
M("c01-pass-subslice", "C01", "scope.go",
  """	for _, counter := range s.countersSlice {""", """	for _, counter := range s.countersSlice[:len(s.countersSlice)-1] {""", expect="O7 pass-coverage")
M("c01-pass-skip-histograms", "C01", "scope.go",
  """	for name, histogram := range s.histograms {
		histogram.report(s.fullyQualifiedName(name), s.tags, r)
	}""", """	for name, histogram := range s.histograms {
		if len(name) > 64 {
			continue
		}
		histogram.report(s.fullyQualifiedName(name), s.tags, r)
	}""", expect="O7 pass-coverage")
B("c01-benign-merged-arms", "C01", "stats.go",
  """		switch h.htype {
		case valueHistogramType:
			h.samples[i].cachedBucket.ReportSamples(samples)
		case durationHistogramType:
			h.samples[i].cachedBucket.ReportSamples(samples)
		}""", """		h.samples[i].cachedBucket.ReportSamples(samples)""")
B("c01-benign-if-nonzero", "C01", "stats.go",
  """	delta := c.value()
	if delta == 0 {
		return
	}

	c.cachedCount.ReportCount(delta)""", """	if delta := c.value(); delta != 0 {
		c.cachedCount.ReportCount(delta)
	}""")
B("c01-benign-cas-negated", "C01", "stats.go",
  """		if atomic.CompareAndSwapInt64(&c.prev, prev, curr) {
			return curr - prev
		}
""", """		if !atomic.CompareAndSwapInt64(&c.prev, prev, curr) {
			continue
		}
		return curr - prev
""")
B("c01-benign-if-else-chain", "C01", "stats.go",
  """		switch h.htype {
		case valueHistogramType:
			h.samples[i].cachedBucket.ReportSamples(samples)
		case durationHistogramType:
			h.samples[i].cachedBucket.ReportSamples(samples)
		}""", """		if h.htype == valueHistogramType {
			h.samples[i].cachedBucket.ReportSamples(samples)
		} else if h.htype == durationHistogramType {
			h.samples[i].cachedBucket.ReportSamples(samples)
		}""")
