"""Semantic mutants and behaviour-preserving variants of /repo for the tallycheck self-test.

Edits are exact string replacements located by content.  `expect` is a substring of the
VIOLATION/UNDECIDED obligation line that must report the mutant (rule name or construct key).
"""

MUTANTS = []


def M(name, prop, file, old, new, expect="", kind="mutant", count=1, more=None):
    edits = [{"file": file, "old": old, "new": new, "count": count}]
    for (f, o, n) in (more or []):
        edits.append({"file": f, "old": o, "new": n, "count": 1})
    MUTANTS.append({"name": name, "prop": prop, "kind": kind, "expect": expect, "edits": edits})


def B(name, prop, file, old, new, count=1, more=None):
    M(name, prop, file, old, new, kind="benign", count=count, more=more)


# ---------------------------------------------------------------- C02 gauge
M("c02-swap-stores", "C02", "stats.go",
  """	atomic.StoreUint64(&g.curr, math.Float64bits(v))
	atomic.StoreUint64(&g.updated, 1)
""", """	atomic.StoreUint64(&g.updated, 1)
	atomic.StoreUint64(&g.curr, math.Float64bits(v))
""", expect="O2 update-order")
M("c02-load-then-store", "C02", "stats.go",
  """	if atomic.SwapUint64(&g.updated, 0) == 1 {
		r.ReportGauge(name, tags, g.value())
	}""", """	if atomic.LoadUint64(&g.updated) == 1 {
		atomic.StoreUint64(&g.updated, 0)
		r.ReportGauge(name, tags, g.value())
	}""", expect="O4 flag-writers")
M("c02-value-before-swap", "C02", "stats.go",
  """	if atomic.SwapUint64(&g.updated, 0) == 1 {
		g.cachedGauge.ReportGauge(g.value())
	}""", """	v := g.value()
	if atomic.SwapUint64(&g.updated, 0) == 1 {
		g.cachedGauge.ReportGauge(v)
	}""", expect="O2 delivery")
M("c02-no-flag-test", "C02", "stats.go",
  """	if atomic.SwapUint64(&g.updated, 0) == 1 {
		g.cachedGauge.ReportGauge(g.value())
	}""", """	atomic.SwapUint64(&g.updated, 0)
	g.cachedGauge.ReportGauge(g.value())
""", expect="O2 delivery")
M("c02-unconditional-delivery", "C02", "stats.go",
  """	if atomic.SwapUint64(&g.updated, 0) == 1 {
		r.ReportGauge(name, tags, g.value())
	}""", """	r.ReportGauge(name, tags, g.value())""", expect="O2 delivery")
M("c02-float-arith", "C02", "stats.go",
  """		r.ReportGauge(name, tags, g.value())""", """		r.ReportGauge(name, tags, g.value()+0)""", expect="O3 bit-exact")
M("c02-update-no-flag", "C02", "stats.go",
  """	atomic.StoreUint64(&g.updated, 1)
""", """""", expect="O2 update-order")
M("c02-inverted-test", "C02", "stats.go",
  """	if atomic.SwapUint64(&g.updated, 0) == 1 {
		g.cachedGauge.ReportGauge(g.value())
	}""", """	if atomic.SwapUint64(&g.updated, 0) != 1 {
		g.cachedGauge.ReportGauge(g.value())
	}""", expect="O2 delivery")
M("c02-pass-skips-gauges", "C02", "scope.go",
  """	for _, gauge := range s.gaugesSlice {
		gauge.cachedReport()
	}""", """	for _, gauge := range s.gaugesSlice[1:] {
		gauge.cachedReport()
	}""", expect="O5 pass-coverage")
M("c02-pass-breaks", "C02", "scope.go",
  """	for name, gauge := range s.gauges {
		gauge.report(s.fullyQualifiedName(name), s.tags, r)
	}""", """	for name, gauge := range s.gauges {
		gauge.report(s.fullyQualifiedName(name), s.tags, r)
		if len(name) == 0 {
			break
		}
	}""", expect="O5 pass-coverage")
B("c02-benign-cas", "C02", "stats.go",
  """	if atomic.SwapUint64(&g.updated, 0) == 1 {
		g.cachedGauge.ReportGauge(g.value())
	}""", """	if atomic.CompareAndSwapUint64(&g.updated, 1, 0) {
		g.cachedGauge.ReportGauge(g.value())
	}""")
B("c02-benign-neq0-inline", "C02", "stats.go",
  """	if atomic.SwapUint64(&g.updated, 0) == 1 {
		r.ReportGauge(name, tags, g.value())
	}""", """	old := atomic.SwapUint64(&g.updated, 0)
	if old != 0 {
		bits := atomic.LoadUint64(&g.curr)
		r.ReportGauge(name, tags, math.Float64frombits(bits))
	}""")
B("c02-benign-early-return", "C02", "stats.go",
  """	if atomic.SwapUint64(&g.updated, 0) == 1 {
		g.cachedGauge.ReportGauge(g.value())
	}""", """	if atomic.SwapUint64(&g.updated, 0) == 0 {
		return
	}
	g.cachedGauge.ReportGauge(g.value())""")

# ---------------------------------------------------------------- C01 counter
M("c01-revert-fix-load-store", "C01", "stats.go",
  """	for {
		// n.b. prev must be read before curr so that, with non-negative
		//      increments, the delta handed to concurrent reporters is never
		//      negative; the CAS makes "subtract prev, advance prev" one step.
		prev := atomic.LoadInt64(&c.prev)
		curr := atomic.LoadInt64(&c.curr)
		if prev == curr {
			return 0
		}
		if atomic.CompareAndSwapInt64(&c.prev, prev, curr) {
			return curr - prev
		}
	}
""", """	curr := atomic.LoadInt64(&c.curr)

	prev := atomic.LoadInt64(&c.prev)
	if prev == curr {
		return 0
	}
	atomic.StoreInt64(&c.prev, curr)
	return curr - prev
""", expect="O2 delta-rmw")
M("c01-curr-before-prev", "C01", "stats.go",
  """		prev := atomic.LoadInt64(&c.prev)
		curr := atomic.LoadInt64(&c.curr)
""", """		curr := atomic.LoadInt64(&c.curr)
		prev := atomic.LoadInt64(&c.prev)
""", expect="O2 delta-rmw")
M("c01-swap", "C01", "stats.go",
  """		prev := atomic.LoadInt64(&c.prev)
		curr := atomic.LoadInt64(&c.curr)
		if prev == curr {
			return 0
		}
		if atomic.CompareAndSwapInt64(&c.prev, prev, curr) {
			return curr - prev
		}
""", """		curr := atomic.LoadInt64(&c.curr)
		prev := atomic.SwapInt64(&c.prev, curr)
		return curr - prev
""", expect="O2 delta-rmw")
M("c01-cas-ignored", "C01", "stats.go",
  """		if atomic.CompareAndSwapInt64(&c.prev, prev, curr) {
			return curr - prev
		}
""", """		atomic.CompareAndSwapInt64(&c.prev, prev, curr)
		return curr - prev
""", expect="O2 delta-rmw")
M("c01-prev-not-advanced", "C01", "stats.go",
  """		if atomic.CompareAndSwapInt64(&c.prev, prev, curr) {
			return curr - prev
		}
""", """		return curr - prev
""", expect="O2 delta-rmw")
M("c01-zero-not-suppressed", "C01", "stats.go",
  """	delta := c.value()
	if delta == 0 {
		return
	}

	c.cachedCount.ReportCount(delta)""", """	delta := c.value()
	c.cachedCount.ReportCount(delta)""", expect="O3 delivery")
M("c01-double-delivery", "C01", "stats.go",
  """	r.ReportCounter(name, tags, delta)
""", """	r.ReportCounter(name, tags, delta)
	r.ReportCounter(name, tags, delta)
""", expect="O3 delivery")
M("c01-delta-twice", "C01", "stats.go",
  """	delta := c.value()
	if delta == 0 {
		return
	}

	r.ReportCounter(name, tags, delta)""", """	delta := c.value()
	if delta == 0 {
		return
	}
	delta = c.value()
	r.ReportCounter(name, tags, delta)""", expect="O3")
M("c01-constant-samples", "C01", "stats.go",
  """				durationLowerBound(h.buckets, i),
				h.buckets[i].durationUpperBound,
				samples,
			)""", """				durationLowerBound(h.buckets, i),
				h.buckets[i].durationUpperBound,
				1,
			)""", expect="O3")
M("c01-duration-arm-dropped", "C01", "stats.go",
  """		case valueHistogramType:
			h.samples[i].cachedBucket.ReportSamples(samples)
		case durationHistogramType:
			h.samples[i].cachedBucket.ReportSamples(samples)
		}""", """		case valueHistogramType:
			h.samples[i].cachedBucket.ReportSamples(samples)
		}""", expect="O3 delivery")
M("c01-inc-plain", "C01", "stats.go",
  """	atomic.AddInt64(&c.curr, v)""", """	c.curr += v""", expect="O1 atomic-only")
M("c01-inc-abs", "C01", "stats.go",
  """	atomic.AddInt64(&c.curr, v)""", """	if v > 0 {
		atomic.AddInt64(&c.curr, v)
	}""", expect="O4 inc")
M("c01-no-slice-append", "C01", "scope.go",
  """	s.countersSlice = append(s.countersSlice, c)
""", "", expect="O6 slice-sibling")
M("c01-pass-subslice", "C01", "scope.go",
  """	for _, counter := range s.countersSlice {""", """	for _, counter := range s.countersSlice[:len(s.countersSlice)-1] {""", expect="O7 pass-coverage")
M("c01-pass-skip-histograms", "C01", "scope.go",
  """	for name, histogram := range s.histograms {
		histogram.report(s.fullyQualifiedName(name), s.tags, r)
	}""", """	for name, histogram := range s.histograms {
		if len(name) > 64 {
			continue
		}
		histogram.report(s.fullyQualifiedName(name), s.tags, r)
	}""", expect="O7 pass-coverage")
B("c01-benign-merged-arms", "C01", "stats.go",
  """		switch h.htype {
		case valueHistogramType:
			h.samples[i].cachedBucket.ReportSamples(samples)
		case durationHistogramType:
			h.samples[i].cachedBucket.ReportSamples(samples)
		}""", """		h.samples[i].cachedBucket.ReportSamples(samples)""")
B("c01-benign-if-nonzero", "C01", "stats.go",
  """	delta := c.value()
	if delta == 0 {
		return
	}

	c.cachedCount.ReportCount(delta)""", """	if delta := c.value(); delta != 0 {
		c.cachedCount.ReportCount(delta)
	}""")
B("c01-benign-cas-negated", "C01", "stats.go",
  """		if atomic.CompareAndSwapInt64(&c.prev, prev, curr) {
			return curr - prev
		}
""", """		if !atomic.CompareAndSwapInt64(&c.prev, prev, curr) {
			continue
		}
		return curr - prev
""")
B("c01-benign-if-else-chain", "C01", "stats.go",
  """		switch h.htype {
		case valueHistogramType:
			h.samples[i].cachedBucket.ReportSamples(samples)
		case durationHistogramType:
			h.samples[i].cachedBucket.ReportSamples(samples)
		}""", """		if h.htype == valueHistogramType {
			h.samples[i].cachedBucket.ReportSamples(samples)
		} else if h.htype == durationHistogramType {
			h.samples[i].cachedBucket.ReportSamples(samples)
		}""")

# ---------------------------------------------------------------- C03 histogram buckets
M("c03-gt-for-geq", "C03", "stats.go",
  "return h.buckets[i].valueUpperBound >= value", "return h.buckets[i].valueUpperBound > value", expect="O1 search-predicate")
M("c03-wrong-kind-field", "C03", "stats.go",
  "return h.buckets[i].durationUpperBound >= value", "return time.Duration(h.buckets[i].valueUpperBound) >= value", expect="O1 search-predicate")
M("c03-guard-dropped", "C03", "stats.go",
  """	if h.htype != durationHistogramType {
		return
	}
""", "", expect="O3 type-guard")
M("c03-guard-swapped", "C03", "stats.go",
  """	if h.htype != valueHistogramType {
		return
	}

	// Find""", """	if h.htype != durationHistogramType {
		return
	}

	// Find""", expect="O3 type-guard")
M("c03-revert-clamp", "C03", "stats.go",
  """	if idx >= len(h.samples) {
		// n.b. +Inf and NaN compare false against every bound, including the
		//      terminal math.MaxFloat64 bucket: count them in the last bucket.
		idx = len(h.samples) - 1
	}
""", "", expect="O4 index-guard")
M("c03-idx-plus-one", "C03", "stats.go",
  """		return h.buckets[i].durationUpperBound >= value
	})
	h.samples[idx].counter.Inc(1)""", """		return h.buckets[i].durationUpperBound >= value
	})
	h.samples[idx+1].counter.Inc(1)""", expect="O4 index-guard")
M("c03-inc-two", "C03", "stats.go",
  """		return h.buckets[i].durationUpperBound >= value
	})
	h.samples[idx].counter.Inc(1)""", """		return h.buckets[i].durationUpperBound >= value
	})
	h.samples[idx].counter.Inc(2)""", expect="O2 one-increment")
M("c03-lower-at-i", "C03", "stats.go",
  "	return buckets[i-1].valueUpperBound", "	return buckets[i].valueUpperBound", expect="O5 lower-bound")
M("c03-open-end-zero", "C03", "stats.go",
  "		return -math.MaxFloat64\n	}\n	return buckets[i-1].valueUpperBound", "		return 0\n	}\n	return buckets[i-1].valueUpperBound", expect="O5 lower-bound")
M("c03-no-sort", "C03", "histogram.go",
  "		values = copyAndSortValues(buckets.AsValues())", "		values = buckets.AsValues()", expect="O5 sorted-copy")
M("c03-sort-dropped-in-copy", "C03", "histogram.go",
  "	sort.Sort(DurationBuckets(durationsCopy))\n", "	_ = sort.Sort\n", expect="O5 sorted-copy")
M("c03-less-reversed", "C03", "histogram.go",
  """func (v ValueBuckets) Less(i, j int) bool {
	return v[i] < v[j]""", """func (v ValueBuckets) Less(i, j int) bool {
	return v[i] > v[j]""", expect="O5 sorted-copy")
M("c03-single-bucket-upper", "C03", "histogram.go",
  "		upperBoundDuration: time.Duration(math.MaxInt64),", "		upperBoundDuration: time.Duration(math.MaxInt32),", expect="O5 open-ends")
M("c03-report-lower-dur-for-value", "C03", "stats.go",
  """				valueLowerBound(h.buckets, i),
				h.buckets[i].valueUpperBound,
				samples,""", """				valueLowerBound(h.buckets, i+1),
				h.buckets[i].valueUpperBound,
				samples,""", expect="O5 bound-pairs")
M("c03-storage-swapped", "C03", "stats.go",
  "			valueUpperBound:    pair.UpperBoundValue(),", "			valueUpperBound:    pair.LowerBoundValue(),", expect="O5 storage-fields")
M("c03-samples-len", "C03", "stats.go",
  "		samples:       make([]sampleCounter, len(storage.hbuckets)),", "		samples:       make([]sampleCounter, storage.buckets.Len()+1),", expect="O4 samples-len")
B("c03-benign-flipped-cmp", "C03", "stats.go",
  "return h.buckets[i].valueUpperBound >= value", "return value <= h.buckets[i].valueUpperBound")
B("c03-benign-guard-eq", "C03", "stats.go",
  """	if h.htype != durationHistogramType {
		return
	}

	// Find the highest inclusive of the bucket upper bound
	// and emit directly to it. Since we use BucketPairs to derive
	// buckets there will always be an inclusive bucket as
	// we always have a math.MaxInt64 bucket.
	idx := sort.Search(len(h.buckets), func(i int) bool {
		return h.buckets[i].durationUpperBound >= value
	})
	h.samples[idx].counter.Inc(1)
""", """	if h.htype == durationHistogramType {
		idx := sort.Search(len(h.buckets), func(i int) bool {
			return h.buckets[i].durationUpperBound >= value
		})
		h.samples[idx].counter.Inc(1)
	}
""")
B("c03-benign-guard-lt-return", "C03", "stats.go",
  """	if idx >= len(h.samples) {
		// n.b. +Inf and NaN compare false against every bound, including the
		//      terminal math.MaxFloat64 bucket: count them in the last bucket.
		idx = len(h.samples) - 1
	}
""", """	if idx == len(h.buckets) {
		idx = len(h.buckets) - 1
	}
""")

# ---------------------------------------------------------------- C20 bucket constructors / identity
M("c20-n-lt-0", "C20", "histogram.go",
  """func LinearValueBuckets(start, width float64, n int) (ValueBuckets, error) {
	if n <= 0 {""", """func LinearValueBuckets(start, width float64, n int) (ValueBuckets, error) {
	if n < 0 {""", expect="O1 guards")
M("c20-factor-lt-1", "C20", "histogram.go",
  """	if factor <= 1 {
		return nil, errBucketsFactorNeedsGreaterThanOne
	}
	buckets := make([]time.Duration, n)""", """	if factor < 1 {
		return nil, errBucketsFactorNeedsGreaterThanOne
	}
	buckets := make([]time.Duration, n)""", expect="O1 guards")
M("c20-start-guard-dropped", "C20", "histogram.go",
  """	if start <= 0 {
		return nil, errBucketsStartNeedsGreaterThanZero
	}
	if factor <= 1 {
		return nil, errBucketsFactorNeedsGreaterThanOne
	}
	buckets := make([]float64, n)""", """	if factor <= 1 {
		return nil, errBucketsFactorNeedsGreaterThanOne
	}
	buckets := make([]float64, n)""", expect="O1 guards")
M("c20-make-n-plus-1", "C20", "histogram.go",
  """	buckets := make([]time.Duration, n)
	for i := range buckets {
		buckets[i] = start + (time.Duration(i) * width)""", """	buckets := make([]time.Duration, n+1)
	for i := range buckets {
		buckets[i] = start + (time.Duration(i) * width)""", expect="O1 guards")
M("c20-must-swallow", "C20", "histogram.go",
  """	buckets, err := LinearDurationBuckets(start, width, n)
	if err != nil {
		panic(err)
	}
	return buckets""", """	buckets, _ := LinearDurationBuckets(start, width, n)
	return buckets""", expect="O2 must-shape")
M("c20-must-wrong-sibling", "C20", "histogram.go",
  """func MustMakeExponentialDurationBuckets(start time.Duration, factor float64, n int) DurationBuckets {
	buckets, err := ExponentialDurationBuckets(start, factor, n)""", """func MustMakeExponentialDurationBuckets(start time.Duration, factor float64, n int) DurationBuckets {
	buckets, err := LinearDurationBuckets(start, time.Duration(factor), n)""", expect="O2 must-shape")
M("c20-sort-in-place", "C20", "histogram.go",
  """	valuesCopy := make([]float64, len(values))
	copy(valuesCopy, values)
	sort.Sort(ValueBuckets(valuesCopy))
	return valuesCopy""", """	sort.Sort(ValueBuckets(values))
	return values""", expect="O3 caller-slice")
M("c20-sort-float64s-param", "C20", "histogram.go",
  """	valuesCopy := make([]float64, len(values))
	copy(valuesCopy, values)
	sort.Sort(ValueBuckets(valuesCopy))
	return valuesCopy""", """	sort.Float64s(values)
	return values""", expect="O3 caller-slice")
M("c20-no-recheck", "C20", "stats.go",
  """		c.mtx.RUnlock()
		if !bucketsEqual(buckets, storage.buckets) {
			storage = newBucketStorage(htype, buckets)
		}""", """		c.mtx.RUnlock()""", expect="O4 cache-hit-equality")
M("c20-recheck-self", "C20", "stats.go",
  "		if !bucketsEqual(buckets, storage.buckets) {", "		if !bucketsEqual(buckets, buckets) {", expect="O4 cache-hit-equality")
M("c20-recheck-inverted", "C20", "stats.go",
  "		if !bucketsEqual(buckets, storage.buckets) {", "		if bucketsEqual(buckets, storage.buckets) {", expect="O4 cache-hit-equality")
M("c20-equal-no-len", "C20", "histogram.go",
  """		if len(b1) != len(b2) {
			return false
		}
		for i := 0; i < len(b1); i++ {
			if b1[i] != b2[i] {
				return false
			}
		}
	case ValueBuckets:""", """		for i := 0; i < len(b1) && i < len(b2); i++ {
			if b1[i] != b2[i] {
				return false
			}
		}
	case ValueBuckets:""", expect="O4 buckets-equal")
M("c20-equal-first-only", "C20", "histogram.go",
  """		for i := 0; i < len(b1); i++ {
			if b1[i] != b2[i] {
				return false
			}
		}
	}

	return true""", """		if len(b1) > 0 && b1[0] != b2[0] {
			return false
		}
	}

	return true""", expect="O4 buckets-equal")
M("c20-linear-off-by-one", "C20", "histogram.go",
  "		buckets[i] = start + (float64(i) * width)", "		buckets[i] = start + (float64(i+1) * width)", expect="O5 recurrence")
M("c20-linear-duration-no-start", "C20", "histogram.go",
  "		buckets[i] = start + (time.Duration(i) * width)", "		buckets[i] = time.Duration(i) * width", expect="O5 recurrence")
M("c20-exp-update-before-store", "C20", "histogram.go",
  """		buckets[i] = curr
		curr *= factor
""", """		curr *= factor
		buckets[i] = curr
""", expect="O5 recurrence")
M("c20-exp-additive", "C20", "histogram.go",
  """		buckets[i] = curr
		curr *= factor
""", """		buckets[i] = curr
		curr += factor
""", expect="O5 recurrence")
M("c20-exp-duration-square", "C20", "histogram.go",
  "		curr = time.Duration(float64(curr) * factor)", "		curr = time.Duration(float64(curr) * factor * factor)", expect="O5 recurrence")
M("c20-linear-skips-last", "C20", "histogram.go",
  """	for i := range buckets {
		buckets[i] = start + (float64(i) * width)
	}""", """	for i := range buckets[:n-1] {
		buckets[i] = start + (float64(i) * width)
	}""", expect="O5 recurrence")
M("c20-exp-conditional-store", "C20", "histogram.go",
  """		buckets[i] = curr
		curr *= factor
""", """		if curr < math.MaxFloat64/factor {
			buckets[i] = curr
		}
		curr *= factor
""", expect="O5 recurrence")
B("c20-benign-linear-accumulate", "C20", "histogram.go",
  """	for i := range buckets {
		buckets[i] = start + (float64(i) * width)
	}""", """	curr := start
	for i := range buckets {
		buckets[i] = curr
		curr += width
	}""")
B("c20-benign-classic-loop", "C20", "histogram.go",
  """	for i := range buckets {
		buckets[i] = start + (time.Duration(i) * width)
	}""", """	for i := 0; i < n; i++ {
		buckets[i] = width*time.Duration(i) + start
	}""")
# (was listed as benign until round 7: start*Pow(factor,i) differs from the recurrence by ulps)
M("c20-exp-pow-closed-form", "C20", "histogram.go",
  """	curr := start
	for i := range buckets {
		buckets[i] = curr
		curr *= factor
	}""", """	for i := 0; i < len(buckets); i++ {
		buckets[i] = start * math.Pow(factor, float64(i))
	}""", expect="O5 recurrence")
B("c20-benign-guard-lt-1", "C20", "histogram.go",
  """func LinearValueBuckets(start, width float64, n int) (ValueBuckets, error) {
	if n <= 0 {""", """func LinearValueBuckets(start, width float64, n int) (ValueBuckets, error) {
	if n < 1 {""")
B("c20-benign-recheck-positive", "C20", "stats.go",
  """		if !bucketsEqual(buckets, storage.buckets) {
			storage = newBucketStorage(htype, buckets)
		}""", """		if bucketsEqual(storage.buckets, buckets) {
			return storage
		}
		return newBucketStorage(htype, buckets)""")

# ---------------------------------------------------------------- C19 multi reporter
M("c19-skip-last-child", "C19", "multi/reporter.go",
  """	for _, r := range r.reporters {
		r.ReportGauge(name, tags, value)
	}""", """	for _, r := range r.reporters[:len(r.reporters)-1] {
		r.ReportGauge(name, tags, value)
	}""", expect="O1 forwarder")
M("c19-first-child-twice", "C19", "multi/reporter.go",
  """	for _, r := range r.reporters {
		r.ReportCounter(name, tags, value)
	}""", """	if len(r.reporters) > 0 {
		r.reporters[0].ReportCounter(name, tags, value)
	}
	for _, r := range r.reporters {
		r.ReportCounter(name, tags, value)
	}""", expect="O1 forwarder")
M("c19-swapped-bounds", "C19", "multi/reporter.go",
  """		r.ReportHistogramValueSamples(name, tags, buckets,
			bucketLowerBound, bucketUpperBound, samples)""", """		r.ReportHistogramValueSamples(name, tags, buckets,
			bucketUpperBound, bucketLowerBound, samples)""", expect="O1 forwarder")
M("c19-break-after-first", "C19", "multi/reporter.go",
  """	for _, r := range r {
		r.Flush()
	}""", """	for _, r := range r {
		r.Flush()
		break
	}""", expect="O1 forwarder")
M("c19-reverse-order", "C19", "multi/reporter.go",
  """	for _, m := range m.timers {
		m.ReportTimer(interval)
	}""", """	for i := len(m.timers) - 1; i >= 0; i-- {
		m.timers[i].ReportTimer(interval)
	}""", expect="O1 forwarder")
M("c19-value-modified", "C19", "multi/reporter.go",
  """	for _, m := range m.counters {
		m.ReportCount(value)
	}""", """	for _, m := range m.counters {
		m.ReportCount(value)
		value = 0
	}""", expect="O1 forwarder")
M("c19-wrong-field", "C19", "multi/reporter.go",
  "	return multiMetric{timers: metrics}", "	return multiMetric{timers: metrics[:0]}", expect="O2 field-agreement")
M("c19-caps-or", "C19", "multi/reporter.go",
  "		c.tagging = c.tagging && r.Capabilities().Tagging()", "		c.tagging = c.tagging || r.Capabilities().Tagging()", expect="O1 forwarder")
M("c19-caps-init-false", "C19", "multi/reporter.go",
  "	c := &capabilities{reporting: true, tagging: true}", "	c := &capabilities{reporting: true, tagging: false}", expect="caps-init")
M("c19-flush-not-delegated", "C19", "multi/reporter.go",
  """func (r *multiCached) Flush() {
	r.multiBaseReporters.Flush()
}""", """func (r *multiCached) Flush() {
}""", expect="O1 delegation")
M("c19-ctor-drops-first", "C19", "multi/reporter.go",
  """	return &multi{
		multiBaseReporters: baseReporters,
		reporters:          r,
	}""", """	return &multi{
		multiBaseReporters: baseReporters,
		reporters:          r[1:],
	}""", expect="O1 constructor")
M("c19-conditional-forward", "C19", "multi/reporter.go",
  """	for _, m := range m.multi {
		m.ReportSamples(value)
	}""", """	for _, m := range m.multi {
		if value > 0 {
			m.ReportSamples(value)
		}
	}""", expect="O1 forwarder")
B("c19-benign-index-loop", "C19", "multi/reporter.go",
  """	for _, r := range r.reporters {
		r.ReportGauge(name, tags, value)
	}""", """	for i := range r.reporters {
		r.reporters[i].ReportGauge(name, tags, value)
	}""")
B("c19-benign-classic-loop", "C19", "multi/reporter.go",
  """	for _, m := range m.timers {
		m.ReportTimer(interval)
	}""", """	for i := 0; i < len(m.timers); i++ {
		m.timers[i].ReportTimer(interval)
	}""")

# ---------------------------------------------------------------- C18 statsd
M("c18-lower-infinity", "C18", "statsd/reporter.go",
  """	if upperBound == -math.MaxFloat64 {
		return "-infinity"
	}""", """	if upperBound == -math.MaxFloat64 {
		return "infinity"
	}""", expect="O2 infinity-table")
M("c18-duration-min-missing", "C18", "statsd/reporter.go",
  """	if upperBound == time.Duration(math.MinInt64) {
		return "-infinity"
	}
""", "", expect="O2 infinity-table")
M("c18-swapped-bounds", "C18", "statsd/reporter.go",
  """			r.valueBucketString(bucketLowerBound),
			r.valueBucketString(bucketUpperBound)),""", """			r.valueBucketString(bucketUpperBound),
			r.valueBucketString(bucketLowerBound)),""", expect="O1 one-call")
M("c18-wrong-renderer", "C18", "statsd/reporter.go",
  """			r.durationBucketString(bucketLowerBound),
			r.durationBucketString(bucketUpperBound)),""", """			r.valueBucketString(float64(bucketLowerBound)),
			r.durationBucketString(bucketUpperBound)),""", expect="O1 one-call")
M("c18-gauge-as-inc", "C18", "statsd/reporter.go",
  "	r.statter.Gauge(name, int64(value), r.sampleRate)", "	r.statter.Inc(name, int64(value), r.sampleRate)", expect="O1 one-call")
M("c18-timer-twice", "C18", "statsd/reporter.go",
  "	r.statter.TimingDuration(name, interval, r.sampleRate)", "	r.statter.TimingDuration(name, interval, r.sampleRate)\n	r.statter.TimingDuration(name, interval, r.sampleRate)", expect="O1 one-call")
M("c18-counter-skip-zero", "C18", "statsd/reporter.go",
  "	r.statter.Inc(name, value, r.sampleRate)\n}", "	if value > 1 {\n		r.statter.Inc(name, value, r.sampleRate)\n	}\n}", expect="O1 one-call")
M("c18-rate-constant", "C18", "statsd/reporter.go",
  "	r.statter.Inc(name, value, r.sampleRate)\n}", "	r.statter.Inc(name, value, 1.0)\n}", expect="O1 one-call")
M("c18-format-changed", "C18", "statsd/reporter.go",
  """		fmt.Sprintf("%s.%s-%s", name,
			r.valueBucketString""", """		fmt.Sprintf("%s.%s_%s", name,
			r.valueBucketString""", expect="O1 one-call")
M("c18-tagging-true", "C18", "statsd/reporter.go",
  "func (r *cactusStatsReporter) Tagging() bool {\n	return false", "func (r *cactusStatsReporter) Tagging() bool {\n	return true", expect="O3 capabilities")
M("c18-rate-default-half", "C18", "statsd/reporter.go",
  "		opts.SampleRate = 1.0", "		opts.SampleRate = 0.5", expect="O3 defaults")
M("c18-fmt-e", "C18", "statsd/reporter.go",
  """strconv.Itoa(int(opts.HistogramBucketNamePrecision)) + "f",""", """strconv.Itoa(int(opts.HistogramBucketNamePrecision)) + "e",""", expect="O3 defaults")

# ---------------------------------------------------------------- C10 timers / stopwatch / instrument
M("c10-both-deliveries", "C10", "stats.go",
  """	if t.cachedTimer != nil {
		t.cachedTimer.ReportTimer(interval)
	} else {
		t.reporter.ReportTimer(t.name, t.tags, interval)
	}""", """	if t.cachedTimer != nil {
		t.cachedTimer.ReportTimer(interval)
	}
	t.reporter.ReportTimer(t.name, t.tags, interval)""", expect="O1 record")
M("c10-plain-takes-precedence", "C10", "stats.go",
  """	if t.cachedTimer != nil {
		t.cachedTimer.ReportTimer(interval)
	} else {
		t.reporter.ReportTimer(t.name, t.tags, interval)
	}""", """	if t.reporter != nil {
		t.reporter.ReportTimer(t.name, t.tags, interval)
	} else {
		t.cachedTimer.ReportTimer(interval)
	}""", expect="O1 record")
M("c10-async-record", "C10", "stats.go",
  """		t.reporter.ReportTimer(t.name, t.tags, interval)
	}
}""", """		go t.reporter.ReportTimer(t.name, t.tags, interval)
	}
}""", expect="O1 record")
M("c10-buffer-and-report-in-pass", "C10", "scope.go",
  """	// we do nothing for timers here because timers report directly to ths StatsReporter without buffering

	s.hm.RLock()
	for name, histogram := range s.histograms {""", """	s.tm.RLock()
	for _, t := range s.timers {
		for _, v := range t.snapshot() {
			r.ReportTimer(t.name, t.tags, v)
		}
	}
	s.tm.RUnlock()

	s.hm.RLock()
	for name, histogram := range s.histograms {""", expect="O2")
M("c10-abs-duration", "C10", "stats.go",
  """func (t *timer) RecordStopwatch(stopwatchStart time.Time) {
	d := globalNow().Sub(stopwatchStart)""", """func (t *timer) RecordStopwatch(stopwatchStart time.Time) {
	d := stopwatchStart.Sub(globalNow())""", expect="O3 stopwatch")
M("c10-stop-twice", "C10", "types.go",
  "	sw.recorder.RecordStopwatch(sw.start)\n", "	sw.recorder.RecordStopwatch(sw.start)\n	sw.recorder.RecordStopwatch(sw.start)\n", expect="O3 stopwatch")
M("c10-start-zero-time", "C10", "stats.go",
  """func (h *histogram) Start() Stopwatch {
	return NewStopwatch(globalNow(), h)""", """func (h *histogram) Start() Stopwatch {
	return NewStopwatch(time.Time{}, h)""", expect="O3 stopwatch")
M("c10-exec-twice-on-error", "C10", "instrument/call.go",
  """	err := f()
	sw.Stop()
""", """	err := f()
	if err != nil {
		err = f()
	}
	sw.Stop()
""", expect="O4 exec")
M("c10-exec-success-before-test", "C10", "instrument/call.go",
  """	if err != nil {
		c.err.Inc(1)
		return err
	}

	c.success.Inc(1)
	return nil""", """	c.success.Inc(1)
	if err != nil {
		c.err.Inc(1)
		return err
	}
	return nil""", expect="O4 exec")
M("c10-exec-swallow-error", "C10", "instrument/call.go",
  """		c.err.Inc(1)
		return err""", """		c.err.Inc(1)
		return nil""", expect="O4 exec")
M("c10-exec-stop-only-on-success", "C10", "instrument/call.go",
  """	err := f()
	sw.Stop()

	if err != nil {
		c.err.Inc(1)
		return err
	}
""", """	err := f()

	if err != nil {
		c.err.Inc(1)
		return err
	}
	sw.Stop()
""", expect="O4 exec")
M("c10-newcall-swapped-tags", "C10", "instrument/call.go",
  "		err:     scope.Tagged(map[string]string{resultType: resultTypeError}).Counter(name),", "		err:     scope.Tagged(map[string]string{resultType: resultTypeSuccess}).Counter(name),", expect="O4 newcall")
B("c10-benign-exec-err-first", "C10", "instrument/call.go",
  """	if err != nil {
		c.err.Inc(1)
		return err
	}

	c.success.Inc(1)
	return nil""", """	if err == nil {
		c.success.Inc(1)
	} else {
		c.err.Inc(1)
	}
	return err""")
B("c10-benign-record-early-return", "C10", "stats.go",
  """	if t.cachedTimer != nil {
		t.cachedTimer.ReportTimer(interval)
	} else {
		t.reporter.ReportTimer(t.name, t.tags, interval)
	}""", """	if t.cachedTimer == nil {
		t.reporter.ReportTimer(t.name, t.tags, interval)
		return
	}
	t.cachedTimer.ReportTimer(interval)""")

# ---------------------------------------------------------------- C14 M3 hand-shake
M("c14-inc-after-done-check", "C14", "m3/reporter.go",
  """	r.pending.Inc()
	defer r.pending.Dec()

	if r.done.Load() {
		return
	}

	m.Timestamp = r.now.Load()""", """	if r.done.Load() {
		return
	}
	r.pending.Inc()
	defer r.pending.Dec()

	m.Timestamp = r.now.Load()""", expect="O1 enter-protocol")
M("c14-no-dec-on-early-return", "C14", "m3/reporter.go",
  """	r.pending.Inc()
	defer r.pending.Dec()

	if r.done.Load() {
		return
	}

	r.reportInternalMetrics()
	r.metCh <- sizedMetric{}""", """	r.pending.Inc()

	if r.done.Load() {
		return
	}

	r.reportInternalMetrics()
	r.metCh <- sizedMetric{}
	r.pending.Dec()""", expect="O1 enter-protocol")
M("c14-flush-no-done-check", "C14", "m3/reporter.go",
  """	if r.done.Load() {
		return
	}

	r.reportInternalMetrics()""", """	r.reportInternalMetrics()""", expect="O1 enter-protocol")
M("c14-close-before-drain", "C14", "m3/reporter.go",
  """	// Wait for any pending reports to complete.
	for r.pending.Load() > 0 {
		runtime.Gosched()
	}

	close(r.donech)
	close(r.metCh)""", """	close(r.donech)
	close(r.metCh)
	// Wait for any pending reports to complete.
	for r.pending.Load() > 0 {
		runtime.Gosched()
	}
""", expect="O2 close-protocol")
M("c14-done-plain-store", "C14", "m3/reporter.go",
  """	if !r.done.CAS(false, true) {
		return errAlreadyClosed
	}
""", """	if r.done.Load() {
		return errAlreadyClosed
	}
	r.done.Store(true)
""", expect="O2 close-protocol")
M("c14-second-close-nil", "C14", "m3/reporter.go",
  """	if !r.done.CAS(false, true) {
		return errAlreadyClosed
	}
""", """	if !r.done.CAS(false, true) {
		return nil
	}
""", expect="O2 close-protocol")
M("c14-no-wg-wait", "C14", "m3/reporter.go",
  """	close(r.metCh)
	r.wg.Wait()
""", """	close(r.metCh)
""", expect="O2 close-protocol")
M("c14-no-wg-add", "C14", "m3/reporter.go",
  """	r.wg.Add(1)
	go func() {
		defer r.wg.Done()
		r.timeLoop()
	}()""", """	go func() {
		r.timeLoop()
	}()""", expect="O3 goroutines")
M("c14-timeloop-ignores-donech", "C14", "m3/reporter.go",
  """		select {
		case <-t.C:
		case <-r.donech:
			return
		}""", """		<-t.C""", expect="O3 goroutines")
M("c14-revert-closure-copy", "C14", "m3/reporter.go",
  """		m := m // n.b. copy: one handle may be used from several goroutines.
""", "", count=2, expect="O4 reentrant-handles")
M("c14-search-unguarded", "C14", "m3/reporter.go",
  """	if idx == n {
		return noopMetric{}
	}

	var (
		b        = h.cachedValueBuckets[idx]""", """	var (
		b        = h.cachedValueBuckets[idx]""", expect="O5 index-guard")
B("c14-benign-enter-helper-order", "C14", "m3/reporter.go",
  """	if r.done.Load() {
		return
	}

	r.reportInternalMetrics()""", """	if closed := r.done.Load(); closed {
		return
	}

	r.reportInternalMetrics()""")
B("c14-benign-drain-eq", "C14", "m3/reporter.go",
  """	for r.pending.Load() > 0 {
		runtime.Gosched()
	}
""", """	for r.pending.Load() != 0 {
		runtime.Gosched()
	}
""")

# ---------------------------------------------------------------- C13 M3 delivery
M("c13-nonblocking-enqueue", "C13", "m3/reporter.go",
  """	select {
	case r.metCh <- sm:
	case <-r.donech:
	}
}""", """	select {
	case r.metCh <- sm:
	default:
	}
}""", expect="O1 enqueue-once")
M("c13-timestamp-after-copy", "C13", "m3/reporter.go",
  """	m.Timestamp = r.now.Load()

	sm := sizedMetric{""", """	sm := sizedMetric{""", expect="O1 enqueue-once")
M("c13-enqueue-twice", "C13", "m3/reporter.go",
  """	select {
	case r.metCh <- sm:
	case <-r.donech:
	}
}""", """	select {
	case r.metCh <- sm:
	case <-r.donech:
	}
	if size > 1<<20 {
		r.metCh <- sm
	}
}""", expect="O1 enqueue-once")
M("c13-gauge-into-count", "C13", "m3/reporter.go",
  "	c.metric.Value.Gauge = value", "	c.metric.Value.Count = int64(value)", expect="O1 handle-methods")
M("c13-timer-not-written", "C13", "m3/reporter.go",
  "	c.metric.Value.Timer = int64(interval)\n", "", expect="O1 handle-methods")
M("c13-continue-after-flush", "C13", "m3/reporter.go",
  """				borrowedTags = borrowedTags[:0]
			}
		}
""", """				borrowedTags = borrowedTags[:0]
			}
			continue
		}
""", expect="batching")
M("c13-no-final-flush", "C13", "m3/reporter.go",
  """	// Final flush
	r.flush(mets)
""", "", expect="batching")
M("c13-flush-returns-batch", "C13", "m3/reporter.go",
  """		mets[i].Tags = nil
	}
	return mets[:0]""", """		mets[i].Tags = nil
	}
	return mets""", expect="batching")
M("c13-flush-drops-first", "C13", "m3/reporter.go",
  """		Metrics:    mets,
		CommonTags: r.commonTags,""", """		Metrics:    mets[1:],
		CommonTags: r.commonTags,""", expect="batching")
M("c13-no-common-tags", "C13", "m3/reporter.go",
  """		Metrics:    mets,
		CommonTags: r.commonTags,""", """		Metrics:    mets,""", expect="batching")
M("c13-revert-tagcache-fix", "C13", "m3/reporter.go",
  """	if ok && tagsEqual(cached, tags) {
		return cached
	}
""", """	if ok {
		return cached
	}
""", expect="O4 cache-hit-equality")
M("c13-tagsequal-no-value", "C13", "m3/reporter.go",
  "		if v, ok := tags[tag.Name]; !ok || v != tag.Value {", "		if _, ok := tags[tag.Name]; !ok {", expect="O4 cache-hit-equality")
M("c13-revert-now-init", "C13", "m3/reporter.go",
  "	r.now.Store(time.Now().UnixNano())\n\n	internalTags", "	internalTags", expect="O5 clock-init")
M("c13-close-no-wait", "C13", "m3/reporter.go",
  "	close(r.metCh)\n	r.wg.Wait()\n", "	close(r.metCh)\n	go r.wg.Wait()\n", expect="O3 close-drains")

# ---------------------------------------------------------------- C12 M3 packet size
M("c12-no-charge", "C12", "m3/reporter.go",
  "		mets = append(mets, m)\n		bytes += smet.size\n", "		mets = append(mets, m)\n", expect="batching")
M("c12-lt-for-gt", "C12", "m3/reporter.go",
  "		if flush || bytes+smet.size > r.freeBytes {", "		if flush || bytes+smet.size < r.freeBytes {", expect="batching")
M("c12-no-overflow-test", "C12", "m3/reporter.go",
  "		if flush || bytes+smet.size > r.freeBytes {", "		if flush {", expect="batching")
M("c12-reset-without-flush", "C12", "m3/reporter.go",
  """		if !smet.set {
			continue
		}
""", """		if !smet.set {
			bytes = 0
			continue
		}
""", expect="batching")
M("c12-charge-half", "C12", "m3/reporter.go",
  "		bytes += smet.size\n", "		bytes += smet.size / 2\n", expect="batching")
M("c12-size-zero", "C12", "m3/reporter.go",
  """	return cachedMetric{
		metric:   gauge,
		reporter: r,
		size:     size,
	}""", """	return cachedMetric{
		metric:   gauge,
		reporter: r,
		size:     size / 2,
	}""", expect="O2 size-provenance")
M("c12-timestamp-placeholder-zero", "C12", "m3/reporter.go",
  "		Timestamp: _maxInt64,", "		Timestamp: 0,", expect="O3 max-placeholder")
M("c12-gauge-template-as-counter", "C12", "m3/reporter.go",
  "		gauge = r.newMetric(name, tags, gaugeType)", "		gauge = r.newMetric(name, tags, counterType)", expect="O3 max-placeholder")
M("c12-count-placeholder-one", "C12", "m3/reporter.go",
  "		m.Value.Count = _maxInt64", "		m.Value.Count = 1", expect="O3 max-placeholder")
M("c12-revert-envelope", "C12", "m3/reporter.go",
  """	calcClient := m3thrift.NewM3ClientProtocol(proto.Transport(), proto, proto)
	calcClient.SeqId = math.MaxInt32 - 1
	if err := calcClient.EmitMetricBatchV2(batch); err != nil {""", """	if err := batch.Write(proto); err != nil {""", expect="O4a envelope")
M("c12-seqid-zero", "C12", "m3/reporter.go",
  "	calcClient.SeqId = math.MaxInt32 - 1\n", "", expect="O4a envelope")
M("c12-overhead-constant-zero", "C12", "m3/reporter.go",
  "	_emitMetricBatchOverhead    = 5", "	_emitMetricBatchOverhead    = 0", expect="O4a envelope")
M("c12-bucket-sized-without-tags", "C12", "m3/reporter.go",
  """		sized.Tags = append(
			append(make([]m3thrift.MetricTag, 0, len(mtags)+2), mtags...),
			m3thrift.MetricTag{Name: r.bucketIDTagName, Value: hbucket.bucketID},
			m3thrift.MetricTag{Name: r.bucketTagName, Value: hbucket.bucket},
		)""", """		sized.Tags = append(
			append(make([]m3thrift.MetricTag, 0, len(mtags)+2), mtags...),
			m3thrift.MetricTag{Name: r.bucketIDTagName, Value: hbucket.bucketID},
		)""", expect="O4b bucket-tags")
M("c12-overhead-not-subtracted", "C12", "m3/reporter.go",
  "		freeBytes        = opts.MaxPacketSizeBytes - numOverheadBytes", "		freeBytes        = opts.MaxPacketSizeBytes", expect="O5 free-bytes")
M("c12-accept-negative-free", "C12", "m3/reporter.go",
  """	if freeBytes <= 0 {
		return nil, errCommonTagSize
	}
""", "", expect="O5 free-bytes")
B("c12-benign-geq", "C12", "m3/reporter.go",
  "		if flush || bytes+smet.size > r.freeBytes {", "		if flush || bytes+smet.size >= r.freeBytes {")
B("c12-benign-no-reset", "C12", "m3/reporter.go",
  "			mets = r.flush(mets)\n			bytes = 0\n", "			mets = r.flush(mets)\n")

# ---------------------------------------------------------------- C15 UDP transport
M("c15-write-no-open-guard", "C15", "m3/thriftudp/transport.go",
  """func (p *TUDPTransport) WriteByte(b byte) error {
	if !p.IsOpen() {
		return thrift.NewTTransportException(thrift.NOT_OPEN, "Connection not open")
	}
""", """func (p *TUDPTransport) WriteByte(b byte) error {
""", expect="O1 open-guard")
M("c15-bound-wrong-n", "C15", "m3/thriftudp/transport.go",
  "	if p.writeBuf.Len()+len(s) > MaxLength {", "	if p.writeBuf.Len()+1 > MaxLength {", expect="O2 bound-check")
M("c15-bound-off-by-one", "C15", "m3/thriftudp/transport.go",
  "	if p.writeBuf.Len()+len(buf) > MaxLength {", "	if p.writeBuf.Len()+len(buf) > MaxLength+1 {", expect="O2 bound-check")
M("c15-bound-after-append", "C15", "m3/thriftudp/transport.go",
  """	if p.writeBuf.Len()+1 > MaxLength {
		return thrift.NewTTransportException(thrift.INVALID_DATA, "Data does not fit within one UDP packet")
	}

	err := p.writeBuf.WriteByte(b)
	return thrift.NewTTransportExceptionFromError(err)""", """	err := p.writeBuf.WriteByte(b)
	if p.writeBuf.Len() > MaxLength {
		return thrift.NewTTransportException(thrift.INVALID_DATA, "Data does not fit within one UDP packet")
	}
	return thrift.NewTTransportExceptionFromError(err)""", expect="O2 bound-check")
M("c15-flush-no-reset-on-error", "C15", "m3/thriftudp/transport.go",
  """	_, err := p.conn.Write(p.writeBuf.Bytes())
	p.writeBuf.Reset() // always reset the buffer, even in case of an error
	return err""", """	_, err := p.conn.Write(p.writeBuf.Bytes())
	if err != nil {
		return err
	}
	p.writeBuf.Reset()
	return nil""", expect="O3 flush")
M("c15-flush-twice", "C15", "m3/thriftudp/transport.go",
  """	_, err := p.conn.Write(p.writeBuf.Bytes())
	p.writeBuf.Reset()""", """	_, err := p.conn.Write(p.writeBuf.Bytes())
	if err != nil {
		_, err = p.conn.Write(p.writeBuf.Bytes())
	}
	p.writeBuf.Reset()""", expect="O3 flush")
M("c15-multi-flush-first-only", "C15", "m3/thriftudp/multitransport.go",
  """		if err := trans.Flush(); err != nil && firstErr == nil {
			firstErr = err
		}
	}""", """		if err := trans.Flush(); err != nil && firstErr == nil {
			firstErr = err
		}
		break
	}""", expect="O5 fan-out")
M("c15-multi-write-skips", "C15", "m3/thriftudp/multitransport.go",
  "	for _, trans := range p.transports {\n		written, err := trans.Write(buff)", "	for _, trans := range p.transports[1:] {\n		written, err := trans.Write(buff)", expect="O5 fan-out")
M("c15-close-always", "C15", "m3/thriftudp/transport.go",
  """	if closed := p.closed.Swap(true); !closed {
		return p.conn.Close()
	}
	return nil""", """	p.closed.Store(true)
	return p.conn.Close()""", expect="O6 close-once")
M("c15-reporter-panics-on-error", "C15", "m3/reporter.go",
  """	if err != nil {
		r.numWriteErrors.Inc()
	}
""", """	if err != nil {
		panic(err)
	}
""", expect="O7 reporter-survives")
B("c15-benign-reset-on-refusal", "C15", "m3/thriftudp/transport.go",
  """	if p.writeBuf.Len()+1 > MaxLength {
		return thrift.NewTTransportException""", """	if p.writeBuf.Len()+1 > MaxLength {
		p.writeBuf.Reset()
		return thrift.NewTTransportException""")

# ---------------------------------------------------------------- C17 prometheus
M("c17-revert-kind-mismatch", "C17", "prometheus/reporter.go",
  """		if h.histogram == nil {
			return nil, errTimerKindMismatch
		}
""", "", expect="O1 union-nil")
M("c17-wrong-variant-tested", "C17", "prometheus/reporter.go",
  """		if s.summary == nil {
			return nil, errTimerKindMismatch
		}""", """		if s.histogram != nil {
			return nil, errTimerKindMismatch
		}""", expect="O1 union-nil")
M("c17-no-return-after-callback", "C17", "prometheus/reporter.go",
  """	counterVec, err := r.counterVec(name, tagKeys, name+" counter")
	if err != nil {
		r.onRegisterError(err)
		return noopMetric{}
	}""", """	counterVec, err := r.counterVec(name, tagKeys, name+" counter")
	if err != nil {
		r.onRegisterError(err)
	}""", expect="O2 allocator")
M("c17-callback-dropped", "C17", "prometheus/reporter.go",
  """	gaugeVec, err := r.gaugeVec(name, tagKeys, name+" gauge")
	if err != nil {
		r.onRegisterError(err)
		return noopMetric{}
	}""", """	gaugeVec, err := r.gaugeVec(name, tagKeys, name+" gauge")
	if err != nil {
		return noopMetric{}
	}""", expect="O2 allocator")
M("c17-nil-handle-on-error", "C17", "prometheus/reporter.go",
  """	histogramVec, err := r.histogramVec(name, tagKeys, name+" histogram", buckets.AsValues())
	if err != nil {
		r.onRegisterError(err)
		return noopMetric{}
	}""", """	histogramVec, err := r.histogramVec(name, tagKeys, name+" histogram", buckets.AsValues())
	if err != nil {
		r.onRegisterError(err)
		return nil
	}""", expect="O2 allocator")
M("c17-timer-wrong-bound-method", "C17", "prometheus/reporter.go",
  "			t.reportTimer = t.reportTimerSummary\n", "			t.reportTimer = t.reportTimerHistogram\n", expect="O2 allocator")
M("c17-histogram-handle-wrong-field", "C17", "prometheus/reporter.go",
  "	return &cachedMetric{histogram: histogramVec.With(tags)}", "	return &cachedMetric{summary: histogramVec.With(tags)}", expect="O2 allocator")
M("c17-rlock-probe", "C17", "prometheus/reporter.go",
  """	r.Lock()
	defer r.Unlock()

	if ctr, ok := r.counters[id]; ok {
		return ctr, nil
	}
""", """	r.RLock()
	if ctr, ok := r.counters[id]; ok {
		r.RUnlock()
		return ctr, nil
	}
	r.RUnlock()

	r.Lock()
	defer r.Unlock()
""", expect="O3 exclusive-section")
M("c17-observe-off-by-one", "C17", "prometheus/reporter.go",
  "	for i := int64(0); i < value; i++ {", "	for i := int64(1); i < value; i++ {", expect="O4 observe")
M("c17-nanoseconds", "C17", "prometheus/reporter.go",
  "	upperBound := float64(bucketUpperBound) / float64(time.Second)", "	upperBound := float64(bucketUpperBound)", expect="O4 observe-seconds")
M("c17-milliseconds", "C17", "prometheus/reporter.go",
  "	m.summary.Observe(float64(interval) / float64(time.Second))", "	m.summary.Observe(float64(interval) / float64(time.Millisecond))", expect="O4 observe-seconds")
M("c17-none-panics", "C17", "prometheus/config.go",
  """		case "none":
			opts.OnRegisterError = func(err error) {}""", """		case "none":
			opts.OnRegisterError = func(err error) { panic(err) }""", expect="O5 callback-table")
M("c17-log-case-dropped", "C17", "prometheus/config.go",
  """		case "log":
			opts.OnRegisterError = func(err error) {
				log.Printf("tally prometheus reporter error: %v\\n", err)
			}
""", """		case "log2":
			opts.OnRegisterError = func(err error) {
				log.Printf("tally prometheus reporter error: %v\\n", err)
			}
""", expect="O5 callback-table")

# ---------------------------------------------------------------- C16 thrift tables / calc transport
M("c16-swap-field-ids", "C16", "m3/thrift/v2/ttypes.go",
  """	if err := oprot.WriteFieldBegin("count", thrift.I64, 2); err != nil {""", """	if err := oprot.WriteFieldBegin("count", thrift.I64, 4); err != nil {""", expect="O1 writer-reader-table")
M("c16-write-i32-as-i64", "C16", "m3/thrift/v2/ttypes.go",
  "	if err := oprot.WriteI64(int64(p.Timestamp)); err != nil {", "	if err := oprot.WriteI32(int32(p.Timestamp)); err != nil {", expect="O1 writer-reader-table")
M("c16-reader-wrong-field", "C16", "m3/thrift/v2/ttypes.go",
  """	if v, err := iprot.ReadI64(); err != nil {
		return thrift.PrependError("error reading field 4: ", err)
	} else {
		p.Timer = v
	}""", """	if v, err := iprot.ReadI64(); err != nil {
		return thrift.PrependError("error reading field 4: ", err)
	} else {
		p.Count = v
	}""", expect="O1 writer-reader-table")
M("c16-writer-wrong-field", "C16", "m3/thrift/v2/ttypes.go",
  "	if err := oprot.WriteString(string(p.Value)); err != nil {", "	if err := oprot.WriteString(string(p.Name)); err != nil {", expect="O1 writer-reader-table")
M("c16-field-not-written", "C16", "m3/thrift/v2/ttypes.go",
  """	if err := p.writeField3(oprot); err != nil {
		return err
	}
	if err := p.writeField4(oprot); err != nil {
		return err
	}
	if err := oprot.WriteFieldStop(); err != nil {
		return thrift.PrependError("write field stop error: ", err)
	}
	if err := oprot.WriteStructEnd(); err != nil {
		return thrift.PrependError("write struct stop error: ", err)
	}
	return nil
}

func (p *Metric) writeField1""", """	if err := p.writeField4(oprot); err != nil {
		return err
	}
	if err := oprot.WriteFieldStop(); err != nil {
		return thrift.PrependError("write field stop error: ", err)
	}
	if err := oprot.WriteStructEnd(); err != nil {
		return thrift.PrependError("write struct stop error: ", err)
	}
	return nil
}

func (p *Metric) writeField1""", expect="O1 writer-reader-table")
M("c16-switch-wrong-dispatch", "C16", "m3/thrift/v2/ttypes.go",
  """			if err := p.readField2(iprot); err != nil {
				return err
			}
			issetCount = true""", """			if err := p.readField4(iprot); err != nil {
				return err
			}
			issetCount = true""", expect="O1 writer-reader-table", count=1)
M("c16-list-len-minus-one", "C16", "m3/thrift/v2/ttypes.go",
  "		if err := oprot.WriteListBegin(thrift.STRUCT, len(p.Tags)); err != nil {", "		if err := oprot.WriteListBegin(thrift.STRUCT, len(p.Tags)-1); err != nil {", expect="O1 writer-reader-table")
M("c16-client-no-flush", "C16", "m3/thrift/v2/m3.go",
  """	if err = oprot.WriteMessageEnd(); err != nil {
		return
	}
	return oprot.Flush()""", """	if err = oprot.WriteMessageEnd(); err != nil {
		return
	}
	return nil""", expect="O1 client-send")
M("c16-calc-string-plus-one", "C16", "m3/customtransports/m3_calc_transport.go",
  "	p.count += int32(len(s))", "	p.count += int32(len(s)) + 1", expect="O2 calc-transport")
M("c16-calc-byte-not-counted", "C16", "m3/customtransports/m3_calc_transport.go",
  "	p.count++\n", "", expect="O2 calc-transport")
M("c16-calc-write-reports-zero", "C16", "m3/customtransports/m3_calc_transport.go",
  "	p.count += int32(len(buf))\n	return len(buf), nil", "	p.count += int32(len(buf))\n	return 0, nil", expect="O2 calc-transport")
M("c16-no-reset", "C16", "m3/reporter.go",
  "	size := r.calc.GetCount()\n	r.calc.ResetCount()\n", "	size := r.calc.GetCount()\n", expect="O3 calculate-size")
M("c16-count-before-write", "C16", "m3/reporter.go",
  "	m.Write(r.calcProto) //nolint:errcheck\n	size := r.calc.GetCount()\n", "	size := r.calc.GetCount()\n	m.Write(r.calcProto) //nolint:errcheck\n", expect="O3 calculate-size")
M("c16-no-lock", "C16", "m3/reporter.go",
  "	r.calcLock.Lock()\n	m.Write(r.calcProto)", "	m.Write(r.calcProto)", expect="O3 calculate-size")

# ---------------------------------------------------------------- C09 concurrent first use
M("c09-drop-recheck-counter", "C09", "scope.go",
  """	s.cm.Lock()
	defer s.cm.Unlock()

	if c, ok := s.counters[name]; ok {
		return c
	}
""", """	s.cm.Lock()
	defer s.cm.Unlock()
""", expect="O1 double-checked")
M("c09-rlock-for-lock-gauge", "C09", "scope.go",
  """	s.gm.Lock()
	defer s.gm.Unlock()
""", """	s.gm.RLock()
	defer s.gm.RUnlock()
""", expect="O")
M("c09-recheck-other-key", "C09", "scope.go",
  """	if t, ok := s.timers[name]; ok {
		return t
	}

	var cachedTimer CachedTimer""", """	if t, ok := s.timers[s.fullyQualifiedName(name)]; ok {
		return t
	}

	var cachedTimer CachedTimer""", expect="O1 double-checked")
M("c09-allocate-before-recheck", "C09", "scope.go",
  """	if h, ok := s.histograms[name]; ok {
		return h
	}

	var cachedHistogram CachedHistogram
	if s.cachedReporter != nil {
		cachedHistogram = s.cachedReporter.AllocateHistogram(
			s.fullyQualifiedName(name), s.tags, b,
		)
	}
""", """	var cachedHistogram CachedHistogram
	if s.cachedReporter != nil {
		cachedHistogram = s.cachedReporter.AllocateHistogram(
			s.fullyQualifiedName(name), s.tags, b,
		)
	}
	if h, ok := s.histograms[name]; ok {
		return h
	}
""", expect="O1 double-checked")
M("c09-subscope-no-recheck", "C09", "scope_registry.go",
  """	if s, ok := r.lockedLookup(subscopeBucket, sanitizedKey); ok {
		if !s.closed.Load() || s.testScope {""", """	if s, ok := r.lockedLookup(subscopeBucket, sanitizedKey); ok && len(prefix) > 1<<30 {
		if !s.closed.Load() || s.testScope {""", expect="O1 double-checked")
M("c09-probe-without-lock", "C09", "scope.go",
  """func (s *scope) timer(sanitizedName string) (Timer, bool) {
	s.tm.RLock()
	defer s.tm.RUnlock()
""", """func (s *scope) timer(sanitizedName string) (Timer, bool) {
""", expect="O2 field-discipline")
M("c09-wrong-lock", "C09", "scope.go",
  """	s.gm.RLock()
	for _, gauge := range s.gaugesSlice {
		gauge.cachedReport()
	}
	s.gm.RUnlock()""", """	s.cm.RLock()
	for _, gauge := range s.gaugesSlice {
		gauge.cachedReport()
	}
	s.cm.RUnlock()""", expect="O2 field-discipline")
M("c09-early-return-leaks-lock", "C09", "stats.go",
  """	c.mtx.RLock()
	storage, ok := c.cache[id]
	if !ok {""", """	c.mtx.RLock()
	storage, ok := c.cache[id]
	if id == 0 {
		return storage
	}
	if !ok {""", expect="O3 lock-pairing")
B("c09-benign-lock-order-inversion-single-site", "C09", "scope.go",
  """	s.cm.Lock()
	s.gm.Lock()
	s.tm.Lock()
	s.hm.Lock()
	defer s.cm.Unlock()
	defer s.gm.Unlock()
	defer s.tm.Unlock()
	defer s.hm.Unlock()

	for k := range s.counters {""", """	s.hm.Lock()
	s.tm.Lock()
	s.gm.Lock()
	s.cm.Lock()
	defer s.cm.Unlock()
	defer s.gm.Unlock()
	defer s.tm.Unlock()
	defer s.hm.Unlock()

	for k := range s.counters {""")
M("c09-lookup-helper-unlocked-caller", "C09", "scope_registry.go",
  """	subscopeBucket.mu.RLock()
	// buf is stack allocated""", """	// buf is stack allocated""", expect="O")
M("c09-interner-unlocked-write", "C09", "internal/cache/string_intern.go",
  """	i.mtx.Lock()
	i.entries[s] = s
	i.mtx.Unlock()
""", """	i.entries[s] = s
""", expect="O2 field-discipline")
M("c09-closed-plain-bool", "C09", "scope.go",
  """	if s.closed.Load() {
		return
	}

	s.reportRegistry()""", """	if *(*bool)(unsafe.Pointer(&s.closed)) {
		return
	}

	s.reportRegistry()""", expect="O2 atomic-only", more=[("scope.go", 'import (\n	"io"', 'import (\n	"unsafe"\n	"io"')])
B("c09-benign-explicit-unlock", "C09", "scope.go",
  """func (s *scope) gauge(name string) (Gauge, bool) {
	s.gm.RLock()
	defer s.gm.RUnlock()

	g, ok := s.gauges[name]
	return g, ok""", """func (s *scope) gauge(name string) (Gauge, bool) {
	s.gm.RLock()
	g, ok := s.gauges[name]
	s.gm.RUnlock()
	return g, ok""")
M("c09-lock-order-cycle", "C09", "scope.go",
  """	s.gm.RLock()
	for _, gauge := range s.gaugesSlice {
		gauge.cachedReport()
	}
	s.gm.RUnlock()""", """	s.gm.RLock()
	s.cm.RLock()
	for _, gauge := range s.gaugesSlice {
		gauge.cachedReport()
	}
	s.cm.RUnlock()
	s.gm.RUnlock()""", expect="O3 lock-order")
M("c09-reacquire-read-lock", "C09", "scope.go",
  """	s.hm.RLock()
	for _, histogram := range s.histogramsSlice {
		histogram.cachedReport()
	}
	s.hm.RUnlock()""", """	s.hm.RLock()
	for _, histogram := range s.histogramsSlice {
		if _, ok := s.histogram(histogram.name); ok {
			histogram.cachedReport()
		}
	}
	s.hm.RUnlock()""", expect="O3 lock-order")

# ---------------------------------------------------------------- C07 subscope close
M("c07-revert-flag-sample", "C07", "scope_registry.go",
  """			closed := s.closed.Load()
			s.report(reporter)

			if closed {""", """			s.report(reporter)

			if s.closed.Load() {""", expect="O1 flag-before-report")
M("c07-revert-identity-check", "C07", "scope_registry.go",
  """	if curr, ok := subscopeBucket.s[key]; ok && curr == s {
		delete(subscopeBucket.s, key)
	}""", """	delete(subscopeBucket.s, key)""", expect="O3 lock-gap")
M("c07-clear-without-report", "C07", "scope_registry.go",
  """			closed := s.closed.Load()
			s.cachedReport()

			if closed {""", """			closed := s.closed.Load()
			if !closed {
				s.cachedReport()
			}

			if closed {""", expect="O2 report-before-clear")
M("c07-reacquire-no-report", "C07", "scope_registry.go",
  """		switch {
		case parent.reporter != nil:
			s.report(parent.reporter)
		case parent.cachedReporter != nil:
			s.cachedReport()
		}
""", """		if parent.reporter != nil {
			s.report(parent.reporter)
		}
""", expect="O2 report-before-clear", count=2)
M("c07-identity-check-wrong-scope", "C07", "scope_registry.go",
  "				r.removeWithRLock(subscopeBucket, name, s)\n				s.clearMetrics()\n			}\n		}\n\n		subscopeBucket.mu.RUnlock()\n	}\n}\n\nfunc (r *scopeRegistry) CachedReport() {",
  "				r.removeWithRLock(subscopeBucket, name, r.root)\n				s.clearMetrics()\n			}\n		}\n\n		subscopeBucket.mu.RUnlock()\n	}\n}\n\nfunc (r *scopeRegistry) CachedReport() {", expect="O3 lock-gap-caller")
M("c07-close-plain-store", "C07", "scope.go",
  """	if !s.closed.CAS(false, true) {
		return nil
	}
""", """	if s.closed.Load() {
		return nil
	}
	s.closed.Store(true)
""", expect="O4 inert-and-close")
M("c07-subscope-no-parent-check", "C07", "scope_registry.go",
  "	if r.root.closed.Load() || parent.closed.Load() {", "	if r.root.closed.Load() {", expect="O4 inert-and-close")
M("c07-remove-keeps-write-lock", "C07", "scope_registry.go",
  """	subscopeBucket.mu.RUnlock()
	defer subscopeBucket.mu.RLock()
	subscopeBucket.mu.Lock()
	defer subscopeBucket.mu.Unlock()""", """	subscopeBucket.mu.RUnlock()
	subscopeBucket.mu.Lock()
	defer subscopeBucket.mu.RLock()""", expect="O5 lock-pairing")
M("c07-clear-under-bucket-write-lock-calls-report", "C07", "scope_registry.go",
  """			_ = s.Close()
			s.clearMetrics()""", """			_ = s.Close()
			r.reportInternalMetrics()
			s.clearMetrics()""", expect="O5 lock-order")
M("c07-revert-closed-handout-sanitized-key", "C07", "scope_registry.go",
  """	if s, ok := r.lockedLookup(subscopeBucket, sanitizedKey); ok {
		if !s.closed.Load() || s.testScope {
			if _, ok = r.lockedLookup(subscopeBucket, unsanitizedKey); !ok {
				subscopeBucket.s[unsanitizedKey] = s
			}
			return s
		}
""", """	if s, ok := r.lockedLookup(subscopeBucket, sanitizedKey); ok {
		if true {
			if _, ok = r.lockedLookup(subscopeBucket, unsanitizedKey); !ok {
				subscopeBucket.s[unsanitizedKey] = s
			}
			return s
		}
""", expect="O6 live-handout")
M("c07-handout-closed-unsanitized", "C07", "scope_registry.go",
  """		if !s.closed.Load() || s.testScope {
			subscopeBucket.mu.RUnlock()
			return s
		}
""", """		if !s.closed.Load() || s.testScope || parent.testScope || len(tags) == 0 {
			subscopeBucket.mu.RUnlock()
			return s
		}
""", expect="O6 live-handout")
B("c07-benign-replace-without-delete-c07", "C07", "scope_registry.go",
  """		delete(subscopeBucket.s, sanitizedKey)
		s.clearMetrics()
	}

	allTags""", """		s.clearMetrics()
	}

	allTags""")
B("c07-benign-replace-without-delete-c09", "C09", "scope_registry.go",
  """		delete(subscopeBucket.s, sanitizedKey)
		s.clearMetrics()
	}

	allTags""", """		s.clearMetrics()
	}

	allTags""")
B("c07-benign-replace-without-delete-c01", "C01", "scope_registry.go",
  """		delete(subscopeBucket.s, sanitizedKey)
		s.clearMetrics()
	}

	allTags""", """		s.clearMetrics()
	}

	allTags""")
B("c07-benign-replace-without-delete-c05", "C05", "scope_registry.go",
  """		delete(subscopeBucket.s, sanitizedKey)
		s.clearMetrics()
	}

	allTags""", """		s.clearMetrics()
	}

	allTags""")
M("c07-replace-unlock-gap", "C09", "scope_registry.go",
  """		delete(subscopeBucket.s, sanitizedKey)
		s.clearMetrics()
	}

	allTags""", """		delete(subscopeBucket.s, sanitizedKey)
		subscopeBucket.mu.Unlock()
		s.clearMetrics()
		subscopeBucket.mu.Lock()
	}

	allTags""", expect="O1 double-checked")
B("c07-benign-switch-to-if", "C07", "scope_registry.go",
  """		switch {
		case parent.reporter != nil:
			s.report(parent.reporter)
		case parent.cachedReporter != nil:
			s.cachedReport()
		}
""", """		if parent.reporter != nil {
			s.report(parent.reporter)
		} else if parent.cachedReporter != nil {
			s.cachedReport()
		}
""", count=2)

# ---------------------------------------------------------------- C08 root close
M("c08-revert-wg-wait", "C08", "scope.go",
  "		s.wg.Wait()\n		s.reportRegistry()", "		s.reportRegistry()", expect="O")
M("c08-wait-after-report", "C08", "scope.go",
  "		s.wg.Wait()\n		s.reportRegistry()", "		s.reportRegistry()\n		s.wg.Wait()", expect="O1 close-chain")
M("c08-purge-deferred-in-pass", "C08", "scope_registry.go",
  "func (r *scopeRegistry) Report(reporter StatsReporter) {\n	r.reportInternalMetrics()", "func (r *scopeRegistry) Report(reporter StatsReporter) {\n	defer r.purgeIfRootClosed()\n	r.reportInternalMetrics()", expect="O3 purge-only-from-close")
M("c08-purge-before-report", "C08", "scope.go",
  """		s.reportRegistry()
		if s.reporter != nil || s.cachedReporter != nil {
			s.registry.purgeIfRootClosed()
		}""", """		if s.reporter != nil || s.cachedReporter != nil {
			s.registry.purgeIfRootClosed()
		}
		s.reportRegistry()""", expect="O1 close-chain")
M("c08-no-final-flush", "C08", "scope.go",
  """		s.registry.CachedReport()
		s.cachedReporter.Flush()""", """		s.registry.CachedReport()""", expect="O1 report-then-flush")
M("c08-closer-error-dropped", "C08", "scope.go",
  """		if closer, ok := s.baseReporter.(io.Closer); ok {
			return closer.Close()
		}""", """		if closer, ok := s.baseReporter.(io.Closer); ok {
			_ = closer.Close()
		}""", expect="O1 close-chain")
M("c08-done-not-closed", "C08", "scope.go",
  "	close(s.done)\n\n	if s.root {", "	if s.root {", expect="O1 close-chain")
M("c08-loop-ignores-done", "C08", "scope.go",
  """		select {
		case <-ticker.C:
			s.reportLoopRun()
		case <-s.done:
			return
		}""", """		<-ticker.C
		s.reportLoopRun()""", expect="O4 ticker-loop")
M("c08-tick-ignores-closed", "C08", "scope.go",
  """	if s.closed.Load() {
		return
	}

	s.reportRegistry()""", """	s.reportRegistry()""", expect="O4 ticker-loop")
M("c08-no-wg-done", "C08", "scope.go",
  "			defer s.wg.Done()\n			s.reportLoop(interval)", "			s.reportLoop(interval)", expect="O2 waitgroup")

# ---------------------------------------------------------------- C06 sanitize
M("c06-timer-name-unsanitized", "C06", "scope.go",
  """func (s *scope) Timer(name string) Timer {
	name = s.sanitizer.Name(name)
""", """func (s *scope) Timer(name string) Timer {
""", expect="O1 sanitize-before-sink")
M("c06-key-for-value", "C06", "scope.go",
  "		v = s.sanitizer.Value(v)", "		v = s.sanitizer.Key(v)", expect="O1 sanitize-before-sink")
M("c06-revert-cardinality-defaults", "C06", "scope_registry.go",
  """	for _, tags := range []map[string]string{defaultTags, cardinalityMetricsTags} {
		for k, v := range tags {
			r.cardinalityMetricsTags[root.sanitizer.Key(k)] = root.sanitizer.Value(v)
		}
	}""", """	for k, v := range defaultTags {
		r.cardinalityMetricsTags[k] = v
	}
	for k, v := range cardinalityMetricsTags {
		r.cardinalityMetricsTags[root.sanitizer.Key(k)] = root.sanitizer.Value(v)
	}""", expect="O1 sanitize-before-sink")
M("c06-separator-unsanitized", "C06", "scope.go",
  "		separator:       sanitizer.Name(opts.Separator),", "		separator:       opts.Separator,", expect="O1 sanitize-before-sink")
M("c06-subscope-prefix-unsanitized", "C06", "scope.go",
  """func (s *scope) SubScope(prefix string) Scope {
	prefix = s.sanitizer.Name(prefix)
""", """func (s *scope) SubScope(prefix string) Scope {
""", expect="O1 sanitize-before-sink")
M("c06-tagged-tags-not-sanitized", "C06", "scope_registry.go",
  "	tags = parent.copyAndSanitizeMap(tags)\n", "", expect="O1 sanitize-before-sink")
M("c06-cardinality-name-raw", "C06", "scope_registry.go",
  "		sanitizedGaugeCardinalityName:     root.sanitizer.Name(gaugeCardinalityName),", "		sanitizedGaugeCardinalityName:     gaugeCardinalityName,", expect="O1 sanitize-before-sink")
M("c06-range-top-exclusive", "C06", "sanitize.go",
  "				if ch >= c.Ranges[i][0] && ch <= c.Ranges[i][1] {", "				if ch >= c.Ranges[i][0] && ch < c.Ranges[i][1] {", expect="O2 inclusive-ranges")
M("c06-range-bottom-exclusive", "C06", "sanitize.go",
  "				if ch >= c.Ranges[i][0] && ch <= c.Ranges[i][1] {", "				if ch > c.Ranges[i][0] && ch <= c.Ranges[i][1] {", expect="O2 inclusive-ranges")
M("c06-keyfn-from-value-chars", "C06", "sanitize.go",
  "		keyFn:   opts.KeyCharacters.sanitizeFn(opts.ReplacementCharacter),", "		keyFn:   opts.ValueCharacters.sanitizeFn(opts.ReplacementCharacter),", expect="O3 sanitizer-table")
M("c06-put-before-string", "C06", "sanitize.go",
  "		result := buf.String()\n		putSanitizeBuffer(buf)\n		return result", "		putSanitizeBuffer(buf)\n		result := buf.String()\n		return result", expect="O4 pooled-buffer")
M("c06-put-no-reset", "C06", "sanitize.go",
  "	b.Reset()\n	_sanitizeBuffers.Put(b)", "	_sanitizeBuffers.Put(b)", expect="O4 pooled-buffer")
M("c06-noop-trims", "C06", "sanitize.go",
  "func NoOpSanitizeFn(v string) string { return v }", "func NoOpSanitizeFn(v string) string { return v + \"\" + v[:0] }", expect="O5 no-op")
B("c06-benign-sanitize-twice", "C06", "scope.go",
  """func (s *scope) Gauge(name string) Gauge {
	name = s.sanitizer.Name(name)
""", """func (s *scope) Gauge(name string) Gauge {
	name = s.sanitizer.Name(s.sanitizer.Name(name))
""")
B("c06-benign-flipped-range-cmp", "C06", "sanitize.go",
  "				if ch >= c.Ranges[i][0] && ch <= c.Ranges[i][1] {", "				if c.Ranges[i][0] <= ch && c.Ranges[i][1] >= ch {")

# ---------------------------------------------------------------- C04 names and tags
M("c04-merge-reversed", "C04", "scope.go",
  """	for k, v := range tagsLeft {
		result[k] = v
	}
	for k, v := range tagsRight {
		result[k] = v
	}""", """	for k, v := range tagsRight {
		result[k] = v
	}
	for k, v := range tagsLeft {
		result[k] = v
	}""", expect="O3 overlay-order")
M("c04-merge-args-swapped", "C04", "scope_registry.go",
  "	allTags := mergeRightTags(parent.tags, tags)", "	allTags := mergeRightTags(tags, parent.tags)", expect="O2 inheritance")
M("c04-merge-into-left", "C04", "scope.go",
  """	result := make(map[string]string, len(tagsLeft)+len(tagsRight))
	for k, v := range tagsLeft {
		result[k] = v
	}
	for k, v := range tagsRight {
		result[k] = v
	}
	return result""", """	for k, v := range tagsRight {
		tagsLeft[k] = v
	}
	return tagsLeft""", expect="O")
M("c04-child-default-separator", "C04", "scope_registry.go",
  "		separator: parent.separator,", "		separator: DefaultSeparator,", expect="O2 inheritance")
M("c04-child-root-reporter", "C04", "scope_registry.go",
  "		reporter:       parent.reporter,", "		reporter:       r.root.reporter,", expect="O2 inheritance")
M("c04-tags-not-copied", "C04", "scope.go",
  "	s.tags = s.copyAndSanitizeMap(opts.Tags)", "	s.tags = opts.Tags", expect="O4 copy-on-ingress")
M("c04-tagged-drops-prefix", "C04", "scope.go",
  "	return s.subscope(s.prefix, tags)", "	return s.subscope(\"\", tags)", expect="O2 inheritance")
M("c04-fqn-order", "C04", "scope.go",
  "	return s.prefix + s.separator + name", "	return name + s.separator + s.prefix", expect="O1 concat-shape")
M("c04-fqn-leading-separator", "C04", "scope.go",
  """	if len(s.prefix) == 0 {
		return name
	}
""", "", expect="O1 concat-shape")
M("c04-key-writer-leftmost", "C04", "key_gen.go",
  "		for j := len(maps) - 1; j >= 0; j-- {", "		for j := 0; j < len(maps); j++ {", expect="O3 overlay-order")
M("c04-snapshot-mutates-scope-tags", "C04", "scope.go",
  """		tags := make(map[string]string, len(s.tags))
		for k, v := range ss.tags {
			tags[k] = v
		}
""", """		tags := ss.tags
		tags["scope"] = ss.prefix
""", expect="O4 no-mutation")
M("c04-tags-reassigned-later", "C04", "scope.go",
  """func (s *scope) Tagged(tags map[string]string) Scope {
	return s.subscope(s.prefix, tags)""", """func (s *scope) Tagged(tags map[string]string) Scope {
	if len(tags) == 0 {
		s.tags = mergeRightTags(s.tags, tags)
	}
	return s.subscope(s.prefix, tags)""", expect="O4 immutable")
B("c04-benign-prefix-eq-empty", "C04", "scope.go",
  """	if len(s.prefix) == 0 {
		return name
	}""", """	if s.prefix == "" {
		return name
	}""")

# ---------------------------------------------------------------- C11 snapshots
M("c11-tags-from-wrong-scope", "C11", "scope.go",
  "		for k, v := range ss.tags {\n			tags[k] = v\n		}", "		for k, v := range s.tags {\n			tags[k] = v\n		}", expect="O1 snapshot-entries")
M("c11-share-live-tags", "C11", "scope.go",
  """		tags := make(map[string]string, len(s.tags))
		for k, v := range ss.tags {
			tags[k] = v
		}
""", """		tags := ss.tags
""", expect="O1 snapshot-entries")
M("c11-name-from-receiver", "C11", "scope.go",
  """		for key, g := range ss.gauges {
			name := ss.fullyQualifiedName(key)""", """		for key, g := range ss.gauges {
			name := s.fullyQualifiedName(key)""", expect="O1 snapshot-entries")
M("c11-skip-timers", "C11", "scope.go",
  """		ss.tm.RLock()
		for key, t := range ss.timers {
			name := ss.fullyQualifiedName(key)
			id := KeyForPrefixedStringMap(name, tags)
			snap.timers[id] = &timerSnapshot{
				name:   name,
				tags:   tags,
				values: t.snapshot(),
			}
		}
		ss.tm.RUnlock()
""", "", expect="O1 snapshot-entries")
M("c11-live-timer-slice", "C11", "stats.go",
  """	snap := make([]time.Duration, len(t.unreported.values))
	copy(snap, t.unreported.values)
	t.unreported.RUnlock()
	return snap""", """	snap := t.unreported.values
	t.unreported.RUnlock()
	return snap""", expect="O2 reads")
M("c11-hist-keyed-by-lower", "C11", "stats.go",
  "		vals[h.buckets[i].valueUpperBound] = h.samples[i].counter.snapshot()", "		vals[valueLowerBound(h.buckets, i)] = h.samples[i].counter.snapshot()", expect="O2 reads")
M("c11-hist-shifted-index", "C11", "stats.go",
  "		durations[h.buckets[i].durationUpperBound] = h.samples[i].counter.snapshot()", "		durations[h.buckets[i].durationUpperBound] = h.samples[len(h.samples)-1-i].counter.snapshot()", expect="O2 reads")
M("c11-counter-snapshot-consumes", "C11", "stats.go",
  "	return atomic.LoadInt64(&c.curr) - atomic.LoadInt64(&c.prev)", "	return c.value()", expect="O2 reads")
M("c11-snapshot-no-lock", "C11", "scope.go",
  """		ss.cm.RLock()
		for key, c := range ss.counters {
			name := ss.fullyQualifiedName(key)
			id := KeyForPrefixedStringMap(name, tags)
			snap.counters[id] = &counterSnapshot{
				name:  name,
				tags:  tags,
				value: c.snapshot(),
			}
		}
		ss.cm.RUnlock()""", """		for key, c := range ss.counters {
			name := ss.fullyQualifiedName(key)
			id := KeyForPrefixedStringMap(name, tags)
			snap.counters[id] = &counterSnapshot{
				name:  name,
				tags:  tags,
				value: c.snapshot(),
			}
		}""", expect="O3 field-discipline")
M("c09-closure-unlock-without-lock", "C09", "scope.go",
  """		ss.cm.RLock()
		for key, c := range ss.counters {""", """		for key, c := range ss.counters {""", expect="O3 lock-pairing")
M("c11-testscope-pruned", "C11", "scope_registry.go",
  "		if !s.closed.Load() || s.testScope {", "		if !s.closed.Load() {", expect="O4 test-scope-exempt", count=2)
M("c11-entry-key-without-tags", "C11", "scope.go",
  """			id := KeyForPrefixedStringMap(name, tags)
			snap.counters[id] = &counterSnapshot{""", """			id := KeyForPrefixedStringMap(name, nil)
			snap.counters[id] = &counterSnapshot{""", expect="O1 snapshot-entries")

# ---------------------------------------------------------------- C05 identity
M("c05-no-sort", "C05", "key_gen.go",
  "	insertionSort(keys)\n", "", expect="O2 determinism")
M("c05-sort-descending", "C05", "key_gen.go",
  "		for j := i; j > 0 && keys[j] < keys[j-1]; j-- {", "		for j := i; j > 0 && keys[j] > keys[j-1]; j-- {", expect="O2 sort-shape")
M("c05-value-by-iteration", "C05", "key_gen.go",
  """	for _, m := range maps {
		for k := range m {
			keys = append(keys, k)
		}
	}
""", """	var firstVal string
	for _, m := range maps {
		for k, v := range m {
			keys = append(keys, k)
			if firstVal == "" {
				firstVal = v
			}
		}
	}
	_ = firstVal
	buf = append(buf, firstVal...)
""", expect="O2 determinism")
M("c05-revert-separator-fix", "C05", "key_gen.go",
  """	for i, k := range keys {
		// n.b. Test the position, not the content of the last key: the empty
		//      string is a valid key too.
		if i > 0 {""", """	for _, k := range keys {
		if len(lastKey) > 0 {""", expect="O3 separator-emission")
M("c05-insert-under-raw-name", "C05", "scope.go",
  """func (s *scope) Counter(name string) Counter {
	name = s.sanitizer.Name(name)
	if c, ok := s.counter(name); ok {
		return c
	}
""", """func (s *scope) Counter(name string) Counter {
	raw := name
	name = s.sanitizer.Name(name)
	if c, ok := s.counter(name); ok {
		return c
	}
	defer func() { _ = raw }()
""", kind="benign")
M("c05-insert-different-key", "C05", "scope.go",
  "	s.gauges[name] = g\n", "	s.gauges[s.fullyQualifiedName(name)] = g\n", expect="O1 get-or-create")
M("c05-public-key-other-writer", "C05", "key_gen.go",
  "	return keyForPrefixedStringMaps(prefix, stringMap)", "	return prefix + \"+\" + fmt.Sprint(stringMap)", expect="O4 same-writer", more=[("key_gen.go", "package tally\n", "package tally\n\nimport \"fmt\"\n")])
M("c05-registry-key-drops-parent-tags", "C05", "scope_registry.go",
  "	sanitizedKey = scopeRegistryKey(prefix, parent.tags, tags)", "	sanitizedKey = scopeRegistryKey(prefix, tags)", expect="O1 key-arguments")
M("c05-keyforstringmap-prefix", "C05", "key_gen.go",
  "	return KeyForPrefixedStringMap(nilString, stringMap)", "	return KeyForPrefixedStringMap(\"_\", stringMap)", expect="O4 same-writer")

# ---------------------------------------------------------------- later additions
M("c01-registry-skips-closed-before-report", "C01", "scope_registry.go",
  """			closed := s.closed.Load()
			s.report(reporter)
""", """			closed := s.closed.Load()
			if s.root && closed {
				continue
			}
			s.report(reporter)
""", expect="O8 registry-coverage")
M("c01-registry-first-shard-only", "C01", "scope_registry.go",
  "func (r *scopeRegistry) CachedReport() {\n	r.reportInternalMetrics()\n\n	for _, subscopeBucket := range r.subscopes {", "func (r *scopeRegistry) CachedReport() {\n	r.reportInternalMetrics()\n\n	for _, subscopeBucket := range r.subscopes[:1] {", expect="O8 registry-coverage")
M("c13-bucketid-reversed", "C13", "m3/reporter.go",
  "				bucketID:           r.stringInterner.Intern(fmt.Sprintf(bucketIDFmt, i)),", "				bucketID:           r.stringInterner.Intern(fmt.Sprintf(bucketIDFmt, buckets.Len()-i)),", expect="O7 bucket-identity")
M("c13-prev-not-updated", "C13", "m3/reporter.go",
  "		prevValue = pair.UpperBoundValue()\n", "", expect="O7 bucket-identity")
M("c13-bucket-lookup-gt", "C13", "m3/reporter.go",
  "			return h.cachedDurationBuckets[i].durationUpperBound >= bucketUpperBound", "			return h.cachedDurationBuckets[i].durationUpperBound > bucketUpperBound", expect="O7 bucket-identity")
M("c17-with-nil-tags", "C17", "prometheus/reporter.go",
  "	return &cachedMetric{gauge: gaugeVec.With(tags)}", "	return &cachedMetric{gauge: gaugeVec.With(prom.Labels{})}", expect="O2 allocator")
M("c16-emit-twice", "C16", "m3/thrift/v2/m3.go",
  """	if err = p.sendEmitMetricBatchV2(batch); err != nil {
		return
	}
	return""", """	if err = p.sendEmitMetricBatchV2(batch); err != nil {
		err = p.sendEmitMetricBatchV2(batch)
	}
	return""", expect="O1 client-send")
B("c07-benign-dedupe-helper", "C07", "scope_registry.go",
  """func (r *scopeRegistry) Report(reporter StatsReporter) {
	r.reportInternalMetrics()

	for _, subscopeBucket := range r.subscopes {
		subscopeBucket.mu.RLock()

		for name, s := range subscopeBucket.s {
			// n.b. Sample the flag before reporting: everything recorded
			//      before Close() is then covered by this report.
			closed := s.closed.Load()
			s.report(reporter)

			if closed {
				r.removeWithRLock(subscopeBucket, name, s)
				s.clearMetrics()
			}
		}

		subscopeBucket.mu.RUnlock()
	}
}
""", """func (r *scopeRegistry) Report(reporter StatsReporter) {
	r.reportInternalMetrics()
	r.reportAndPrune(func(s *scope) { s.report(reporter) })
}

func (r *scopeRegistry) reportAndPrune(report func(*scope)) {
	for _, subscopeBucket := range r.subscopes {
		subscopeBucket.mu.RLock()

		for name, s := range subscopeBucket.s {
			closed := s.closed.Load()
			report(s)

			if closed {
				r.removeWithRLock(subscopeBucket, name, s)
				s.clearMetrics()
			}
		}

		subscopeBucket.mu.RUnlock()
	}
}
""")

# ---------------------------------------------------------------- C16 wire primitives (vendored protocols)
TH = "thirdparty/github.com/apache/thrift/lib/go/thrift/"
M("c16-binary-i32-little", "C16", TH + "binary_protocol.go",
  "	binary.BigEndian.PutUint32(v, uint32(value))", "	binary.LittleEndian.PutUint32(v, uint32(value))", expect="O5 wire-primitives")
M("c16-binary-readi16-width", "C16", TH + "binary_protocol.go",
  """	buf := p.buffer[0:2]
	err = p.readAll(buf)
	value = int16(binary.BigEndian.Uint16(buf))""", """	buf := p.buffer[0:4]
	err = p.readAll(buf)
	value = int16(binary.BigEndian.Uint32(buf))""", expect="O5 wire-primitives")
M("c16-binary-readdouble-little", "C16", TH + "binary_protocol.go",
  "	value = math.Float64frombits(binary.BigEndian.Uint64(buf))", "	value = math.Float64frombits(binary.LittleEndian.Uint64(buf))", expect="O5 wire-primitives")
M("c16-compact-i64-varint32", "C16", TH + "compact_protocol.go",
  "	_, err := p.writeVarint64(p.int64ToZigzag(value))", "	_, err := p.writeVarint32(int32(p.int64ToZigzag(value)))", expect="O5 wire-primitives")
M("c16-compact-i64-zigzag32", "C16", TH + "compact_protocol.go",
  "	_, err := p.writeVarint64(p.int64ToZigzag(value))", "	_, err := p.writeVarint64(int64(p.int32ToZigzag(int32(value))))", expect="O5 wire-primitives")
M("c16-compact-readi32-no-unzigzag", "C16", TH + "compact_protocol.go",
  "	value = p.zigzagToInt32(v)\n	return value, nil", "	value = v\n	return value, nil", expect="O5 wire-primitives")
M("c16-compact-readi64-through-32", "C16", TH + "compact_protocol.go",
  """	v, e := p.readVarint64()
	if e != nil {
		return 0, NewTProtocolException(e)
	}
	value = p.zigzagToInt64(v)""", """	v32, e := p.readVarint32()
	v := int64(v32)
	if e != nil {
		return 0, NewTProtocolException(e)
	}
	value = p.zigzagToInt64(v)""", expect="O5 wire-primitives")
M("c16-compact-double-big", "C16", TH + "compact_protocol.go",
  "	binary.LittleEndian.PutUint64(buf, math.Float64bits(value))\n	_, err := p.trans.Write(buf)", "	binary.BigEndian.PutUint64(buf, math.Float64bits(value))\n	_, err := p.trans.Write(buf)", expect="O5 wire-primitives")
M("c16-compact-string-len-zigzag", "C16", TH + "compact_protocol.go",
  """func (p *TCompactProtocol) WriteString(value string) error {
	_, e := p.writeVarint32(int32(len(value)))""", """func (p *TCompactProtocol) WriteString(value string) error {
	_, e := p.writeVarint32(p.int32ToZigzag(int32(len(value))))""", expect="O5 wire-primitives")
M("c16-zigzag-shift-30", "C16", TH + "compact_protocol.go",
  "	return (n << 1) ^ (n >> 31)", "	return (n << 1) ^ (n >> 30)", expect="O6 zigzag")
M("c16-zigzag-dec-signed-shift", "C16", TH + "compact_protocol.go",
  """func (p *TCompactProtocol) zigzagToInt64(n int64) int64 {
	u := uint64(n)
	return int64(u>>1) ^ -(n & 1)""", """func (p *TCompactProtocol) zigzagToInt64(n int64) int64 {
	return (n >> 1) ^ -(n & 1)""", expect="O6 zigzag")
M("c16-varint-write-mask", "C16", TH + "compact_protocol.go",
  """			varint64out[idx] = byte((n & 0x7F) | 0x80)""", """			varint64out[idx] = byte((n & 0xFF) | 0x80)""", expect="O6 varint")
M("c16-varint-read-shift-8", "C16", TH + "compact_protocol.go",
  "		shift += 7", "		shift += 8", expect="O6 varint")
M("c16-varint-write-signed-shift", "C16", TH + "compact_protocol.go",
  """			u := uint32(n)
			n = int32(u >> 7)""", """			n = n >> 7""", expect="O6 varint")
M("c16-typecode-swap", "C16", TH + "compact_protocol.go",
  "		I32:    COMPACT_I32,\n		I64:    COMPACT_I64,", "		I32:    COMPACT_I64,\n		I64:    COMPACT_I32,", expect="O7 type-codes")
M("c16-typecode-reader-case", "C16", TH + "compact_protocol.go",
  "	case COMPACT_SET:\n		return SET, nil", "	case COMPACT_SET:\n		return LIST, nil", expect="O7 type-codes")
M("c16-writebinary-skips-payload", "C16", TH + "compact_protocol.go",
  """	if len(bin) > 0 {
		_, e = p.trans.Write(bin)
		return NewTProtocolException(e)
	}
	return nil""", """	if len(bin) > 1 {
		_, e = p.trans.Write(bin)
		return NewTProtocolException(e)
	}
	return nil""", expect="O8 payload-whole")
M("c16-binary-writestring-sliced", "C16", TH + "binary_protocol.go",
  "	_, err := p.trans.WriteString(value)\n	return NewTProtocolException(err)", "	_, err := p.trans.WriteString(value[:len(value)/2*2])\n	return NewTProtocolException(err)", expect="O8 payload-whole")
M("c16-read-transport-appends", "C16", "m3/customtransports/buffered_read_transport.go",
  "	p.readBuf = bytes.NewBuffer(buf)", "	p.readBuf.Write(buf)", expect="O8 read-transport")
B("c16-benign-read-transport-reset", "C16", "m3/customtransports/buffered_read_transport.go",
  "	p.readBuf = bytes.NewBuffer(buf)", "	p.readBuf.Reset()\n	p.readBuf.Write(buf)")
B("c16-benign-compact-string-bounded-copy", "C16", TH + "compact_protocol.go",
  """func (p *TCompactProtocol) WriteString(value string) error {
	_, e := p.writeVarint32(int32(len(value)))""", """func (p *TCompactProtocol) WriteString(value string) error {
	if n := binary.PutUvarint(p.buffer[:], uint64(len(value))); n+len(value) <= len(p.buffer) {
		copy(p.buffer[n:], value)
		_, e := p.trans.Write(p.buffer[:n+len(value)])
		return NewTProtocolException(e)
	}
	_, e := p.writeVarint32(int32(len(value)))""")
B("c16-benign-binary-i16-hoisted", "C16", TH + "binary_protocol.go",
  """	v := p.buffer[0:2]
	binary.BigEndian.PutUint16(v, uint16(value))
	_, e := p.writer.Write(v)""", """	order := binary.BigEndian
	v := p.buffer[:2]
	order.PutUint16(v, uint16(value))
	_, e := p.writer.Write(v)""")

# ---------------------------------------------------------------- rules added after round 2 of the seeded changes
M("c09-keybuf-global", "C09", "scope_registry.go",
  "	h.SetSeed(r.seed)\n	_, _ = h.Write(buf)", "	h.SetSeed(r.seed)\n	_, _ = h.Write(buf)\n	lastKeyBuf = buf",
  expect="O4 private-key-buffer", more=[("scope_registry.go", "type scopeRegistry struct {", "var lastKeyBuf []byte\n\ntype scopeRegistry struct {")])
M("c09-keybuf-from-field", "C09", "scope_registry.go",
  "		buf = keyForPrefixedStringMapsAsKey(make([]byte, 0, 256), prefix, parent.tags, tags)",
  "		buf = keyForPrefixedStringMapsAsKey(r.scratch[:0], prefix, parent.tags, tags)",
  expect="O4 private-key-buffer", more=[("scope_registry.go", "type scopeRegistry struct {", "type scopeRegistry struct {\n	scratch []byte")])
B("c09-benign-keybuf-array", "C09", "scope_registry.go",
  "		buf = keyForPrefixedStringMapsAsKey(make([]byte, 0, 256), prefix, parent.tags, tags)",
  "		stack [512]byte\n		buf   = keyForPrefixedStringMapsAsKey(stack[:0], prefix, parent.tags, tags)")
M("c09-loser-returns-own-counter", "C09", "scope.go",
  """	s.cm.Lock()
	defer s.cm.Unlock()

	if c, ok := s.counters[name]; ok {
		return c
	}

	var cachedCounter CachedCount
	if s.cachedReporter != nil {
		cachedCounter = s.cachedReporter.AllocateCounter(
			s.fullyQualifiedName(name),
			s.tags,
		)
	}

	c := newCounter(cachedCounter)
	s.counters[name] = c
	s.countersSlice = append(s.countersSlice, c)

	return c""", """	s.cm.Lock()
	defer s.cm.Unlock()

	var cachedCounter CachedCount
	_, ok := s.counters[name]
	if !ok && s.cachedReporter != nil {
		cachedCounter = s.cachedReporter.AllocateCounter(
			s.fullyQualifiedName(name),
			s.tags,
		)
	}

	c := newCounter(cachedCounter)
	if !ok {
		s.counters[name] = c
		s.countersSlice = append(s.countersSlice, c)
	}

	return c""", expect=":returned")
M("c09-lock-leak-on-hit", "C09", "scope.go",
  """	s.tm.Lock()
	defer s.tm.Unlock()

	if t, ok := s.timers[name]; ok {
		return t
	}
""", """	s.tm.Lock()

	if t, ok := s.timers[name]; ok {
		return t
	}
	defer s.tm.Unlock()
""", expect="O3 lock-pairing")
M("c14-flush-waits-on-channel", "C14", "m3/reporter.go",
  "	r.reportInternalMetrics()\n	r.metCh <- sizedMetric{}", "	r.reportInternalMetrics()\n	r.metCh <- sizedMetric{}\n	<-r.donech", expect="O1 no-foreign-wait")
M("c14-report-sleeps-in-flight", "C14", "m3/reporter.go",
  "	r.reportInternalMetrics()\n	r.metCh <- sizedMetric{}", "	r.reportInternalMetrics()\n	r.metCh <- sizedMetric{}\n	r.wg.Wait()", expect="O1 no-foreign-wait")
M("c05-root-in-first-shard-only", "C05", "scope_registry.go",
  "		r.subscopes[i].s[scopeRegistryKey(root.prefix, root.tags)] = root\n	}", "	}\n	r.subscopes[0].s[scopeRegistryKey(root.prefix, root.tags)] = root", expect="O1 root-in-every-shard")
M("c11-root-in-even-shards", "C11", "scope_registry.go",
  "		r.subscopes[i].s[scopeRegistryKey(root.prefix, root.tags)] = root\n	}", "		if i%2 == 0 {\n			r.subscopes[i].s[scopeRegistryKey(root.prefix, root.tags)] = root\n		}\n	}", expect="O1 root-in-every-shard")
B("c05-benign-root-bucket-local", "C05", "scope_registry.go",
  """		r.subscopes[i] = &scopeBucket{
			s: make(map[string]*scope),
		}
		r.subscopes[i].s[scopeRegistryKey(root.prefix, root.tags)] = root""", """		b := &scopeBucket{
			s: make(map[string]*scope),
		}
		b.s[scopeRegistryKey(root.prefix, root.tags)] = root
		r.subscopes[i] = b""")
M("c15-multi-close-drops-list", "C15", "m3/thriftudp/multitransport.go",
  """	for _, trans := range p.transports {
		if err := trans.Close(); err != nil {
			return err
		}
	}
	return nil""", """	for _, trans := range p.transports {
		if err := trans.Close(); err != nil {
			return err
		}
	}
	p.transports = p.transports[:0]
	return nil""", expect="O5 fixed-destinations")
M("c19-report-timer-early-return", "C19", "multi/reporter.go",
  """func (m multiMetric) ReportTimer(interval time.Duration) {
""", """func (m multiMetric) ReportTimer(interval time.Duration) {
	if interval == 0 {
		return
	}
""", expect="O1 forwarder")
M("c19-children-reassigned", "C19", "multi/reporter.go",
  """func (r *multi) Flush() {
""", """func (r *multi) Flush() {
	r.reporters = r.reporters[:len(r.reporters):len(r.reporters)]
""", expect="O1 fixed-children")
M("c17-timer-seconds-method", "C17", "prometheus/reporter.go",
  "	m.histogram.Observe(float64(interval) / float64(time.Second))", "	m.histogram.Observe(interval.Seconds())", expect="O4 observe-seconds")
M("c17-typed-nil-handle", "C17", "prometheus/reporter.go",
  """	if err != nil {
		r.onRegisterError(err)
		return noopMetric{}
	}
	return &cachedMetric{counter: counterVec.With(tags)}""", """	var m *cachedMetric
	if err != nil {
		r.onRegisterError(err)
	} else {
		m = &cachedMetric{counter: counterVec.With(tags)}
	}
	return m""", expect="O2 allocator")

M("c16-binary-fieldbegin-i32-id", "C16", TH + "binary_protocol.go",
  "	e = p.WriteI16(id)\n	return e", "	e = p.WriteI32(int32(id))\n	return e", expect="O5 header-sequences")
M("c16-binary-listbegin-order", "C16", TH + "binary_protocol.go",
  """func (p *TBinaryProtocol) ReadListBegin() (elemType TType, size int, err error) {
	b, e := p.ReadByte()
	if e != nil {
		err = NewTProtocolException(e)
		return
	}
	elemType = TType(b)
	size32, e := p.ReadI32()
	if e != nil {
		err = NewTProtocolException(e)
		return
	}""", """func (p *TBinaryProtocol) ReadListBegin() (elemType TType, size int, err error) {
	size32, e := p.ReadI32()
	if e != nil {
		err = NewTProtocolException(e)
		return
	}
	b, e := p.ReadByte()
	if e != nil {
		err = NewTProtocolException(e)
		return
	}
	elemType = TType(b)""", expect="O5 header-sequences")
M("c16-compact-message-no-seq", "C16", TH + "compact_protocol.go",
  """	_, err = p.writeVarint32(seqid)
	if err != nil {
		return NewTProtocolException(err)
	}
	e := p.WriteString(name)""", """	e := p.WriteString(name)""", expect="O5 header-sequences")
M("c16-compact-collection-threshold", "C16", TH + "compact_protocol.go",
  "	if size <= 14 {", "	if size <= 15 {", expect="O6 compact-headers")
M("c16-compact-field-delta-shift", "C16", TH + "compact_protocol.go",
  "		err := p.writeByteDirect(byte((fieldId-p.lastFieldId)<<4) | typeToWrite)", "		err := p.writeByteDirect(byte((fieldId-p.lastFieldId)<<3) | typeToWrite)", expect="O6 compact-headers")
M("c16-compact-structend-no-pop", "C16", TH + "compact_protocol.go",
  """func (p *TCompactProtocol) WriteStructEnd() error {
	p.lastFieldId = p.lastField[len(p.lastField)-1]
	p.lastField = p.lastField[:len(p.lastField)-1]""", """func (p *TCompactProtocol) WriteStructEnd() error {
	p.lastFieldId = p.lastField[len(p.lastField)-1]""", expect="O6 compact-headers")
M("c16-compact-read-field-no-lastid", "C16", TH + "compact_protocol.go",
  "	// push the new field onto the field stack so we can keep the deltas going.\n	p.lastFieldId = int(id)\n", "", expect="O6 compact-headers")

# ---------------------------------------------------------------- found by the systematic mutation sweep (tools/mutation_sweep.py)
M("c07-identity-check-inverted", "C07", "scope_registry.go",
  "	if curr, ok := subscopeBucket.s[key]; ok && curr == s {", "	if curr, ok := subscopeBucket.s[key]; ok && curr != s {", expect="O3 lock-gap")
M("c07-closed-scope-never-dropped", "C07", "scope_registry.go",
  """	if curr, ok := subscopeBucket.s[key]; ok && curr == s {
		delete(subscopeBucket.s, key)
	}""", """	if curr, ok := subscopeBucket.s[key]; ok && curr == s {
		_ = curr
	}""", expect="dropped-after-report")
M("c03-single-bucket-spec-replaced-by-defaults", "C03", "scope.go",
  "	if b == nil {\n		b = s.defaultBuckets\n	}", "	if b == nil || b.Len() < 2 {\n		b = s.defaultBuckets\n	}", expect="")
M("c03-scope-defaults-replace-single-bucket", "C03", "scope.go",
  "	if opts.DefaultBuckets == nil || opts.DefaultBuckets.Len() < 1 {", "	if opts.DefaultBuckets == nil || opts.DefaultBuckets.Len() <= 1 {", expect="")
M("c03-scope-defaults-dropped", "C03", "scope.go",
  "		opts.DefaultBuckets = defaultScopeBuckets\n", "", expect="")
M("c15-multi-close-stops-after-first-success", "C15", "m3/thriftudp/multitransport.go",
  "		if err := trans.Close(); err != nil {", "		if err := trans.Close(); err == nil {", expect="O5 fan-out")
M("c15-multi-flush-stops-after-first-success", "C15", "m3/thriftudp/multitransport.go",
  "		if err := trans.Flush(); err != nil && firstErr == nil {\n			firstErr = err\n		}", "		if err := trans.Flush(); err == nil {\n			return nil\n		} else if firstErr == nil {\n			firstErr = err\n		}", expect="O5 fan-out")
M("c03-bucketpairs-single-bound-ignored", "C03", "histogram.go",
  "	if buckets == nil || buckets.Len() < 1 {\n		return []BucketPair{_singleBucket}", "	if buckets == nil || buckets.Len() <= 1 {\n		return []BucketPair{_singleBucket}", expect="pairs-default")
M("c03-bucketpairs-empty-spec-panics", "C03", "histogram.go",
  "	if buckets == nil || buckets.Len() < 1 {\n		return []BucketPair{_singleBucket}", "	if buckets == nil {\n		return []BucketPair{_singleBucket}", expect="pairs-default")
M("c06-buffer-reset-after-put", "C06", "sanitize.go",
  "	b.Reset()\n	_sanitizeBuffers.Put(b)", "	_sanitizeBuffers.Put(b)\n	b.Reset()", expect="O4 pooled-buffer")
M("c13-tagsequal-and", "C13", "m3/reporter.go",
  "		if v, ok := tags[tag.Name]; !ok || v != tag.Value {", "		if v, ok := tags[tag.Name]; !ok && v != tag.Value {", expect="cache-hit-equality")
M("c13-tagsequal-inverted-value", "C13", "m3/reporter.go",
  "		if v, ok := tags[tag.Name]; !ok || v != tag.Value {", "		if v, ok := tags[tag.Name]; !ok || v == tag.Value {", expect="cache-hit-equality")
M("c14-dec-not-deferred", "C14", "m3/reporter.go",
  "	r.pending.Inc()\n	defer r.pending.Dec()\n\n	if r.done.Load() {\n		return\n	}\n\n	m.Timestamp", "	r.pending.Inc()\n	r.pending.Dec()\n\n	if r.done.Load() {\n		return\n	}\n\n	m.Timestamp", expect="O1 enter-protocol")
M("c13-borrowed-tags-not-truncated", "C13", "m3/reporter.go",
  "				borrowedTags = borrowedTags[:0]\n", "", expect="borrowed")
M("c13-clock-never-refreshed", "C13", "m3/reporter.go",
  "	for !r.done.Load() {\n		r.now.Store(time.Now().UnixNano())", "	for !r.done.Load() {", expect="clock")
M("c13-ticker-stopped-at-once", "C13", "m3/reporter.go",
  "	defer t.Stop()\n	for !r.done.Load() {", "	t.Stop()\n	for !r.done.Load() {", expect="clock")
M("c13-timeloop-not-started", "C13", "m3/reporter.go",
  "		defer r.wg.Done()\n		r.timeLoop()", "		defer r.wg.Done()", expect="clock")
M("c13-ndigits-from-zero", "C13", "m3/reporter.go",
  "	n := 1\n	for i/10 != 0 {", "	n := 0\n	for i/10 != 0 {", expect="bucket-identity")
M("c13-m3-renderer-inverted", "C13", "m3/reporter.go",
  "	if v == -math.MaxFloat64 {", "	if v != -math.MaxFloat64 {", expect="")
M("c15-deadline-in-constructor", "C15", "m3/thriftudp/transport.go",
  '	"net"\n', '	"net"\n	"time"\n', expect="O9 no-standing-deadline",
  more=[("m3/thriftudp/transport.go", "	return &TUDPTransport{\n		addr:        destAddr,\n		conn:        conn,\n		readByteBuf: make([]byte, 1),\n	}, nil\n}\n\n// NewTUDPServerTransport creates",
         "	_ = conn.SetWriteDeadline(time.Now().Add(5 * time.Second))\n	return &TUDPTransport{\n		addr:        destAddr,\n		conn:        conn,\n		readByteBuf: make([]byte, 1),\n	}, nil\n}\n\n// NewTUDPServerTransport creates")])
B("c15-deadline-per-send", "C15", "m3/thriftudp/transport.go",
  '	"net"\n', '	"net"\n	"time"\n',
  more=[("m3/thriftudp/transport.go", "	_, err := p.conn.Write(p.writeBuf.Bytes())\n	p.writeBuf.Reset() // always",
         "	_ = p.conn.SetWriteDeadline(time.Now().Add(5 * time.Second))\n	_, err := p.conn.Write(p.writeBuf.Bytes())\n	p.writeBuf.Reset() // always")])
M("c15-flush-on-error-path", "C15", "m3/reporter.go",
  "	if err != nil {\n		r.numWriteErrors.Inc()\n	}", "	if err != nil {\n		r.numWriteErrors.Inc()\n		_ = r.client.Transport.Flush()\n	}", expect="O8 flush-completes-message")
M("c17-vector-id-colon", "C17", "prometheus/reporter.go",
  "	return metricID(tally.KeyForPrefixedStringMap(name, keySet))", "	if len(tagKeys) == 0 {\n		return metricID(name)\n	}\n	return metricID(name + \":\" + strings.Join(tagKeys, \":\"))", expect="O6 vector-identity")
M("c17-vector-id-skips-keys", "C17", "prometheus/reporter.go",
  "	for _, key := range tagKeys {\n		keySet[key] = metricIDKeyValue\n	}", "	for i, key := range tagKeys {\n		if i > 0 {\n			break\n		}\n		keySet[key] = metricIDKeyValue\n	}", expect="O6 vector-identity")
M("c20-bound-table-reused", "C20", "stats.go",
  "			hbuckets: make([]histogramBucket, 0, len(pairs)),", "			hbuckets: scratchBuckets[:0],", expect="O6 bound-table-private",
  more=[("stats.go", "func newBucketStorage(", "var scratchBuckets = make([]histogramBucket, 0, 64)\n\nfunc newBucketStorage(")])
M("c13-borrowed-tags-not-emptied", "C13", "m3/reporter.go",
  "					extraTags.Put(borrowedTags[i][:0])", "					extraTags.Put(borrowedTags[i][:1])", expect="borrowed")
M("c17-default-registerer-dropped", "C17", "prometheus/reporter.go",
  "	if opts.Registerer == nil {\n		opts.Registerer = prom.DefaultRegisterer\n	} else {", "	if opts.Registerer == nil {\n	} else {", expect="O7 collaborators")
M("c17-gatherer-typed-nil", "C17", "prometheus/reporter.go",
  "ok && opts.Gatherer == nil {", "ok || opts.Gatherer == nil {", expect="O7 collaborators")
M("c16-readstring-aliases-buffer", "C16", "thirdparty/github.com/apache/thrift/lib/go/thrift/compact_protocol.go",
  "	return string(buf), NewTProtocolException(e)", "	return *(*string)(unsafe.Pointer(&buf)), NewTProtocolException(e)", expect="O8 decoded-payload-owned",
  more=[("thirdparty/github.com/apache/thrift/lib/go/thrift/compact_protocol.go", '	"math"\n', '	"math"\n	"unsafe"\n')])
M("c15-multi-flush-returns-at-first-error", "C15", "m3/thriftudp/multitransport.go",
  "		if err := trans.Flush(); err != nil && firstErr == nil {\n			firstErr = err\n		}", "		if err := trans.Flush(); err != nil {\n			return err\n		}", expect="O5 fan-out")
M("c15-multi-flush-last-result-wins", "C15", "m3/thriftudp/multitransport.go",
  "		if err := trans.Flush(); err != nil && firstErr == nil {\n			firstErr = err\n		}", "		firstErr = trans.Flush()", expect="O5 fan-out")
M("c15-multi-flush-error-swallowed", "C15", "m3/thriftudp/multitransport.go",
  "		if err := trans.Flush(); err != nil && firstErr == nil {\n			firstErr = err\n		}", "		_ = trans.Flush()", expect="O5 fan-out")
M("c06-empty-allowlist-passthrough", "C06", "sanitize.go",
  "func (c *ValidCharacters) sanitizeFn(repChar rune) SanitizeFn {\n", "func (c *ValidCharacters) sanitizeFn(repChar rune) SanitizeFn {\n	if len(c.Ranges) == 0 && len(c.Characters) == 0 {\n		return NoOpSanitizeFn\n	}\n", expect="O3 sanitizer-table")
M("c19-empty-multi-is-null-reporter", "C19", "multi/reporter.go",
  "func NewMultiReporter(\n	r ...tally.StatsReporter,\n) tally.StatsReporter {\n", "func NewMultiReporter(\n	r ...tally.StatsReporter,\n) tally.StatsReporter {\n	if len(r) == 0 {\n		return tally.NullStatsReporter\n	}\n", expect="O1 constructor")
M("c17-overflow-bucket-at-lower-bound", "C17", "prometheus/reporter.go",
  "	return cachedHistogramBucket{m, bucketUpperBound}", "	if bucketUpperBound > 1e300 {\n		return cachedHistogramBucket{m, bucketLowerBound}\n	}\n	return cachedHistogramBucket{m, bucketUpperBound}", expect="O4 bucket-bound")
M("c15-write-adopts-caller-slice", "C15", "m3/thriftudp/transport.go",
  "	n, err := p.writeBuf.Write(buf)", "	if p.writeBuf.Len() == 0 && len(buf) >= 4096 {\n		p.writeBuf = *bytes.NewBuffer(buf)\n		return len(buf), nil\n	}\n	n, err := p.writeBuf.Write(buf)", expect="O2 own-buffer")
M("c03-report-only-first-64-buckets", "C03", "stats.go",
  "func (h *histogram) cachedReport() {\n", "func (h *histogram) cachedReport() {\n	if len(h.buckets) > 64 {\n		return\n	}\n", expect="bucket-coverage")
M("c02-registry-pass-trylock", "C02", "scope_registry.go",
  "func (r *scopeRegistry) CachedReport() {\n", "func (r *scopeRegistry) CachedReport() {\n	if !reportGate.TryLock() {\n		return\n	}\n	defer reportGate.Unlock()\n", expect="O5 registry-coverage",
  more=[("scope_registry.go", "func (r *scopeRegistry) CachedReport() {", "var reportGate sync.Mutex\n\nfunc (r *scopeRegistry) CachedReport() {")])
M("c16-read-struct-begin-inverted", "C16", "m3/thrift/v2/ttypes.go",
  "func (p *MetricTag) Read(iprot thrift.TProtocol) error {\n	if _, err := iprot.ReadStructBegin(); err != nil {", "func (p *MetricTag) Read(iprot thrift.TProtocol) error {\n	if _, err := iprot.ReadStructBegin(); err == nil {", expect="O1 error-discipline")
M("c16-write-error-dropped", "C16", "m3/thrift/v2/ttypes.go",
  "	if err := oprot.WriteString(string(p.Value)); err != nil {\n		return thrift.PrependError(fmt.Sprintf(\"%T.value (2) field write error: \", p), err)\n	}", "	_ = oprot.WriteString(string(p.Value))", expect="O1")
M("c16-args-read-error-swallowed", "C16", "m3/thrift/v2/m3.go",
  "func (p *M3EmitMetricBatchV2Args) Read(iprot thrift.TProtocol) error {\n	if _, err := iprot.ReadStructBegin(); err != nil {\n		return thrift.PrependError(", "func (p *M3EmitMetricBatchV2Args) Read(iprot thrift.TProtocol) error {\n	if _, err := iprot.ReadStructBegin(); err != nil {\n		return nil\n		return thrift.PrependError(", expect="O1 error-discipline")
M("c16-message-type-shift", "C16", "thirdparty/github.com/apache/thrift/lib/go/thrift/compact_protocol.go",
  "((byte(typeId) << COMPACT_TYPE_SHIFT_AMOUNT) & COMPACT_TYPE_MASK)", "((byte(typeId) >> COMPACT_TYPE_SHIFT_AMOUNT) & COMPACT_TYPE_MASK)", expect="O6 compact-headers")
M("c16-message-version-or", "C16", "thirdparty/github.com/apache/thrift/lib/go/thrift/compact_protocol.go",
  "(COMPACT_VERSION & COMPACT_VERSION_MASK) | ((byte(typeId)", "(COMPACT_VERSION | COMPACT_VERSION_MASK) | ((byte(typeId)", expect="O6 compact-headers")
M("c15-close-pushes-buffer", "C15", "m3/thriftudp/transport.go",
  "	if closed := p.closed.Swap(true); !closed {\n		return p.conn.Close()", "	if closed := p.closed.Swap(true); !closed {\n		if p.writeBuf.Len() > 0 {\n			_, _ = p.conn.Write(p.writeBuf.Bytes())\n			p.writeBuf.Reset()\n		}\n		return p.conn.Close()", expect="O3 socket-writer")
M("c17-reporter-close-unregisters", "C17", "prometheus/reporter.go",
  "func (r *reporter) Flush() {}", "func (r *reporter) Flush() {}\n\n// Close unregisters the collectors.\nfunc (r *reporter) Close() error {\n	r.Lock()\n	defer r.Unlock()\n	for _, c := range r.counters {\n		r.registerer.Unregister(c)\n	}\n	return nil\n}", expect="O9 series-stay-registered")
M("c14-flush-marker-in-goroutine", "C14", "m3/reporter.go",
  "	r.reportInternalMetrics()\n	r.metCh <- sizedMetric{}\n}", "	r.reportInternalMetrics()\n	select {\n	case r.metCh <- sizedMetric{}:\n	default:\n		go func() {\n			select {\n			case r.metCh <- sizedMetric{}:\n			case <-r.donech:\n			}\n		}()\n	}\n}", expect="O3 goroutines")
M("c05-root-tags-after-registry", "C05", "scope.go",
  "	s.tags = s.copyAndSanitizeMap(opts.Tags)\n", "", expect="O1 root-identity-first",
  more=[("scope.go", "	s.registry = newScopeRegistryWithShardCount(s, opts.registryShardCount, opts.OmitCardinalityMetrics, opts.CardinalityMetricsTags)\n", "	s.registry = newScopeRegistryWithShardCount(s, opts.registryShardCount, opts.OmitCardinalityMetrics, opts.CardinalityMetricsTags)\n	s.tags = s.copyAndSanitizeMap(opts.Tags)\n")])
M("c12-buckets-share-template", "C12", "m3/reporter.go",
  "	for i, pair := range tally.BucketPairs(buckets) {\n		var (\n			counter = r.allocateCounter(name, nil)\n			hbucket = cachedHistogramBucket{", "	counter := r.allocateCounter(name, nil)\n	for i, pair := range tally.BucketPairs(buckets) {\n		var (\n			hbucket = cachedHistogramBucket{", expect="O4b bucket-own-template")
M("c16-binary-empty-list-rejected", "C16", "thirdparty/github.com/apache/thrift/lib/go/thrift/binary_protocol.go",
  "func (p *TBinaryProtocol) ReadListBegin() (elemType TType, size int, err error) {\n	b, e := p.ReadByte()\n	if e != nil {\n		err = NewTProtocolException(e)\n		return\n	}\n	elemType = TType(b)\n	size32, e := p.ReadI32()\n	if e != nil {\n		err = NewTProtocolException(e)\n		return\n	}\n	if size32 < 0 {", "func (p *TBinaryProtocol) ReadListBegin() (elemType TType, size int, err error) {\n	b, e := p.ReadByte()\n	if e != nil {\n		err = NewTProtocolException(e)\n		return\n	}\n	elemType = TType(b)\n	size32, e := p.ReadI32()\n	if e != nil {\n		err = NewTProtocolException(e)\n		return\n	}\n	if size32 <= 0 {", expect="O8 size-guards")
M("c10-timer-alloc-panic-swallowed", "C10", "scope.go",
  "		cachedTimer = s.cachedReporter.AllocateTimer(\n			s.fullyQualifiedName(name), s.tags,\n		)", "		func() {\n			defer func() { _ = recover() }()\n			cachedTimer = s.cachedReporter.AllocateTimer(\n				s.fullyQualifiedName(name), s.tags,\n			)\n		}()", expect="O8 no-swallowed-panic")

# ---------------------------------------------------------------- function literals in the lock engine (round 8)
B("c09-benign-deferred-literal-unlock", "C09", "scope.go",
  """	s.cm.Lock()
	defer s.cm.Unlock()

	if c, ok := s.counters[name]; ok {""", """	s.cm.Lock()
	defer func() { s.cm.Unlock() }()

	if c, ok := s.counters[name]; ok {""")
M("c09-deferred-literal-conditional-unlock", "C09", "scope.go",
  """	s.cm.Lock()
	defer s.cm.Unlock()

	if c, ok := s.counters[name]; ok {""", """	s.cm.Lock()
	defer func() {
		if name != "" {
			s.cm.Unlock()
		}
	}()

	if c, ok := s.counters[name]; ok {""", expect="lock-pairing")
B("c07-benign-literal-section", "C07", "scope_registry.go",
  """		subscopeBucket.mu.RLock()
		for _, s := range subscopeBucket.s {
			f(s)
		}
		subscopeBucket.mu.RUnlock()""", """		func() {
			subscopeBucket.mu.RLock()
			defer subscopeBucket.mu.RUnlock()
			for _, s := range subscopeBucket.s {
				f(s)
			}
		}()""")
B("c11-benign-literal-section", "C11", "scope_registry.go",
  """		subscopeBucket.mu.RLock()
		for _, s := range subscopeBucket.s {
			f(s)
		}
		subscopeBucket.mu.RUnlock()""", """		func() {
			subscopeBucket.mu.RLock()
			defer subscopeBucket.mu.RUnlock()
			for _, s := range subscopeBucket.s {
				f(s)
			}
		}()""")
M("c11-walk-second-list", "C11", "scope_registry.go",
  """		for _, s := range subscopeBucket.s {
			f(s)
		}
		subscopeBucket.mu.RUnlock()""", """		for _, s := range subscopeBucket.s {
			if s != r.root {
				continue
			}
			f(r.root)
		}
		subscopeBucket.mu.RUnlock()""", expect="visits-registered-scopes")
_FOREACH_OLD = """func (r *scopeRegistry) ForEachScope(f func(*scope)) {
	for _, subscopeBucket := range r.subscopes {
		subscopeBucket.mu.RLock()
		for _, s := range subscopeBucket.s {
			f(s)
		}
		subscopeBucket.mu.RUnlock()
	}
}"""
B("c07-benign-lock-every-shard", "C07", "scope_registry.go", _FOREACH_OLD, """func (r *scopeRegistry) ForEachScope(f func(*scope)) {
	for _, subscopeBucket := range r.subscopes {
		subscopeBucket.mu.RLock()
	}
	defer func() {
		for _, subscopeBucket := range r.subscopes {
			subscopeBucket.mu.RUnlock()
		}
	}()
	for _, subscopeBucket := range r.subscopes {
		for _, s := range subscopeBucket.s {
			f(s)
		}
	}
}""")
B("c09-benign-lock-every-shard", "C09", "scope_registry.go", _FOREACH_OLD, """func (r *scopeRegistry) ForEachScope(f func(*scope)) {
	for _, subscopeBucket := range r.subscopes {
		subscopeBucket.mu.RLock()
	}
	for _, subscopeBucket := range r.subscopes {
		for _, s := range subscopeBucket.s {
			f(s)
		}
	}
	for _, subscopeBucket := range r.subscopes {
		subscopeBucket.mu.RUnlock()
	}
}""")
M("c09-lock-every-shard-never-unlocked", "C09", "scope_registry.go", _FOREACH_OLD, """func (r *scopeRegistry) ForEachScope(f func(*scope)) {
	for _, subscopeBucket := range r.subscopes {
		subscopeBucket.mu.RLock()
	}
	for _, subscopeBucket := range r.subscopes {
		for _, s := range subscopeBucket.s {
			f(s)
		}
	}
}""", expect="lock-pairing")
M("c09-unlock-every-shard-unheld", "C09", "scope_registry.go", _FOREACH_OLD, """func (r *scopeRegistry) ForEachScope(f func(*scope)) {
	for _, subscopeBucket := range r.subscopes {
		subscopeBucket.mu.RLock()
		for _, s := range subscopeBucket.s {
			f(s)
		}
		subscopeBucket.mu.RUnlock()
	}
	for _, subscopeBucket := range r.subscopes {
		subscopeBucket.mu.RUnlock()
	}
}""", expect="lock-pairing")
