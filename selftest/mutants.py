"""Semantic mutants and behaviour-preserving variants of /repo for the tallycheck self-test.

Edits are exact string replacements located by content.  `expect` is a substring of the
VIOLATION/UNDECIDED obligation line that must report the mutant (rule name or construct key).
"""

MUTANTS = []


def M(name, prop, file, old, new, expect="", kind="mutant", count=1, more=None):
    edits = [{"file": file, "old": old, "new": new, "count": count}]
    for (f, o, n) in (more or []):
        edits.append({"file": f, "old": o, "new": n, "count": 1})
    MUTANTS.append({"name": name, "prop": prop, "kind": kind, "expect": expect, "edits": edits})


def B(name, prop, file, old, new, count=1, more=None):
    M(name, prop, file, old, new, kind="benign", count=count, more=more)


# ---------------------------------------------------------------- C02 gauge
M("c02-swap-stores", "C02", "stats.go",
  """	atomic.StoreUint64(&g.curr, math.Float64bits(v))
	atomic.StoreUint64(&g.updated, 1)
""", """	atomic.StoreUint64(&g.updated, 1)
	atomic.StoreUint64(&g.curr, math.Float64bits(v))
""", expect="O2 update-order")
M("c02-load-then-store", "C02", "stats.go",
  """	if atomic.SwapUint64(&g.updated, 0) == 1 {
		r.ReportGauge(name, tags, g.value())
	}""", """	if atomic.LoadUint64(&g.updated) == 1 {
		atomic.StoreUint64(&g.updated, 0)
		r.ReportGauge(name, tags, g.value())
	}""", expect="O4 flag-writers")
M("c02-value-before-swap", "C02", "stats.go",
  """	if atomic.SwapUint64(&g.updated, 0) == 1 {
		g.cachedGauge.ReportGauge(g.value())
	}""", """	v := g.value()
	if atomic.SwapUint64(&g.updated, 0) == 1 {
		g.cachedGauge.ReportGauge(v)
	}""", expect="O2 delivery")
M("c02-no-flag-test", "C02", "stats.go",
  """	if atomic.SwapUint64(&g.updated, 0) == 1 {
		g.cachedGauge.ReportGauge(g.value())
	}""", """	atomic.SwapUint64(&g.updated, 0)
	g.cachedGauge.ReportGauge(g.value())
""", expect="O2 delivery")
M("c02-unconditional-delivery", "C02", "stats.go",
  """	if atomic.SwapUint64(&g.updated, 0) == 1 {
		r.ReportGauge(name, tags, g.value())
	}""", """	r.ReportGauge(name, tags, g.value())""", expect="O2 delivery")
M("c02-float-arith", "C02", "stats.go",
  """		r.ReportGauge(name, tags, g.value())""", """		r.ReportGauge(name, tags, g.value()+0)""", expect="O3 bit-exact")
M("c02-update-no-flag", "C02", "stats.go",
  """	atomic.StoreUint64(&g.updated, 1)
""", """""", expect="O2 update-order")
M("c02-inverted-test", "C02", "stats.go",
  """	if atomic.SwapUint64(&g.updated, 0) == 1 {
		g.cachedGauge.ReportGauge(g.value())
	}""", """	if atomic.SwapUint64(&g.updated, 0) != 1 {
		g.cachedGauge.ReportGauge(g.value())
	}""", expect="O2 delivery")
M("c02-pass-skips-gauges", "C02", "scope.go",
  """	for _, gauge := range s.gaugesSlice {
		gauge.cachedReport()
	}""", """	for _, gauge := range s.gaugesSlice[1:] {
		gauge.cachedReport()
	}""", expect="O5 pass-coverage")
M("c02-pass-breaks", "C02", "scope.go",
  """	for name, gauge := range s.gauges {
		gauge.report(s.fullyQualifiedName(name), s.tags, r)
	}""", """	for name, gauge := range s.gauges {
		gauge.report(s.fullyQualifiedName(name), s.tags, r)
		if len(name) == 0 {
			break
		}
	}""", expect="O5 pass-coverage")
B("c02-benign-cas", "C02", "stats.go",
  """	if atomic.SwapUint64(&g.updated, 0) == 1 {
		g.cachedGauge.ReportGauge(g.value())
	}""", """	if atomic.CompareAndSwapUint64(&g.updated, 1, 0) {
		g.cachedGauge.ReportGauge(g.value())
	}""")
B("c02-benign-neq0-inline", "C02", "stats.go",
  """	if atomic.SwapUint64(&g.updated, 0) == 1 {
		r.ReportGauge(name, tags, g.value())
	}""", """	old := atomic.SwapUint64(&g.updated, 0)
	if old != 0 {
		bits := atomic.LoadUint64(&g.curr)
		r.ReportGauge(name, tags, math.Float64frombits(bits))
	}""")
B("c02-benign-early-return", "C02", "stats.go",
  """	if atomic.SwapUint64(&g.updated, 0) == 1 {
		g.cachedGauge.ReportGauge(g.value())
	}""", """	if atomic.SwapUint64(&g.updated, 0) == 0 {
		return
	}
	g.cachedGauge.ReportGauge(g.value())""")
