#!/bin/sh
# builds /verif/bin/tallycheck from /verif/tallycheck (offline; module cache only)
cd "$(dirname "$0")" || exit 2
export GOFLAGS=-mod=mod GOPROXY=off GOSUMDB=off GOTOOLCHAIN=local GOWORK=off
mkdir -p bin evidence
if [ -x bin/tallycheck ]; then
  newer=$(find tallycheck -name '*.go' -newer bin/tallycheck -o -name 'go.*' -newer bin/tallycheck -o -name '*.txt' -newer bin/tallycheck | head -1)
  [ -z "$newer" ] && exit 0
fi
(cd tallycheck && go build -o ../bin/tallycheck .) || exit 2
echo "built bin/tallycheck"
