#!/bin/sh
# validates MANIFEST.json and every evidence file against the schemas
cd "$(dirname "$0")/.." || exit 2
python3-vt - <<'PY'
import json, glob, jsonschema, sys
m = json.load(open("MANIFEST.json")); jsonschema.validate(m, json.load(open("/root/.vp/MANIFEST.schema.json")))
es = json.load(open("/root/.vp/EVIDENCE.schema.json"))
bad = 0
for c in m["checks"]:
    f = c["evidence_file"]
    try:
        jsonschema.validate(json.load(open(f)), es)
    except Exception as e:
        bad += 1; print("INVALID", f, str(e)[:200])
print("manifest ok; evidence files checked:", len(m["checks"]), "invalid:", bad)
sys.exit(1 if bad else 0)
PY
