#!/usr/bin/env python3
"""Confirms a seeded change produced by an independent sub-agent and runs the property's check
against it.

usage: eval_seed.py <ID> <X> [--keep]      (reads /tmp/seed/<ID>/_seed/<X>/)

Steps (all inside the scratch worktree /tmp/seed/<ID>, never in /repo):
  1. patch applies to a clean checkout; `go build ./...` and the whole suite pass with it;
  2. the demonstration FAILS with the change and PASSES without it;
  3. `tallycheck -repo <worktree> -prop <ID>` with the change applied: which obligations report it.
With --keep the confirmed change is stored as /verif/seeded/<ID>-<X>/ (patch.diff, demo, meta.json).
"""
import json, os, re, shutil, subprocess, sys

ENV = dict(os.environ, GOFLAGS="-mod=mod", GOPROXY="off", GOSUMDB="off", GOTOOLCHAIN="local", GOWORK="off")
VERIF = os.path.dirname(os.path.dirname(os.path.abspath(__file__)))


def sh(cmd, cwd, timeout=600):
    try:
        r = subprocess.run(cmd, cwd=cwd, env=ENV, capture_output=True, text=True, timeout=timeout)
        return r.returncode, (r.stdout + r.stderr)
    except subprocess.TimeoutExpired as e:
        return 124, "TIMEOUT " + str(e)


def main():
    pid, x = sys.argv[1], sys.argv[2]
    keep = "--keep" in sys.argv
    props = sys.argv[sys.argv.index("--props") + 1].split(",") if "--props" in sys.argv else [pid]
    wt = "/tmp/seed/%s" % pid
    sd = os.path.join(wt, "_seed", x)
    patch = os.path.join(sd, "patch.diff")
    where = open(os.path.join(sd, "where.txt")).read().strip().splitlines()[0].strip().strip("`") if os.path.exists(os.path.join(sd, "where.txt")) else "."
    where = where.rstrip("/") or "."
    demos = [f for f in os.listdir(sd) if f.endswith(".go")]
    res = {"id": pid, "variant": x, "where": where, "demo_files": demos}
    sh(["git", "checkout", "--", "."], wt)
    sh(["git", "clean", "-fdq", "-e", "_seed"], wt)

    def run_demo():
        names = []
        for f in demos:
            shutil.copy(os.path.join(sd, f), os.path.join(wt, where, f))
            names += re.findall(r"^func (Test\w+)\(", open(os.path.join(sd, f)).read(), re.M)
        if names:
            rc, out = sh(["go", "test", "-count=1", "-timeout", "120s", "-run", "^(" + "|".join(names) + ")$", "./" + where], wt, 200)
        else:
            rc, out = sh(["go", "run", "./" + where], wt, 200)
        for f in demos:
            os.remove(os.path.join(wt, where, f))
        return rc, out

    # without the change
    rc0, out0 = run_demo()
    res["demo_without_change"] = "pass" if rc0 == 0 else "FAIL rc=%d" % rc0
    # with the change
    rc, out = sh(["git", "apply", patch], wt)
    if rc != 0:
        res["error"] = "patch does not apply: " + out[:300]
        print(json.dumps(res, indent=1)); return 1
    rcb, outb = sh(["go", "build", "./..."], wt)
    res["build_with_change"] = "ok" if rcb == 0 else "FAIL " + outb[:300]
    rcs, outs = sh(["go", "test", "-count=1", "./..."], wt, 900)
    if rcs != 0:
        fails = [l for l in outs.splitlines() if l.startswith("--- FAIL")]
        if fails and all("TestVerifyCachedTaggedScopesAlloc" in l for l in fails):
            # allocation-counting test, flaky under machine load: re-run the root package alone
            for _ in range(3):
                rcs, outs = sh(["go", "test", "-count=1", "."], wt, 900)
                if rcs == 0:
                    res["suite_note"] = "TestVerifyCachedTaggedScopesAlloc failed under load in the full run; root package re-run alone passes"
                    break
    res["suite_with_change"] = "pass" if rcs == 0 else "FAIL " + "\n".join(l for l in outs.splitlines() if "FAIL" in l or "panic" in l)[:600]
    rc1, out1 = run_demo()
    res["demo_with_change"] = "fail (as intended)" if rc1 != 0 else "PASSES (demo does not show the change)"
    res["demo_failure_excerpt"] = "\n".join([l for l in out1.splitlines() if "---" in l or "Error" in l or "panic" in l or "want" in l][:8])
    # the checks
    res["checks"] = {}
    for p in props:
        r = subprocess.run([os.path.join(VERIF, "bin", "tallycheck"), "-repo", wt, "-prop", p, "-known", os.path.join(VERIF, "known_findings.json")],
                           capture_output=True, text=True, env=ENV)
        viol = [l for l in r.stdout.splitlines() if (l.startswith("VIOLATION ") or l.startswith("UNDECIDED ")) and not l.startswith("VIOLATION property=")]
        res["checks"][p] = {"exit": r.returncode, "violations": [v[:260] for v in viol[:6]]}
    res["detected_by"] = [p for p, v in res["checks"].items() if v["exit"] == 1]
    files = subprocess.run(["git", "diff", "--stat"], cwd=wt, capture_output=True, text=True).stdout.strip().splitlines()
    res["files_changed"] = files[:-1]
    sh(["git", "checkout", "--", "."], wt)
    sh(["git", "clean", "-fdq", "-e", "_seed"], wt)
    confirmed = res.get("build_with_change") == "ok" and res.get("suite_with_change") == "pass" and rc1 != 0 and rc0 == 0
    res["confirmed"] = confirmed
    print(json.dumps(res, indent=1))
    if keep and confirmed:
        as_x = sys.argv[sys.argv.index("--as") + 1] if "--as" in sys.argv else x
        dst = os.path.join(VERIF, "seeded", "%s-%s" % (pid, as_x))
        os.makedirs(dst, exist_ok=True)
        shutil.copy(patch, os.path.join(dst, "patch.diff"))
        for f in demos:
            shutil.copy(os.path.join(sd, f), os.path.join(dst, f))
        if os.path.exists(os.path.join(sd, "README.md")):
            shutil.copy(os.path.join(sd, "README.md"), os.path.join(dst, "README.md"))
        meta = {
            "property": pid, "variant": as_x, "breaks": "see README.md (written by the independent sub-agent)",
            "demo": {"files": demos, "copy_to_package_dir": where, "command": "go test -count=1 -run '<Test names in the demo>' ./" + where},
            "what_i_ran": ["git apply patch.diff in a scratch worktree of /repo HEAD", "go build ./... (ok)", "go test -count=1 ./... (pass)",
                           "demo with the change: fails", "demo without the change: passes", "tallycheck -repo <worktree> -prop " + ",".join(props)],
            "files_changed": res["files_changed"],
            "detected_by": res["detected_by"],
            "violations": {p: v["violations"] for p, v in res["checks"].items()},
        }
        json.dump(meta, open(os.path.join(dst, "meta.json"), "w"), indent=1)
    return 0


if __name__ == "__main__":
    sys.exit(main())
