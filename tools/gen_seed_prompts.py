#!/usr/bin/env python3
"""Writes the prompts for a round of independently seeded changes to /tmp/prompts/<ID>-r<round>.txt.
A prompt holds only the text of the property and the one-line titles of the changes already taken for it
(nothing else from /verif).  usage: gen_seed_prompts.py <round> <X> <Y>   e.g. 5 I J"""
import json, os, re, sys
HERE = os.path.dirname(os.path.dirname(os.path.abspath(__file__)))
rnd, X, Y = sys.argv[1], sys.argv[2], sys.argv[3]
os.makedirs("/tmp/prompts", exist_ok=True)
for l in open(os.path.join(HERE, "properties.jsonl")):
    p = json.loads(l)
    pid = p["id"]
    titles = []
    for d in sorted(os.listdir(os.path.join(HERE, "seeded"))):
        if not d.startswith(pid + "-"):
            continue
        rd = os.path.join(HERE, "seeded", d, "README.md")
        t = ""
        if os.path.exists(rd):
            first = open(rd).readline().strip()
            t = re.sub(r"^#\s*", "", first)
            t = re.sub(r"^%s\s*/\s*(change|variant)\s*[A-Z]\s*[:—-]\s*" % pid, "", t)
        if t:
            titles.append('"%s"' % t)
    n = len(titles)
    txt = f"""You are helping to evaluate a verification effort for the Go library uber-go/tally (metrics: scopes, counters, gauges, histograms, reporters for M3/Prometheus/statsd). You play the role of a developer who introduces a subtle, realistic regression.

Your private scratch git worktree of the library is at /tmp/seed/{pid} (work ONLY there; never touch /repo or /verif, and do not read anything under /verif). Every shell command needs this prefix, because the sandbox is offline:
  export GOFLAGS=-mod=mod GOPROXY=off GOSUMDB=off GOTOOLCHAIN=local; unset GOWORK;

This is the property (a semantic guarantee users rely on) that your changes must break:

{json.dumps(p, indent=1)}

TASK: produce TWO different, independent changes to the library's non-test source (each a separate patch against the clean worktree HEAD) such that, for each:
 1. the library still compiles (`go build ./...`) and the ENTIRE existing test suite still passes, unedited (`go test -count=1 ./...`; run it at least twice since some tests are concurrent; takes ~25 s; note `TestVerifyCachedTaggedScopesAlloc` counts allocations and can be flaky under machine load - re-run it alone if it is the only failure);
 2. the change genuinely breaks the property above (some clause of its statement) - the code, not just a comment;
 3. it needs something specific to manifest - a particular interleaving, a crash or fault at a particular point, a multi-step sequence of operations, an unusual input or configuration, or two cooperating sites that each look fine alone - NOT something ordinary use would expose at once;
 4. it looks like something a real developer could plausibly commit (an optimisation, a refactor, a "simplification", a helper extraction, a misguided fix, an API modernisation) - not sabotage with an obviously wrong constant. Prefer changes whose wrongness is NOT visible from a single line. {n} ideas per property are already taken, so look hard for what is left. Good sources of ideas: a clause of the property statement that none of the already-taken ideas touches; code in the anchor files (and in the files they call into) that the taken ideas never touched; an error path or a rarely-taken branch; an invariant that holds between two functions or two files; a boundary value; state that is shared/reused where it used to be private; operations moved across a lock, an atomic operation or a channel operation; a default or a configuration path; a constructor.
 5. you write a demonstration: a Go test file (package of the directory it is copied into; test function names starting with TestSeed{pid}) or, if necessary, a small main program, that FAILS (deterministically, or with overwhelming probability within 60 s) with the change applied and PASSES on the clean tree. The demonstration must not edit library files.

The two changes must differ from each other in mechanism and location, and must be different in mechanism AND in the clause/site they attack from these ideas, which are already taken: {"; ".join(titles)}

DELIVERABLES, for the variants X = {X} and X = {Y}, in /tmp/seed/{pid}/_seed/X/ :
  - patch.diff   : `git diff` of the library change against the clean HEAD (library files only, no demo, no _seed files);
  - one demo file named demo_test.go (or main.go);
  - where.txt    : one line, the package directory (relative to the repo root, "." for the root package) into which the demo file has to be copied to run;
  - README.md    : first line `# {pid} / change X: <one-line title>`, then what the change does, which clause it breaks, a section headed `## What it needs to manifest`, the exact commands you ran and their observed results (with and without the change).
Before you finish: restore the worktree to a clean state (`git checkout -- . && git clean -fdq -e _seed`), then for each variant verify from clean: `git apply _seed/X/patch.diff`, build, full suite passes, demo fails; `git checkout -- .`, demo passes. Leave the worktree clean (only _seed/ untracked). Do not use `git stash` (shared between worktrees). Do not commit anything.

Reply with a short summary (per variant: one-line title, file/function changed, what is needed to manifest, demo result with/without)."""
    open("/tmp/prompts/%s-r%s.txt" % (pid, rnd), "w").write(txt)
    print(pid, n, "titles")
