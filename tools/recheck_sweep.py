#!/usr/bin/env python3
"""Re-evaluate the suite-surviving, so far undetected mutants of a mutation_sweep result file with
the current checker (no test-suite run).  Rewrites detected_by / first in place.

usage: recheck_sweep.py results.jsonl [--jobs 6]
"""
import argparse, json, os, shutil, subprocess, sys, tempfile, threading, queue

VERIF = os.path.dirname(os.path.dirname(os.path.abspath(__file__)))
ENV = dict(os.environ, GOFLAGS="-mod=mod", GOPROXY="off", GOSUMDB="off", GOTOOLCHAIN="local", GOWORK="off")
MUTGEN = os.path.join(VERIF, "bin", "mutgen")
CHECK = os.path.join(VERIF, "bin", "tallycheck")


def main():
    ap = argparse.ArgumentParser()
    ap.add_argument("file")
    ap.add_argument("--repo", default="/repo")
    ap.add_argument("--jobs", type=int, default=6)
    a = ap.parse_args()
    rows = [json.loads(l) for l in open(a.file)]
    todo = [r for r in rows if r["status"] == "survived" and not r.get("detected_by")]
    q = queue.Queue()
    for r in todo:
        q.put(r)
    scratch = tempfile.mkdtemp(prefix="tc-recheck-", dir="/tmp")
    lock = threading.Lock()

    def worker(w):
        wd = os.path.join(scratch, "w%d" % w)
        subprocess.run(["rsync", "-a", "--exclude", ".git", a.repo + "/", wd + "/"], check=True)
        while True:
            try:
                m = q.get_nowait()
            except queue.Empty:
                break
            path = os.path.join(wd, m["file"])
            orig = open(os.path.join(a.repo, m["file"])).read()
            try:
                r = subprocess.run([MUTGEN, "-file", os.path.join(a.repo, m["file"]), "-apply", str(m["id"])], capture_output=True, text=True)
                if r.returncode != 0:
                    continue
                open(path, "w").write(r.stdout)
                c = subprocess.run([CHECK, "-repo", wd, "-prop", "all", "-known", os.path.join(VERIF, "known_findings.json")], capture_output=True, text=True, env=ENV)
                viol = [l for l in c.stdout.splitlines() if (l.startswith("VIOLATION ") or l.startswith("UNDECIDED ") or l.startswith("ERROR")) and not l.startswith("VIOLATION property=")]
                m["detected_by"] = sorted({l.split()[1].split(".")[0] for l in viol if len(l.split()) > 1})
                m["first"] = viol[0][:260] if viol else ""
                with lock:
                    print("%-10s %s:%d %s %s" % (",".join(m["detected_by"]) or "-", m["file"], m["line"], m["kind"], m["detail"][:50]), flush=True)
            finally:
                open(path, "w").write(orig)
        shutil.rmtree(wd, ignore_errors=True)

    ts = [threading.Thread(target=worker, args=(w,)) for w in range(a.jobs)]
    [t.start() for t in ts]
    [t.join() for t in ts]
    shutil.rmtree(scratch, ignore_errors=True)
    with open(a.file, "w") as f:
        for r in rows:
            f.write(json.dumps(r) + "\n")


if __name__ == "__main__":
    main()
