#!/usr/bin/env python3
"""Re-evaluates every kept seeded change against ALL checks and records, in its meta.json, which
properties' checks report it (detected_by) and the first violation lines.  Works on scratch copies
under /tmp that are removed afterwards; never touches /repo."""
import concurrent.futures as cf, glob, json, os, shutil, subprocess, sys, tempfile
VERIF = os.path.dirname(os.path.dirname(os.path.abspath(__file__)))
ENV = dict(os.environ, GOFLAGS="-mod=mod", GOPROXY="off", GOSUMDB="off", GOTOOLCHAIN="local", GOWORK="off")

def one(d):
    tmp = tempfile.mkdtemp(prefix="tc-seed-", dir="/tmp")
    try:
        dst = os.path.join(tmp, "repo")
        subprocess.run(["rsync", "-a", "--exclude", ".git", "/repo/", dst + "/"], check=True)
        pr = subprocess.run(["patch", "-p1", "-s", "-f", "-i", os.path.join(d, "patch.diff")], cwd=dst, capture_output=True, text=True)
        if pr.returncode != 0:
            return d, None, "patch does not apply"
        out = subprocess.run([os.path.join(VERIF, "bin", "tallycheck"), "-repo", dst, "-prop", "all", "-known", os.path.join(VERIF, "known_findings.json")],
                             capture_output=True, text=True, env=ENV).stdout
        viol = {}
        for l in out.splitlines():
            if (l.startswith("VIOLATION ") or l.startswith("UNDECIDED ")) and not l.startswith("VIOLATION property="):
                p = l.split()[1].split(".")[0]
                viol.setdefault(p, []).append(l[:400])
        return d, viol, ""
    finally:
        shutil.rmtree(tmp, ignore_errors=True)

dirs = sorted(glob.glob(os.path.join(VERIF, "seeded", "*", "")))
if sys.argv[1:]:  # optional: only the named changes (e.g. C11-S C16-S)
    dirs = [d for d in dirs if os.path.basename(d.rstrip("/")) in sys.argv[1:]]
with cf.ThreadPoolExecutor(max_workers=6) as ex:
    for d, viol, err in ex.map(one, dirs):
        mp = os.path.join(d, "meta.json")
        meta = json.load(open(mp))
        if viol is None:
            print(os.path.basename(d.rstrip("/")), "ERROR", err)
            continue
        own = meta["property"]
        meta["detected_by"] = sorted(viol.keys(), key=lambda p: (p != own, p))
        meta["violations"] = {p: v[:4] for p, v in viol.items()}
        json.dump(meta, open(mp, "w"), indent=1)
        print(os.path.basename(d.rstrip("/")), "detected by", meta["detected_by"] or "NOTHING")
