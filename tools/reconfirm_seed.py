#!/usr/bin/env python3
"""Re-confirms kept seeded changes against the current HEAD of /repo (after a fix: commit): copies
/verif/seeded/<ID>-<X>/ back into the scratch worktree /tmp/seed/<ID>/_seed/<X>/ and runs eval_seed.py
(without --keep; prints confirmed / detected_by).  usage: reconfirm_seed.py <ID> [X ...]"""
import json, os, shutil, subprocess, sys
VERIF = os.path.dirname(os.path.dirname(os.path.abspath(__file__)))
pid = sys.argv[1]
xs = sys.argv[2:] or sorted(d.split("-")[1] for d in os.listdir(os.path.join(VERIF, "seeded")) if d.startswith(pid + "-"))
for x in xs:
    src = os.path.join(VERIF, "seeded", "%s-%s" % (pid, x))
    dst = "/tmp/seed/%s/_seed/%s" % (pid, x)
    shutil.rmtree(dst, ignore_errors=True)
    os.makedirs(dst)
    meta = json.load(open(os.path.join(src, "meta.json")))
    for f in os.listdir(src):
        if f != "meta.json":
            shutil.copy(os.path.join(src, f), dst)
    open(os.path.join(dst, "where.txt"), "w").write(meta.get("demo", {}).get("copy_to_package_dir", ".") + "\n")
    r = subprocess.run([sys.executable, os.path.join(VERIF, "tools", "eval_seed.py"), pid, x], capture_output=True, text=True)
    out = r.stdout
    try:
        j = json.loads(out[out.index("{"):])
        print(pid, x, "confirmed" if j.get("confirmed") else "NOT CONFIRMED", "detected_by", j.get("detected_by"), "|", j.get("suite_with_change", "")[:60], "| demo with:", j.get("demo_with_change", "")[:30], "without:", j.get("demo_without_change", "")[:20], flush=True)
    except Exception as e:
        print(pid, x, "??", out[-300:], r.stderr[-300:], flush=True)
