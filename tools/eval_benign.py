#!/usr/bin/env python3
"""Runs every check against each behaviour-preserving refactor Pn of /tmp/seed/<R>/_seed/ and lists
false alarms.  usage: eval_benign.py <R> [Pn ...]"""
import os, subprocess, sys, json
ENV = dict(os.environ, GOFLAGS="-mod=mod", GOPROXY="off", GOSUMDB="off", GOTOOLCHAIN="local", GOWORK="off")
VERIF = os.path.dirname(os.path.dirname(os.path.abspath(__file__)))
r = sys.argv[1]
wt = "/tmp/seed/%s" % r
ps = sys.argv[2:] or sorted(d for d in os.listdir(os.path.join(wt, "_seed")) if os.path.exists(os.path.join(wt, "_seed", d, "patch.diff")))
def sh(cmd, cwd=wt): return subprocess.run(cmd, cwd=cwd, env=ENV, capture_output=True, text=True)
for p in ps:
    sh(["git", "checkout", "--", "."]); sh(["git", "clean", "-fdq", "-e", "_seed"])
    a = sh(["git", "apply", os.path.join(wt, "_seed", p, "patch.diff")])
    if a.returncode != 0:
        print(r, p, "PATCH DOES NOT APPLY", a.stderr[:200]); continue
    b = sh(["go", "build", "./..."])
    if b.returncode != 0:
        print(r, p, "DOES NOT BUILD", b.stderr[:200]); continue
    out = subprocess.run([os.path.join(VERIF, "bin", "tallycheck"), "-repo", wt, "-prop", "all", "-known", os.path.join(VERIF, "known_findings.json")], capture_output=True, text=True, env=ENV).stdout
    viol = [l for l in out.splitlines() if (l.startswith("VIOLATION ") or l.startswith("UNDECIDED ") or l.startswith("ERROR")) and not l.startswith("VIOLATION property=")]
    files = sh(["git", "diff", "--stat"]).stdout.strip().splitlines()
    print("%s %s: %d alarm(s)  [%s]" % (r, p, len(viol), files[-1].strip() if files else ""))
    for v in viol:
        print("     ", v[:230])
sh(["git", "checkout", "--", "."]); sh(["git", "clean", "-fdq", "-e", "_seed"])
