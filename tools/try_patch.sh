#!/bin/sh
# usage: tools/try_patch.sh <patch.diff> <PROP> [PROP...]   - applies the patch to a scratch worktree (/tmp/mt), runs the checks, prints non-OK lines
export GOFLAGS=-mod=mod GOPROXY=off GOSUMDB=off GOTOOLCHAIN=local; unset GOWORK
p=$1; shift
git -C /repo worktree remove --force /tmp/mt >/dev/null 2>&1; rm -rf /tmp/mt; git -C /repo worktree prune
git -C /repo worktree add --detach /tmp/mt HEAD >/dev/null 2>&1 || exit 2
git -C /tmp/mt apply "$p" || exit 2
cd /verif
for id in "$@"; do TALLY_REPO=/tmp/mt ./check $id quick | grep -vE '^OK|^KNOWN' | cut -c1-${W:-400}; done
