#!/usr/bin/env python3
"""Generates /verif/MANIFEST.json from the table below (one entry per claimed property)."""
import json, os, subprocess
HERE = os.path.dirname(os.path.dirname(os.path.abspath(__file__)))

NOTE_COMMON = ("Trusted: go/types + go/ssa (x/tools v0.29.0), the Go memory model, the standard library and callees outside the "
               "repository. Decides the named structural clauses on every path/call site/writer; the value-level clauses listed "
               "under 'not decided' in DESIGN.md section 5 are not claimed.")

CLAIMS = {}

def claim(pid, text, technique, note=""):
    CLAIMS[pid] = dict(text=text, technique=technique, note=note)

exec(open(os.path.join(HERE, "tools", "claims.py")).read())

props = [json.loads(l) for l in open(os.path.join(HERE, "properties.jsonl"))]
built = subprocess.run([os.path.join(HERE, "bin", "tallycheck"), "-list"], capture_output=True, text=True).stdout.split()
checks, na = [], []
for p in props:
    pid = p["id"]
    if pid in CLAIMS and pid in built:
        c = CLAIMS[pid]
        checks.append({
            "property_id": pid,
            "quick_cmd": "./check %s quick" % pid,
            "thorough_cmd": "./check %s thorough" % pid,
            "evidence_file": "/verif/evidence/%s.json" % pid,
            "replay_cmd_template": "./check %s --explain {path}" % pid,
            "engine": "tallycheck",
            "level_claimed": {"category": "other", "text": c["text"], "design_ref": "DESIGN.md section 5, " + pid},
            "level_note": (c["note"] + " " if c["note"] else "") + NOTE_COMMON,
            "technique": c["technique"],
        })
    else:
        na.append({"property_id": pid, "reason": "no sound static obligation has been armed for this property in this revision of the checker (see DESIGN.md section 5 for the plan); it is not claimed"})
m = {
    "version": 1,
    "setup_cmd": "./setup.sh",
    "hooks": {"guard": "verif", "enable": "none needed: static analysis reads the unmodified sources; no hook exists",
              "baseline_off_cmd": "cd /repo && GOFLAGS=-mod=mod go test -vet=off -count=1 ./...", "source_commits": [], "add_only": True},
    "engines": [{"name": "tallycheck", "path": "/verif/tallycheck", "serves_properties": [c["property_id"] for c in checks],
                 "kind_free_text": "repository-specific static analyser (Go, go/packages + go/types + go/ssa + go/ast of x/tools v0.29.0): ordering/dominance, path counting, lockset, who-may-write, provenance, forwarder-shape, comparison and writer/reader tables"}],
    "checks": checks,
    "notes": "All checks are static analysis of /repo's current working tree (nothing of tally is executed). Level 'other': obligations = rule + construct, decided for every path / call site / writer. thorough = quick under GOARCH=amd64 and 386 plus a rule-sensitivity self-test on scratch copies (never part of the verdict). Known findings: /verif/known_findings.json.",
    "not_applicable": na,
}
json.dump(m, open(os.path.join(HERE, "MANIFEST.json"), "w"), indent=1)
print("checks:", [c["property_id"] for c in checks], "not claimed:", [n["property_id"] for n in na])
