// mutgen: systematic syntactic mutants of one Go file (operator flips, condition negation, statement
// deletion, constant tweaks, adjacent-statement swaps). Used by tools/mutation_sweep.py to sample
// "compiles and passes the suite" changes independently of the rules of tallycheck.
//
//	mutgen -file f.go -list            prints "id<TAB>line<TAB>kind<TAB>detail"
//	mutgen -file f.go -apply id        prints the mutated file
package main

import (
	"bytes"
	"flag"
	"fmt"
	"go/ast"
	"go/parser"
	"go/printer"
	"go/token"
	"os"
)

type site struct {
	line   int
	kind   string
	detail string
	apply  func()
}

func main() {
	file := flag.String("file", "", "")
	list := flag.Bool("list", false, "")
	apply := flag.Int("apply", -1, "")
	flag.Parse()
	fset := token.NewFileSet()
	f, err := parser.ParseFile(fset, *file, nil, parser.ParseComments)
	if err != nil {
		fmt.Fprintln(os.Stderr, err)
		os.Exit(2)
	}
	var sites []site
	add := func(pos token.Pos, kind, detail string, ap func()) {
		sites = append(sites, site{fset.Position(pos).Line, kind, detail, ap})
	}
	flip := map[token.Token][]token.Token{
		token.LSS: {token.LEQ, token.GTR}, token.LEQ: {token.LSS}, token.GTR: {token.GEQ, token.LSS}, token.GEQ: {token.GTR},
		token.EQL: {token.NEQ}, token.NEQ: {token.EQL}, token.ADD: {token.SUB}, token.SUB: {token.ADD},
		token.LAND: {token.LOR}, token.LOR: {token.LAND}, token.MUL: {token.QUO}, token.QUO: {token.MUL},
		token.SHL: {token.SHR}, token.SHR: {token.SHL}, token.AND: {token.OR}, token.OR: {token.AND},
	}
	var inFunc bool
	ast.Inspect(f, func(n ast.Node) bool {
		switch x := n.(type) {
		case *ast.FuncDecl:
			inFunc = x.Body != nil
		case *ast.BinaryExpr:
			if !inFunc {
				return true
			}
			if x.Op == token.ADD {
				if bl, ok := x.X.(*ast.BasicLit); ok && bl.Kind == token.STRING {
					return true
				}
				if bl, ok := x.Y.(*ast.BasicLit); ok && bl.Kind == token.STRING {
					return true
				}
			}
			for _, to := range flip[x.Op] {
				x, from, to := x, x.Op, to
				add(x.OpPos, "op", from.String()+" -> "+to.String(), func() { x.Op = to })
			}
		case *ast.IfStmt:
			x2 := x
			add(x.Cond.Pos(), "negate-if", "", func() { x2.Cond = &ast.UnaryExpr{Op: token.NOT, X: &ast.ParenExpr{X: x2.Cond}} })
		case *ast.BasicLit:
			if !inFunc || x.Kind != token.INT {
				return true
			}
			x2 := x
			switch x.Value {
			case "0":
				add(x.Pos(), "const", "0 -> 1", func() { x2.Value = "1" })
			case "1":
				add(x.Pos(), "const", "1 -> 0", func() { x2.Value = "0" })
				add(x.Pos(), "const", "1 -> 2", func() { x2.Value = "2" })
			default:
				v := x.Value
				add(x.Pos(), "const", v+" -> "+v+"+1", func() { x2.Value = "(" + v + " + 1)" })
			}
		case *ast.BlockStmt:
			if !inFunc {
				return true
			}
			for i, st := range x.List {
				i, st, x := i, st, x
				switch s := st.(type) {
				case *ast.ExprStmt:
					add(s.Pos(), "del-call", exprString(fset, s.X), func() { x.List[i] = &ast.EmptyStmt{Semicolon: s.Pos(), Implicit: true} })
				case *ast.AssignStmt:
					if s.Tok == token.ASSIGN || s.Tok == token.ADD_ASSIGN || s.Tok == token.SUB_ASSIGN || s.Tok == token.MUL_ASSIGN || s.Tok == token.OR_ASSIGN {
						add(s.Pos(), "del-assign", exprString(fset, s.Lhs[0]), func() { x.List[i] = &ast.EmptyStmt{Semicolon: s.Pos(), Implicit: true} })
					}
				case *ast.IncDecStmt:
					add(s.Pos(), "del-incdec", exprString(fset, s.X), func() { x.List[i] = &ast.EmptyStmt{Semicolon: s.Pos(), Implicit: true} })
				case *ast.DeferStmt:
					add(s.Pos(), "undefer", exprString(fset, s.Call), func() { x.List[i] = &ast.ExprStmt{X: s.Call} })
				case *ast.GoStmt:
					add(s.Pos(), "ungo", exprString(fset, s.Call), func() { x.List[i] = &ast.ExprStmt{X: s.Call} })
				case *ast.BranchStmt:
					if s.Tok == token.BREAK && s.Label == nil {
						add(s.Pos(), "break->continue", "", func() { s.Tok = token.CONTINUE })
					} else if s.Tok == token.CONTINUE && s.Label == nil {
						add(s.Pos(), "continue->break", "", func() { s.Tok = token.BREAK })
					}
				}
				if i+1 < len(x.List) {
					_, e1 := st.(*ast.ExprStmt)
					_, a1 := st.(*ast.AssignStmt)
					_, e2 := x.List[i+1].(*ast.ExprStmt)
					_, a2 := x.List[i+1].(*ast.AssignStmt)
					if (e1 || a1) && (e2 || a2) {
						if as, ok := st.(*ast.AssignStmt); ok && as.Tok == token.DEFINE {
							continue
						}
						add(st.Pos(), "swap-stmts", "", func() { x.List[i], x.List[i+1] = x.List[i+1], x.List[i] })
					}
				}
			}
		}
		return true
	})
	if *list {
		for i, s := range sites {
			fmt.Printf("%d\t%d\t%s\t%s\n", i, s.line, s.kind, s.detail)
		}
		return
	}
	if *apply < 0 || *apply >= len(sites) {
		os.Exit(2)
	}
	sites[*apply].apply()
	var buf bytes.Buffer
	if err := printer.Fprint(&buf, fset, f); err != nil {
		fmt.Fprintln(os.Stderr, err)
		os.Exit(2)
	}
	os.Stdout.Write(buf.Bytes())
}

func exprString(fset *token.FileSet, e ast.Node) string {
	var buf bytes.Buffer
	printer.Fprint(&buf, fset, e)
	s := buf.String()
	if len(s) > 60 {
		s = s[:60]
	}
	return s
}
