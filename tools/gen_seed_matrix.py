#!/usr/bin/env python3
"""Fills meta.json (title, clause, needs - extracted from the sub-agent's README) of every kept seeded
change and regenerates the detection matrix between the SEEDED-MATRIX markers of DESIGN.md."""
import glob, json, os, re
VERIF = os.path.dirname(os.path.dirname(os.path.abspath(__file__)))

def section(md, pat):
    m = re.search(r'^##+ [^\n]*(' + pat + r')[^\n]*\n(.*?)(?=^##+ |\Z)', md, re.M | re.S | re.I)
    if not m:
        return ""
    txt = re.sub(r'\s+', ' ', m.group(2)).strip()
    return txt

def short(s, n):
    s = s.replace('|', '/')
    return s if len(s) <= n else s[:n - 1].rsplit(' ', 1)[0] + ' …'

rows = []
for d in sorted(glob.glob(os.path.join(VERIF, 'seeded', '*', ''))):
    name = os.path.basename(d.rstrip('/'))
    md = open(os.path.join(d, 'README.md')).read()
    meta = json.load(open(os.path.join(d, 'meta.json')))
    title = re.sub(r'^#+\s*', '', md.strip().splitlines()[0])
    title = re.sub(r'^(Seed\s+)?(C\d\d\s*/\s*)?(change\s+|seed\s+)?[A-Z]\s*(\(C\d\d\))?\s*[-:]\s*', '', title, flags=re.I)
    meta['title'] = title
    meta['breaks'] = short(section(md, 'clause'), 600) or meta.get('breaks', '')
    meta['needs_to_manifest'] = short(section(md, 'needs'), 700)
    json.dump(meta, open(os.path.join(d, 'meta.json'), 'w'), indent=1)
    own = meta['property']
    det = meta.get('detected_by', [])
    first = ''
    if own in meta.get('violations', {}) and meta['violations'][own]:
        m = re.match(r'\w+ (\S+ \S+) \[', meta['violations'][own][0])
        first = m.group(1) if m else ''
    rows.append('| %s | %s | %s | %s | %s |' % (name, short(title, 110), short(meta['needs_to_manifest'], 170),
                                               ('**' + first + '**') if own in det else '**MISSED**',
                                               ', '.join(p for p in det if p != own) or '-'))
table = ['| change | what it does | needs, to manifest | reported by (own check: first rule) | also reported by |', '|---|---|---|---|---|'] + rows
p = os.path.join(VERIF, 'DESIGN.md')
s = open(p).read()
a, b = s.index('<!-- SEEDED-MATRIX-BEGIN -->'), s.index('<!-- SEEDED-MATRIX-END -->')
s = s[:a] + '<!-- SEEDED-MATRIX-BEGIN -->\n' + '\n'.join(table) + '\n' + s[b:]
open(p, 'w').write(s)
print(len(rows), 'rows')
