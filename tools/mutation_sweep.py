#!/usr/bin/env python3
"""Systematic mutation sweep: every syntactic mutant (tools/mutgen) of the given library files is
compiled and run against the unedited test suite in a scratch copy; the mutants that SURVIVE the
suite are then shown to tallycheck (-prop all).  Output: JSON lines, one per mutant.  A surviving
mutant that no check reports is either an equivalent mutant or a blind spot: those are triaged by
hand (DESIGN.md section 10.2).  Never touches /repo; scratch copies live under --scratch and are
removed at the end.

usage: mutation_sweep.py --out results.jsonl [--jobs 8] file.go [file.go ...]
"""
import argparse, json, os, shutil, subprocess, sys, tempfile, threading, queue

VERIF = os.path.dirname(os.path.dirname(os.path.abspath(__file__)))
ENV = dict(os.environ, GOFLAGS="-mod=mod", GOPROXY="off", GOSUMDB="off", GOTOOLCHAIN="local", GOWORK="off")
MUTGEN = os.path.join(VERIF, "bin", "mutgen")
CHECK = os.path.join(VERIF, "bin", "tallycheck")


def sh(cmd, cwd, timeout=600):
    # own process group: test helper binaries a mutant leaves spinning (m3's m3testemit) are killed
    # with it, otherwise they burn CPU for hours after the sweep
    import signal
    p = subprocess.Popen(cmd, cwd=cwd, env=ENV, stdout=subprocess.PIPE, stderr=subprocess.STDOUT, text=True, errors="replace", start_new_session=True)
    try:
        out, _ = p.communicate(timeout=timeout)
        rc = p.returncode
    except subprocess.TimeoutExpired:
        out, rc = "TIMEOUT", 124
    try:
        os.killpg(p.pid, signal.SIGKILL)
    except Exception:
        pass
    if rc == 124:
        try:
            p.communicate(timeout=5)
        except Exception:
            pass
    return rc, out


def worker(wid, q, out, lock, repo, scratch):
    wd = os.path.join(scratch, "w%d" % wid)
    subprocess.run(["rsync", "-a", "--exclude", ".git", repo + "/", wd + "/"], check=True)
    while True:
        try:
            m = q.get_nowait()
        except queue.Empty:
            break
        path = os.path.join(wd, m["file"])
        orig = open(os.path.join(repo, m["file"])).read()
        res = dict(m)
        try:
            r = subprocess.run([MUTGEN, "-file", os.path.join(repo, m["file"]), "-apply", str(m["id"])], capture_output=True, text=True)
            if r.returncode != 0:
                res["status"] = "mutgen-error"
            else:
                open(path, "w").write(r.stdout)
                pkg = "./" + (os.path.dirname(m["file"]) or ".")
                rc, o = sh(["go", "build", "./..."], wd)
                if rc != 0:
                    res["status"] = "nocompile"
                else:
                    rc, o = sh(["go", "vet", pkg], wd)
                    rc, o = sh(["go", "test", "-count=1", "-timeout", "180s", "./..."], wd, 400)
                    if rc != 0:
                        fails = [l for l in o.splitlines() if l.startswith("--- FAIL") or l.startswith("FAIL") or "panic:" in l or l == "TIMEOUT"]
                        if fails and all("TestVerifyCachedTaggedScopesAlloc" in l or l.startswith("FAIL") for l in fails) and any("TestVerifyCachedTaggedScopesAlloc" in l for l in fails):
                            # allocation-counting test, flaky under load: re-run the root package alone
                            rc2, o2 = sh(["go", "test", "-count=1", "-timeout", "180s", "."], wd, 400)
                            rc = rc2
                            o = o2
                    if rc != 0:
                        res["status"] = "killed-by-tests"
                        res["test"] = next((l.strip()[:120] for l in o.splitlines() if l.startswith("--- FAIL") or "panic:" in l or l == "TIMEOUT"), "")
                    else:
                        res["status"] = "survived"
                        c = subprocess.run([CHECK, "-repo", wd, "-prop", "all", "-known", os.path.join(VERIF, "known_findings.json")], capture_output=True, text=True, env=ENV)
                        viol = [l for l in c.stdout.splitlines() if (l.startswith("VIOLATION ") or l.startswith("UNDECIDED ") or l.startswith("ERROR")) and not l.startswith("VIOLATION property=")]
                        res["detected_by"] = sorted({l.split()[1].split(".")[0] for l in viol if len(l.split()) > 1})
                        res["first"] = viol[0][:260] if viol else ""
        finally:
            open(path, "w").write(orig)
        with lock:
            out.write(json.dumps(res) + "\n")
            out.flush()
            print("%-16s %s:%d %s %s %s" % (res["status"], m["file"], m["line"], m["kind"], m["detail"][:40], ",".join(res.get("detected_by", []))), flush=True)
    shutil.rmtree(wd, ignore_errors=True)


def main():
    ap = argparse.ArgumentParser()
    ap.add_argument("--repo", default="/repo")
    ap.add_argument("--out", required=True)
    ap.add_argument("--jobs", type=int, default=8)
    ap.add_argument("--scratch", default=None)
    ap.add_argument("--kinds", default="")
    ap.add_argument("files", nargs="+")
    a = ap.parse_args()
    scratch = a.scratch or tempfile.mkdtemp(prefix="tc-sweep-", dir="/tmp")
    os.makedirs(scratch, exist_ok=True)
    done = set()
    if os.path.exists(a.out):
        for l in open(a.out):
            try:
                d = json.loads(l)
                done.add((d["file"], d["id"]))
            except Exception:
                pass
    q = queue.Queue()
    for f in a.files:
        r = subprocess.run([MUTGEN, "-file", os.path.join(a.repo, f), "-list"], capture_output=True, text=True)
        for l in r.stdout.splitlines():
            i, line, kind, detail = (l.split("\t") + ["", "", ""])[:4]
            if not i.isdigit() or not line.isdigit():
                continue  # continuation line of a multi-line detail
            if a.kinds and kind not in a.kinds.split(","):
                continue
            if (f, int(i)) in done:
                continue
            q.put({"file": f, "id": int(i), "line": int(line), "kind": kind, "detail": detail})
    print("mutants to run:", q.qsize(), flush=True)
    out = open(a.out, "a")
    lock = threading.Lock()
    ts = [threading.Thread(target=worker, args=(w, q, out, lock, a.repo, scratch)) for w in range(a.jobs)]
    [t.start() for t in ts]
    [t.join() for t in ts]
    subprocess.run(["pkill", "-9", "-f", scratch + "/"])  # anything still running out of the scratch copies
    shutil.rmtree(scratch, ignore_errors=True)


if __name__ == "__main__":
    main()
