package main

import (
	"fmt"
	"go/token"
	"go/types"
	"sort"
	"strings"

	"golang.org/x/tools/go/ssa"
)

func init() { register("C05", checkC05) }

func checkC05(c *Ctx) {
	c.Explanation = "Decides the structural core of identity: (O1) scopes and the four metric kinds are created by get-or-create under the write lock on the miss edge of a re-check with the same key value and the same shard value as the insertion (shared with C09), the read-locked probe and the insert use keys produced by the same canonical writer; (O2) the key writer is independent of map iteration order: every range over a map only collects keys, the collected keys are sorted before they are read, values are fetched by key; (O3) delimiter injection: every variable component appended to the key buffer must be escaped or length-prefixed, and the pair separator's emission must depend on the position only, never on the content of a component - necessary for the injectivity of prefix+k=v,k=v; (O4) KeyForStringMap / KeyForPrefixedStringMap and the registry reach the same writer, with the rightmost map taking precedence (C04 O3)."
	c.Explanation += " Added by round 9: (O3 separator-emission:first-key) a duplicate test against a previous key that starts out empty is behind a position test; (O1 shard-map-fixed, shared with C07) the shard table is never replaced."
	c.NotDecided = []string{"injectivity as a theorem about all strings (O3 is its structural core)", "pointer identity for concrete pairs of derivations"}
	eng := c.newLockEngine()
	c.checkDoubleChecked("O1 get-or-create", eng)
	c.checkPrivateKeyBuffer("O1 private-key-buffer")
	c.checkRootInEveryShard("O1 root-in-every-shard")
	c.checkKeyBytesFaithful("O3 byte-faithful-key")
	c.checkShardFromKey("O1 shard-from-key")
	// every derivation is resolved by the registry: a shortcut that hands back the receiver (or any scope
	// not looked up by key) merges identities that differ (shared with C07 O4)
	c.checkDerivationThroughRegistry("O1 through-registry")
	c.checkSubscopeSource("O1 scope-by-canonical-key")
	c.checkRootIdentityBeforeRegistration("O1 root-identity-first")
	// "same identity returns the very same live scope": a scope leaves a shard's table only through a checked
	// deletion - the table itself is never replaced (a stale copy installed after a pass forgets the scopes
	// registered meanwhile; the next equal derivation creates a second scope) - shared with C07 O2
	c.checkSetOnlyAtConstruction("O1 shard-map-fixed", "", "scopeBucket", "s")
	// "derivations whose prefix differs never share a scope or a metric": the qualified name is the
	// prefix, the separator and the name, verbatim (shared with C04 O1)
	c.shared(checkC04, map[string]string{"O1 concat-shape": "O3 qualified-name"})
	// the tags a scope carries are the tags its key was built from: right-most map wins in the merge
	// exactly as in the key writer (shared with C04 O3)
	if merge := c.fn("", "", "mergeRightTags"); merge != nil {
		c.checkMergeRight("O4 merge-precedence", merge)
	}
	// O5 (shared with C04 O4 / C07 O3): the key a scope is registered under keeps describing it.
	// A scope's tags are a private copy (a caller who keeps mutating the map it passed in would
	// otherwise change the tag set of a scope that stays registered under the old key), and an
	// entry is removed from the registry only while it is known to be the scope that was found
	// (a blind delete by key unregisters a live scope with the same identity, after which the same
	// derivation returns a different scope).
	if merge, copySan := c.fn("", "", "mergeRightTags"), c.fn("", "scope", "copyAndSanitizeMap"); merge != nil && copySan != nil {
		c.checkTagsIngress("O5 key-matches-tags", merge, copySan)
	} else {
		c.missing("O5 key-matches-tags", "tally.mergeRightTags / scope.copyAndSanitizeMap")
	}
	if fM, clr := c.field("", "scopeBucket", "s"), c.fn("", "scope", "clearMetrics"); fM != nil && clr != nil {
		c.checkGapSafeDeletes("O5 registered-identity", fM, eng, clr)
	} else {
		c.missing("O5 registered-identity", "tally.scopeBucket.s / scope.clearMetrics")
	}

	w := c.fn("", "", "keyForPrefixedStringMapsAsKey")
	if w == nil {
		c.missing("O2 determinism", "tally.keyForPrefixedStringMapsAsKey")
		return
	}
	key := c.fnKey(w)
	c.sawFunc(key)
	// ---- O2 -----------------------------------------------------------------------------------
	{
		okAll := true
		var ranges []*ssa.Range
		instrsOf(w, func(in ssa.Instruction) {
			if rg, ok := in.(*ssa.Range); ok {
				if _, isMap := rg.X.Type().Underlying().(*types.Map); isMap {
					ranges = append(ranges, rg)
				}
			}
		})
		// the keys slice: appended with range keys
		var keysVals = map[ssa.Value]bool{}
		for _, rg := range ranges {
			for _, r := range *rg.Referrers() {
				nx, isNx := r.(*ssa.Next)
				if !isNx {
					continue
				}
				for _, u := range *nx.Referrers() {
					ex, isEx := u.(*ssa.Extract)
					if !isEx {
						continue
					}
					switch ex.Index {
					case 2:
						if ex.Referrers() != nil && len(*ex.Referrers()) > 0 {
							for _, uu := range *ex.Referrers() {
								if _, isDbg := uu.(*ssa.DebugRef); !isDbg {
									okAll = false
									c.bad("O2 determinism", key+":range-value", ex.Pos(), "a value obtained in map iteration order is used by the key writer: the key depends on the iteration order of the map", c.describe(uu))
								}
							}
						}
					case 1:
						// must only flow into an append to the keys slice
						for _, uu := range *ex.Referrers() {
							if st, isSt := uu.(*ssa.Store); isSt {
								// varargs cell of append
								if ia, isIA := st.Addr.(*ssa.IndexAddr); isIA {
									if al, isAl := ia.X.(*ssa.Alloc); isAl {
										for _, ar := range *al.Referrers() {
											if sl, isSl := ar.(*ssa.Slice); isSl {
												for _, sr := range *sl.Referrers() {
													if call, isCall := sr.(*ssa.Call); isCall && isBuiltin(call, "append") {
														keysVals[call] = true
													}
												}
											}
										}
										continue
									}
								}
							}
							if _, isDbg := uu.(*ssa.DebugRef); isDbg {
								continue
							}
							okAll = false
							c.bad("O2 determinism", key+":range-key", ex.Pos(), "a map key obtained in iteration order is used for something other than collecting it for sorting", c.describe(uu))
						}
					}
				}
			}
		}
		// a sort call on the collected keys that dominates every read (IndexAddr) of them
		var sortCall *ssa.Call
		var keysSlice ssa.Value
		instrsOf(w, func(in ssa.Instruction) {
			call, ok := in.(*ssa.Call)
			if !ok {
				return
			}
			f := staticCallee(call)
			if f == nil {
				return
			}
			isSort := (c.inModule(f) && f.Name() == "insertionSort") || (f.Package() != nil && f.Package().Pkg.Path() == "sort" && (f.Name() == "Strings" || f.Name() == "Sort" || f.Name() == "Stable"))
			if isSort && len(call.Call.Args) >= 1 {
				// the argument derives from the appended keys (phi of appends)
				a := stripConv(call.Call.Args[0])
				derives := keysVals[a]
				if phi, isPhi := a.(*ssa.Phi); isPhi {
					seen := map[ssa.Value]bool{}
					var visit func(v ssa.Value) bool
					visit = func(v ssa.Value) bool {
						if seen[v] {
							return false
						}
						seen[v] = true
						if keysVals[v] {
							return true
						}
						if p, isP := v.(*ssa.Phi); isP {
							for _, e := range p.Edges {
								if visit(e) {
									return true
								}
							}
						}
						return false
					}
					derives = visit(phi)
				}
				if derives {
					sortCall = call
					keysSlice = a
				}
			}
		})
		if len(ranges) == 0 {
			okAll = false
			c.bad("O2 determinism", key, w.Pos(), "the key writer does not collect the keys of its maps")
		} else if sortCall == nil {
			okAll = false
			c.bad("O2 determinism", key+":sort", w.Pos(), "the collected tag keys are not sorted before the key is written: the key depends on map iteration order, so equal tag sets yield different keys (and different scopes)")
		} else {
			// reads of the keys slice after collection
			instrsOf(w, func(in ssa.Instruction) {
				ia, ok := in.(*ssa.IndexAddr)
				if !ok || stripConv(ia.X) != keysSlice {
					return
				}
				if !dominates(sortCall, ia) {
					okAll = false
					c.bad("O2 determinism", key+":sort", ia.Pos(), "a collected key is read before the keys are sorted", c.describe(ia))
				}
			})
		}
		// the writer reads its maps itself: a path that hands them to another function (a "large tag set"
		// slow path, say) is not covered by the rules above - it is judged on the view with that function
		// inlined
		instrsOf(w, func(in ssa.Instruction) {
			call, ok := in.(*ssa.Call)
			if !ok {
				return
			}
			g := staticCallee(call)
			if g == nil || g == w || !c.inModule(g) {
				return
			}
			for _, a := range call.Call.Args {
				t := a.Type().Underlying()
				if sl, isSl := t.(*types.Slice); isSl {
					t = sl.Elem().Underlying()
				}
				if _, isMap := t.(*types.Map); isMap {
					okAll = false
					c.bad("O2 determinism", key+":delegates", call.Pos(), "the key writer hands its tag maps to "+g.Name()+": on that path the key is not written by the code whose independence of map iteration order is decided here", c.describe(call))
				}
			}
		})
		if okAll {
			c.ok("O2 determinism", key, w.Pos(), fmt.Sprintf("%d map range(s) only collect keys; keys are sorted before being read; values are fetched by key", len(ranges)))
		}
		c.checkInsertionSort("O2 sort-shape")
	}

	// ---- O3 delimiter injection ---------------------------------------------------------------------
	{
		// every append(buf, <string>...) of a non-constant string
		n := 0
		instrsOf(w, func(in ssa.Instruction) {
			call, ok := in.(*ssa.Call)
			if !ok || !isBuiltin(call, "append") || len(call.Call.Args) != 2 {
				return
			}
			src := call.Call.Args[1]
			if b, isB := src.Type().Underlying().(*types.Basic); !isB || b.Info()&types.IsString == 0 {
				return
			}
			if _, isConst := src.(*ssa.Const); isConst {
				return
			}
			n++
			role := "component"
			switch v := canon(src).(type) {
			case *ssa.Parameter:
				role = v.Name()
			case *ssa.UnOp:
				if _, isIA := v.X.(*ssa.IndexAddr); isIA {
					role = "key"
				}
			case *ssa.Extract:
				if _, isLk := v.Tuple.(*ssa.Lookup); isLk {
					role = "value"
				}
			case *ssa.Lookup:
				role = "value"
			}
			if _, isIA := stripConv(src).(*ssa.UnOp); isIA && role == "component" {
				role = "key"
			}
			if role == "component" {
				// a looked-up map value that reaches the append through phis, (value, ok) helpers or
				// single-result helpers: every leaf is a map lookup or a constant, at least one is a lookup
				lookedUp := 0
				var leafOK func(v ssa.Value, depth int) bool
				leafOK = func(v ssa.Value, depth int) bool {
					if depth == 0 {
						return false
					}
					switch x := canon(v).(type) {
					case *ssa.Const:
						return true
					case *ssa.Lookup:
						lookedUp++
						return true
					case *ssa.Phi:
						for _, e := range x.Edges {
							if e != ssa.Value(x) && !leafOK(e, depth-1) {
								return false
							}
						}
						return true
					case *ssa.Extract:
						if _, isLk := x.Tuple.(*ssa.Lookup); isLk {
							lookedUp++
							return true
						}
						if call, isCall := x.Tuple.(*ssa.Call); isCall {
							g := staticCallee(call)
							if g == nil || !c.inModule(g) || g.Blocks == nil {
								return false
							}
							nr := 0
							for _, r := range returnsOf(g) {
								if x.Index >= len(r.Results) {
									return false
								}
								for _, va := range resultValues(r, x.Index) {
									nr++
									if !leafOK(va.Val, depth-1) {
										return false
									}
								}
							}
							return nr > 0
						}
					case *ssa.Call:
						g := staticCallee(x)
						if g == nil || !c.inModule(g) || g.Blocks == nil {
							return false
						}
						nr := 0
						for _, r := range returnsOf(g) {
							if len(r.Results) != 1 {
								return false
							}
							for _, va := range resultValues(r, 0) {
								nr++
								if !leafOK(va.Val, depth-1) {
									return false
								}
							}
						}
						return nr > 0
					}
					return false
				}
				if leafOK(src, 4) && lookedUp > 0 {
					role = "value"
				}
			}
			// escaped: the appended value is the result of an escaping call
			escaped := false
			if ec, isCall := stripConv(src).(*ssa.Call); isCall {
				if f := staticCallee(ec); f != nil {
					switch f.Name() {
					case "Quote", "QuoteToASCII", "QueryEscape", "PathEscape", "escape", "escapeKeyComponent":
						escaped = true
					}
				}
			}
			// or length-prefixed: an AppendInt/Itoa of len(src) appended right before
			if !escaped {
				instrsOf(w, func(j ssa.Instruction) {
					if ac, isCall := j.(*ssa.Call); isCall && dominates(ac, call) {
						if f := staticCallee(ac); f != nil && (f.Name() == "AppendInt" || f.Name() == "AppendUint" || f.Name() == "Itoa") {
							for _, a := range ac.Call.Args {
								if cv, isCv := stripConv(a).(*ssa.Convert); isCv {
									a = cv.X
								}
								if ln, isLn := stripConv(a).(*ssa.Call); isLn && isBuiltin(ln, "len") && canon(ln.Call.Args[0]) == canon(src) {
									escaped = true
								}
							}
						}
					}
				})
			}
			c.check(escaped, "O3 delimiter-injection", key+":"+role, call.Pos(), "variable component is escaped or length-prefixed before it is appended to the key",
				"the "+role+" is appended to the registry key verbatim although the key format uses '+', '=' and ',' as delimiters: two different (prefix, tags) identities can produce the same key (e.g. {a:\"1,b=2\"} and {a:\"1\",b:\"2\"}) and share one scope, so what is recorded through one is delivered under the other's tags", c.describe(call))
		})
		c.floor("O3 delimiter-injection", n, 3)
		// the pair separator's emission depends on the position only
		sepOK := false
		var sepAt ssa.Instruction
		var sepK int64 = -1
		if k, isK := c.pkg("").Types.Scope().Lookup("keyPairSplitter").(*types.Const); isK {
			fmt.Sscan(k.Val().ExactString(), &sepK)
		}
		instrsOf(w, func(in ssa.Instruction) {
			call, ok := in.(*ssa.Call)
			if !ok || !isBuiltin(call, "append") {
				return
			}
			_, elems, _, isApp := appendedValues(call)
			if !isApp || len(elems) != 1 {
				return
			}
			if k, isK := constInt(elems[0]); !isK || k != sepK {
				return
			}
			sepAt = in
			// controlling conditions inside the loop: must not test a string's length or content,
			// except the duplicate test `k == lastKey` whose *false* outcome leads here
			bad := ""
			hasPos := false
			for _, b := range w.Blocks {
				iff, isIf := condOf(b)
				if !isIf {
					continue
				}
				for idx := 0; idx < 2; idx++ {
					if !edgeDominates(b, idx, call.Block()) {
						continue
					}
					op, x, y, isCmp := cmpOf(iff.Cond)
					if !isCmp {
						continue
					}
					isStr := func(v ssa.Value) bool {
						bt, okb := v.Type().Underlying().(*types.Basic)
						return okb && bt.Info()&types.IsString != 0
					}
					if ln, isLn := stripConv(x).(*ssa.Call); isLn && isBuiltin(ln, "len") && isStr(ln.Call.Args[0]) {
						bad = "the length of a key (" + ln.Call.Args[0].Name() + ")"
					}
					if isStr(x) && isStr(y) && op != token.NEQ && !(op == token.EQL && idx == 1) {
						bad = "a comparison of component strings"
					}
					if _, isPhi := stripConv(x).(*ssa.Phi); isPhi {
						if _, isK := constInt(y); isK {
							hasPos = true
						}
					}
					if bo, isBO := stripConv(x).(*ssa.BinOp); isBO {
						_ = bo
						if _, isK := constInt(y); isK {
							hasPos = true
						}
					}
				}
			}
			if bad == "" && hasPos {
				sepOK = true
			} else if bad != "" {
				c.bad("O3 separator-emission", key, in.Pos(), "whether the pair separator is written depends on "+bad+", i.e. on the content of a component instead of its position: with the empty string as a tag key the separator (and the duplicate suppression) is skipped and one identity gets two keys", c.describe(in))
			}
		})
		if sepAt == nil {
			c.bad("O3 separator-emission", key, w.Pos(), "no pair separator is written between two key=value pairs")
		} else if sepOK {
			c.ok("O3 separator-emission", key, sepAt.Pos(), "the pair separator is written for every pair but the first, decided by position")
		}
	}

	// the "previous key" a duplicate test compares with starts out as the empty string: the test must be
	// skipped for the first key by position, or the empty tag key - a valid key - equals the marker and is
	// dropped from the key (the writer and the functions it calls are judged)
	{
		fns := []*ssa.Function{w}
		seenF := map[*ssa.Function]bool{w: true}
		for i := 0; i < len(fns) && i < 8; i++ {
			instrsOf(fns[i], func(in ssa.Instruction) {
				if ci, ok := in.(ssa.CallInstruction); ok {
					if g := staticCallee(ci); g != nil && g.Package() == w.Package() && g.Blocks != nil && !seenF[g] {
						seenF[g] = true
						fns = append(fns, g)
					}
				}
			})
		}
		isStr := func(v ssa.Value) bool {
			bt, okb := v.Type().Underlying().(*types.Basic)
			return okb && bt.Info()&types.IsString != 0
		}
		emptyMarker := func(v ssa.Value) bool {
			ph, ok := stripConv(v).(*ssa.Phi)
			if !ok {
				return false
			}
			for _, e := range ph.Edges {
				if sv, isS := constString(e); isS && sv == "" {
					return true
				}
			}
			return false
		}
		nCmp, okAll := 0, true
		for _, f := range fns {
			for _, b := range f.Blocks {
				iff, isIf := condOf(b)
				if !isIf {
					continue
				}
				op, x, y, isCmp := cmpOf(iff.Cond)
				if !isCmp || (op != token.EQL && op != token.NEQ) || !isStr(x) || !isStr(y) {
					continue
				}
				if !emptyMarker(x) && !emptyMarker(y) {
					continue
				}
				nCmp++
				// guarded by position: an integer test against a constant on a dominating edge
				guarded := false
				for _, gb := range f.Blocks {
					gi, isG := condOf(gb)
					if !isG || gb == b {
						continue
					}
					_, gx, gy, gCmp := cmpOf(gi.Cond)
					if !gCmp {
						continue
					}
					bt, isB := gx.Type().Underlying().(*types.Basic)
					if !isB || bt.Info()&types.IsInteger == 0 {
						continue
					}
					if _, isK := constInt(gy); !isK {
						continue
					}
					if ln, isLn := stripConv(gx).(*ssa.Call); isLn && isBuiltin(ln, "len") {
						continue // a length is content, not position
					}
					if edgeDominates(gb, 0, b) || edgeDominates(gb, 1, b) {
						guarded = true
					}
				}
				if !guarded {
					okAll = false
					c.bad("O3 separator-emission", c.fnKey(f)+":first-key", iff.Pos(), "a key is compared with a 'previous key' that starts out as the empty string, and nothing skips the test for the first key by position: the empty tag key - a valid key - equals the marker and is dropped, so Tagged({\"\":x}) is its parent and tag sets that differ only in the empty key share one scope", c.describe(iff))
				}
			}
		}
		if okAll {
			c.ok("O3 separator-emission", key+":first-key", w.Pos(), fmt.Sprintf("%d duplicate test(s) against a previous key, each skipped for the first key by position", nCmp))
		}
	}

	// ---- O4 public key functions reach the same writer -------------------------------------------------
	{
		reach := func(from *ssa.Function) bool {
			if from == nil {
				return false
			}
			return c.reachableStatic([]*ssa.Function{from})[w]
		}
		for _, n := range []string{"KeyForStringMap", "KeyForPrefixedStringMap", "keyForPrefixedStringMaps"} {
			f := c.fn("", "", n)
			c.check(reach(f), "O4 same-writer", "tally."+n, w.Pos(), n+" reaches the canonical key writer", n+" does not produce its key with the canonical key writer the registry uses: public keys and registry identities disagree")
		}
		// scopeRegistryKey is initialised to keyForPrefixedStringMaps and never reassigned
		kc := c.globalFuncInit("", "scopeRegistryKey")
		c.check(kc != nil && kc == c.fn("", "", "keyForPrefixedStringMaps"), "O4 same-writer", "tally.scopeRegistryKey", w.Pos(), "scopeRegistryKey is the canonical key function", "the registry's key function variable is not (only) keyForPrefixedStringMaps")
		// pass-through of arguments
		if f := c.fn("", "", "KeyForPrefixedStringMap"); f != nil {
			ok := false
			instrsOf(f, func(in ssa.Instruction) {
				if call, isCall := in.(*ssa.Call); isCall && staticCallee(call) != nil && staticCallee(call).Name() == "keyForPrefixedStringMaps" {
					if canon(call.Call.Args[0]) == ssa.Value(f.Params[0]) {
						if el, okE := variadicElems(call.Call.Args[1]); okE && len(el) == 1 && canon(el[0]) == ssa.Value(f.Params[1]) {
							ok = true
						}
					}
				}
			})
			c.check(ok, "O4 same-writer", "tally.KeyForPrefixedStringMap:args", f.Pos(), "passes (prefix, map) through", "KeyForPrefixedStringMap does not pass its prefix and map through unchanged")
		}
		if f := c.fn("", "", "KeyForStringMap"); f != nil {
			ok := false
			instrsOf(f, func(in ssa.Instruction) {
				if call, isCall := in.(*ssa.Call); isCall && staticCallee(call) != nil && staticCallee(call).Name() == "KeyForPrefixedStringMap" {
					s, isS := constString(call.Call.Args[0])
					if isS && s == "" && canon(call.Call.Args[1]) == ssa.Value(f.Params[0]) {
						ok = true
					}
				}
			})
			c.check(ok, "O4 same-writer", "tally.KeyForStringMap:args", f.Pos(), "passes (\"\", map) through", "KeyForStringMap does not call KeyForPrefixedStringMap with the empty prefix and its map")
		}
	}
	c.checkKeyWriterPrecedence("O4 rightmost-precedence")
	// Subscope: probe key and insert key come from the writer over (prefix, parent.tags, tags)
	if sub := c.fn("", "scopeRegistry", "Subscope"); sub != nil {
		n := 0
		okAll := true
		instrsOf(sub, func(in ssa.Instruction) {
			call, ok := in.(*ssa.Call)
			if !ok {
				return
			}
			isW := staticCallee(call) == w
			if !isW {
				// call through the scopeRegistryKey variable
				if ld, isLd := call.Call.Value.(*ssa.UnOp); isLd {
					if g, isG := ld.X.(*ssa.Global); isG && g.Name() == "scopeRegistryKey" {
						isW = true
					}
				}
			}
			if !isW {
				return
			}
			n++
			// arguments: prefix param, then maps [parent.tags, <tags>]
			args := call.Call.Args
			pi := 0
			if staticCallee(call) == w {
				pi = 1
			}
			el, okE := variadicElems(args[pi+1])
			if !okE || len(el) != 2 {
				okAll = false
				return
			}
			f0, _ := loadedField(stripConv(el[0]))
			if p, isP := canon(args[pi]).(*ssa.Parameter); !isP || p.Name() != "prefix" || f0 == nil || f0.Name() != "tags" {
				okAll = false
			}
		})
		c.check(okAll && n == 2, "O1 key-arguments", c.fnKey(sub), sub.Pos(), "probe key and registration key are both written from (prefix, parent.tags, tags)", "the registry does not derive both the probe key and the registration key from (prefix, parent's tags, given tags) with parent's tags first: lookups miss existing scopes or later maps lose precedence")
	}
}

// globalFuncInit: the function a package-level func variable is initialised with, if that is its
// only store.
func (c *Ctx) globalFuncInit(short, name string) *ssa.Function {
	pk := c.ssaPkg(short)
	if pk == nil {
		return nil
	}
	g, ok := pk.Members[name].(*ssa.Global)
	if !ok {
		return nil
	}
	var fn *ssa.Function
	n := 0
	scan := func(f *ssa.Function) {
		if f == nil {
			return
		}
		instrsOf(f, func(in ssa.Instruction) {
			if st, isSt := in.(*ssa.Store); isSt && st.Addr == ssa.Value(g) {
				n++
				v := stripConv(st.Val)
				if ff, isF := v.(*ssa.Function); isF {
					fn = ff
				}
			}
		})
	}
	scan(pk.Func("init"))
	for _, f := range c.AllFuncs {
		scan(f)
	}
	if n != 1 {
		return nil
	}
	return fn
}

// checkInsertionSort: the in-package sort swaps adjacent elements while keys[j] < keys[j-1].
func (c *Ctx) checkInsertionSort(rule string) {
	fn := c.fn("", "", "insertionSort")
	if fn == nil {
		return // sort.Strings may be used instead (trusted)
	}
	c.sawFunc(c.fnKey(fn))
	ok := false
	keys := ssa.Value(fn.Params[0])
	elem := func(v ssa.Value) ssa.Value { // index of keys[idx], or nil
		ld, isLd := stripConv(v).(*ssa.UnOp)
		if !isLd || ld.Op != token.MUL {
			return nil
		}
		ia, isIA := ld.X.(*ssa.IndexAddr)
		if !isIA || ia.X != keys {
			return nil
		}
		return ia.Index
	}
	// adjacent: j and j-1
	adj := func(a, b ssa.Value) bool {
		s, isS := b.(*ssa.BinOp)
		if !isS || s.Op != token.SUB || s.X != a {
			return false
		}
		k, isK := constInt(s.Y)
		return isK && k == 1
	}
	isSwapStore := func(in ssa.Instruction) bool {
		st, isSt := in.(*ssa.Store)
		if !isSt {
			return false
		}
		ia, isIA := st.Addr.(*ssa.IndexAddr)
		return isIA && ia.X == keys
	}
	for _, b := range fn.Blocks {
		iff, isIf := condOf(b)
		if !isIf {
			continue
		}
		for _, alt := range condAlternatives(iff.Cond, 2) {
			op, x, y, isCmp := cmpOf(alt.v)
			if !isCmp {
				continue
			}
			ix, iy := elem(x), elem(y)
			if ix == nil || iy == nil {
				continue
			}
			// normalise to  keys[j] OP keys[j-1]
			switch {
			case adj(ix, iy):
			case adj(iy, ix):
				op = flipCmp(op)
			default:
				continue
			}
			// the outcome on which the elements are exchanged
			swapIdx := -1
			switch op {
			case token.LSS:
				swapIdx = 0
			case token.GEQ:
				swapIdx = 1
			}
			if swapIdx < 0 || (alt.onlyWhen != -1 && alt.onlyWhen != swapIdx) {
				continue
			}
			inIf := func(i ssa.Instruction) bool { return i.Block() == b }
			swaps := len(b.Succs[swapIdx].Instrs) > 0 && reachAvoiding(b.Succs[swapIdx].Instrs[0], true, isSwapStore, inIf) != nil
			other := len(b.Succs[1-swapIdx].Instrs) > 0 && reachAvoiding(b.Succs[1-swapIdx].Instrs[0], true, isSwapStore, inIf) != nil
			if swaps && !other {
				ok = true
			}
		}
	}
	c.check(ok, rule, c.fnKey(fn), fn.Pos(), "insertion sort: adjacent elements are exchanged exactly while keys[j] < keys[j-1]", "insertionSort does not order adjacent elements by keys[j] < keys[j-1]: the keys are not sorted ascending, equal tag sets yield different keys")
}

// checkRootInEveryShard: Subscope looks an identity up only in the shard its key hashes to, and the
// hash seed is random: the root scope is found by a derivation that ends in the root's own identity
// (Tagged(nil), Tagged({}), tags the root already has) only if the root is registered in EVERY shard.
// Decided on the registry constructor: the insertion of the root into a bucket map sits in a loop whose
// induction variable covers 0..shardCount-1, is executed in every iteration, and targets subscopes[i].
func (c *Ctx) checkRootInEveryShard(rule string) {
	fM, fSubs := c.field("", "scopeBucket", "s"), c.field("", "scopeRegistry", "subscopes")
	scopeT := c.named("", "scope")
	if fM == nil || fSubs == nil || scopeT == nil {
		c.missing(rule, "tally.scopeBucket.s / scopeRegistry.subscopes")
		return
	}
	n := 0
	for _, fn := range c.funcsOfPkg("") {
		// the constructor: stores a MakeSlice into scopeRegistry.subscopes
		var ms *ssa.MakeSlice
		instrsOf(fn, func(in ssa.Instruction) {
			if st, ok := in.(*ssa.Store); ok {
				if f, _ := addrField(st.Addr); f == fSubs {
					if m, isM := stripConv(st.Val).(*ssa.MakeSlice); isM {
						ms = m
					}
				}
			}
		})
		if ms == nil {
			continue
		}
		n++
		key := c.fnKey(fn)
		c.sawFunc(key)
		var rootParam ssa.Value
		for _, p := range fn.Params {
			if deref(p.Type()) == types.Type(scopeT) {
				rootParam = p
			}
		}
		var ins []*ssa.MapUpdate
		instrsOf(fn, func(in ssa.Instruction) {
			if mu, ok := in.(*ssa.MapUpdate); ok {
				if f, _ := loadedField(mu.Map); f == fM && rootParam != nil && canon(stripConv(mu.Value)) == rootParam {
					ins = append(ins, mu)
				}
			}
		})
		if len(ins) == 0 {
			c.bad(rule, key, fn.Pos(), "the registry constructor does not register the root scope in the shards: a derivation that ends in the root's own identity creates a second scope with the same prefix and tags")
			continue
		}
		okAny := false
		why := ""
		for _, mu := range ins {
			_, bucket := loadedField(mu.Map)
			var fl *fwdLoop
			for _, l := range countingLoops(fn) {
				if !l.loop.Blocks[mu.Block()] {
					continue
				}
				boundOK := stripConv(canon(l.bound)) == stripConv(canon(ms.Len))
				if l.lenArg != nil {
					if f, _ := loadedField(l.lenArg); f == fSubs {
						boundOK = true
					}
				}
				if boundOK {
					fl = l
				}
			}
			if fl == nil {
				why = "the root is inserted outside a loop that runs over every shard index 0..shardCount-1 (it is registered in some shards only)"
				continue
			}
			every := true
			for _, latch := range fl.loop.Latch {
				if !mu.Block().Dominates(latch) {
					every = false
				}
			}
			if !every {
				why = "the root is not inserted in every iteration of the shard loop"
				continue
			}
			// the bucket is subscopes[i]
			okBucket := false
			if ld, isLd := canon(bucket).(*ssa.UnOp); isLd && ld.Op == token.MUL {
				if ia, isIA := ld.X.(*ssa.IndexAddr); isIA && stripConv(canon(ia.Index)) == stripConv(canon(fl.idx)) {
					if f, _ := loadedField(ia.X); f == fSubs {
						okBucket = true
					}
				}
			}
			if al, isAl := canon(bucket).(*ssa.Alloc); isAl && !okBucket {
				// the bucket allocated in this iteration and stored into subscopes[i]
				if al.Referrers() != nil {
					for _, r := range *al.Referrers() {
						if st, isSt := r.(*ssa.Store); isSt && st.Val == ssa.Value(al) {
							if ia, isIA := st.Addr.(*ssa.IndexAddr); isIA && stripConv(canon(ia.Index)) == stripConv(canon(fl.idx)) {
								if f, _ := loadedField(ia.X); f == fSubs {
									okBucket = true
								}
							}
						}
					}
				}
			}
			if !okBucket {
				why = "the bucket that receives the root is not subscopes[i] of the shard loop"
				continue
			}
			okAny = true
		}
		c.check(okAny, rule, key, ins[0].Pos(), "the root is registered in every shard (inserted into subscopes[i] in each iteration of the loop over 0..shardCount-1)",
			why+": Subscope looks a key up only in the shard it hashes to under a random seed, so a derivation that ends in the root's own identity misses the root and creates a twin scope; what is recorded through the two handles is reported, and shown by Snapshot, as two competing entries under one name")
	}
	c.floor(rule, n, 1)
}

// checkKeyBytesFaithful: the registry / snapshot key is built from the BYTES of its components. Decoding
// a component rune by rune (range over the string, []rune conversion, utf8.DecodeRune*) and encoding
// it again maps every invalid UTF-8 byte to U+FFFD: two components that differ only in invalid bytes get
// the same key and therefore the same scope, although names and tags are delivered byte for byte.
func (c *Ctx) checkKeyBytesFaithful(rule string) {
	w := c.fn("", "", "keyForPrefixedStringMapsAsKey")
	if w == nil {
		c.missing(rule, "tally.keyForPrefixedStringMapsAsKey")
		return
	}
	key := c.fnKey(w)
	c.sawFunc(key)
	seen := map[*ssa.Function]bool{}
	var bad ssa.Instruction
	var visit func(fn *ssa.Function, depth int)
	visit = func(fn *ssa.Function, depth int) {
		if fn == nil || fn.Blocks == nil || seen[fn] || depth < 0 || bad != nil {
			return
		}
		seen[fn] = true
		instrsOf(fn, func(in ssa.Instruction) {
			if bad != nil {
				return
			}
			switch x := in.(type) {
			case *ssa.Range:
				if b, ok := x.X.Type().Underlying().(*types.Basic); ok && b.Info()&types.IsString != 0 {
					bad = in
				}
			case *ssa.Convert:
				from, to := x.X.Type().Underlying(), x.Type().Underlying()
				if fb, ok := from.(*types.Basic); ok && fb.Info()&types.IsString != 0 {
					if sl, isSl := to.(*types.Slice); isSl {
						if eb, isB := sl.Elem().Underlying().(*types.Basic); isB && eb.Kind() == types.Int32 {
							bad = in // []rune(s)
						}
					}
				}
			case *ssa.Call:
				if g := staticCallee(x); g != nil {
					if g.Pkg != nil && g.Pkg.Pkg.Path() == "unicode/utf8" && strings.HasPrefix(g.Name(), "Decode") {
						bad = in
						return
					}
					if c.inModule(g) && g.Pkg == fn.Pkg {
						visit(g, depth-1)
					}
				}
			}
		})
	}
	visit(w, 2)
	if bad != nil {
		c.bad(rule, key, bad.Pos(), "the key writer decodes a component rune by rune: invalid UTF-8 bytes all become U+FFFD, so components that differ only in such bytes produce one key and share one scope (their metrics are merged under the first one's name and tags)", c.describe(bad))
		return
	}
	c.ok(rule, key, w.Pos(), "key components are appended byte for byte (no rune decoding in the key writer or its helpers)")
}

// checkShardFromKey: Subscope looks an identity up in ONE shard, so the shard index has to be a
// function of the canonical key (and of per-registry constants) alone. Whatever else flows into it
// (the parent's fields, the tag map before canonicalisation, an identity accumulated along the
// derivation) makes two derivations of one identity look in different shards and create two scopes.
// Decided by a backward data slice of the index expression `subscopes[<index>]` in Subscope.
func (c *Ctx) checkShardFromKey(rule string) {
	fn := c.fn("", "scopeRegistry", "Subscope")
	fSubs := c.field("", "scopeRegistry", "subscopes")
	kw := c.fn("", "", "keyForPrefixedStringMapsAsKey")
	if fn == nil || fSubs == nil || kw == nil {
		c.missing(rule, "tally.scopeRegistry.Subscope / subscopes / keyForPrefixedStringMapsAsKey")
		return
	}
	key := c.fnKey(fn)
	c.sawFunc(key)
	var idx ssa.Value
	var at ssa.Instruction
	instrsOf(fn, func(in ssa.Instruction) {
		if ia, ok := in.(*ssa.IndexAddr); ok && idx == nil {
			if f, _ := loadedField(ia.X); f == fSubs {
				idx, at = ia.Index, in
			}
		}
	})
	if idx == nil {
		// the shard may be picked by a helper that is handed the key
		instrsOf(fn, func(in ssa.Instruction) {
			call, ok := in.(*ssa.Call)
			if !ok || idx != nil {
				return
			}
			g := staticCallee(call)
			if g == nil || !c.inModule(g) || g.Blocks == nil {
				return
			}
			instrsOf(g, func(i2 ssa.Instruction) {
				if ia, ok2 := i2.(*ssa.IndexAddr); ok2 && idx == nil {
					if f, _ := loadedField(ia.X); f == fSubs {
						idx, at = ia.Index, i2
					}
				}
			})
		})
	}
	if idx == nil {
		c.undecided(rule, key, fn.Pos(), "no shard selection subscopes[<index>] found in Subscope or a helper it calls")
		return
	}
	var foreign []string
	keyLeaves := 0
	seen := map[ssa.Value]bool{}
	var visit func(v ssa.Value, f *ssa.Function, bind map[ssa.Value]ssa.Value, depth int)
	visit = func(v ssa.Value, f *ssa.Function, bind map[ssa.Value]ssa.Value, depth int) {
		if v == nil || seen[v] {
			return
		}
		seen[v] = true
		if depth == 0 {
			foreign = append(foreign, "too deep: "+v.Name())
			return
		}
		switch x := v.(type) {
		case *ssa.Const, *ssa.Global, *ssa.Function, *ssa.Builtin:
		case *ssa.Parameter:
			if b, ok := bind[x]; ok {
				visit(b, fn, nil, depth-1)
				return
			}
			if f != nil && len(f.Params) > 0 && x == f.Params[0] && f.Signature.Recv() != nil {
				return // the registry itself
			}
			foreign = append(foreign, "parameter "+x.Name())
		case *ssa.Convert:
			visit(x.X, f, bind, depth)
		case *ssa.ChangeType:
			visit(x.X, f, bind, depth)
		case *ssa.MakeInterface:
			visit(x.X, f, bind, depth)
		case *ssa.BinOp:
			visit(x.X, f, bind, depth-1)
			visit(x.Y, f, bind, depth-1)
		case *ssa.Phi:
			for _, e := range x.Edges {
				visit(e, f, bind, depth-1)
			}
		case *ssa.Extract:
			visit(x.Tuple, f, bind, depth)
		case *ssa.Slice:
			visit(x.X, f, bind, depth)
		case *ssa.Alloc:
			// a local: everything stored into it, and every call that mutates it (hash state)
			if x.Referrers() != nil {
				for _, r := range *x.Referrers() {
					switch u := r.(type) {
					case *ssa.Store:
						if u.Addr == ssa.Value(x) {
							visit(u.Val, f, bind, depth-1)
						}
					case ssa.CallInstruction:
						for i, a := range u.Common().Args {
							if i > 0 || u.Common().IsInvoke() {
								visit(a, f, bind, depth-1)
							}
						}
					}
				}
			}
		case *ssa.UnOp:
			if x.Op != token.MUL {
				visit(x.X, f, bind, depth)
				return
			}
			if fld, base := loadedField(x); fld != nil {
				r := canon(rootOf(base))
				if f != nil && len(f.Params) > 0 && r == ssa.Value(f.Params[0]) && f.Signature.Recv() != nil {
					return // a field of the registry (seed, shard list): per-registry constant
				}
				if b, ok := bind[r]; ok && canon(b) == ssa.Value(fn.Params[0]) {
					return
				}
				foreign = append(foreign, "field "+fld.Name()+" of "+accessPath(base))
				return
			}
			visit(x.X, f, bind, depth)
		case *ssa.FieldAddr, *ssa.IndexAddr:
			foreign = append(foreign, "address "+accessPath(v))
		case *ssa.Call:
			if isBuiltin(x, "len") || isBuiltin(x, "cap") {
				if fld, _ := loadedField(x.Call.Args[0]); fld == fSubs {
					return
				}
				visit(x.Call.Args[0], f, bind, depth-1)
				return
			}
			g := staticCallee(x)
			if g == kw {
				keyLeaves++
				return
			}
			if g != nil && c.inModule(g) && g.Blocks != nil && c.returnsDerivedFromKeyWriter(g, kw) {
				keyLeaves++
				return
			}
			// any other call: its result depends on its arguments (receiver included)
			for _, a := range x.Call.Args {
				visit(a, f, bind, depth-1)
			}
			if x.Call.IsInvoke() {
				visit(x.Call.Value, f, bind, depth-1)
			}
		default:
			foreign = append(foreign, fmt.Sprintf("%T %s", v, v.Name()))
		}
	}
	host := at.Parent()
	bind := map[ssa.Value]ssa.Value{}
	if host != fn {
		// helper: bind its parameters to the arguments of its (single) call in Subscope
		instrsOf(fn, func(in ssa.Instruction) {
			if call, ok := in.(*ssa.Call); ok && staticCallee(call) == host {
				for i, p := range host.Params {
					if i < len(call.Call.Args) {
						bind[p] = call.Call.Args[i]
					}
				}
			}
		})
	}
	visit(idx, host, bind, 12)
	sort.Strings(foreign)
	c.check(len(foreign) == 0 && keyLeaves > 0, rule, key, at.Pos(), "the shard index depends only on the canonical key and on the registry's own constants",
		fmt.Sprintf("the shard a scope is looked up in is not a function of its canonical key alone (other inputs: %v; key reached: %v): two derivations of the same identity can hash to different shards, miss each other and create two live scopes for one identity", foreign, keyLeaves > 0), c.describe(at))
}

// returnsDerivedFromKeyWriter: g is a wrapper whose result is the key writer's result.
func (c *Ctx) returnsDerivedFromKeyWriter(g, kw *ssa.Function) bool {
	n := 0
	for _, r := range returnsOf(g) {
		if len(r.Results) != 1 {
			return false
		}
		for _, va := range resultValues(r, 0) {
			n++
			call, ok := stripConv(va.Val).(*ssa.Call)
			if !ok || staticCallee(call) != kw {
				return false
			}
		}
	}
	return n > 0
}

// checkRootIdentityBeforeRegistration: the registry constructor registers the root under the key of
// (root.prefix, root.tags). Both must have their final value when the constructor is called: in the
// function that builds the root, every store into the root's prefix / tags dominates the call that
// builds the registry - otherwise the root is registered under another identity's key, and a
// derivation that ends at the root's own identity creates a second scope for it.
func (c *Ctx) checkRootIdentityBeforeRegistration(rule string) {
	fTags, fPrefix, fReg := c.field("", "scope", "tags"), c.field("", "scope", "prefix"), c.field("", "scope", "registry")
	scopeT := c.named("", "scope")
	if fTags == nil || fPrefix == nil || fReg == nil || scopeT == nil {
		c.missing(rule, "tally.scope.{tags,prefix,registry}")
		return
	}
	n := 0
	for _, fn := range c.funcsOfPkg("") {
		// the root constructor: stores a call result into <local scope>.registry where the call is handed that scope
		var regCall *ssa.Call
		var root *ssa.Alloc
		instrsOf(fn, func(in ssa.Instruction) {
			st, ok := in.(*ssa.Store)
			if !ok {
				return
			}
			f, base := addrField(st.Addr)
			al, isAl := canon(base).(*ssa.Alloc)
			if f != fReg || !isAl || al.Parent() != fn {
				return
			}
			if call, isCall := stripConv(st.Val).(*ssa.Call); isCall {
				for _, a := range call.Call.Args {
					if canon(a) == ssa.Value(al) {
						regCall, root = call, al
					}
				}
			}
		})
		if regCall == nil {
			continue
		}
		n++
		key := c.fnKey(fn)
		c.sawFunc(key)
		okAll := true
		seen := map[*types.Var]bool{}
		instrsOf(fn, func(in ssa.Instruction) {
			st, ok := in.(*ssa.Store)
			if !ok {
				return
			}
			f, base := addrField(st.Addr)
			if (f != fTags && f != fPrefix) || canon(base) != ssa.Value(root) {
				return
			}
			seen[f] = true
			if !dominates(st, regCall) {
				okAll = false
				c.bad(rule, key+":"+f.Name(), st.Pos(), "the root's "+f.Name()+" is assigned after (or around) the call that builds the registry: the registry registers the root under the key of its identity at that moment, so a derivation that ends at the root's real identity (Tagged(nil), Tagged of the root's own tags) is not found and a second scope with the root's identity is created", c.describe(st))
			}
		})
		for _, f := range []*types.Var{fTags, fPrefix} {
			if !seen[f] {
				okAll = false
				c.bad(rule, key+":"+f.Name(), regCall.Pos(), "the root's "+f.Name()+" is never assigned before the registry is built")
			}
		}
		if okAll {
			c.ok(rule, key, regCall.Pos(), "prefix and tags of the root have their final value when the registry (which registers the root under their key) is built")
		}
	}
	c.floor(rule, n, 1)
}
