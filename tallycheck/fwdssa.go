package main

import (
	"fmt"
	"go/token"
	"go/types"

	"golang.org/x/tools/go/ssa"
)

// A7 FORWARDER-SHAPE on SSA. go/ssa normalises `for _, x := range L`, `for i := range L` and the
// classic index loop to the same thing - an induction variable that runs over every index of L and an
// element access L[idx] - and single-assignment locals that merely hoist the list are looked
// through, so the rule is insensitive to those rewrites.

type fwdLoop struct {
	loop   *loopInfo
	idx    ssa.Value // the value used to index the list in the body
	list   string    // access path of the list
	bound  ssa.Value
	lenArg ssa.Value // the L of len(L)
	header *ssa.BasicBlock
}

// fullIndexLoops finds the loops of fn whose induction variable covers 0..len(L)-1 of some slice L:
//
//	(A) i = phi[-1, i'] ; i' = i + 1 ; if i' < len(L)      (range loops; index used: i')
//	(B) i = phi[ 0, i+1];              if i  < len(L)      (classic loops; index used: i)
func fullIndexLoops(fn *ssa.Function) []*fwdLoop {
	var out []*fwdLoop
	for _, fl := range countingLoops(fn) {
		if fl.lenArg != nil {
			out = append(out, fl)
		}
	}
	return out
}

// countingLoops: the same two induction forms with any loop-invariant bound B (`< B`); lenArg is set
// when B is len(L).
func countingLoops(fn *ssa.Function) []*fwdLoop {
	var out []*fwdLoop
	for _, lp := range loopsOf(fn) {
		iff, ok := condOf(lp.Header)
		if !ok {
			continue
		}
		op, x, y, isCmp := cmpOf(iff.Cond)
		if !isCmp {
			continue
		}
		if op == token.GTR {
			x, y = y, x
			op = token.LSS
		}
		neq := false
		if op == token.NEQ {
			// `i != B` counts exactly like `i < B` when i starts at 0, steps by 1 and B is a length
			// (form (B) below; B >= 0 because it is a len)
			if _, isLen := stripConv(x).(*ssa.Call); isLen {
				x, y = y, x
			}
			if ln, isLn := stripConv(y).(*ssa.Call); !isLn || !isBuiltin(ln, "len") {
				continue
			}
			neq = true
			op = token.LSS
		}
		if op != token.LSS {
			continue
		}
		// the true edge must stay in the loop, the false edge must leave it
		if !lp.Blocks[lp.Header.Succs[0]] || lp.Blocks[lp.Header.Succs[1]] {
			continue
		}
		var lenArg ssa.Value
		if ln, isLn := stripConv(y).(*ssa.Call); isLn && isBuiltin(ln, "len") {
			lenArg = ln.Call.Args[0]
		} else if yi, isI := y.(ssa.Instruction); isI && lp.Blocks[yi.Block()] {
			continue // the bound is recomputed inside the loop
		}
		var idx ssa.Value
		switch v := stripConv(x).(type) {
		case *ssa.Phi: // (B)
			if v.Block() != lp.Header {
				continue
			}
			zero, step := 0, 0
			for _, e := range v.Edges {
				if k, isK := constInt(e); isK && k == 0 {
					zero++
				}
				if bo, isB := e.(*ssa.BinOp); isB && bo.Op == token.ADD && bo.X == ssa.Value(v) {
					if k, isK := constInt(bo.Y); isK && k == 1 {
						step++
					}
				}
			}
			if zero == 1 && zero+step == len(v.Edges) && step >= 1 {
				idx = v
			}
		case *ssa.BinOp: // (A)
			if v.Op != token.ADD || neq {
				continue
			}
			phi, isPhi := v.X.(*ssa.Phi)
			k, isK := constInt(v.Y)
			if !isPhi || !isK || k != 1 || phi.Block() != lp.Header {
				continue
			}
			init, step := 0, 0
			for _, e := range phi.Edges {
				if k0, isK0 := constInt(e); isK0 && k0 == -1 {
					init++
				}
				if e == ssa.Value(v) {
					step++
				}
			}
			if init == 1 && init+step == len(phi.Edges) && step >= 1 {
				idx = v
			}
		}
		if idx == nil {
			continue
		}
		list := ""
		if lenArg != nil {
			list = accessPath(lenArg)
		}
		out = append(out, &fwdLoop{loop: lp, idx: idx, list: list, bound: y, lenArg: lenArg, header: lp.Header})
	}
	return out
}

// elemOf: v is L[idx] for the loop's list and index (a load of &L[idx], or an Index).
func (fl *fwdLoop) elemOf(v ssa.Value) bool {
	v = canon(v)
	switch x := v.(type) {
	case *ssa.UnOp:
		if x.Op == token.MUL {
			if ia, ok := x.X.(*ssa.IndexAddr); ok {
				return ia.Index == fl.idx && accessPath(ia.X) == fl.list
			}
		}
	case *ssa.Index:
		return x.Index == fl.idx && accessPath(x.X) == fl.list
	}
	return false
}

type fwdResultSSA struct {
	ok       bool
	collect  ssa.Value // the collecting list: loop-carried header phi (append form) or the pre-sized slice (index form)
	callVals []ssa.Value
}

// checkForwarderSSA: see fwdSpec. list == nil means the receiver itself is the list.
func (c *Ctx) checkForwarderSSA(rule string, sp fwdSpec) fwdResultSSA {
	fn := sp.fn
	key := sp.keyPrefix + c.fnKey(fn)
	c.sawFunc(c.fnKey(fn))
	fail := func(pos token.Pos, msg string, trail ...string) fwdResultSSA {
		c.bad(rule, key, pos, msg, trail...)
		return fwdResultSSA{}
	}
	recv := ssa.Value(fn.Params[0])
	wantList := ""
	if sp.list == nil {
		wantList = accessPath(recv)
	} else {
		wantList = accessPath(recv) + "." + sp.list.Name()
	}
	var fl *fwdLoop
	n := 0
	for _, l := range fullIndexLoops(fn) {
		if l.list == wantList {
			fl = l
			n++
		}
	}
	// forwarded calls: invokes (or static calls) of the target method
	isTarget := func(in ssa.Instruction) (ssa.CallInstruction, bool) {
		ci, ok := in.(ssa.CallInstruction)
		if !ok {
			return nil, false
		}
		if _, m := ifaceCall(ci); m != nil && m.Name() == sp.target {
			return ci, true
		}
		if f := staticCallee(ci); f != nil && f.Name() == sp.target && f.Signature.Recv() != nil && f != fn {
			return ci, true
		}
		return nil, false
	}
	var calls []ssa.CallInstruction
	instrsOf(fn, func(in ssa.Instruction) {
		if ci, ok := isTarget(in); ok {
			// pass-through on the receiver's own base list is not a child call
			if r := callRecv(ci); r != nil {
				if f, base := loadedField(r); f != nil && canon(base) == recv && sp.list != nil && f != sp.list {
					return
				}
			}
			calls = append(calls, ci)
		}
	})
	if len(calls) == 0 {
		// ... or inside a function literal of this method (see below)
		for _, g := range fn.AnonFuncs {
			instrsOf(g, func(in ssa.Instruction) {
				if ci, ok := isTarget(in); ok {
					calls = append(calls, ci)
				}
			})
		}
	}
	if n != 1 {
		return fail(fn.Pos(), fmt.Sprintf("expected exactly one loop that visits every index of the children list (%s) once, in order; found %d: some children are skipped, visited twice or visited out of order", wantList, n))
	}
	lp := fl.loop
	// the forwarded call may be made by a function literal of this method that the loop calls with the
	// loop element (`forEach(func(child) error { ... child.M(params) ... })` after inlining forEach): the
	// literal must make the forwarded call exactly once on every path, on its own parameter, with the
	// method's parameters, and return what the child answered
	viaLiteral := map[ssa.CallInstruction]bool{}
	if len(calls) > 0 {
		allInLiterals := true
		for _, ci := range calls {
			if ci.(ssa.Instruction).Parent() == fn {
				allInLiterals = false
			}
		}
		if allInLiterals {
			var outer []ssa.CallInstruction
			okLit := true
			whyLit := ""
			for b := range lp.Blocks {
				for _, in := range b.Instrs {
					oc, isCall := in.(*ssa.Call)
					if !isCall {
						continue
					}
					var g *ssa.Function
					if mc, isMC := canon(oc.Call.Value).(*ssa.MakeClosure); isMC {
						g, _ = mc.Fn.(*ssa.Function)
					} else if f, isF := canon(oc.Call.Value).(*ssa.Function); isF && f.Parent() == fn {
						g = f
					}
					if g == nil || g.Parent() != fn {
						continue
					}
					k := -1
					for ai, a := range oc.Call.Args {
						if fl.elemOf(a) {
							k = ai
						}
					}
					if k < 0 || k >= len(g.Params) {
						continue
					}
					var inner []ssa.CallInstruction
					for _, ci := range calls {
						if ci.(ssa.Instruction).Parent() == g {
							inner = append(inner, ci)
						}
					}
					if len(inner) != 1 {
						continue
					}
					ic := inner[0]
					cnt := c.newPathCounter(func(i ssa.Instruction) bool { return i == ic.(ssa.Instruction) }, 0).fn(g, 0)
					if cnt.min != 1 || cnt.max != 1 {
						okLit, whyLit = false, "the function literal does not make the forwarded call exactly once on every path"
					}
					if canon(callRecv(ic)) != ssa.Value(g.Params[k]) {
						okLit, whyLit = false, "the function literal does not call its own parameter (the loop element)"
					}
					args := callArgs(ic)
					if len(args) != len(fn.Params)-1 {
						okLit, whyLit = false, "the forwarded call does not pass exactly the method's parameters"
					} else {
						for i, a := range args {
							if canon(a) != ssa.Value(fn.Params[i+1]) {
								okLit, whyLit = false, fmt.Sprintf("argument %d of the forwarded call is not the method's parameter #%d unchanged", i+1, i+1)
							}
						}
					}
					// the literal answers with the child's answer
					if sp.mode == fwdErrExit || sp.mode == fwdBoolAnd || sp.mode == fwdAllFirstErr {
						for _, r := range returnsOf(g) {
							if len(r.Results) == 0 {
								okLit, whyLit = false, "the function literal does not return the child's answer"
								continue
							}
							for _, va := range resultValues(r, len(r.Results)-1) {
								v := canon(va.Val)
								if ex, isEx := v.(*ssa.Extract); isEx {
									v = ex.Tuple
								}
								if cv, isV := ic.(ssa.Value); !isV || v != cv {
									okLit, whyLit = false, "the function literal does not return the child's answer unchanged"
								}
							}
						}
					}
					outer = append(outer, oc)
					viaLiteral[oc] = true
				}
			}
			if len(outer) == 0 {
				okLit, whyLit = false, "the forwarded call is made inside a function literal that the per-child loop does not call with the loop element"
			}
			if !okLit {
				return fail(fn.Pos(), whyLit+": children receive a different call than the one made on the multi reporter / transport")
			}
			calls = outer
		}
	}
	// the loop is reached on every path: no return before (or around) it - an early return means that
	// for some arguments or some history no child is called at all
	for _, r := range returnsOf(fn) {
		if !lp.Header.Dominates(r.Block()) {
			return fail(r.Pos(), "the method can return without entering the per-child loop: for some arguments, or depending on earlier calls, no child receives the call", c.describe(r))
		}
	}
	// every forwarded call is inside the loop, on the loop element, with the method's own parameters
	for _, ci := range calls {
		in := ci.(ssa.Instruction)
		if !lp.Blocks[in.Block()] {
			return fail(in.Pos(), "a child's "+sp.target+" is called outside the per-child loop (a child is called twice, or a specific child is singled out)", c.describe(in))
		}
		if viaLiteral[ci] {
			continue // checked above, inside the literal
		}
		if !fl.elemOf(callRecv(ci)) {
			return fail(in.Pos(), "the forwarded call is not made on the loop's own element children[i]", c.describe(in))
		}
		args := callArgs(ci)
		if len(args) != len(fn.Params)-1 {
			return fail(in.Pos(), "the forwarded call does not pass exactly the method's parameters", c.describe(in))
		}
		for i, a := range args {
			if canon(a) != ssa.Value(fn.Params[i+1]) {
				return fail(in.Pos(), fmt.Sprintf("argument %d of the forwarded call is not the method's parameter #%d unchanged: children receive a different call than the one made on the multi reporter", i+1, i+1), c.describe(in))
			}
		}
	}
	isCall := func(i ssa.Instruction) bool {
		for _, ci := range calls {
			if ci.(ssa.Instruction) == i {
				return true
			}
		}
		return false
	}
	isLatch := func(b *ssa.BasicBlock) bool {
		for _, l := range lp.Latch {
			if l == b {
				return true
			}
		}
		return false
	}
	cnt := c.newPathCounter(isCall, 0).region(fn, lp.Header, lp.Blocks, isLatch, 0)
	c.paths++
	if sp.mode == fwdCapsAnd {
		if cnt.max > sp.perIter || len(calls) == 0 {
			return fail(lp.Header.Instrs[0].Pos(), fmt.Sprintf("a child's %s is queried up to %d times per iteration (expected at most %d)", sp.target, cnt.max, sp.perIter))
		}
	} else if cnt.min != sp.perIter || cnt.max != sp.perIter {
		return fail(lp.Header.Instrs[0].Pos(), fmt.Sprintf("each iteration makes between %d and %d %s call(s) on the child (exactly %d required): a child is skipped conditionally or called repeatedly", cnt.min, cnt.max, sp.target, sp.perIter))
	}
	// exits: the loop may only be left through its header, except (errExit / boolAnd) through an
	// edge that depends on the child's own answer and leads straight to a return
	for b := range lp.Blocks {
		for _, s := range b.Succs {
			if lp.Blocks[s] || b == lp.Header {
				continue
			}
			okExit := false
			if sp.mode == fwdErrExit || sp.mode == fwdBoolAnd {
				// b ends in an If whose condition derives from a forwarded call's result
				if iff, isIf := condOf(b); isIf {
					dep := false
					for _, alt := range condAlternatives(iff.Cond, 2) {
						var leaves []ssa.Value
						if _, x, y, isCmp := cmpOf(alt.v); isCmp {
							leaves = []ssa.Value{x, y}
						} else {
							v := alt.v
							for {
								if u, isU := v.(*ssa.UnOp); isU && u.Op == token.NOT {
									v = u.X
									continue
								}
								break
							}
							leaves = []ssa.Value{v}
						}
						for _, lv := range leaves {
							lv = canon(lv)
							if ex, isEx := lv.(*ssa.Extract); isEx {
								lv = ex.Tuple
							}
							isCallRes := func(lv ssa.Value) bool {
								lv = canon(lv)
								if ex, isEx := lv.(*ssa.Extract); isEx {
									lv = ex.Tuple
								}
								for _, ci := range calls {
									if v, isV := ci.(ssa.Value); isV && lv == v {
										return true
									}
								}
								return false
							}
							if isCallRes(lv) {
								dep = true
							}
							// `for ...; err == nil; ...`: the loop-carried error, nil on entry and the
							// child's answer on every way round
							if phi, isPhi := lv.(*ssa.Phi); isPhi && phi.Block() == lp.Header {
								all := true
								for i, e := range phi.Edges {
									if lp.Blocks[phi.Block().Preds[i]] {
										if !isCallRes(e) {
											all = false
										}
									} else if !isNilConst(e) {
										all = false
									}
								}
								if all {
									dep = true
								}
							}
						}
					}
					// and the exit edge reaches a return without re-entering the loop
					if dep && len(s.Instrs) > 0 {
						if r := reachAvoiding(s.Instrs[0], true, isReturn, func(i ssa.Instruction) bool { return lp.Blocks[i.Block()] }); r != nil {
							okExit = true
						}
					}
					// errExit: the edge that leaves is the "child failed" outcome (err != nil), not the
					// "child succeeded" one - leaving after the first success skips the remaining children
					if okExit && sp.mode == fwdErrExit {
						op, x, y, isCmp := cmpOf(iff.Cond)
						if isCmp && (op == token.EQL || op == token.NEQ) {
							if isNilConst(x) {
								x, y = y, x
							}
							if isNilConst(y) && types.Identical(x.Type(), types.Universe.Lookup("error").Type()) {
								failEdge := b2i(op == token.EQL) // index of the err != nil outcome
								if b.Succs[failEdge] != s {
									return fail(iff.Pos(), "the loop over the children is left when a child SUCCEEDS (err == nil) instead of when it fails: after the first success the remaining children are not called")
								}
							}
						}
					}
				}
			}
			if !okExit && sp.mode == fwdAllFirstErr {
				return fail(b.Instrs[len(b.Instrs)-1].Pos(), "the loop over the destinations is left before every destination's "+sp.target+" was called (also when it is left on a destination's error): the destinations after the failing one keep the message in their buffers and send it glued to the next message, or never")
			}
			if !okExit {
				return fail(b.Instrs[len(b.Instrs)-1].Pos(), "the loop over the children can be left early (break/return not caused by the child's own error): later children are not called")
			}
		}
	}
	if sp.mode == fwdAllFirstErr {
		// the error returned is nil or a child's answer, and a child's answer is committed only where
		// it was found non-nil (a later success must not wipe out an earlier failure)
		isCallRes := func(v ssa.Value) ssa.Value {
			v = canon(v)
			if ex, isEx := v.(*ssa.Extract); isEx {
				v = ex.Tuple
			}
			for _, ci := range calls {
				if cv, isV := ci.(ssa.Value); isV && v == cv {
					return v
				}
			}
			return nil
		}
		sawChild := false
		seen := map[ssa.Value]bool{}
		var walkErr func(v ssa.Value, pred *ssa.BasicBlock) string
		walkErr = func(v ssa.Value, pred *ssa.BasicBlock) string {
			v = canon(v)
			if isNilConst(v) {
				return ""
			}
			if r := isCallRes(v); r != nil {
				sawChild = true
				// committed on the edge r != nil
				if pred != nil {
					for _, b := range fn.Blocks {
						iff, isIf := condOf(b)
						if !isIf {
							continue
						}
						for _, alt := range condAlternatives(iff.Cond, 2) {
							op, x, y, isCmp := cmpOf(alt.v)
							if !isCmp || (op != token.EQL && op != token.NEQ) {
								continue
							}
							if isNilConst(x) {
								x, y = y, x
							}
							if !isNilConst(y) {
								continue
							}
							if _, isAcc := canon(x).(*ssa.Phi); isAcc && seen[canon(x)] {
								// ... or committed while the error kept so far is still nil (nothing to wipe out)
								idxNil := b2i(op == token.NEQ) // successor taken when the accumulator == nil
								if alt.onlyWhen == -1 || alt.onlyWhen == idxNil {
									if edgeDominates(b, idxNil, pred) {
										return ""
									}
								}
								continue
							}
							if isCallRes(x) != r {
								continue
							}
							idx := b2i(op == token.EQL) // successor taken when r != nil
							if alt.onlyWhen != -1 && alt.onlyWhen != idx {
								continue
							}
							if edgeDominates(b, idx, pred) || b == pred {
								return ""
							}
						}
					}
				}
				return "a child's answer replaces the error to be returned on a path where that answer was not found to be an error: a later success wipes out an earlier failure"
			}
			if phi, isPhi := v.(*ssa.Phi); isPhi {
				if seen[v] {
					return ""
				}
				seen[v] = true
				for i, e := range phi.Edges {
					if w := walkErr(e, phi.Block().Preds[i]); w != "" {
						return w
					}
				}
				return ""
			}
			return "the error returned is neither nil nor a child's answer"
		}
		for _, r := range returnsOf(fn) {
			if len(r.Results) == 0 {
				continue
			}
			if w := walkErr(r.Results[len(r.Results)-1], nil); w != "" {
				return fail(r.Pos(), w, c.describe(r))
			}
		}
		if !sawChild {
			return fail(fn.Pos(), "no child's error can reach the caller: a failed "+sp.target+" is reported as success")
		}
	}
	// nothing else with side effects on shared state inside the loop: no other calls except builtins
	for b := range lp.Blocks {
		for _, in := range b.Instrs {
			ci, isC := in.(ssa.CallInstruction)
			if !isC || isCall(in) {
				continue
			}
			if _, isB := ci.Common().Value.(*ssa.Builtin); isB {
				continue
			}
			if sp.mode == fwdCapsAnd {
				// capability queries on the child's answer
				if r, m := ifaceCall(ci); m != nil && (m.Name() == "Reporting" || m.Name() == "Tagging") {
					ok := false
					for _, fc := range calls {
						if v, isV := fc.(ssa.Value); isV && canon(r) == v {
							ok = true
						}
					}
					if ok {
						continue
					}
				}
			}
			return fail(in.Pos(), "the per-child loop does something besides forwarding the call (extra call inside the loop)", c.describe(in))
		}
	}
	res := fwdResultSSA{ok: true}
	for _, ci := range calls {
		if v, ok := ci.(ssa.Value); ok {
			res.callVals = append(res.callVals, v)
		}
	}
	if sp.mode == fwdCollect {
		// list' = append(list, result) with list a header phi starting from an empty private slice
		var app *ssa.Call
		for b := range lp.Blocks {
			for _, in := range b.Instrs {
				if call, ok := in.(*ssa.Call); ok && isBuiltin(call, "append") {
					_, elems, _, isApp := appendedValues(call)
					if isApp && len(elems) == 1 && len(res.callVals) == 1 && canon(elems[0]) == res.callVals[0] {
						app = call
					}
				}
			}
		}
		if app == nil {
			// index form: list := make([]T, len(children)); list[i] = child.M(...) in every iteration
			var target *ssa.MakeSlice
			for b := range lp.Blocks {
				for _, in := range b.Instrs {
					st, ok := in.(*ssa.Store)
					if !ok || len(res.callVals) != 1 || canon(stripConv(st.Val)) != res.callVals[0] {
						continue
					}
					ia, isIA := st.Addr.(*ssa.IndexAddr)
					if !isIA || stripConv(canon(ia.Index)) != stripConv(canon(fl.idx)) {
						continue
					}
					ms, isMS := stripConv(canon(ia.X)).(*ssa.MakeSlice)
					if !isMS {
						continue
					}
					// len(list) == len(children): make(T, len(children)) with the same list
					if ln, isLn := stripConv(ms.Len).(*ssa.Call); isLn && isBuiltin(ln, "len") && accessPath(ln.Call.Args[0]) == fl.list {
						every := true
						for _, latch := range lp.Latch {
							if !st.Block().Dominates(latch) {
								every = false
							}
						}
						if every {
							target = ms
						}
					}
				}
			}
			if target == nil {
				return fail(lp.Header.Instrs[0].Pos(), "the child's handle is not appended to the list of handles: it is dropped")
			}
			res.collect = target
			c.ok(rule, key, lp.Header.Instrs[0].Pos(), fmt.Sprintf("one loop over every index of %s; %s on children[i] with the method's own parameters, stored at handles[i] of a fresh slice of the same length", wantList, sp.target))
			return res
		}
		phi, isPhi := stripConv(app.Call.Args[0]).(*ssa.Phi)
		if !isPhi || phi.Block() != lp.Header {
			return fail(app.Pos(), "the handles are not accumulated in one loop-carried list")
		}
		for i, e := range phi.Edges {
			if lp.Blocks[phi.Block().Preds[i]] {
				if e != ssa.Value(app) {
					return fail(app.Pos(), "the loop-carried list is not the result of the per-child append")
				}
				continue
			}
			if !emptyPrivateSlice(e) {
				return fail(app.Pos(), "the list the children's handles are collected into does not start as an empty slice private to this call (it is taken from a field or another shared slice): handles returned by different calls share one backing array and report to the wrong children")
			}
		}
		res.collect = phi
	}
	c.ok(rule, key, lp.Header.Instrs[0].Pos(), fmt.Sprintf("one loop over every index of %s; %s on children[i] with the method's own parameters; no other exit or work", wantList, sp.target))
	return res
}

// emptyPrivateSlice: nil, make([]T, 0, n) or an empty literal.
func emptyPrivateSlice(v ssa.Value) bool {
	v = stripConv(v)
	if isNilConst(v) {
		return true
	}
	if ms, ok := v.(*ssa.MakeSlice); ok {
		k, isK := constInt(ms.Len)
		return isK && k == 0
	}
	if sl, ok := v.(*ssa.Slice); ok {
		if al, isAl := sl.X.(*ssa.Alloc); isAl {
			if arr, isArr := deref(al.Type()).Underlying().(*types.Array); isArr && arr.Len() == 0 {
				return true
			}
		}
	}
	return false
}

// checkCapsConjunction: the accumulator for each capability is a loop-carried boolean that starts
// true and, per child, becomes child.Capabilities().<Cap>() when it was still true and stays false
// otherwise (x = x && f()  or  if x { x = f() }); the returned capabilities hold the accumulators.
func (c *Ctx) checkCapsConjunction(rule string, fn *ssa.Function, res fwdResultSSA) {
	key := c.fnKey(fn)
	loops := fullIndexLoops(fn)
	if len(loops) != 1 {
		c.bad(rule, key, fn.Pos(), "no single loop over all children")
		return
	}
	lp := loops[0].loop
	want := map[string]string{"reporting": "Reporting", "tagging": "Tagging"}
	// the returned object: &capabilities{...} or fields of a local; find stores to fields named reporting/tagging
	// and loop-carried booleans (header phis, or loads/stores of a cell field for the struct-accumulator form)
	found := map[string]bool{}
	type nextEdge struct {
		v    ssa.Value
		pred *ssa.BasicBlock
	}
	checkAcc := func(capField string, init ssa.Value, nexts []nextEdge, isAccLoad func(ssa.Value) bool) bool {
		if k, isK := constBool(init); !isK || !k {
			return false
		}
		// next: phi whose leaves are: capQuery (on the acc-true edge) | false | acc (on the acc-false edge)
		isQuery := func(v ssa.Value) bool {
			call, ok := stripConv(v).(*ssa.Call)
			if !ok {
				return false
			}
			r, m := ifaceCall(call)
			if m == nil || m.Name() != want[capField] {
				return false
			}
			for _, cv := range res.callVals {
				if canon(r) == cv {
					return true
				}
			}
			return false
		}
		// leaves of the value carried into the next iteration: (value, predecessor block, block of the phi)
		type leaf struct {
			v          ssa.Value
			pred, into *ssa.BasicBlock
		}
		var leaves []leaf
		var expand func(v ssa.Value, pred, into *ssa.BasicBlock, depth int)
		expand = func(v ssa.Value, pred, into *ssa.BasicBlock, depth int) {
			if p, isP := v.(*ssa.Phi); isP && lp.Blocks[p.Block()] && p.Block() != lp.Header && depth > 0 {
				for i, e := range p.Edges {
					expand(e, p.Block().Preds[i], p.Block(), depth-1)
				}
				return
			}
			for _, l := range leaves {
				if l.v == v && l.pred == pred && l.into == into {
					return
				}
			}
			leaves = append(leaves, leaf{v, pred, into})
		}
		for _, nx := range nexts {
			expand(nx.v, nx.pred, lp.Header, 4)
		}
		nQ := 0
		for _, lf := range leaves {
			e, pred, into := lf.v, lf.pred, lf.into
			switch {
			case isQuery(e):
				nQ++
				// must be on the acc-true side: the query's block is dominated by the true edge of `if acc`
				g := guardedByEdge(stripConv(e).(ssa.Instruction), func(cond ssa.Value) (bool, bool) { return isAccLoad(cond), true })
				if g == nil {
					return false
				}
			default:
				// false constant, or the accumulator itself arriving over the acc-false edge
				if k, isK := constBool(e); isK && !k {
					continue
				}
				if isAccLoad(e) {
					ok := false
					for _, b := range fn.Blocks {
						if iff, isIf := condOf(b); isIf && isAccLoad(iff.Cond) {
							if (b == pred && b.Succs[1] == into) || edgeDominates(b, 1, pred) {
								ok = true
							}
						}
					}
					if !ok {
						return false
					}
					continue
				}
				return false
			}
		}
		return nQ == 1
	}
	// form 1: local boolean accumulators (header phis)
	for _, in := range lp.Header.Instrs {
		phi, ok := in.(*ssa.Phi)
		if !ok {
			continue
		}
		if b, isB := phi.Type().Underlying().(*types.Basic); !isB || b.Kind() != types.Bool {
			continue
		}
		var init ssa.Value
		var next []nextEdge
		for i, e := range phi.Edges {
			if lp.Blocks[phi.Block().Preds[i]] {
				next = append(next, nextEdge{e, phi.Block().Preds[i]})
			} else {
				init = e
			}
		}
		isAcc := func(v ssa.Value) bool { return stripConv(v) == ssa.Value(phi) }
		for capField := range want {
			if found[capField] {
				continue
			}
			if checkAcc(capField, init, next, isAcc) {
				// returned in the field of that name
				okRet := false
				instrsOf(fn, func(i ssa.Instruction) {
					if st, isSt := i.(*ssa.Store); isSt {
						if f, _ := addrField(st.Addr); f != nil && f.Name() == capField && stripConv(st.Val) == ssa.Value(phi) && !lp.Blocks[st.Block()] {
							okRet = true
						}
					}
				})
				if okRet {
					found[capField] = true
				}
			}
		}
	}
	// form 2: struct accumulator c.f updated in the loop: c.f = c.f && query
	for capField := range want {
		if found[capField] {
			continue
		}
		var initSt, loopSt *ssa.Store
		instrsOf(fn, func(i ssa.Instruction) {
			if st, isSt := i.(*ssa.Store); isSt {
				if f, _ := addrField(st.Addr); f != nil && f.Name() == capField {
					if lp.Blocks[st.Block()] {
						loopSt = st
					} else {
						initSt = st
					}
				}
			}
		})
		if initSt == nil || loopSt == nil {
			continue
		}
		isAcc := func(v ssa.Value) bool {
			f, base := loadedField(stripConv(v))
			sf, sbase := addrField(loopSt.Addr)
			return f != nil && f == sf && accessPath(base) == accessPath(sbase)
		}
		if checkAcc(capField, initSt.Val, []nextEdge{{loopSt.Val, loopSt.Block()}}, isAcc) {
			// the accumulator object is what is returned
			_, sbase := addrField(loopSt.Addr)
			for _, r := range returnsOf(fn) {
				if canon(rootOf(stripConv(r.Results[0]))) == canon(rootOf(sbase)) {
					found[capField] = true
				}
			}
		}
	}
	for capField, m := range want {
		c.check(found[capField], rule, key+":"+capField, fn.Pos(), capField+" = conjunction over all children of child.Capabilities()."+m+"(), starting at true",
			"the "+capField+" capability of the multi reporter is not the conjunction (starting at true) of child.Capabilities()."+m+"() over all children")
	}
}
