package main

import (
	"fmt"
	"go/constant"
	"go/token"
	"go/types"
	"strings"

	"golang.org/x/tools/go/ssa"
	"golang.org/x/tools/go/ssa/ssautil"
)

const inf = 1 << 30

// ---- types / fields ---------------------------------------------------------------------

func deref(t types.Type) types.Type {
	if p, ok := t.Underlying().(*types.Pointer); ok {
		return p.Elem()
	}
	return t
}

// structFieldOf returns field idx of the struct (or pointer to struct) type t.
func structFieldOf(t types.Type, idx int) *types.Var {
	st, ok := deref(t).Underlying().(*types.Struct)
	if !ok || idx >= st.NumFields() {
		return nil
	}
	return st.Field(idx)
}

// addrField: if v is &x.f returns (f, x).
func addrField(v ssa.Value) (*types.Var, ssa.Value) {
	if fa, ok := v.(*ssa.FieldAddr); ok {
		return structFieldOf(fa.X.Type(), fa.Field), fa.X
	}
	return nil, nil
}

// loadedField: if v is the value x.f (a load of &x.f, or a Field of a struct value) returns (f, x).
func loadedField(v ssa.Value) (*types.Var, ssa.Value) {
	switch x := v.(type) {
	case *ssa.UnOp:
		if x.Op == token.MUL {
			return addrField(x.X)
		}
	case *ssa.Field:
		return structFieldOf(x.X.Type(), x.Field), x.X
	}
	return nil, nil
}

// stripConv removes value-preserving wrappers (ChangeType, MakeInterface, ChangeInterface).
func stripConv(v ssa.Value) ssa.Value {
	for {
		switch x := v.(type) {
		case *ssa.ChangeType:
			v = x.X
		case *ssa.MakeInterface:
			v = x.X
		case *ssa.ChangeInterface:
			v = x.X
		default:
			return v
		}
	}
}

// accessPath renders the access path (root + field chain) of a value or address. go/ssa does no
// CSE, so two loads of s.registry are distinct values with the same path.
func accessPath(v ssa.Value) string {
	switch x := v.(type) {
	case *ssa.FieldAddr:
		f := structFieldOf(x.X.Type(), x.Field)
		n := "?"
		if f != nil {
			n = f.Name()
		}
		return accessPath(x.X) + "." + n
	case *ssa.Field:
		f := structFieldOf(x.X.Type(), x.Field)
		n := "?"
		if f != nil {
			n = f.Name()
		}
		return accessPath(x.X) + "." + n
	case *ssa.UnOp:
		if x.Op == token.MUL {
			if s := spilled(x.X); s != nil {
				return accessPath(s)
			}
			return accessPath(x.X)
		}
		return x.Name()
	case *ssa.IndexAddr:
		return accessPath(x.X) + "[]"
	case *ssa.Index:
		return accessPath(x.X) + "[]"
	case *ssa.ChangeType:
		return accessPath(x.X)
	case *ssa.MakeInterface:
		return accessPath(x.X)
	case *ssa.ChangeInterface:
		return accessPath(x.X)
	case *ssa.TypeAssert:
		return accessPath(x.X)
	case *ssa.Parameter:
		return x.Name()
	case *ssa.FreeVar:
		return x.Name()
	case *ssa.Global:
		return x.Name()
	case *ssa.Alloc:
		if s := spilled(x); s != nil {
			return accessPath(s)
		}
		if x.Comment != "" {
			return "&" + x.Comment + "#" + x.Name()
		}
		return x.Name()
	case nil:
		return "<nil>"
	}
	return v.Name()
}

// rootOf returns the root value of an access path.
func rootOf(v ssa.Value) ssa.Value {
	for {
		switch x := v.(type) {
		case *ssa.FieldAddr:
			v = x.X
		case *ssa.Field:
			v = x.X
		case *ssa.UnOp:
			if x.Op != token.MUL {
				return v
			}
			v = x.X
		case *ssa.IndexAddr:
			v = x.X
		case *ssa.Index:
			v = x.X
		case *ssa.ChangeType:
			v = x.X
		case *ssa.MakeInterface:
			v = x.X
		case *ssa.ChangeInterface:
			v = x.X
		case *ssa.TypeAssert:
			v = x.X
		default:
			return v
		}
	}
}

// ---- calls ----------------------------------------------------------------------------------

// asCall returns the call carried by a Call or Defer instruction (not Go: asynchronous).
func asCall(instr ssa.Instruction) ssa.CallInstruction {
	switch x := instr.(type) {
	case *ssa.Call:
		return x
	case *ssa.Defer:
		return x
	}
	return nil
}

// calleeName renders the resolved callee: "sync/atomic.LoadInt64", "(*sync.RWMutex).Lock",
// or for interface calls "(iface pkg.Type).Method".
func calleeName(call ssa.CallInstruction) string {
	cc := call.Common()
	if cc.IsInvoke() {
		return "(iface " + types.TypeString(cc.Value.Type(), nil) + ")." + cc.Method.Name()
	}
	if f := cc.StaticCallee(); f != nil {
		return f.String()
	}
	if b, ok := cc.Value.(*ssa.Builtin); ok {
		return "builtin." + b.Name()
	}
	return "dynamic"
}

// staticCallee returns the statically resolved function (incl. directly called closures).
func staticCallee(call ssa.CallInstruction) *ssa.Function {
	return call.Common().StaticCallee()
}

// thunkMethod: call is a static call of the synthetic wrapper go/ssa creates for an interface method
// expression (`I.M(x, args...)`, e.g. after a higher-order helper was inlined): the method invoked.
func thunkMethod(cc *ssa.CallCommon) *types.Func {
	g := cc.StaticCallee()
	if g == nil || g.Synthetic == "" || len(g.Blocks) != 1 || len(g.Params) == 0 || len(cc.Args) == 0 {
		return nil
	}
	var m *types.Func
	n := 0
	for _, in := range g.Blocks[0].Instrs {
		if ci, ok := in.(ssa.CallInstruction); ok {
			n++
			if c2 := ci.Common(); c2.IsInvoke() && c2.Value == ssa.Value(g.Params[0]) {
				m = c2.Method
			}
		}
	}
	if n != 1 {
		return nil
	}
	return m
}

// ifaceCall: if call invokes interface method m returns (receiver value, method).
func ifaceCall(call ssa.CallInstruction) (ssa.Value, *types.Func) {
	cc := call.Common()
	if cc.IsInvoke() {
		return cc.Value, cc.Method
	}
	if m := thunkMethod(cc); m != nil {
		return cc.Args[0], m
	}
	return nil, nil
}

// callArgs returns the arguments without the receiver for both static method calls and invokes.
func callArgs(call ssa.CallInstruction) []ssa.Value {
	cc := call.Common()
	if cc.IsInvoke() {
		return cc.Args
	}
	if thunkMethod(cc) != nil {
		return cc.Args[1:]
	}
	if f := cc.StaticCallee(); f != nil && f.Signature.Recv() != nil && len(cc.Args) > 0 {
		return cc.Args[1:]
	}
	return cc.Args
}

// callRecv returns the receiver of a method call (static or invoke), or nil.
func callRecv(call ssa.CallInstruction) ssa.Value {
	cc := call.Common()
	if cc.IsInvoke() {
		return cc.Value
	}
	if thunkMethod(cc) != nil {
		return cc.Args[0]
	}
	if f := cc.StaticCallee(); f != nil && f.Signature.Recv() != nil && len(cc.Args) > 0 {
		return cc.Args[0]
	}
	return nil
}

// isBuiltin reports whether call is the builtin name (close, delete, append, len, copy ...).
func isBuiltin(call ssa.CallInstruction, name string) bool {
	b, ok := call.Common().Value.(*ssa.Builtin)
	return ok && b.Name() == name
}

// callsMethodOf reports whether call is a call (static or invoke) to a method with the given
// name whose receiver's named type is pkgpath.typ (pointer or value).
func recvNamed(call ssa.CallInstruction) (pkg, typ, method string) {
	cc := call.Common()
	var rt types.Type
	if cc.IsInvoke() {
		rt = cc.Value.Type()
		method = cc.Method.Name()
	} else if f := cc.StaticCallee(); f != nil && f.Signature.Recv() != nil {
		rt = f.Signature.Recv().Type()
		method = f.Name()
	} else {
		return "", "", ""
	}
	if n, ok := deref(rt).(*types.Named); ok {
		if n.Obj().Pkg() != nil {
			pkg = n.Obj().Pkg().Path()
		}
		typ = n.Obj().Name()
	}
	return
}

// ---- atomics ----------------------------------------------------------------------------------

// atomicOp is one atomic operation on an address.
type atomicOp struct {
	Kind  string // load | store | swap | cas | add
	Addr  ssa.Value
	Field *types.Var  // field operated on, if Addr is &x.f
	Base  ssa.Value   // x
	Args  []ssa.Value // operands after the address
	Call  ssa.CallInstruction
}

func atomicKind(name string) string {
	switch {
	case strings.HasPrefix(name, "Load"):
		return "load"
	case strings.HasPrefix(name, "Store"):
		return "store"
	case strings.HasPrefix(name, "Swap"):
		return "swap"
	case strings.HasPrefix(name, "CompareAndSwap"), name == "CAS":
		return "cas"
	case strings.HasPrefix(name, "Add"), name == "Inc", name == "Dec", name == "Sub", strings.HasPrefix(name, "And"), strings.HasPrefix(name, "Or"), name == "Toggle":
		return "add"
	}
	return ""
}

// atomicOpOf classifies instr as an atomic operation (sync/atomic functions, sync/atomic typed
// values, go.uber.org/atomic values).
func atomicOpOf(instr ssa.Instruction) *atomicOp {
	call := asCall(instr)
	if call == nil {
		return nil
	}
	f := staticCallee(call)
	if f == nil || f.Pkg == nil && f.Package() == nil {
		return nil
	}
	var pkgPath string
	if f.Package() != nil && f.Package().Pkg != nil {
		pkgPath = f.Package().Pkg.Path()
	}
	if pkgPath != "sync/atomic" && pkgPath != "go.uber.org/atomic" {
		return nil
	}
	args := call.Common().Args
	if len(args) == 0 {
		return nil
	}
	if f.Signature.Recv() == nil && pkgPath != "sync/atomic" {
		return nil
	}
	kind := atomicKind(f.Name())
	if kind == "" {
		return nil
	}
	op := &atomicOp{Kind: kind, Addr: args[0], Args: args[1:], Call: call}
	op.Field, op.Base = addrField(args[0])
	return op
}

// ---- locks -------------------------------------------------------------------------------------

type lockOp struct {
	Op   string // Lock | Unlock | RLock | RUnlock
	Addr ssa.Value
	Path string // access path of the mutex
	Call ssa.CallInstruction
}

func lockOpOf(instr ssa.Instruction) *lockOp {
	call := asCall(instr)
	if call == nil {
		return nil
	}
	f := staticCallee(call)
	if f == nil || f.Signature.Recv() == nil {
		return nil
	}
	pkg, typ, m := recvNamed(call)
	if pkg != "sync" || (typ != "RWMutex" && typ != "Mutex") {
		return nil
	}
	switch m {
	case "Lock", "Unlock", "RLock", "RUnlock":
	default:
		return nil
	}
	a := call.Common().Args[0]
	return &lockOp{Op: m, Addr: a, Path: accessPath(a), Call: call}
}

// ---- CFG helpers ---------------------------------------------------------------------------------

func instrIndex(instr ssa.Instruction) int {
	for i, in := range instr.Block().Instrs {
		if in == instr {
			return i
		}
	}
	return -1
}

// dominates: a is executed before b on every path from the entry to b.
func dominates(a, b ssa.Instruction) bool {
	if a.Block() == b.Block() {
		return instrIndex(a) < instrIndex(b)
	}
	return a.Block().Dominates(b.Block())
}

// instrsOf iterates all instructions of fn in block order.
func instrsOf(fn *ssa.Function, f func(ssa.Instruction)) {
	for _, b := range fn.Blocks {
		for _, in := range b.Instrs {
			f(in)
		}
	}
}

// findInstrs returns the instructions of fn satisfying pred.
func findInstrs(fn *ssa.Function, pred func(ssa.Instruction) bool) []ssa.Instruction {
	var out []ssa.Instruction
	instrsOf(fn, func(in ssa.Instruction) {
		if pred(in) {
			out = append(out, in)
		}
	})
	return out
}

// walk explores instructions reachable from start (exclusive when !inclusive). visit returns
// true to stop exploring beyond that instruction (a barrier). It returns the visited set.
func walk(start ssa.Instruction, inclusive bool, visit func(ssa.Instruction) bool) {
	type pos struct {
		b *ssa.BasicBlock
		i int
	}
	seenBlockStart := map[*ssa.BasicBlock]bool{}
	var run func(b *ssa.BasicBlock, i int)
	run = func(b *ssa.BasicBlock, i int) {
		for ; i < len(b.Instrs); i++ {
			if visit(b.Instrs[i]) {
				return
			}
		}
		for _, s := range b.Succs {
			if !seenBlockStart[s] {
				seenBlockStart[s] = true
				run(s, 0)
			}
		}
	}
	i := instrIndex(start)
	if !inclusive {
		i++
	}
	run(start.Block(), i)
}

// entryInstr returns the first instruction of fn.
func entryInstr(fn *ssa.Function) ssa.Instruction {
	if len(fn.Blocks) == 0 || len(fn.Blocks[0].Instrs) == 0 {
		return nil
	}
	return fn.Blocks[0].Instrs[0]
}

// reachAvoiding reports an instruction satisfying target that is reachable from start without
// passing an instruction satisfying barrier (barrier is tested first; a barrier that is also a
// target is not reported).
func reachAvoiding(start ssa.Instruction, inclusive bool, target, barrier func(ssa.Instruction) bool) ssa.Instruction {
	var found ssa.Instruction
	walk(start, inclusive, func(in ssa.Instruction) bool {
		if found != nil {
			return true
		}
		if barrier != nil && barrier(in) {
			return true
		}
		if target(in) {
			found = in
			return true
		}
		return false
	})
	return found
}

func isReturn(in ssa.Instruction) bool { _, ok := in.(*ssa.Return); return ok }

// ---- event lifting (inlining summaries) --------------------------------------------------------

// Pred classifies a single instruction.
type Pred func(ssa.Instruction) bool

// lifter lifts a predicate over instructions to "this instruction performs the event, directly or
// inside a statically resolved in-module callee" (inlining bound depth).
type lifter struct {
	p     *Program
	pred  Pred
	depth int
	may   map[*ssa.Function]int // 0 unknown, 1 no, 2 yes
	must  map[*ssa.Function]int
}

func (p *Program) newLifter(pred Pred, depth int) *lifter {
	return &lifter{p: p, pred: pred, depth: depth, may: map[*ssa.Function]int{}, must: map[*ssa.Function]int{}}
}

func (l *lifter) fnMay(fn *ssa.Function, depth int) bool {
	if fn == nil || fn.Blocks == nil || !l.p.inModule(fn) {
		return false
	}
	if v := l.may[fn]; v != 0 {
		return v == 2
	}
	if depth <= 0 {
		return false
	}
	l.may[fn] = 1 // cycle guard
	res := false
	instrsOf(fn, func(in ssa.Instruction) {
		if !res && l.instrMay(in, depth-1) {
			res = true
		}
	})
	if res {
		l.may[fn] = 2
	}
	return res
}

func (l *lifter) instrMay(in ssa.Instruction, depth int) bool {
	switch x := in.(type) {
	case *ssa.Go:
		return false
	case *ssa.RunDefers:
		return false // deferred calls are accounted for at their Defer instruction for "may"
	case *ssa.Defer:
		if l.pred(x) {
			return true
		}
		return l.fnMay(staticCallee(x), depth)
	case *ssa.Call:
		if l.pred(x) {
			return true
		}
		return l.fnMay(staticCallee(x), depth)
	}
	return l.pred(in)
}

// May: the instruction may perform the event.
func (l *lifter) May(in ssa.Instruction) bool { return l.instrMay(in, l.depth) }

func (l *lifter) fnMust(fn *ssa.Function, depth int) bool {
	if fn == nil || fn.Blocks == nil || !l.p.inModule(fn) {
		return false
	}
	if v := l.must[fn]; v != 0 {
		return v == 2
	}
	if depth <= 0 {
		return false
	}
	l.must[fn] = 1
	e := entryInstr(fn)
	res := false
	if e != nil {
		// every path entry -> return passes a must-instruction
		esc := reachAvoiding(e, true, isReturn, func(in ssa.Instruction) bool { return l.instrMust(in, depth-1) })
		res = esc == nil
	}
	if res {
		l.must[fn] = 2
	}
	return res
}

func (l *lifter) instrMust(in ssa.Instruction, depth int) bool {
	switch x := in.(type) {
	case *ssa.Go, *ssa.Defer:
		return false
	case *ssa.RunDefers:
		for _, d := range findInstrs(in.Parent(), func(i ssa.Instruction) bool { _, ok := i.(*ssa.Defer); return ok }) {
			if !dominates(d, in) {
				continue
			}
			dc := d.(*ssa.Defer)
			if l.pred(dc) || l.fnMust(staticCallee(dc), depth) {
				return true
			}
		}
		return false
	case *ssa.Call:
		if l.pred(x) {
			return true
		}
		return l.fnMust(staticCallee(x), depth)
	}
	return l.pred(in)
}

// Must: the instruction performs the event on every normal path through it.
func (l *lifter) Must(in ssa.Instruction) bool { return l.instrMust(in, l.depth) }

// ---- path counting (A6) ---------------------------------------------------------------------------

type counter2 struct{ min, max int }

// pathCounter counts events on entry->return paths.
type pathCounter struct {
	p     *Program
	pred  Pred
	depth int
	memo  map[*ssa.Function]*counter2
}

func (p *Program) newPathCounter(pred Pred, depth int) *pathCounter {
	return &pathCounter{p: p, pred: pred, depth: depth, memo: map[*ssa.Function]*counter2{}}
}

func addSat(a, b int) int {
	if a >= inf || b >= inf {
		return inf
	}
	return a + b
}

func (pc *pathCounter) instr(in ssa.Instruction, depth int) counter2 {
	switch x := in.(type) {
	case *ssa.Go, *ssa.Defer:
		return counter2{}
	case *ssa.RunDefers:
		tot := counter2{}
		for _, d := range findInstrs(in.Parent(), func(i ssa.Instruction) bool { _, ok := i.(*ssa.Defer); return ok }) {
			dc := d.(*ssa.Defer)
			c := pc.call(dc, depth)
			if !dominates(d, in) {
				c.min = 0
			}
			tot.min = addSat(tot.min, c.min)
			tot.max = addSat(tot.max, c.max)
		}
		return tot
	case *ssa.Call:
		return pc.call(x, depth)
	}
	if pc.pred(in) {
		return counter2{1, 1}
	}
	return counter2{}
}

func (pc *pathCounter) call(c ssa.CallInstruction, depth int) counter2 {
	if pc.pred(c.(ssa.Instruction)) {
		return counter2{1, 1}
	}
	f := staticCallee(c)
	if f == nil || f.Blocks == nil || !pc.p.inModule(f) {
		return counter2{}
	}
	if depth <= 0 {
		l := pc.p.newLifter(pc.pred, 4)
		if l.fnMay(f, 4) {
			return counter2{0, inf}
		}
		return counter2{}
	}
	return pc.fn(f, depth-1)
}

// fn computes (min,max) events on entry->return paths of f.
func (pc *pathCounter) fn(f *ssa.Function, depth int) counter2 {
	if m, ok := pc.memo[f]; ok {
		if m == nil {
			return counter2{0, inf} // recursion
		}
		return *m
	}
	pc.memo[f] = nil
	res := pc.region(f, f.Blocks[0], nil, func(b *ssa.BasicBlock) bool {
		if n := len(b.Instrs); n > 0 {
			_, ok := b.Instrs[n-1].(*ssa.Return)
			return ok
		}
		return false
	}, depth)
	pc.memo[f] = &res
	return res
}

// region counts events on paths start -> any block satisfying isEnd (inclusive), restricted to
// the block set within (nil = whole function). Blocks that cannot reach an end are ignored.
func (pc *pathCounter) region(f *ssa.Function, start *ssa.BasicBlock, within map[*ssa.BasicBlock]bool, isEnd func(*ssa.BasicBlock) bool, depth int) counter2 {
	in := func(b *ssa.BasicBlock) bool { return within == nil || within[b] }
	// weights
	w := map[*ssa.BasicBlock]counter2{}
	for _, b := range f.Blocks {
		if !in(b) {
			continue
		}
		c := counter2{}
		for _, i := range b.Instrs {
			ic := pc.instr(i, depth)
			c.min = addSat(c.min, ic.min)
			c.max = addSat(c.max, ic.max)
		}
		w[b] = c
	}
	// blocks that can reach an end
	canEnd := map[*ssa.BasicBlock]bool{}
	changed := true
	for changed {
		changed = false
		for _, b := range f.Blocks {
			if !in(b) || canEnd[b] {
				continue
			}
			if isEnd(b) {
				canEnd[b] = true
				changed = true
				continue
			}
			for _, s := range b.Succs {
				if in(s) && canEnd[s] {
					canEnd[b] = true
					changed = true
					break
				}
			}
		}
	}
	if !canEnd[start] {
		return counter2{0, 0}
	}
	const unset = -1
	mn := map[*ssa.BasicBlock]int{}
	mx := map[*ssa.BasicBlock]int{}
	for _, b := range f.Blocks {
		mn[b], mx[b] = unset, unset
	}
	mn[start], mx[start] = w[start].min, w[start].max
	n := len(f.Blocks)
	for round := 0; round <= n+1; round++ {
		changed = false
		for _, b := range f.Blocks {
			if !in(b) || !canEnd[b] || mn[b] == unset {
				continue
			}
			if isEnd(b) && within != nil {
				// in region mode an end block does not continue (the latch closes the iteration)
				continue
			}
			for _, s := range b.Succs {
				if !in(s) || !canEnd[s] {
					continue
				}
				if within != nil && s == start {
					continue
				}
				nm := addSat(mn[b], w[s].min)
				if mn[s] == unset || nm < mn[s] {
					mn[s] = nm
					changed = true
				}
				nx := addSat(mx[b], w[s].max)
				if mx[s] == unset || nx > mx[s] {
					if round > n {
						nx = inf
					}
					mx[s] = nx
					changed = true
				}
			}
		}
		if !changed {
			break
		}
	}
	res := counter2{inf, 0}
	any := false
	for _, b := range f.Blocks {
		if in(b) && isEnd(b) && mn[b] != unset {
			any = true
			if mn[b] < res.min {
				res.min = mn[b]
			}
			if mx[b] > res.max {
				res.max = mx[b]
			}
		}
	}
	if !any {
		return counter2{0, 0}
	}
	return res
}

// ---- natural loops --------------------------------------------------------------------------------

type loopInfo struct {
	Header *ssa.BasicBlock
	Blocks map[*ssa.BasicBlock]bool
	Latch  []*ssa.BasicBlock
}

// loopsOf returns the natural loops of fn (one per header, back edges merged).
func loopsOf(fn *ssa.Function) []*loopInfo {
	byHeader := map[*ssa.BasicBlock]*loopInfo{}
	var order []*ssa.BasicBlock
	for _, b := range fn.Blocks {
		for _, s := range b.Succs {
			if s.Dominates(b) { // back edge b -> s
				li := byHeader[s]
				if li == nil {
					li = &loopInfo{Header: s, Blocks: map[*ssa.BasicBlock]bool{s: true}}
					byHeader[s] = li
					order = append(order, s)
				}
				li.Latch = append(li.Latch, b)
				// collect body: predecessors walk from b until header
				stack := []*ssa.BasicBlock{b}
				for len(stack) > 0 {
					x := stack[len(stack)-1]
					stack = stack[:len(stack)-1]
					if li.Blocks[x] {
						continue
					}
					li.Blocks[x] = true
					stack = append(stack, x.Preds...)
				}
			}
		}
	}
	var out []*loopInfo
	for _, h := range order {
		out = append(out, byHeader[h])
	}
	return out
}

// innermostLoop returns the smallest loop containing b, or nil.
func innermostLoop(loops []*loopInfo, b *ssa.BasicBlock) *loopInfo {
	var best *loopInfo
	for _, l := range loops {
		if l.Blocks[b] && (best == nil || len(l.Blocks) < len(best.Blocks)) {
			best = l
		}
	}
	return best
}

// ---- constants / provenance ---------------------------------------------------------------------

func constInt(v ssa.Value) (int64, bool) {
	c, ok := stripConv(v).(*ssa.Const)
	if !ok || c.Value == nil {
		if cv, ok2 := v.(*ssa.Convert); ok2 {
			return constInt(cv.X)
		}
		return 0, false
	}
	if c.Value.Kind() == constant.Int {
		i, exact := constant.Int64Val(c.Value)
		return i, exact
	}
	return 0, false
}

func constBool(v ssa.Value) (bool, bool) {
	c, ok := v.(*ssa.Const)
	if !ok || c.Value == nil || c.Value.Kind() != constant.Bool {
		return false, false
	}
	return constant.BoolVal(c.Value), true
}

func constString(v ssa.Value) (string, bool) {
	c, ok := v.(*ssa.Const)
	if !ok || c.Value == nil || c.Value.Kind() != constant.String {
		return "", false
	}
	return constant.StringVal(c.Value), true
}

func isNilConst(v ssa.Value) bool {
	c, ok := v.(*ssa.Const)
	return ok && c.IsNil()
}

// sameValue: identical SSA value, or both are loads of the same access path with no
// intervening consideration (used only for immutable fields / parameters).
func sameValue(a, b ssa.Value) bool {
	a, b = stripConv(a), stripConv(b)
	if a == b {
		return true
	}
	return false
}

// describe renders an instruction for trails.
func (p *Program) describe(in ssa.Instruction) string {
	s := in.String()
	if v, ok := in.(ssa.Value); ok {
		s = v.Name() + " = " + s
	}
	return fmt.Sprintf("%s: %s", p.pos(in.Pos()), s)
}

// paramIndex returns the index of v among fn's parameters (receiver included), or -1.
func paramIndex(fn *ssa.Function, v ssa.Value) int {
	for i, p := range fn.Params {
		if p == v {
			return i
		}
	}
	return -1
}

// condOf returns the condition and branch blocks of the If terminating b.
func condOf(b *ssa.BasicBlock) (*ssa.If, bool) {
	if n := len(b.Instrs); n > 0 {
		i, ok := b.Instrs[n-1].(*ssa.If)
		return i, ok
	}
	return nil, false
}

// edgeDominates reports whether the CFG edge from -> to (to being Succs[idx] of from) dominates
// block b: every path to b goes through that edge. True when `to` dominates b and `to` has the
// single predecessor `from` (go/ssa never creates critical edges into single-pred blocks...) or all
// other predecessors of `to` are dominated by `to` (loop back edges).
func edgeDominates(from *ssa.BasicBlock, idx int, b *ssa.BasicBlock) bool {
	if edgeDominatesClassic(from, idx, b) {
		return true
	}
	// path-based: b is unreachable from the entry once the edge is removed, where branches whose
	// outcome is fixed by the way their block was entered (a phi of constants / nil / provably
	// non-nil values tested right after the join) are followed only in the feasible direction
	fn := from.Parent()
	if fn == nil || len(fn.Blocks) == 0 || len(from.Succs) == 2 && from.Succs[0] == from.Succs[1] {
		return false
	}
	reached := false
	walkThreaded(pstate{b: fn.Blocks[0]}, func(st pstate) bool {
		if st.b == b {
			reached = true
		}
		return !reached
	}, func(f *ssa.BasicBlock, i int) bool { return f == from && i == idx })
	return !reached
}

func edgeDominatesClassic(from *ssa.BasicBlock, idx int, b *ssa.BasicBlock) bool {
	to := from.Succs[idx]
	if !(to == b || to.Dominates(b)) {
		return false
	}
	for _, p := range to.Preds {
		if p == from {
			continue
		}
		if !to.Dominates(p) {
			return false
		}
	}
	// from may reach `to` through both of its successors (if cond {} ; x): then Succs[0]==Succs[1]
	if len(from.Succs) == 2 && from.Succs[0] == from.Succs[1] {
		return false
	}
	return true
}

// ---- threaded control flow --------------------------------------------------------------------------
//
// A helper with several returns that is inlined (or written inline) produces a join: the results
// are phis, and the caller tests them right away (`if err != nil`). Plain dominance cannot tell
// that the path through `return errX` never continues past that test. pstate remembers through
// which predecessor the last block with phis was entered, which fixes the value of those phis.

type joinAt struct {
	j *ssa.BasicBlock
	k int
}

// pfact: a branch outcome learned on the way: v (a bool) is true/false, or v (nil-able) is
// non-nil/nil.
type pfact struct {
	v     ssa.Value
	truth bool
}

type pstate struct {
	b     *ssa.BasicBlock
	joins [3]joinAt // blocks with phis entered most recently (most recent first) and through which predecessor
	facts [3]pfact
}

// resolve gives the value of v in state st (phis of remembered joins are replaced by their incoming value).
func (st pstate) resolve(v ssa.Value) ssa.Value {
	for i := 0; i < 8; i++ {
		v = stripConv(v)
		phi, ok := v.(*ssa.Phi)
		if !ok {
			return v
		}
		found := false
		for _, ja := range st.joins {
			if ja.j != nil && ja.j == phi.Block() && ja.k >= 0 && ja.k < len(phi.Edges) {
				nv := phi.Edges[ja.k]
				if p2, isPhi := stripConv(nv).(*ssa.Phi); isPhi && p2.Block() == ja.j {
					return v // loop-carried swap: unknown
				}
				v = nv
				found = true
				break
			}
		}
		if !found {
			return v
		}
	}
	return v
}

// resolveI is resolve that keeps MakeInterface (only ChangeType / ChangeInterface are looked through).
func (st pstate) resolveI(v ssa.Value) ssa.Value {
	strip := func(v ssa.Value) ssa.Value {
		for {
			switch x := v.(type) {
			case *ssa.ChangeType:
				v = x.X
			case *ssa.ChangeInterface:
				v = x.X
			default:
				return v
			}
		}
	}
	for i := 0; i < 8; i++ {
		v = strip(v)
		phi, ok := v.(*ssa.Phi)
		if !ok {
			return v
		}
		found := false
		for _, ja := range st.joins {
			if ja.j != nil && ja.j == phi.Block() && ja.k >= 0 && ja.k < len(phi.Edges) {
				nv := phi.Edges[ja.k]
				if p2, isPhi := strip(nv).(*ssa.Phi); isPhi && p2.Block() == ja.j {
					return v
				}
				v = nv
				found = true
				break
			}
		}
		if !found {
			return v
		}
	}
	return v
}

func (st pstate) fact(v ssa.Value) (truth, known bool) {
	for _, f := range st.facts {
		if f.v != nil && f.v == v {
			return f.truth, true
		}
	}
	return false, false
}

// condBase strips negations: cond == (base is true) XOR neg; for nil tests base is the tested value
// and isNilTest is set: cond == (base != nil) XOR neg.
func (st pstate) condBase(c ssa.Value) (base ssa.Value, neg, isNilTest bool) {
	c = st.resolve(c)
	for {
		if u, ok := c.(*ssa.UnOp); ok && u.Op == token.NOT {
			neg = !neg
			c = st.resolve(u.X)
			continue
		}
		break
	}
	if bo, ok := c.(*ssa.BinOp); ok && (bo.Op == token.EQL || bo.Op == token.NEQ) {
		// resolveI: `iface != nil` must not be read as a fact about what a MakeInterface wraps
		x, y := st.resolveI(bo.X), st.resolveI(bo.Y)
		if isNilConst(x) {
			x, y = y, x
		}
		if isNilConst(y) {
			if bo.Op == token.EQL {
				neg = !neg
			}
			return x, neg, true
		}
		// `v == K` and `v != K` (K a constant) are one fact: both are expressed through the first
		// such comparison of the function
		if rep, flip := cmpRepresentative(bo); rep != nil {
			if flip {
				neg = !neg
			}
			return rep, neg, false
		}
	}
	return c, neg, false
}

var cmpRepCache = map[*ssa.Function]map[string]*ssa.BinOp{}

// cmpRepresentative: for `x == K` / `x != K` with a non-nil constant K returns the first comparison of
// the same operand with the same constant in the function, and whether bo has the opposite operator.
func cmpRepresentative(bo *ssa.BinOp) (*ssa.BinOp, bool) {
	keyOf := func(b *ssa.BinOp) string {
		x, y := b.X, b.Y
		if _, isC := x.(*ssa.Const); isC {
			x, y = y, x
		}
		k, isC := y.(*ssa.Const)
		if !isC || k.Value == nil {
			return ""
		}
		if _, isC2 := x.(*ssa.Const); isC2 {
			return ""
		}
		return fmt.Sprintf("%p|%s|%s", canon(x), k.Value.ExactString(), k.Type().String())
	}
	fn := bo.Parent()
	if fn == nil {
		return nil, false
	}
	tab, ok := cmpRepCache[fn]
	if !ok {
		tab = map[string]*ssa.BinOp{}
		for _, b := range fn.Blocks {
			for _, in := range b.Instrs {
				if c, isB := in.(*ssa.BinOp); isB && (c.Op == token.EQL || c.Op == token.NEQ) {
					if k := keyOf(c); k != "" {
						if _, dup := tab[k]; !dup {
							tab[k] = c
						}
					}
				}
			}
		}
		cmpRepCache[fn] = tab
	}
	k := keyOf(bo)
	if k == "" {
		return nil, false
	}
	rep := tab[k]
	if rep == nil || rep == bo {
		return nil, false
	}
	return rep, rep.Op != bo.Op
}

// evalCond: 1 true, 0 false, -1 unknown.
func (st pstate) evalCond(c ssa.Value) int {
	base, neg, isNil := st.condBase(c)
	res := -1
	if isNil {
		switch {
		case isNilConst(base):
			res = 0 // base != nil is false
		case provablyNonNil(base, 3):
			res = 1
		default:
			if t, ok := st.fact(base); ok {
				res = b2i(t)
			}
		}
	} else {
		if k, ok := constBool(base); ok {
			res = b2i(k)
		} else if t, ok := st.fact(base); ok {
			res = b2i(t)
		}
	}
	if res >= 0 && neg {
		res = 1 - res
	}
	return res
}

func b2i(b bool) int {
	if b {
		return 1
	}
	return 0
}

// provablyNonNil: v cannot be nil (interface holding a concrete value, fresh allocation, function,
// or the result of a function all of whose returns are provably non-nil).
func provablyNonNil(v ssa.Value, depth int) bool {
	switch x := stripConv(v).(type) {
	case *ssa.MakeInterface, *ssa.Alloc, *ssa.MakeClosure, *ssa.Function, *ssa.MakeMap, *ssa.MakeChan, *ssa.Global, *ssa.FieldAddr, *ssa.IndexAddr:
		return true
	case *ssa.ChangeInterface:
		return provablyNonNil(x.X, depth)
	case *ssa.UnOp:
		// a package-level variable that is only ever assigned non-nil values by the package
		// initialiser (var errX = errors.New("..."))
		if g, isG := x.X.(*ssa.Global); isG && x.Op == token.MUL {
			return globalNonNil(g)
		}
		return false
	case *ssa.Phi:
		if depth <= 0 {
			return false
		}
		for _, e := range x.Edges {
			if e == ssa.Value(x) {
				continue
			}
			if !provablyNonNil(e, depth-1) {
				return false
			}
		}
		return true
	case *ssa.Call:
		f := x.Call.StaticCallee()
		if f != nil && f.Pkg != nil && ((f.Pkg.Pkg.Path() == "fmt" && f.Name() == "Errorf") || (f.Pkg.Pkg.Path() == "errors" && f.Name() == "New")) {
			return true // documented: never nil
		}
		if f == nil || f.Blocks == nil || depth <= 0 || f.Signature.Results().Len() != 1 {
			return false
		}
		n := 0
		ok := true
		for _, b := range f.Blocks {
			if r, isR := b.Instrs[len(b.Instrs)-1].(*ssa.Return); isR {
				n++
				if provablyNonNil(r.Results[0], depth-1) {
					continue
				}
				// a return that is only taken when a parameter is nil, while this call passes a
				// non-nil argument for it (`if err == nil { return nil }` in a wrapping constructor)
				infeasible := false
				for _, cb := range f.Blocks {
					iff, isIf := condOf(cb)
					if !isIf {
						continue
					}
					op, cx, cy, isCmp := cmpOf(iff.Cond)
					if !isCmp || (op != token.EQL && op != token.NEQ) {
						continue
					}
					if isNilConst(cx) {
						cx, cy = cy, cx
					}
					par, isPar := stripConv(cx).(*ssa.Parameter)
					if !isNilConst(cy) || !isPar {
						continue
					}
					pi := -1
					for i, fp := range f.Params {
						if fp == par {
							pi = i
						}
					}
					if pi < 0 || pi >= len(x.Call.Args) || !provablyNonNil(x.Call.Args[pi], depth-1) {
						continue
					}
					nilIdx := b2i(op == token.NEQ) // successor taken when the parameter IS nil
					if edgeDominatesClassic(cb, nilIdx, b) {
						infeasible = true
					}
				}
				if !infeasible {
					ok = false
				}
			}
		}
		return ok && n > 0
	case *ssa.Extract:
		call, isCall := x.Tuple.(*ssa.Call)
		if !isCall || depth <= 0 {
			return false
		}
		f := call.Call.StaticCallee()
		if f == nil || f.Blocks == nil {
			return false
		}
		n := 0
		ok := true
		for _, b := range f.Blocks {
			if r, isR := b.Instrs[len(b.Instrs)-1].(*ssa.Return); isR && x.Index < len(r.Results) {
				n++
				if !provablyNonNil(r.Results[x.Index], depth-1) {
					ok = false
				}
			}
		}
		return ok && n > 0
	}
	return false
}

// nilable: values of type t can be nil.
func nilable(t types.Type) bool {
	switch t.Underlying().(type) {
	case *types.Pointer, *types.Map, *types.Chan, *types.Signature, *types.Slice, *types.Interface:
		return true
	}
	return false
}

// deepNonNil: in state st, v is usable as a handle - neither a nil interface nor an interface that
// wraps a nil pointer (a "typed nil": `var m *T; var h I = m` compares unequal to nil and still
// crashes on first use). Results of a multi-result call are judged per return of the callee, leaving
// out the returns that contradict what st knows about the call's other results (the usual
// correlation "value is nil iff err != nil").
func deepNonNil(st pstate, v ssa.Value, depth int) bool {
	if depth < 0 {
		return false
	}
	v = st.resolveI(v)
	if isNilConst(v) {
		return false
	}
	// a branch fact "v != nil" about an interface value built here (MakeInterface, or a phi of such)
	// only says that the interface is non-nil, not what it wraps: look inside instead
	_, isMI := v.(*ssa.MakeInterface)
	_, isPhi := v.(*ssa.Phi)
	if _, isIface := v.Type().Underlying().(*types.Interface); !(isIface && (isMI || isPhi)) {
		if t, known := st.fact(v); known && t {
			return true
		}
	}
	switch x := v.(type) {
	case *ssa.MakeInterface:
		if !nilable(x.X.Type()) {
			return true
		}
		return deepNonNil(st, x.X, depth)
	case *ssa.Alloc, *ssa.MakeClosure, *ssa.Function, *ssa.MakeMap, *ssa.MakeChan, *ssa.Global, *ssa.FieldAddr, *ssa.IndexAddr:
		return true
	case *ssa.UnOp:
		if g, isG := x.X.(*ssa.Global); isG && x.Op == token.MUL {
			return globalNonNil(g)
		}
		return false
	case *ssa.Phi:
		for _, e := range x.Edges {
			if e == ssa.Value(x) {
				continue
			}
			if !deepNonNil(st, e, depth-1) {
				return false
			}
		}
		return true
	case *ssa.Call:
		f := x.Call.StaticCallee()
		if f == nil || f.Blocks == nil || f.Signature.Results().Len() != 1 {
			return false
		}
		n := 0
		for _, b := range f.Blocks {
			if r, isR := b.Instrs[len(b.Instrs)-1].(*ssa.Return); isR {
				n++
				for _, va := range resultValues(r, 0) {
					if !deepNonNil(pstate{}, va.Val, depth-1) {
						return false
					}
				}
			}
		}
		return n > 0
	case *ssa.Extract:
		call, isCall := x.Tuple.(*ssa.Call)
		if !isCall {
			return false
		}
		f := call.Call.StaticCallee()
		if f == nil || f.Blocks == nil {
			return false
		}
		// what the caller knows about the other results of this call
		type sib struct {
			idx    int
			nonNil bool
		}
		var sibs []sib
		if call.Referrers() != nil {
			for _, r := range *call.Referrers() {
				if e, ok := r.(*ssa.Extract); ok && e.Index != x.Index {
					if t, known := st.fact(e); known {
						sibs = append(sibs, sib{e.Index, t})
					}
				}
			}
		}
		n := 0
		for _, b := range f.Blocks {
			r, isR := b.Instrs[len(b.Instrs)-1].(*ssa.Return)
			if !isR || x.Index >= len(r.Results) {
				continue
			}
			for _, tuple := range resultTuples(r) {
				infeasible := false
				for _, sb := range sibs {
					if sb.idx >= len(tuple) {
						continue
					}
					sv := tuple[sb.idx].Val
					if sb.nonNil && isNilConst(stripConv(sv)) {
						infeasible = true
					}
					if !sb.nonNil && provablyNonNil(sv, 2) {
						infeasible = true
					}
				}
				if infeasible {
					continue
				}
				n++
				if !deepNonNil(pstate{}, tuple[x.Index].Val, depth-1) {
					return false
				}
			}
		}
		return n > 0
	}
	return false
}

var (
	globalNonNilCache = map[*ssa.Global]bool{}
	globalStores      map[*ssa.Global][]*ssa.Store
	globalStoresProg  *ssa.Program
)

func globalNonNil(g *ssa.Global) bool {
	if v, ok := globalNonNilCache[g]; ok {
		return v
	}
	if g.Pkg == nil {
		return false
	}
	if globalStores == nil || globalStoresProg != g.Pkg.Prog {
		globalStores = map[*ssa.Global][]*ssa.Store{}
		globalStoresProg = g.Pkg.Prog
		for fn := range ssautil.AllFunctions(g.Pkg.Prog) {
			for _, b := range fn.Blocks {
				for _, in := range b.Instrs {
					if st, ok := in.(*ssa.Store); ok {
						if gg, isG := st.Addr.(*ssa.Global); isG {
							globalStores[gg] = append(globalStores[gg], st)
						}
					}
				}
			}
		}
	}
	res := len(globalStores[g]) > 0
	for _, st := range globalStores[g] {
		if st.Parent().Name() != "init" || st.Parent().Synthetic == "" || !provablyNonNil(st.Val, 3) {
			res = false
		}
	}
	globalNonNilCache[g] = res
	return res
}

// walkThreaded explores the states reachable from start (visit is called on every state, start
// included; returning false stops the walk). Edges for which skip returns true are not followed.
func walkThreaded(start pstate, visit func(pstate) bool, skip func(from *ssa.BasicBlock, idx int) bool) {
	seen := map[pstate]bool{start: true}
	stack := []pstate{start}
	for len(stack) > 0 {
		if len(seen) > 50000 {
			// give up on path sensitivity: visit every block once, without pruning
			done := map[*ssa.BasicBlock]bool{}
			for _, b := range start.b.Parent().Blocks {
				if !done[b] {
					done[b] = true
					if !visit(pstate{b: b}) {
						return
					}
				}
			}
			return
		}
		st := stack[len(stack)-1]
		stack = stack[:len(stack)-1]
		if !visit(st) {
			return
		}
		follow := []int{}
		for i := range st.b.Succs {
			follow = append(follow, i)
		}
		if iff, ok := condOf(st.b); ok {
			switch st.evalCond(iff.Cond) {
			case 1:
				follow = []int{0}
			case 0:
				follow = []int{1}
			}
		}
		for _, i := range follow {
			if skip != nil && skip(st.b, i) {
				continue
			}
			nx := st.enter(i)
			if !seen[nx] {
				seen[nx] = true
				stack = append(stack, nx)
			}
		}
	}
}

// reachThreaded: target is reachable from `from` (exclusive) on a feasible path (phis resolved by the
// join through which they were entered, repeated / decided branch conditions followed only in the
// feasible direction) that takes none of the edges in skip and passes no instruction satisfying
// barrier.
func reachThreaded(from, target ssa.Instruction, skip map[*ssa.BasicBlock]int, barrier func(ssa.Instruction) bool) bool {
	scan := func(b *ssa.BasicBlock, i int) int { // 0 fall through, 1 blocked, 2 found
		for ; i < len(b.Instrs); i++ {
			in := b.Instrs[i]
			if in == target {
				return 2
			}
			if barrier != nil && barrier(in) {
				return 1
			}
		}
		return 0
	}
	switch scan(from.Block(), instrIndex(from)+1) {
	case 2:
		return true
	case 1:
		return false
	}
	skipF := func(b *ssa.BasicBlock, idx int) bool {
		k, ok := skip[b]
		return ok && k == idx
	}
	found := false
	seen := map[pstate]bool{}
	var stack []pstate
	push := func(st pstate) {
		follow := []int{}
		for i := range st.b.Succs {
			follow = append(follow, i)
		}
		if iff, ok := condOf(st.b); ok {
			switch st.evalCond(iff.Cond) {
			case 1:
				follow = []int{0}
			case 0:
				follow = []int{1}
			}
		}
		for _, i := range follow {
			if skipF(st.b, i) {
				continue
			}
			nx := st.enter(i)
			if !seen[nx] {
				seen[nx] = true
				stack = append(stack, nx)
			}
		}
	}
	push(pstate{b: from.Block()})
	for len(stack) > 0 && !found {
		if len(seen) > 50000 {
			// give up on path sensitivity: plain reachability
			return reachAvoidingF(from, false, skip, func(i ssa.Instruction) bool { return i == target }, barrier) != nil
		}
		st := stack[len(stack)-1]
		stack = stack[:len(stack)-1]
		switch scan(st.b, 0) {
		case 2:
			found = true
		case 0:
			push(st)
		}
	}
	return found
}

// enter gives the state after following successor i of st.b.
func (st pstate) enter(i int) pstate {
	s := st.b.Succs[i]
	nx := st
	nx.b = s
	// what the branch taken tells
	if iff, ok := condOf(st.b); ok && len(st.b.Succs) == 2 && st.b.Succs[0] != st.b.Succs[1] {
		base, neg, _ := st.condBase(iff.Cond)
		if _, isConst := base.(*ssa.Const); !isConst && base != nil {
			truth := (i == 0) != neg
			if _, known := st.fact(base); !known {
				copy(nx.facts[1:], nx.facts[:len(nx.facts)-1])
				nx.facts[0] = pfact{base, truth}
			}
		}
	}
	// values defined in s are defined anew: forget what was known about them
	for fi, f := range nx.facts {
		if in, ok := f.v.(ssa.Instruction); ok && in.Block() == s {
			nx.facts[fi] = pfact{}
		}
	}
	for ji, ja := range nx.joins {
		if ja.j == s {
			nx.joins[ji] = joinAt{}
		}
	}
	if len(s.Instrs) > 0 {
		if _, isPhi := s.Instrs[0].(*ssa.Phi); isPhi {
			// index of this edge among s's predecessors (the i-th successor edge of st.b)
			k := -1
			for pi, p := range s.Preds {
				if p == st.b {
					k = pi
					if len(st.b.Succs) == 2 && st.b.Succs[0] == st.b.Succs[1] && i == 1 {
						continue // second of two parallel edges: take the later predecessor slot
					}
					break
				}
			}
			// compact and push
			var js []joinAt
			for _, ja := range nx.joins {
				if ja.j != nil {
					js = append(js, ja)
				}
			}
			js = append([]joinAt{{s, k}}, js...)
			nx.joins = [3]joinAt{}
			copy(nx.joins[:], js)
		}
	}
	return nx
}

// returnsFromEdge lists the returns reachable through edge (from, idx), each with the state in
// which it is reached (for resolving returned phis).
func returnsFromEdge(from *ssa.BasicBlock, idx int) []retAt {
	var out []retAt
	st0 := pstate{b: from}
	walkThreaded(st0.enter(idx), func(st pstate) bool {
		if r, ok := st.b.Instrs[len(st.b.Instrs)-1].(*ssa.Return); ok {
			out = append(out, retAt{r, st})
		}
		return true
	}, nil)
	return out
}

type retAt struct {
	ret *ssa.Return
	st  pstate
}

// ---- exhaustive enum switches (A6 idiom) ----------------------------------------------------------

// enumConsts returns the values of the package-level constants declared with named type t.
func enumConsts(t *types.Named) map[int64]bool {
	out := map[int64]bool{}
	if t == nil || t.Obj().Pkg() == nil {
		return out
	}
	sc := t.Obj().Pkg().Scope()
	for _, n := range sc.Names() {
		if k, ok := sc.Lookup(n).(*types.Const); ok && types.Identical(k.Type(), t) {
			if v, exact := constant.Int64Val(constant.ToInt(k.Val())); exact {
				out[v] = true
			}
		}
	}
	return out
}

// enumTest: block b ends in `if x == k` with x of a named integer type with declared constants.
func enumTest(b *ssa.BasicBlock) (x ssa.Value, k int64, t *types.Named, ok bool) {
	iff, isIf := condOf(b)
	if !isIf {
		return nil, 0, nil, false
	}
	bo, isB := iff.Cond.(*ssa.BinOp)
	if !isB || bo.Op != token.EQL {
		return nil, 0, nil, false
	}
	xv, kv := bo.X, bo.Y
	if _, isC := xv.(*ssa.Const); isC {
		xv, kv = kv, xv
	}
	kc, isC := kv.(*ssa.Const)
	if !isC || kc.Value == nil || kc.Value.Kind() != constant.Int {
		return nil, 0, nil, false
	}
	n, isN := xv.Type().(*types.Named)
	if !isN {
		return nil, 0, nil, false
	}
	if _, isBasic := n.Underlying().(*types.Basic); !isBasic {
		return nil, 0, nil, false
	}
	val, _ := constant.Int64Val(kc.Value)
	return xv, val, n, true
}

// infeasibleEdges returns the fall-through edges of exhaustive enum switches: an if-chain that
// compares the same value (same SSA value or same access path of a field) against every declared
// constant of its named type; the last 'else' cannot execute as long as only declared constants
// are ever stored (checked separately where it matters).
func infeasibleEdges(fn *ssa.Function) map[*ssa.BasicBlock]int {
	out := map[*ssa.BasicBlock]int{}
	for _, b := range fn.Blocks {
		x, k, t, ok := enumTest(b)
		if !ok {
			continue
		}
		all := enumConsts(t)
		if len(all) == 0 {
			continue
		}
		seen := map[int64]bool{k: true}
		cur := b
		for len(cur.Preds) == 1 {
			p := cur.Preds[0]
			px, pk, pt, pok := enumTest(p)
			if !pok || pt != t || len(p.Succs) != 2 || p.Succs[1] != cur {
				break
			}
			if px != x && accessPath(px) != accessPath(x) {
				break
			}
			seen[pk] = true
			cur = p
		}
		covered := true
		for v := range all {
			if !seen[v] {
				covered = false
			}
		}
		if covered {
			out[b] = 1
		}
	}
	return out
}

// walkF is walk with an edge filter: skip(b, i) suppresses the edge b -> b.Succs[i].
func walkF(start ssa.Instruction, inclusive bool, skip map[*ssa.BasicBlock]int, visit func(ssa.Instruction) bool) {
	seen := map[*ssa.BasicBlock]bool{}
	var run func(b *ssa.BasicBlock, i int)
	run = func(b *ssa.BasicBlock, i int) {
		for ; i < len(b.Instrs); i++ {
			if visit(b.Instrs[i]) {
				return
			}
		}
		for si, s := range b.Succs {
			if idx, ok := skip[b]; ok && idx == si {
				continue
			}
			if !seen[s] {
				seen[s] = true
				run(s, 0)
			}
		}
	}
	i := instrIndex(start)
	if !inclusive {
		i++
	}
	run(start.Block(), i)
}

// reachAvoidingF is reachAvoiding with an edge filter.
func reachAvoidingF(start ssa.Instruction, inclusive bool, skip map[*ssa.BasicBlock]int, target, barrier func(ssa.Instruction) bool) ssa.Instruction {
	var found ssa.Instruction
	walkF(start, inclusive, skip, func(in ssa.Instruction) bool {
		if found != nil {
			return true
		}
		if barrier != nil && barrier(in) {
			return true
		}
		if target(in) {
			found = in
			return true
		}
		return false
	})
	return found
}

// appendedValues: for a call of the builtin append(s, elems...) returns the appended element
// values when they are given individually (the varargs array is materialised by go/ssa), the
// slice being appended to, and ok.
func appendedValues(v ssa.Value) (base ssa.Value, elems []ssa.Value, spread ssa.Value, ok bool) {
	call, isCall := v.(*ssa.Call)
	if !isCall || !isBuiltin(call, "append") || len(call.Call.Args) != 2 {
		return nil, nil, nil, false
	}
	base = call.Call.Args[0]
	sl, isSlice := call.Call.Args[1].(*ssa.Slice)
	if !isSlice {
		return base, nil, call.Call.Args[1], true
	}
	al, isAlloc := sl.X.(*ssa.Alloc)
	if !isAlloc || al.Referrers() == nil {
		return base, nil, call.Call.Args[1], true
	}
	for _, r := range *al.Referrers() {
		ia, isIA := r.(*ssa.IndexAddr)
		if !isIA || ia.Referrers() == nil {
			continue
		}
		for _, u := range *ia.Referrers() {
			if st, isSt := u.(*ssa.Store); isSt && st.Addr == ssa.Value(ia) {
				elems = append(elems, st.Val)
			}
		}
	}
	return base, elems, nil, true
}

// spilled: go/ssa spills parameters and captured variables into an Alloc with a single store
// (`t0 = new *T (h); *t0 = h`). If a is such a cell, returns the stored value, else nil.
func spilled(a ssa.Value) ssa.Value {
	al, ok := a.(*ssa.Alloc)
	if !ok || al.Referrers() == nil {
		return nil
	}
	var val ssa.Value
	n := 0
	for _, r := range *al.Referrers() {
		if st, isSt := r.(*ssa.Store); isSt && st.Addr == ssa.Value(al) {
			val = st.Val
			n++
		}
	}
	if n == 1 {
		return val
	}
	return nil
}

// canon strips conversions and looks through spill cells: the result identifies "the same
// variable" for parameters and single-assignment locals.
func canon(v ssa.Value) ssa.Value {
	for i := 0; i < 8; i++ {
		v = stripConv(v)
		if u, ok := v.(*ssa.UnOp); ok && u.Op == token.MUL {
			if s := spilled(u.X); s != nil {
				v = s
				continue
			}
			// a load of a captured cell inside a closure: resolve through the binding when the
			// closure has exactly one creation site
			if fv, isFV := u.X.(*ssa.FreeVar); isFV {
				b := freeVarBinding(fv)
				// a literal nested in a literal passes its own free variable on
				for d := 0; d < 4 && b != nil; d++ {
					fv2, isFV2 := b.(*ssa.FreeVar)
					if !isFV2 {
						break
					}
					b = freeVarBinding(fv2)
				}
				if b != nil {
					if s := spilled(b); s != nil {
						v = s
						continue
					}
				}
			}
		}
		if a, ok := v.(*ssa.Alloc); ok {
			if s := spilled(a); s != nil {
				v = s
				continue
			}
		}
		return v
	}
	return v
}

// freeVarBinding returns the value bound to fv when its closure is created at exactly one site.
func freeVarBinding(fv *ssa.FreeVar) ssa.Value {
	fn := fv.Parent()
	if fn == nil || fn.Parent() == nil {
		return nil
	}
	idx := -1
	for i, f := range fn.FreeVars {
		if f == fv {
			idx = i
		}
	}
	if idx < 0 {
		return nil
	}
	var found ssa.Value
	n := 0
	instrsOf(fn.Parent(), func(in ssa.Instruction) {
		if mc, ok := in.(*ssa.MakeClosure); ok && mc.Fn == ssa.Value(fn) && idx < len(mc.Bindings) {
			found = mc.Bindings[idx]
			n++
		}
	})
	if n == 1 {
		return found
	}
	return nil
}

// constFloat returns the numeric value of a constant as float64.
func constFloat(c *ssa.Const) (float64, bool) {
	if c == nil || c.Value == nil {
		return 0, false
	}
	switch c.Value.Kind() {
	case constant.Int, constant.Float:
		f, _ := constant.Float64Val(constant.ToFloat(c.Value))
		return f, true
	}
	return 0, false
}

// ---- memory cells (locals whose address is taken stay Allocs with several stores) ---------------

// cellStores returns the whole-cell stores to al.
func cellStores(al *ssa.Alloc) []*ssa.Store {
	var out []*ssa.Store
	if al.Referrers() == nil {
		return nil
	}
	for _, r := range *al.Referrers() {
		if st, ok := r.(*ssa.Store); ok && st.Addr == ssa.Value(al) {
			out = append(out, st)
		}
	}
	return out
}

// reachingStores returns the whole-cell stores to al that may reach instruction at (backward
// walk), and whether the function entry reaches it without any store (zero value).
func reachingStores(al *ssa.Alloc, at ssa.Instruction) (stores []*ssa.Store, fromEntry bool) {
	isStore := func(in ssa.Instruction) *ssa.Store {
		if st, ok := in.(*ssa.Store); ok && st.Addr == ssa.Value(al) {
			return st
		}
		return nil
	}
	seen := map[*ssa.BasicBlock]bool{}
	found := map[*ssa.Store]bool{}
	var back func(b *ssa.BasicBlock, i int)
	back = func(b *ssa.BasicBlock, i int) {
		for ; i >= 0; i-- {
			if st := isStore(b.Instrs[i]); st != nil {
				if !found[st] {
					found[st] = true
					stores = append(stores, st)
				}
				return
			}
		}
		if len(b.Preds) == 0 {
			fromEntry = true
			return
		}
		for _, p := range b.Preds {
			if !seen[p] {
				seen[p] = true
				back(p, len(p.Instrs)-1)
			}
		}
	}
	back(at.Block(), instrIndex(at)-1)
	return
}

// cellOf: if v is a load of a multi-store local cell returns the cell.
func cellOf(v ssa.Value) *ssa.Alloc {
	if u, ok := stripConv(v).(*ssa.UnOp); ok && u.Op == token.MUL {
		if al, isAl := u.X.(*ssa.Alloc); isAl && spilled(al) == nil {
			return al
		}
	}
	return nil
}

// viaField reports whether v is (an address inside) the value loaded from struct field fld, e.g.
// &p.conn.conn for fld = conn (promoted methods of embedded structs take such receivers).
func viaField(v ssa.Value, fld *types.Var) bool {
	for i := 0; i < 6 && v != nil; i++ {
		if f, _ := loadedField(v); f != nil {
			if f == fld {
				return true
			}
		}
		switch x := v.(type) {
		case *ssa.FieldAddr:
			v = x.X
		case *ssa.UnOp:
			if x.Op != token.MUL {
				return false
			}
			if f, _ := addrField(x.X); f == fld {
				return true
			}
			v = x.X
		default:
			return false
		}
	}
	return false
}

// valAt is a value together with the instruction at which it is committed to a result.
type valAt struct {
	Val ssa.Value
	At  ssa.Instruction
}

// resultValues resolves result i of a Return through the result cells go/ssa introduces in
// functions with defer ("defer-spilled returns"): the values stored into the cell that reach the
// return, each with the store that commits it; otherwise the operand itself at the return.
func resultValues(r *ssa.Return, i int) []valAt {
	v := r.Results[i]
	if u, ok := v.(*ssa.UnOp); ok && u.Op == token.MUL {
		if al, isAl := u.X.(*ssa.Alloc); isAl {
			stores, _ := reachingStores(al, u)
			if len(stores) > 0 {
				var out []valAt
				for _, st := range stores {
					out = append(out, valAt{st.Val, st})
				}
				return out
			}
		}
	}
	return []valAt{{v, r}}
}

// resultTuples pairs the resolved values of all results of a Return by the committing site: for
// defer-spilled returns the stores of one `return a, b` statement are adjacent in one block.
func resultTuples(r *ssa.Return) [][]valAt {
	n := len(r.Results)
	if n == 0 {
		return nil
	}
	per := make([][]valAt, n)
	for i := range r.Results {
		per[i] = resultValues(r, i)
	}
	// group by block of the committing instruction
	var out [][]valAt
	for _, first := range per[0] {
		tuple := []valAt{first}
		ok := true
		for i := 1; i < n; i++ {
			var match *valAt
			for j := range per[i] {
				if per[i][j].At.Block() == first.At.Block() {
					match = &per[i][j]
				}
			}
			if match == nil {
				ok = false
				break
			}
			tuple = append(tuple, *match)
		}
		if ok {
			out = append(out, tuple)
		}
	}
	return out
}

// reachAvoidingCorr is reachAvoidingF made sensitive to repeated tests of the same SSA value: once
// a path has taken an outcome of `if v`, a later `if v` (or `if !v`) on the same immutable SSA value
// can only take the consistent outcome. This removes the infeasible paths of the idiom
// `if ok { A }; ...; if ok { B }`.
func reachAvoidingCorr(start ssa.Instruction, inclusive bool, skip map[*ssa.BasicBlock]int, target, barrier func(ssa.Instruction) bool) ssa.Instruction {
	type state struct {
		b   *ssa.BasicBlock
		key string
	}
	condOfBlock := func(b *ssa.BasicBlock) (ssa.Value, bool, bool) { // value, negated, ok
		iff, ok := condOf(b)
		if !ok {
			return nil, false, false
		}
		v := iff.Cond
		neg := false
		for {
			if u, isU := v.(*ssa.UnOp); isU && u.Op == token.NOT {
				neg = !neg
				v = u.X
				continue
			}
			break
		}
		return v, neg, true
	}
	seen := map[state]bool{}
	var found ssa.Instruction
	var run func(b *ssa.BasicBlock, i int, outcomes map[ssa.Value]bool)
	keyOf := func(m map[ssa.Value]bool) string {
		var ks []string
		for v, o := range m {
			ks = append(ks, fmt.Sprintf("%s=%v", v.Name(), o))
		}
		sortStrings(ks)
		return strings.Join(ks, ",")
	}
	run = func(b *ssa.BasicBlock, i int, outcomes map[ssa.Value]bool) {
		if found != nil {
			return
		}
		for ; i < len(b.Instrs); i++ {
			in := b.Instrs[i]
			if barrier != nil && barrier(in) {
				return
			}
			if target(in) {
				found = in
				return
			}
		}
		v, neg, isIf := condOfBlock(b)
		for si, s := range b.Succs {
			if idx, ok := skip[b]; ok && idx == si {
				continue
			}
			next := outcomes
			if isIf && len(b.Succs) == 2 {
				taken := si == 0 // true edge
				if neg {
					taken = !taken
				}
				if prev, known := outcomes[v]; known {
					if prev != taken {
						continue // contradicts an earlier test of the same value
					}
				} else {
					next = map[ssa.Value]bool{}
					for k, o := range outcomes {
						next[k] = o
					}
					next[v] = taken
				}
			}
			st := state{s, keyOf(next)}
			if seen[st] {
				continue
			}
			seen[st] = true
			run(s, 0, next)
		}
	}
	i := instrIndex(start)
	if !inclusive {
		i++
	}
	run(start.Block(), i, map[ssa.Value]bool{})
	return found
}

func sortStrings(s []string) {
	for i := 1; i < len(s); i++ {
		for j := i; j > 0 && s[j] < s[j-1]; j-- {
			s[j], s[j-1] = s[j-1], s[j]
		}
	}
}

// valuesReaching: the values v can have when instruction `at` is executed, with phis resolved along
// the feasible paths from the function's entry (path-sensitive, see pstate). A phi that cannot be
// resolved on some path is returned as it is.
func valuesReaching(v ssa.Value, at ssa.Instruction) []ssa.Value {
	fn := at.Parent()
	if fn == nil || len(fn.Blocks) == 0 {
		return []ssa.Value{v}
	}
	seen := map[ssa.Value]bool{}
	var out []ssa.Value
	walkThreaded(pstate{b: fn.Blocks[0]}, func(st pstate) bool {
		if st.b == at.Block() {
			r := st.resolve(v)
			if !seen[r] {
				seen[r] = true
				out = append(out, r)
			}
		}
		return true
	}, nil)
	if len(out) == 0 {
		return []ssa.Value{v}
	}
	return out
}

// instrsOfDeep visits the instructions of fn and of the function literals fn invokes in place
// (`func() { ... }()`, `defer func() { ... }()`), recursively: code that runs as part of fn.
func instrsOfDeep(fn *ssa.Function, f func(ssa.Instruction)) {
	var walk func(g *ssa.Function, d int)
	walk = func(g *ssa.Function, d int) {
		instrsOf(g, func(in ssa.Instruction) {
			f(in)
			if ci, ok := in.(ssa.CallInstruction); ok && d < 4 {
				if lit := inlineLiteralOf(ci); lit != nil {
					walk(lit, d+1)
				}
			}
		})
	}
	walk(fn, 0)
}
