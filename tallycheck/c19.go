package main

import (
	"go/ast"
	"go/token"
	"go/types"

	"golang.org/x/tools/go/ssa"
)

func init() { register("C19", checkC19) }

func checkC19(c *Ctx) {
	c.Explanation = "Decides the whole property structurally (A7 forwarder shape): every forwarding method of the multi reporter consists of one top-level loop over the complete children list (range by value, range by index or classic index loop), whose body is exactly the forwarded call on the loop element with the method's own parameters, in order and unmodified (collect variant: the child's handle is appended to the list that the returned composite stores in the field the matching Report* method iterates; capability variant: a conjunction fold starting at true/true). Go's semantics of range over a slice then give 'exactly once per child, in registration order, identical arguments' for every history, argument value and child count including zero. Constructors store the variadic slice itself and build the base list by an in-order append over all of it; Capabilities/Flush of the two reporters are single pass-through calls on the base list."
	c.NotDecided = []string{"children whose calls do not return"}
	c.Assumptions = append(c.Assumptions, "a child's method returns and does not modify the multi reporter's lists")

	const pk = "multi"
	n := 0
	plain := func(recv, method string, list string) {
		fn := c.fn(pk, recv, method)
		var lf *types.Var
		if list != "" {
			lf = c.field(pk, recv, list)
		}
		if fn == nil || (list != "" && lf == nil) {
			c.missing("O1 forwarder", pk+"."+recv+"."+method)
			return
		}
		n++
		c.checkForwarderSSA("O1 forwarder", fwdSpec{fn: fn, list: lf, target: method, mode: fwdPlain, perIter: 1})
	}
	for _, m := range []string{"ReportCounter", "ReportGauge", "ReportTimer", "ReportHistogramValueSamples", "ReportHistogramDurationSamples"} {
		plain("multi", m, "reporters")
	}
	plain("multiMetric", "ReportCount", "counters")
	plain("multiMetric", "ReportGauge", "gauges")
	plain("multiMetric", "ReportTimer", "timers")
	plain("multiHistogramBucket", "ReportSamples", "multi")
	plain("multiBaseReporters", "Flush", "")

	collect := func(recv, method, list, retType, retField string) {
		fn := c.fn(pk, recv, method)
		lf := c.field(pk, recv, list)
		if fn == nil || lf == nil {
			c.missing("O1 forwarder", pk+"."+recv+"."+method)
			return
		}
		n++
		res := c.checkForwarderSSA("O1 forwarder", fwdSpec{fn: fn, list: lf, target: method, mode: fwdCollect, perIter: 1})
		if !res.ok {
			return
		}
		// O2: the returned composite stores the collected list in the field the matching method iterates
		key := c.fnKey(fn) + ":returns"
		okRet := false
		rt := c.named(pk, retType)
		instrsOf(fn, func(in ssa.Instruction) {
			st, ok := in.(*ssa.Store)
			if !ok || res.collect == nil {
				return
			}
			f, base := addrField(st.Addr)
			if f == nil || f.Name() != retField || rt == nil || deref(base.Type()) != types.Type(rt) {
				return
			}
			if stripConv(st.Val) == res.collect || canon(stripConv(st.Val)) == res.collect {
				okRet = true
			}
		})
		// and that composite is what the method returns
		retOK := false
		for _, r := range returnsOf(fn) {
			v := stripConv2(r.Results[0])
			if mi, isMI := v.(*ssa.MakeInterface); isMI {
				if rt != nil && deref(mi.X.Type()) == types.Type(rt) {
					retOK = true
				}
			}
		}
		c.check(okRet && retOK, "O2 field-agreement", key, fn.Pos(), "the collected handles are returned as "+retType+"."+retField,
			"the handles collected from the children are not returned in "+retType+"."+retField+", the list the matching Report* method iterates: values reported through the handle do not reach the children")
	}
	collect("multiCached", "AllocateCounter", "reporters", "multiMetric", "counters")
	collect("multiCached", "AllocateGauge", "reporters", "multiMetric", "gauges")
	collect("multiCached", "AllocateTimer", "reporters", "multiMetric", "timers")
	collect("multiCached", "AllocateHistogram", "reporters", "multiMetric", "histograms")
	collect("multiMetric", "ValueBucket", "histograms", "multiHistogramBucket", "multi")
	collect("multiMetric", "DurationBucket", "histograms", "multiHistogramBucket", "multi")

	// capabilities conjunction
	if fn := c.fn(pk, "multiBaseReporters", "Capabilities"); fn != nil {
		n++
		res := c.checkForwarderSSA("O1 forwarder", fwdSpec{fn: fn, list: nil, target: "Capabilities", mode: fwdCapsAnd, perIter: 2})
		if res.ok {
			c.checkCapsConjunction("O1 caps-conjunction", fn, res)
		}
	} else {
		c.missing("O1 forwarder", "multi.multiBaseReporters.Capabilities")
	}
	c.floor("O1 forwarder", n, 17)

	// delegations
	for _, recv := range []string{"multi", "multiCached"} {
		for _, m := range []string{"Capabilities", "Flush"} {
			c.checkDelegation("O1 delegation", recv, m)
		}
	}
	// constructors
	c.checkMultiCtor("O1 constructor", "NewMultiReporter", "multi")
	c.checkMultiCtor("O1 constructor", "NewMultiCachedReporter", "multiCached")
	// the children lists never change after construction
	c.checkSetOnlyAtConstruction("O1 fixed-children", pk, "multi", "reporters", "multiBaseReporters")
	c.checkSetOnlyAtConstruction("O1 fixed-children", pk, "multiCached", "reporters", "multiBaseReporters")
	c.checkSetOnlyAtConstruction("O1 fixed-children", pk, "multiMetric", "counters", "gauges", "timers", "histograms")
	c.checkSetOnlyAtConstruction("O1 fixed-children", pk, "multiHistogramBucket", "multi")
}

// checkCapsInit: the accumulator starts as {reporting: true, tagging: true} and is what is returned.
func (c *Ctx) checkCapsInit(rule string, fn interface{ Pos() token.Pos }) {
	f := c.fn("multi", "multiBaseReporters", "Capabilities")
	decl := c.funcDecl(f)
	info := c.typesInfo(f)
	key := c.fnKey(f)
	var accObj types.Object
	okInit := false
	for _, st := range decl.Body.List {
		as, ok := st.(*ast.AssignStmt)
		if !ok || as.Tok != token.DEFINE || len(as.Lhs) != 1 || len(as.Rhs) != 1 {
			continue
		}
		var cl *ast.CompositeLit
		switch x := as.Rhs[0].(type) {
		case *ast.UnaryExpr:
			cl, _ = x.X.(*ast.CompositeLit)
		case *ast.CompositeLit:
			cl = x
		}
		if cl == nil {
			continue
		}
		got := map[string]bool{}
		for _, e := range cl.Elts {
			if kv, isKV := e.(*ast.KeyValueExpr); isKV {
				k, _ := kv.Key.(*ast.Ident)
				v, _ := kv.Value.(*ast.Ident)
				if k != nil && v != nil && v.Name == "true" {
					got[k.Name] = true
				}
			}
		}
		if got["reporting"] && got["tagging"] {
			okInit = true
			accObj = info.Defs[as.Lhs[0].(*ast.Ident)]
		}
	}
	okRet := false
	if last, ok := decl.Body.List[len(decl.Body.List)-1].(*ast.ReturnStmt); ok && len(last.Results) == 1 {
		if id, isId := last.Results[0].(*ast.Ident); isId && accObj != nil && info.Uses[id] == accObj {
			okRet = true
		}
	}
	c.check(okInit && okRet, rule, key, f.Pos(), "conjunction starts at reporting=true, tagging=true and the accumulator is returned",
		"the capability conjunction does not start at {reporting: true, tagging: true} or does not return the accumulator: a multi reporter without children (or with capable children) advertises the wrong capabilities")
}

// checkDelegation: method body is the single pass-through call recv.multiBaseReporters.<m>().
func (c *Ctx) checkDelegation(rule, recv, m string) {
	fn := c.fn("multi", recv, m)
	if fn == nil {
		c.missing(rule, "multi."+recv+"."+m)
		return
	}
	c.sawFunc(c.fnKey(fn))
	decl := c.funcDecl(fn)
	info := c.typesInfo(fn)
	key := c.fnKey(fn)
	ok := false
	if decl != nil && len(decl.Body.List) == 1 {
		var e ast.Expr
		switch x := decl.Body.List[0].(type) {
		case *ast.ExprStmt:
			e = x.X
		case *ast.ReturnStmt:
			if len(x.Results) == 1 {
				e = x.Results[0]
			}
		}
		if call, isCall := e.(*ast.CallExpr); isCall && len(call.Args) == 0 {
			if se, isSel := call.Fun.(*ast.SelectorExpr); isSel && se.Sel.Name == m {
				if f := selField(info, se.X); f != nil && f.Name() == "multiBaseReporters" {
					ok = true
				}
			}
		}
	}
	c.check(ok, rule, key, fn.Pos(), "single pass-through to the base list's "+m,
		recv+"."+m+" is not the single pass-through call on the base reporter list: children are not flushed / capabilities are not the children's conjunction")
}

// checkMultiCtor: stores the variadic slice itself as the children and builds the base list by an
// in-order append over all of it.
func (c *Ctx) checkMultiCtor(rule, name, typ string) {
	fn := c.fn("multi", "", name)
	if fn == nil {
		c.missing(rule, "multi."+name)
		return
	}
	c.sawFunc(c.fnKey(fn))
	key := c.fnKey(fn)
	if len(fn.Params) != 1 {
		c.undecided(rule, key, fn.Pos(), "unexpected constructor signature")
		return
	}
	param := ssa.Value(fn.Params[0])
	fR, fB := c.field("multi", typ, "reporters"), c.field("multi", typ, "multiBaseReporters")
	if fR == nil || fB == nil {
		c.missing(rule, "multi."+typ+".reporters / multiBaseReporters")
		return
	}
	// decided on SSA, so that range-by-value, range-by-index and classic index loops are the same thing
	var base ssa.Value
	gotR := false
	instrsOf(fn, func(in ssa.Instruction) {
		st, ok := in.(*ssa.Store)
		if !ok {
			return
		}
		f, b := addrField(st.Addr)
		if al, isAl := canon(rootOf(b)).(*ssa.Alloc); f == nil || !isAl || al.Parent() != fn {
			return
		}
		switch f {
		case fR:
			if canon(stripConv(st.Val)) == param {
				gotR = true
			}
		case fB:
			base = stripConv(st.Val)
		}
	})
	loopOK := false
	why := "the base list is not built by one loop over all children"
	// the base list may be built by a same-package helper that is handed the children list
	// (`multiBaseReporters: newBase(r)`): the loop is then looked for in the helper, over its parameter
	loopFn, loopParam := fn, param
	if call, isCall := base.(*ssa.Call); isCall {
		var g *ssa.Function
		if g = staticCallee(call); g == nil {
			if mc, isMC := call.Call.Value.(*ssa.MakeClosure); isMC {
				g, _ = mc.Fn.(*ssa.Function)
			}
		}
		if g != nil && g.Blocks != nil && (g.Pkg == fn.Pkg || g.Parent() == fn) {
			for ai, a := range call.Call.Args {
				if canon(stripConv(a)) == param && ai < len(g.Params) {
					rets := returnsOf(g)
					if len(rets) == 1 && len(rets[0].Results) == 1 {
						loopFn, loopParam = g, ssa.Value(g.Params[ai])
						base = stripConv(canon(rets[0].Results[0]))
					}
				}
			}
		}
	}
	if phi, isPhi := base.(*ssa.Phi); isPhi {
		for _, fl := range fullIndexLoops(loopFn) {
			if fl.list != accessPath(loopParam) || phi.Block() != fl.header {
				continue
			}
			lp := fl.loop
			okEdges := true
			var app *ssa.Call
			for i, e := range phi.Edges {
				if lp.Blocks[phi.Block().Preds[i]] {
					call, isCall := e.(*ssa.Call)
					if !isCall || !isBuiltin(call, "append") || stripConv(call.Call.Args[0]) != ssa.Value(phi) {
						okEdges = false
						continue
					}
					app = call
				} else if !emptyPrivateSlice(e) {
					okEdges = false
					why = "the base list does not start empty and private"
				}
			}
			if !okEdges || app == nil {
				continue
			}
			_, elems, _, isApp := appendedValues(app)
			if !isApp || len(elems) != 1 || !fl.elemOf(stripConv(elems[0])) {
				why = "the element appended to the base list is not children[i]"
				continue
			}
			every := true
			for _, latch := range lp.Latch {
				if !app.Block().Dominates(latch) {
					every = false
				}
			}
			exits := true
			for b := range lp.Blocks {
				for _, sc := range b.Succs {
					if !lp.Blocks[sc] && b != lp.Header {
						exits = false
					}
				}
			}
			if every && exits {
				loopOK = true
			} else {
				why = "a child can be skipped (conditional append or early exit from the loop)"
			}
		}
	}
	// every return hands out the multi reporter built here - not some other reporter for special cases
	// (an empty children list answers Capabilities with the empty conjunction true/true, a stock no-op
	// reporter does not)
	for _, r := range returnsOf(fn) {
		for _, va := range resultValues(r, 0) {
			v := stripConv(va.Val)
			al, isAl := canon(rootOf(v)).(*ssa.Alloc)
			nt := c.named("multi", typ)
			if !isAl || al.Parent() != fn || nt == nil || !types.Identical(deref(al.Type()), nt) {
				c.bad(rule, key+":result", r.Pos(), "the constructor can return something other than the multi reporter it builds (a special case for some children lists): calls, capabilities and flushes are then not the fan-out over the children given", c.describe(r))
				return
			}
		}
	}
	c.check(loopOK && gotR, rule, key, fn.Pos(), "children = the variadic slice itself; base list = in-order append over all of it",
		"the constructor does not keep all children in the order given (children list is not the variadic slice, or "+why+")")
}
