package main

import (
	"fmt"
	"go/ast"
	"go/token"
	"go/types"
	"os"
	"reflect"
	"regexp"
	"sort"
	"strconv"
	"strings"

	"golang.org/x/tools/go/ssa"
)

func init() { register("C16", checkC16) }

// A14 WRITER/READER TABLE for generated thrift structs.

type thriftRow struct {
	id       int
	wire     string // wire name (writer) / from tag
	ttype    string // thrift.I64 ...
	method   string // WriteI64 / ReadI64 / "struct" / "list<struct>"
	goField  string
	required bool
	cond     bool // written only under IsSet
	pos      token.Pos
}

var ttypeDual = map[string][2]string{
	"BOOL": {"WriteBool", "ReadBool"}, "BYTE": {"WriteByte", "ReadByte"}, "I08": {"WriteByte", "ReadByte"},
	"I16": {"WriteI16", "ReadI16"}, "I32": {"WriteI32", "ReadI32"}, "I64": {"WriteI64", "ReadI64"},
	"DOUBLE": {"WriteDouble", "ReadDouble"}, "STRING": {"WriteString", "ReadString"},
	"STRUCT": {"struct", "struct"}, "LIST": {"list", "list"}, "SET": {"set", "set"},
}

var fieldFnRe = regexp.MustCompile(`^(read|write)Field(\d+)$`)

// recvFieldOf returns F when e mentions <recv>.F (first such selector, depth-first).
func recvFieldOf(e ast.Node, recv string) string {
	out := ""
	ast.Inspect(e, func(n ast.Node) bool {
		if out != "" {
			return false
		}
		if se, ok := n.(*ast.SelectorExpr); ok {
			if id, isId := se.X.(*ast.Ident); isId && id.Name == recv {
				out = se.Sel.Name
				return false
			}
		}
		return true
	})
	return out
}

// protoCalls lists calls <proto>.<Method>(...) in order of appearance, and calls X.Write(proto)/X.Read(proto).
type protoCall struct {
	method string
	call   *ast.CallExpr
	nested bool // X.Write(oprot) / X.Read(iprot)
}

func protoCallsOf(body ast.Node, proto string) []protoCall {
	var out []protoCall
	ast.Inspect(body, func(n ast.Node) bool {
		call, ok := n.(*ast.CallExpr)
		if !ok {
			return true
		}
		se, ok := call.Fun.(*ast.SelectorExpr)
		if !ok {
			return true
		}
		if id, isId := se.X.(*ast.Ident); isId && id.Name == proto {
			out = append(out, protoCall{se.Sel.Name, call, false})
			return true
		}
		if (se.Sel.Name == "Write" || se.Sel.Name == "Read") && len(call.Args) == 1 {
			if a, isId := call.Args[0].(*ast.Ident); isId && a.Name == proto {
				out = append(out, protoCall{se.Sel.Name, call, true})
			}
		}
		return true
	})
	return out
}

// singleAssignLocals maps the local variables of fd that are initialised where they are declared and
// never assigned again (nor have their address taken) to their initialiser. The inlined view binds a
// helper's parameters to such locals (`var name string = "name"`); the table rules below read through
// them.
func singleAssignLocals(info *types.Info, fd *ast.FuncDecl) map[types.Object]ast.Expr {
	init := map[types.Object]ast.Expr{}
	dirty := map[types.Object]bool{}
	if info == nil || fd.Body == nil {
		return init
	}
	ast.Inspect(fd.Body, func(n ast.Node) bool {
		switch x := n.(type) {
		case *ast.DeclStmt:
			if gd, ok := x.Decl.(*ast.GenDecl); ok && gd.Tok == token.VAR {
				for _, sp := range gd.Specs {
					if vs, ok := sp.(*ast.ValueSpec); ok && len(vs.Names) == len(vs.Values) {
						for i, nm := range vs.Names {
							if o := info.Defs[nm]; o != nil {
								init[o] = vs.Values[i]
							}
						}
					}
				}
			}
		case *ast.AssignStmt:
			if x.Tok == token.DEFINE && len(x.Lhs) == len(x.Rhs) {
				for i, l := range x.Lhs {
					if id, ok := l.(*ast.Ident); ok {
						if o := info.Defs[id]; o != nil {
							init[o] = x.Rhs[i]
						} else if o := info.Uses[id]; o != nil {
							dirty[o] = true
						}
					}
				}
			} else {
				for _, l := range x.Lhs {
					if id, ok := l.(*ast.Ident); ok {
						if o := info.ObjectOf(id); o != nil {
							dirty[o] = true
						}
					}
				}
			}
		case *ast.IncDecStmt:
			if id, ok := x.X.(*ast.Ident); ok {
				if o := info.ObjectOf(id); o != nil {
					dirty[o] = true
				}
			}
		case *ast.UnaryExpr:
			if id, ok := x.X.(*ast.Ident); ok && x.Op == token.AND {
				if o := info.ObjectOf(id); o != nil {
					dirty[o] = true
				}
			}
		case *ast.RangeStmt:
			for _, e := range []ast.Expr{x.Key, x.Value} {
				if id, ok := e.(*ast.Ident); ok && e != nil {
					if o := info.ObjectOf(id); o != nil {
						dirty[o] = true
					}
				}
			}
		}
		return true
	})
	for o := range dirty {
		delete(init, o)
	}
	return init
}

// resolveLocal follows single-assignment locals (and parentheses / string(...) conversions of them).
func resolveLocal(info *types.Info, locals map[types.Object]ast.Expr, e ast.Expr) ast.Expr {
	for i := 0; i < 6 && e != nil; i++ {
		switch x := e.(type) {
		case *ast.ParenExpr:
			e = x.X
			continue
		case *ast.Ident:
			if info != nil {
				if o := info.ObjectOf(x); o != nil {
					if in, ok := locals[o]; ok {
						e = in
						continue
					}
				}
			}
		}
		break
	}
	return e
}

func (c *Ctx) checkThriftStruct(rule, short, typ string) {
	pk := c.pkg(short)
	nt := c.named(short, typ)
	if pk == nil || nt == nil {
		c.missing(rule, short+"."+typ)
		return
	}
	st, _ := nt.Underlying().(*types.Struct)
	// D: struct tags
	D := map[int]thriftRow{}
	for i := 0; i < st.NumFields(); i++ {
		tag := reflect.StructTag(st.Tag(i)).Get("thrift")
		parts := strings.Split(tag, ",")
		if len(parts) < 2 {
			continue
		}
		id, err := strconv.Atoi(parts[1])
		if err != nil {
			continue
		}
		D[id] = thriftRow{id: id, wire: parts[0], goField: st.Field(i).Name(), required: len(parts) > 2 && parts[2] == "required"}
	}
	// collect method declarations
	decls := map[string]*ast.FuncDecl{}
	for _, f := range pk.Syntax {
		for _, d := range f.Decls {
			fd, ok := d.(*ast.FuncDecl)
			if !ok || fd.Recv == nil || len(fd.Recv.List) != 1 {
				continue
			}
			rt := fd.Recv.List[0].Type
			if s, isStar := rt.(*ast.StarExpr); isStar {
				rt = s.X
			}
			if id, isId := rt.(*ast.Ident); isId && id.Name == typ {
				decls[fd.Name.Name] = fd
			}
		}
	}
	recvName := func(fd *ast.FuncDecl) string {
		if len(fd.Recv.List[0].Names) == 1 {
			return fd.Recv.List[0].Names[0].Name
		}
		return "_"
	}
	protoName := func(fd *ast.FuncDecl) string {
		if fd.Type.Params != nil && len(fd.Type.Params.List) == 1 && len(fd.Type.Params.List[0].Names) == 1 {
			return fd.Type.Params.List[0].Names[0].Name
		}
		return "_"
	}
	key := short + "." + typ
	W, R := map[int]thriftRow{}, map[int]thriftRow{}
	ok := true
	fail := func(pos token.Pos, k, msg string) {
		ok = false
		c.bad(rule, key+k, pos, msg)
	}
	ttypeName := func(e ast.Expr) string {
		if se, isSel := e.(*ast.SelectorExpr); isSel {
			return se.Sel.Name
		}
		return "?"
	}
	for name, fd := range decls {
		m := fieldFnRe.FindStringSubmatch(name)
		if m == nil {
			continue
		}
		n, _ := strconv.Atoi(m[2])
		recv, proto := recvName(fd), protoName(fd)
		calls := protoCallsOf(fd.Body, proto)
		locals := singleAssignLocals(pk.TypesInfo, fd)
		res := func(e ast.Expr) ast.Expr { return resolveLocal(pk.TypesInfo, locals, e) }
		// the receiver's field named by e, reading through single-assignment locals
		recvFieldOf := func(e ast.Node, recv string) string {
			if f := recvFieldOf(e, recv); f != "" {
				return f
			}
			out := ""
			ast.Inspect(e, func(nd ast.Node) bool {
				if id, ok := nd.(*ast.Ident); ok && out == "" {
					if r := res(id); r != ast.Expr(id) {
						out = recvFieldOf(r, recv)
					}
				}
				return out == ""
			})
			return out
		}
		if m[1] == "write" {
			row := thriftRow{id: -1, pos: fd.Pos()}
			// conditional: whole body under if <recv>.IsSetX()
			if len(fd.Body.List) >= 1 {
				if ifs, isIf := fd.Body.List[0].(*ast.IfStmt); isIf && ifs.Init == nil {
					cond := ifs.Cond
					early := false
					if un, isUn := cond.(*ast.UnaryExpr); isUn && un.Op == token.NOT {
						// `if !p.IsSetX() { return nil }` in front of the field
						if len(ifs.Body.List) == 1 {
							if _, isRet := ifs.Body.List[0].(*ast.ReturnStmt); isRet && ifs.Else == nil {
								cond, early = un.X, true
							}
						}
					}
					if call, isCall := cond.(*ast.CallExpr); isCall {
						if se, isSel := call.Fun.(*ast.SelectorExpr); isSel && strings.HasPrefix(se.Sel.Name, "IsSet") {
							if _, isNot := ifs.Cond.(*ast.UnaryExpr); !isNot || early {
								row.cond = true
							}
						}
					}
				}
			}
			var seq []string
			for _, pc := range calls {
				seq = append(seq, pc.method)
			}
			if len(calls) < 3 || calls[0].method != "WriteFieldBegin" || calls[len(calls)-1].method != "WriteFieldEnd" {
				fail(fd.Pos(), ":"+name, fmt.Sprintf("%s is not WriteFieldBegin ... WriteFieldEnd (calls: %v)", name, seq))
				continue
			}
			fb := calls[0].call
			if len(fb.Args) != 3 {
				fail(fd.Pos(), ":"+name, "WriteFieldBegin arity")
				continue
			}
			if lit, isLit := res(fb.Args[0]).(*ast.BasicLit); isLit {
				row.wire, _ = strconv.Unquote(lit.Value)
			}
			row.ttype = ttypeName(res(fb.Args[1]))
			if lit, isLit := res(fb.Args[2]).(*ast.BasicLit); isLit {
				row.id, _ = strconv.Atoi(lit.Value)
			}
			val := calls[1]
			switch {
			case val.nested && val.method == "Write":
				row.method = "struct"
				row.goField = recvFieldOf(val.call.Fun, recv)
			case val.method == "WriteListBegin" || val.method == "WriteSetBegin":
				row.method = "list"
				if val.method == "WriteSetBegin" {
					row.method = "set"
				}
				if len(val.call.Args) == 2 {
					row.goField = recvFieldOf(val.call.Args[1], recv)
					// length must be len(p.F)
					if lc, isCall := res(val.call.Args[1]).(*ast.CallExpr); !isCall || types.ExprString(lc.Fun) != "len" {
						fail(val.call.Pos(), ":"+name, "the list header does not carry len(p."+row.goField+")")
					}
					// elements: a range over p.F with elem.Write, then WriteListEnd
					elemOK, endOK := false, false
					ast.Inspect(fd.Body, func(nd ast.Node) bool {
						if rs, isR := nd.(*ast.RangeStmt); isR && recvFieldOf(rs.X, recv) == row.goField {
							if _, esc := hasLoopEscape(&ast.BlockStmt{}); !esc {
								for _, pc := range protoCallsOf(rs.Body, proto) {
									if pc.nested && pc.method == "Write" {
										if id, isId := pc.call.Fun.(*ast.SelectorExpr).X.(*ast.Ident); isId {
											if vid, isV := rs.Value.(*ast.Ident); isV && vid.Name == id.Name {
												elemOK = true
											}
										}
									}
								}
							}
						}
						return true
					})
					for _, pc := range calls {
						if pc.method == "WriteListEnd" || pc.method == "WriteSetEnd" {
							endOK = true
						}
					}
					if !elemOK && endOK {
						// decided on SSA: any loop form that visits every index of p.F once and calls the
						// element's Write exactly once per iteration (range by index, classic index loop,
						// element copied into a local first)
						elemOK = c.listWriterLoopSSA(short, typ, name, row.goField)
					}
					if !elemOK || !endOK {
						fail(val.call.Pos(), ":"+name, "the list writer does not write every element of p."+row.goField+" followed by the list end")
					}
					row.ttype += "<" + ttypeName(val.call.Args[0]) + ">"
				}
			default:
				row.method = val.method
				if len(val.call.Args) == 1 {
					row.goField = recvFieldOf(val.call.Args[0], recv)
				}
			}
			if row.id != n {
				fail(fd.Pos(), ":"+name, fmt.Sprintf("%s writes field id %d", name, row.id))
			}
			W[n] = row
		} else {
			row := thriftRow{id: n, pos: fd.Pos()}
			if len(calls) == 0 {
				fail(fd.Pos(), ":"+name, name+" reads nothing")
				continue
			}
			first := calls[0]
			switch {
			case first.nested && first.method == "Read":
				row.method = "struct"
				row.goField = recvFieldOf(first.call.Fun, recv)
			case first.method == "ReadListBegin" || first.method == "ReadSetBegin":
				row.method = "list"
				if first.method == "ReadSetBegin" {
					row.method = "set"
				}
				elemOK, endOK := false, false
				for _, pc := range calls {
					if pc.nested && pc.method == "Read" {
						elemOK = true
					}
					if pc.method == "ReadListEnd" || pc.method == "ReadSetEnd" {
						endOK = true
					}
				}
				// appended to p.F
				ast.Inspect(fd.Body, func(nd ast.Node) bool {
					if as, isAs := nd.(*ast.AssignStmt); isAs && len(as.Lhs) == 1 && len(as.Rhs) == 1 {
						if call, isCall := as.Rhs[0].(*ast.CallExpr); isCall && types.ExprString(call.Fun) == "append" {
							row.goField = recvFieldOf(as.Lhs[0], recv)
						}
					}
					return true
				})
				if !elemOK || !endOK {
					fail(fd.Pos(), ":"+name, "the list reader does not read every element followed by the list end")
				}
				// every element is decoded into a value that is fresh for that iteration: `_elem := T{}`
				// as a statement of the loop body (fields absent on the wire must come out zero, not as
				// the previous element's)
				freshElem := false
				ast.Inspect(fd.Body, func(nd ast.Node) bool {
					fs, isFor := nd.(*ast.ForStmt)
					if !isFor {
						return true
					}
					for _, st := range fs.Body.List {
						as, isAs := st.(*ast.AssignStmt)
						if !isAs || as.Tok != token.DEFINE || len(as.Lhs) != 1 || len(as.Rhs) != 1 {
							continue
						}
						if _, isCL := as.Rhs[0].(*ast.CompositeLit); !isCL {
							continue
						}
						id, isId := as.Lhs[0].(*ast.Ident)
						if !isId {
							continue
						}
						// the Read call in this loop is on that identifier
						for _, pc := range protoCallsOf(fs.Body, proto) {
							if pc.nested && pc.method == "Read" {
								if rid, ok := pc.call.Fun.(*ast.SelectorExpr).X.(*ast.Ident); ok && rid.Name == id.Name {
									freshElem = true
								}
							}
						}
					}
					return true
				})
				if !freshElem {
					fail(fd.Pos(), ":"+name, "list elements are not decoded into a value that is fresh for each iteration (`elem := T{}` inside the loop): optional fields missing on the wire keep the previous element's value, so decode(encode(x)) != x")
				}
			default:
				row.method = first.method
			}
			if row.goField == "" {
				// p.F = v  /  p.F = T(v)
				ast.Inspect(fd.Body, func(nd ast.Node) bool {
					if as, isAs := nd.(*ast.AssignStmt); isAs && len(as.Lhs) == 1 && as.Tok == token.ASSIGN {
						if f := recvFieldOf(as.Lhs[0], recv); f != "" {
							row.goField = f
						}
					}
					return true
				})
			}
			R[n] = row
		}
	}
	// Read switch: case id -> readFieldN, isset flags for required fields
	switchIDs := map[int]int{}
	issetChecked := map[string]bool{}
	if rd := decls["Read"]; rd != nil {
		recv := recvName(rd)
		rdLocals := singleAssignLocals(pk.TypesInfo, rd)
		ast.Inspect(rd.Body, func(nd ast.Node) bool {
			cc, isCC := nd.(*ast.CaseClause)
			if isCC && len(cc.List) == 1 {
				if lit, isLit := cc.List[0].(*ast.BasicLit); isLit {
					id, _ := strconv.Atoi(lit.Value)
					ast.Inspect(cc, func(m ast.Node) bool {
						if call, isCall := m.(*ast.CallExpr); isCall {
							if se, isSel := call.Fun.(*ast.SelectorExpr); isSel {
								if x, isId := se.X.(*ast.Ident); isId && x.Name == recv {
									if mm := fieldFnRe.FindStringSubmatch(se.Sel.Name); mm != nil && mm[1] == "read" {
										switchIDs[id], _ = strconv.Atoi(mm[2])
									}
								}
							}
						}
						return true
					})
				}
			}
			if ifs, isIf := nd.(*ast.IfStmt); isIf {
				if un, isUn := ifs.Cond.(*ast.UnaryExpr); isUn && un.Op == token.NOT {
					if id, isId := resolveLocal(pk.TypesInfo, rdLocals, un.X).(*ast.Ident); isId && strings.HasPrefix(id.Name, "isset") && len(ifs.Body.List) == 1 {
						if _, isRet := ifs.Body.List[0].(*ast.ReturnStmt); isRet {
							issetChecked[strings.TrimPrefix(id.Name, "isset")] = true
						}
					}
				}
			}
			return true
		})
	} else {
		fail(token.NoPos, ":Read", "no Read method")
	}
	// Write: StructBegin, writeField1..n in id order, FieldStop, StructEnd
	if wr := decls["Write"]; wr != nil {
		recv, proto := recvName(wr), protoName(wr)
		var seq []string
		ast.Inspect(wr.Body, func(nd ast.Node) bool {
			call, isCall := nd.(*ast.CallExpr)
			if !isCall {
				return true
			}
			se, isSel := call.Fun.(*ast.SelectorExpr)
			if !isSel {
				return true
			}
			if x, isId := se.X.(*ast.Ident); isId {
				if x.Name == proto {
					seq = append(seq, se.Sel.Name)
				}
				if x.Name == recv && fieldFnRe.MatchString(se.Sel.Name) {
					seq = append(seq, se.Sel.Name)
				}
			}
			return true
		})
		var ids []int
		for id := range D {
			ids = append(ids, id)
		}
		sort.Ints(ids)
		want := []string{"WriteStructBegin"}
		for _, id := range ids {
			want = append(want, fmt.Sprintf("writeField%d", id))
		}
		want = append(want, "WriteFieldStop", "WriteStructEnd")
		if strings.Join(seq, ",") != strings.Join(want, ",") {
			fail(wr.Pos(), ":Write", fmt.Sprintf("Write emits %v, expected %v (every declared field once, in id order, then field stop, then struct end)", seq, want))
		}
	} else {
		fail(token.NoPos, ":Write", "no Write method")
	}
	// compare tables
	for id, d := range D {
		w, hasW := W[id]
		r, hasR := R[id]
		k := fmt.Sprintf(":field%d", id)
		if !hasW {
			fail(token.NoPos, k, fmt.Sprintf("field %d (%s) has no writer", id, d.goField))
			continue
		}
		if !hasR {
			fail(w.pos, k, fmt.Sprintf("field %d (%s) has no reader", id, d.goField))
			continue
		}
		if switchIDs[id] != id {
			fail(r.pos, k, fmt.Sprintf("the Read switch does not dispatch field id %d to readField%d", id, id))
		}
		base := strings.SplitN(w.ttype, "<", 2)[0]
		dual, known := ttypeDual[base]
		if !known {
			fail(w.pos, k, "unknown TType "+w.ttype)
			continue
		}
		if w.method != dual[0] {
			fail(w.pos, k, fmt.Sprintf("field %d is announced as thrift.%s but written with %s (expected %s): a reader skips or misparses it", id, w.ttype, w.method, dual[0]))
		}
		if r.method != dual[1] {
			fail(r.pos, k, fmt.Sprintf("field %d is written as thrift.%s but read with %s (expected %s): decode(encode(x)) differs from x", id, w.ttype, r.method, dual[1]))
		}
		if w.goField != d.goField || r.goField != d.goField {
			fail(w.pos, k, fmt.Sprintf("field %d is declared as %s but the writer uses %s and the reader fills %s", id, d.goField, w.goField, r.goField))
		}
		if w.wire != d.wire {
			fail(w.pos, k, fmt.Sprintf("field %d is declared with wire name %q but written as %q", id, d.wire, w.wire))
		}
		if d.required && w.cond {
			fail(w.pos, k, fmt.Sprintf("required field %d (%s) is written conditionally", id, d.goField))
		}
		if d.required && !issetChecked[d.goField] && c.requiredCheckedSSA(short, typ, id) {
			issetChecked[d.goField] = true // decided on SSA: any shape of the presence test
		}
		if d.required && !issetChecked[d.goField] {
			fail(r.pos, k, fmt.Sprintf("required field %d (%s) is not checked after reading", id, d.goField))
		}
	}
	for id := range W {
		if _, has := D[id]; !has {
			fail(W[id].pos, fmt.Sprintf(":field%d", id), "a field is written that the struct does not declare")
		}
	}
	if ok {
		c.ok(rule, key, nt.Obj().Pos(), fmt.Sprintf("writer, reader, Read switch and struct tags agree on %d field(s)", len(D)))
	}
	c.extra["thrift_fields_"+typ] = len(D)
}

func checkC16(c *Ctx) {
	c.Explanation = "Decides the structural agreement that round-tripping and size calculation rest on: (O1) for each of the five v2 structs the writer table (id, TType, protocol write method, Go field, wire name), the reader table (id, protocol read method, Go field), the Read switch and the struct tags agree; write and read methods are the dual of the announced TType; required fields are written unconditionally and checked after reading; Write emits struct begin, every field once in id order, field stop, struct end; list fields write len and every element; the generated client writes message begin, the argument struct, message end and flushes, in that order; (O2) each TCalcTransport write method adds exactly the length it was given and reports it as written, GetCount/ResetCount read/zero the counter, and the type implements TRichTransport; (O3) calculateSize is lock -> Write into the calc protocol -> read the count -> reset the count -> unlock and returns that count; (O4) the report-time fields hold maximal placeholders in the template (shared with C12); (O5-O8) the vendored Compact and Binary protocols: per primitive the writer and the reader agree on byte order, width, scratch-slice length, varint and zig-zag width; header functions write and read the same sets of primitive sequences; zig-zag helpers, varint loops and the compact nibble packing use matching forms/constants; the type-code table is inverted by the reader's switch; string/binary payloads reach the transport whole (copies only under a sufficient bound); the buffered read transport replaces its buffer on Write."
	c.Explanation += " Added later: (O8) strings and byte slices handed out by ReadString / ReadBinary are copies owned by the decoded structure."
	c.Explanation += " Added by round 9: (O1 write-errors-from-protocol) every non-nil error a generated Write / writeFieldN returns flows from a protocol call or a nested write."
	c.Explanation += " Added by round 10: (O1 isset-is-presence) IsSet<F> of a nilable optional field is exactly the nil test of that field, so a set-but-empty list is written and read back as set."
	c.NotDecided = []string{"decode(encode(x)) == x and byte counts as such", "the vendored protocols beyond the writer/reader agreements of O5-O8 (bool-in-header, compact map header, Skip, chunked string reads)"}
	for _, t := range []string{"MetricValue", "MetricTag", "Metric", "MetricBatch", "M3EmitMetricBatchV2Args"} {
		c.checkThriftStruct("O1 writer-reader-table", "m3/thrift/v2", t)
	}
	c.checkM3ClientSend("O1 client-send")
	c.checkThriftErrorDiscipline("O1 error-discipline")
	c.checkWriteErrorsFromProtocol("O1 write-errors-from-protocol")
	// round 10: an optional field is written exactly when it is present (non-nil), also when it is empty
	c.checkIsSetPresence("O1 isset-is-presence", "m3/thrift/v2", 2)
	c.checkCalcTransport("O2 calc-transport")
	c.checkCalculateSize("O3 calculate-size")
	c.checkMaxPlaceholders("O4 max-placeholder")
	// the size stored for a metric is the calculator's result for the very structure that is emitted
	// (no arithmetic on measured sizes: varint length prefixes make sizes non-additive) - shared with C12
	c.shared(checkC12, map[string]string{"O2 size-provenance": "O3 size-provenance", "O4b bucket-tags": "O3 bucket-tags", "O8 own-resource-pool": "O3 own-resource-pool", "O4a envelope": "O3 envelope"})
	// the vendored wire protocols and the read transport: writer/reader agreement (c16wire.go)
	c.checkWirePrimitives("O5 wire-primitives")
	c.checkHeaderSequences("O5 header-sequences")
	c.checkCompactHeaderConstants("O6 compact-headers")
	c.checkZigZag("O6 zigzag")
	c.checkVarintLoops("O6 varint")
	c.checkCompactTypeTable("O7 type-codes")
	c.checkPayloadWhole("O8 payload-whole")
	c.checkReadTransportWrite("O8 read-transport")
	c.checkDecodedPayloadOwned("O8 decoded-payload-owned")
	c.checkDecodedSizeGuards("O8 size-guards")
	// what was sized is what is emitted: pooled tag slices never overlap (shared with C12 O7)
	c.checkPooledSlicesDisjoint("O3 pooled-slices-disjoint")
}

// checkM3ClientSend: sendEmitMetricBatchV2 = WriteMessageBegin(name, ONEWAY, seq) -> args.Write ->
// WriteMessageEnd -> Flush, each on every non-error path, args.Batch is the parameter.
func (c *Ctx) checkM3ClientSend(rule string) {
	fn := c.fn("m3/thrift/v2", "M3Client", "sendEmitMetricBatchV2")
	if fn == nil {
		c.missing(rule, "m3thrift.M3Client.sendEmitMetricBatchV2")
		return
	}
	key := c.fnKey(fn)
	c.sawFunc(key)
	var seq []string
	var calls []ssa.Instruction
	instrsOf(fn, func(in ssa.Instruction) {
		call, ok := in.(*ssa.Call)
		if !ok {
			return
		}
		if _, m := ifaceCall(call); m != nil {
			switch m.Name() {
			case "WriteMessageBegin", "WriteMessageEnd", "Flush":
				seq = append(seq, m.Name())
				calls = append(calls, in)
			}
		}
		if f := staticCallee(call); f != nil && f.Name() == "Write" && f.Signature.Recv() != nil {
			if n, isN := deref(f.Signature.Recv().Type()).(*types.Named); isN && n.Obj().Name() == "M3EmitMetricBatchV2Args" {
				seq = append(seq, "args.Write")
				calls = append(calls, in)
			}
		}
	})
	ok := strings.Join(seq, ",") == "WriteMessageBegin,args.Write,WriteMessageEnd,Flush"
	why := fmt.Sprintf("the client emits %v, expected [WriteMessageBegin args.Write WriteMessageEnd Flush]", seq)
	if ok {
		for i := 1; i < len(calls); i++ {
			if !dominates(calls[i-1], calls[i]) {
				ok = false
				why = "the message parts are not written in order on every path"
			}
		}
		mb := calls[0].(*ssa.Call)
		name, _ := constString(mb.Call.Args[0])
		if name != "emitMetricBatchV2" {
			ok = false
			why = "wrong method name in the message header: " + name
		}
		// one-way call type
		if k, isK := constInt(mb.Call.Args[1]); !isK || k != 4 {
			ok = false
			why = "the message is not sent as a one-way call"
		}
		// the Batch field of args is the parameter
		okBatch := false
		instrsOf(fn, func(in ssa.Instruction) {
			if st, isSt := in.(*ssa.Store); isSt {
				if f, _ := addrField(st.Addr); f != nil && f.Name() == "Batch" && canon(st.Val) == ssa.Value(fn.Params[1]) {
					okBatch = true
				}
			}
		})
		if !okBatch {
			ok = false
			why = "the argument struct does not carry the batch parameter"
		}
	}
	c.check(ok, rule, key, fn.Pos(), "message begin (emitMetricBatchV2, one-way, next sequence id) -> argument struct with the batch -> message end -> flush", why)
	// the public method sends exactly once and returns the send's error
	if pub := c.fn("m3/thrift/v2", "M3Client", "EmitMetricBatchV2"); pub != nil {
		isSend := func(i ssa.Instruction) bool {
			call, isCall := i.(*ssa.Call)
			return isCall && staticCallee(call) == fn
		}
		cnt := c.newPathCounter(isSend, 0).fn(pub, 0)
		sends := findInstrs(pub, isSend)
		okP := len(sends) == 1 && cnt.min == 1 && cnt.max == 1
		if okP {
			sc := sends[0].(*ssa.Call)
			okP = canon(sc.Call.Args[1]) == ssa.Value(pub.Params[1])
			for _, r := range returnsOf(pub) {
				for _, va := range resultValues(r, 0) {
					if canon(va.Val) != ssa.Value(sc) && !(isNilConst(va.Val) && guardedByEdge(va.At, func(cond ssa.Value) (bool, bool) {
						o, x, y, okc := cmpOf(cond)
						if !okc || canon(x) != ssa.Value(sc) || !isNilConst(y) {
							return false, false
						}
						return true, o == token.EQL
					}) != nil) {
						okP = false
					}
				}
			}
		}
		c.check(okP, rule, c.fnKey(pub), pub.Pos(), "EmitMetricBatchV2 sends its batch exactly once and returns the send's error",
			"EmitMetricBatchV2 does not send its batch exactly once and return the send's error (a batch is dropped, sent twice, or a write error is hidden from the reporter's error counter)")
	}
}

func (c *Ctx) checkCalcTransport(rule string) {
	const pk = "m3/customtransports"
	fCount := c.field(pk, "TCalcTransport", "count")
	nt := c.named(pk, "TCalcTransport")
	if fCount == nil || nt == nil {
		c.missing(rule, "customtransport.TCalcTransport.count")
		return
	}
	if rich := c.ByPath[modPath+"/thirdparty/github.com/apache/thrift/lib/go/thrift"]; rich != nil {
		if obj, ok := rich.Types.Scope().Lookup("TRichTransport").(*types.TypeName); ok {
			it, _ := obj.Type().Underlying().(*types.Interface)
			c.check(it != nil && types.Implements(types.NewPointer(nt), it), rule, "TCalcTransport:rich", nt.Obj().Pos(), "implements thrift.TRichTransport (so strings and single bytes are counted by the methods checked here)",
				"TCalcTransport no longer implements thrift.TRichTransport: the protocols fall back to other write paths than the ones whose accounting is checked")
		}
	}
	for _, m := range []struct{ name, kind string }{{"Write", "len"}, {"WriteByte", "one"}, {"WriteString", "len"}} {
		fn := c.fn(pk, "TCalcTransport", m.name)
		if fn == nil {
			c.missing(rule, "TCalcTransport."+m.name)
			continue
		}
		key := c.fnKey(fn)
		c.sawFunc(key)
		var stores []*ssa.Store
		instrsOf(fn, func(in ssa.Instruction) {
			if st, ok := in.(*ssa.Store); ok {
				if f, _ := addrField(st.Addr); f == fCount {
					stores = append(stores, st)
				}
			}
		})
		ok := len(stores) == 1
		why := fmt.Sprintf("the method updates the counter %d times", len(stores))
		isLenOfParam := func(v ssa.Value) bool {
			v = stripConv(v)
			if cv, isCv := v.(*ssa.Convert); isCv {
				v = cv.X
			}
			ln, isLn := v.(*ssa.Call)
			return isLn && isBuiltin(ln, "len") && canon(ln.Call.Args[0]) == ssa.Value(fn.Params[1])
		}
		if ok {
			bo, isB := stores[0].Val.(*ssa.BinOp)
			ok = false
			why = "the counter is not increased by exactly the length written"
			if isB && bo.Op == token.ADD {
				if f, _ := loadedField(bo.X); f == fCount {
					switch m.kind {
					case "len":
						ok = isLenOfParam(bo.Y)
					case "one":
						k, isK := constInt(bo.Y)
						ok = isK && k == 1
					}
				}
			}
			cnt := c.newPathCounter(func(i ssa.Instruction) bool { return i == ssa.Instruction(stores[0]) }, 0).fn(fn, 0)
			if cnt.min != 1 || cnt.max != 1 {
				ok = false
				why = "the counter is not updated on every path"
			}
		}
		if ok {
			for _, r := range returnsOf(fn) {
				if !isNilConst(r.Results[len(r.Results)-1]) {
					ok = false
					why = "the calc transport reports an error"
				}
				if m.kind == "len" && !isLenOfParam(r.Results[0]) {
					ok = false
					why = "the number of bytes reported as written is not the length given (the protocol may retry or fail)"
				}
			}
		}
		c.check(ok, rule, key, fn.Pos(), "count += exactly the length given; reports it as written", why+": the measured size disagrees with what the real transport receives")
	}
	if fn := c.fn(pk, "TCalcTransport", "GetCount"); fn != nil {
		ok := false
		if rets := returnsOf(fn); len(rets) == 1 {
			f, _ := loadedField(rets[0].Results[0])
			ok = f == fCount
		}
		c.check(ok, rule, c.fnKey(fn), fn.Pos(), "GetCount returns the counter", "GetCount does not return the counter")
	}
	if fn := c.fn(pk, "TCalcTransport", "ResetCount"); fn != nil {
		ok := false
		instrsOf(fn, func(in ssa.Instruction) {
			if st, isSt := in.(*ssa.Store); isSt {
				if f, _ := addrField(st.Addr); f == fCount {
					k, isK := constInt(st.Val)
					ok = isK && k == 0
				}
			}
		})
		c.check(ok, rule, c.fnKey(fn), fn.Pos(), "ResetCount zeroes the counter", "ResetCount does not zero the counter")
	}
}

func (c *Ctx) checkCalculateSize(rule string) {
	fn := c.fn("m3", "reporter", "calculateSize")
	fLock, fProto, fCalc := c.field("m3", "reporter", "calcLock"), c.field("m3", "reporter", "calcProto"), c.field("m3", "reporter", "calc")
	if fn == nil || fLock == nil || fProto == nil || fCalc == nil {
		c.missing(rule, "m3.reporter.calculateSize / calcLock / calcProto / calc")
		return
	}
	key := c.fnKey(fn)
	c.sawFunc(key)
	var lock, unlock, write, get, reset ssa.Instruction
	instrsOf(fn, func(in ssa.Instruction) {
		if lo := lockOpOf(in); lo != nil {
			if f, _ := addrField(lo.Addr); f == fLock {
				if lo.Op == "Lock" {
					lock = in
				} else if lo.Op == "Unlock" {
					unlock = in
				}
			}
		}
		call := asCall(in)
		if call == nil {
			return
		}
		f := staticCallee(call)
		if f == nil {
			return
		}
		switch {
		case f.Name() == "Write" && f.Signature.Recv() != nil && len(call.Common().Args) == 2:
			if lf, _ := loadedField(stripConv(call.Common().Args[1])); lf == fProto {
				write = in
			}
		case f.Name() == "GetCount":
			if lf, _ := loadedField(call.Common().Args[0]); lf == fCalc {
				get = in
			}
		case f.Name() == "ResetCount":
			if lf, _ := loadedField(call.Common().Args[0]); lf == fCalc {
				reset = in
			}
		}
	})
	ok := lock != nil && unlock != nil && write != nil && get != nil && reset != nil
	why := "calculateSize lacks one of: calcLock.Lock, Write(calcProto), calc.GetCount, calc.ResetCount, calcLock.Unlock"
	if ok {
		_, deferU := unlock.(*ssa.Defer)
		_, deferR := reset.(*ssa.Defer)
		order := dominates(lock, write) && dominates(write, get) && (deferR || dominates(get, reset)) && (deferU || dominates(get, unlock))
		if !order {
			ok = false
			why = "the steps are not ordered lock -> write -> read count -> reset count -> unlock: the count is read before the metric is written, or outside the lock"
		}
		if !deferR && !deferU && !dominates(reset, unlock) {
			ok = false
			why = "the count is reset after the lock is released: a concurrent measurement starts from a non-zero count"
		}
		isReset := func(i ssa.Instruction) bool { return i == reset }
		if esc := reachAvoiding(write, false, isReturn, c.newLifter(isReset, 1).Must); esc != nil && ok {
			ok = false
			why = "the count is not reset on every path after measuring: the protocol object is reused, the next metric's size includes this one's"
		}
		for _, r := range returnsOf(fn) {
			for _, va := range resultValues(r, 0) {
				if canon(va.Val) != get.(ssa.Value) {
					ok = false
					why = "calculateSize does not return the count it read"
				}
			}
		}
	}
	c.check(ok, rule, key, fn.Pos(), "lock -> Write(calcProto) -> GetCount -> ResetCount -> unlock; returns the count", why)
}

// listWriterLoopSSA: method typ.name contains exactly one loop over every index of recv.<field> in
// which Write is called once per iteration on the loop's element (or on a local copy of it).
func (c *Ctx) listWriterLoopSSA(short, typ, name, field string) bool {
	fn := c.fn(short, typ, name)
	if fn == nil || len(fn.Params) == 0 {
		return false
	}
	want := accessPath(fn.Params[0]) + "." + field
	for _, fl := range fullIndexLoops(fn) {
		if fl.list != want {
			continue
		}
		var calls []ssa.Instruction
		for b := range fl.loop.Blocks {
			for _, in := range b.Instrs {
				call, ok := in.(*ssa.Call)
				if !ok {
					continue
				}
				g := staticCallee(call)
				if g == nil || g.Name() != "Write" || g.Signature.Recv() == nil || len(call.Call.Args) != 2 {
					continue
				}
				r := call.Call.Args[0]
				isElem := false
				switch x := r.(type) {
				case *ssa.IndexAddr:
					isElem = x.Index == fl.idx && accessPath(x.X) == fl.list
				case *ssa.Alloc:
					// a local copy of the element: exactly one store, of L[idx]
					n := 0
					if x.Referrers() != nil {
						for _, u := range *x.Referrers() {
							if st, isSt := u.(*ssa.Store); isSt && st.Addr == ssa.Value(x) {
								n++
								if fl.elemOf(st.Val) {
									isElem = true
								}
							}
						}
					}
					if n != 1 {
						isElem = false
					}
				default:
					isElem = fl.elemOf(r)
				}
				if isElem && canon(call.Call.Args[1]) == ssa.Value(fn.Params[1]) {
					calls = append(calls, in)
				}
			}
		}
		if len(calls) != 1 {
			return false
		}
		for _, latch := range fl.loop.Latch {
			if !calls[0].Block().Dominates(latch) {
				return false
			}
		}
		return true
	}
	return false
}

// requiredCheckedSSA: in <typ>.Read the presence of required field id is tested after the field loop,
// whatever the shape of the test (helper, inverted branches): there is a branch on the field's presence
// flag - the boolean that becomes true only behind the call of readField<id> - such that every return
// reachable through its "not set" edge returns a non-nil error on that path, and every return that
// returns a nil error lies behind its "set" edge.
func (c *Ctx) requiredCheckedSSA(short, typ string, id int) bool {
	rd := c.fn(short, typ, "Read")
	rf := c.fn(short, typ, fmt.Sprintf("readField%d", id))
	if rd == nil || rf == nil {
		rf = c.fn(short, typ, fmt.Sprintf("ReadField%d", id))
		if rd == nil || rf == nil {
			return false
		}
	}
	var callBlocks []*ssa.BasicBlock
	instrsOf(rd, func(in ssa.Instruction) {
		if call, ok := in.(*ssa.Call); ok && staticCallee(call) == rf {
			callBlocks = append(callBlocks, call.Block())
		}
	})
	if len(callBlocks) != 1 {
		return false
	}
	cb := callBlocks[0]
	// the presence flag: bool phis fed `true` from behind the call, closed under phi edges
	flags := map[ssa.Value]bool{}
	for _, b := range rd.Blocks {
		for _, in := range b.Instrs {
			phi, ok := in.(*ssa.Phi)
			if !ok {
				break
			}
			if bt, isB := phi.Type().Underlying().(*types.Basic); !isB || bt.Kind() != types.Bool {
				continue
			}
			for i, e := range phi.Edges {
				if k, isK := constBool(e); isK && k {
					pred := b.Preds[i]
					if pred == cb || cb.Dominates(pred) {
						flags[phi] = true
					}
				}
			}
		}
	}
	if len(flags) == 0 {
		return false
	}
	for changed := true; changed; {
		changed = false
		for _, b := range rd.Blocks {
			for _, in := range b.Instrs {
				phi, ok := in.(*ssa.Phi)
				if !ok {
					break
				}
				if flags[phi] {
					continue
				}
				for _, e := range phi.Edges {
					if flags[e] {
						// only a flag of THIS field may flow in besides constants and itself
						pure := true
						for _, e2 := range phi.Edges {
							if _, isK := e2.(*ssa.Const); !isK && !flags[e2] && e2 != ssa.Value(phi) {
								pure = false
							}
						}
						if pure {
							flags[phi] = true
							changed = true
						}
						break
					}
				}
			}
		}
	}
	for _, b := range rd.Blocks {
		iff, ok := condOf(b)
		if !ok {
			continue
		}
		v := iff.Cond
		neg := false
		for {
			if u, isU := v.(*ssa.UnOp); isU && u.Op == token.NOT {
				neg = !neg
				v = u.X
				continue
			}
			break
		}
		if !flags[v] {
			continue
		}
		setIdx := 0
		if neg {
			setIdx = 1
		}
		// (a) not set -> every reachable return carries an error on that path
		okA := true
		rets := returnsFromEdge(b, 1-setIdx)
		if len(rets) == 0 {
			okA = false
		}
		for _, ra := range rets {
			res := ra.ret.Results
			if len(res) == 0 {
				okA = false
				continue
			}
			if isNilConst(ra.st.resolve(res[len(res)-1])) {
				okA = false
			}
		}
		if os.Getenv("VERIF_DEBUG_REQ") != "" {
			fmt.Fprintf(os.Stderr, "req %s.%s field %d: if at block %d setIdx %d okA %v rets %d\n", short, typ, id, b.Index, setIdx, okA, len(rets))
			for _, ra := range rets {
				fmt.Fprintf(os.Stderr, "   ret block %d -> %v\n", ra.ret.Block().Index, ra.st.resolve(ra.ret.Results[len(ra.ret.Results)-1]))
			}
		}
		if !okA {
			continue
		}
		// (b) success is only reachable behind the "set" edge
		okB := true
		for _, r := range returnsOf(rd) {
			if len(r.Results) == 0 {
				continue
			}
			for _, va := range resultValues(r, len(r.Results)-1) {
				if isNilConst(va.Val) && !edgeDominates(b, setIdx, va.At.Block()) {
					okB = false
				}
			}
		}
		if okB {
			return true
		}
	}
	return false
}

// checkThriftErrorDiscipline (O1): in the generated Read / Write / readFieldN / writeFieldN methods of
// the five v2 structs and in the client's send function every error a protocol call (or a nested
// struct's Read / Write) returns is tested, and on the edge where it is non-nil every reachable return
// hands back a non-nil error on that path - a skeleton with an inverted or dropped test encodes a
// truncated message as success, or reports an intact message as broken.
func (c *Ctx) checkThriftErrorDiscipline(rule string) {
	const pk = "m3/thrift/v2"
	errT := types.Universe.Lookup("error").Type().Underlying().(*types.Interface)
	isErr := func(t types.Type) bool {
		if t == nil {
			return false
		}
		_, isI := t.Underlying().(*types.Interface)
		return isI && types.Implements(t, errT)
	}
	structs := map[string]bool{"MetricValue": true, "MetricTag": true, "Metric": true, "MetricBatch": true, "M3EmitMetricBatchV2Args": true}
	nSites, nBad := 0, 0
	ord := map[string]int{}
	for _, fn := range c.funcsOfPkg(pk) {
		fn := fn
		if fn.Signature.Recv() == nil {
			continue
		}
		nt, _ := deref(fn.Signature.Recv().Type()).(*types.Named)
		if nt == nil {
			continue
		}
		name := fn.Name()
		inScope := structs[nt.Obj().Name()] && (name == "Read" || name == "Write" || fieldFnRe.MatchString(name))
		if nt.Obj().Name() == "M3Client" && name == "sendEmitMetricBatchV2" {
			inScope = true
		}
		if !inScope || fn.Signature.Results().Len() == 0 {
			continue
		}
		c.sawFunc(c.fnKey(fn))
		instrsOf(fn, func(in ssa.Instruction) {
			call, ok := in.(*ssa.Call)
			if !ok {
				return
			}
			// protocol calls (invoke on TProtocol) and nested Read/Write/readField/writeField
			isProto := false
			if call.Call.IsInvoke() {
				if n2, isN := call.Call.Value.Type().(*types.Named); isN && n2.Obj().Name() == "TProtocol" {
					isProto = true
				}
			} else if g := staticCallee(call); g != nil && g.Pkg == fn.Pkg && g.Signature.Recv() != nil {
				gn := g.Name()
				if gn == "Read" || gn == "Write" || fieldFnRe.MatchString(gn) {
					isProto = true
				}
			}
			if !isProto {
				return
			}
			// the error result
			res := call.Call.Signature().Results()
			if res.Len() == 0 || !isErr(res.At(res.Len()-1).Type()) {
				return
			}
			var errVal ssa.Value
			if res.Len() == 1 {
				errVal = call
			} else if call.Referrers() != nil {
				for _, r := range *call.Referrers() {
					if ex, isEx := r.(*ssa.Extract); isEx && ex.Index == res.Len()-1 {
						errVal = ex
					}
				}
			}
			nSites++
			mname := ""
			if call.Call.IsInvoke() {
				mname = call.Call.Method.Name()
			} else if g := staticCallee(call); g != nil {
				mname = g.Name()
			}
			ord[c.fnKey(fn)+mname]++
			key := fmt.Sprintf("%s:%s#%d", c.fnKey(fn), mname, ord[c.fnKey(fn)+mname])
			if errVal == nil {
				nBad++
				c.bad(rule, key, call.Pos(), "the error of a protocol call is dropped: a failed write / read is reported as success", c.describe(call))
				return
			}
			// a function whose last statement is `return proto.X()` hands the error on directly
			handedOn := false
			for _, r := range returnsOf(fn) {
				for _, va := range resultValues(r, len(r.Results)-1) {
					if valueFlowsFrom(va.Val, errVal) && va.At.Block() == call.Block() {
						handedOn = true
					}
				}
			}
			tested := false
			okEdge := true
			for _, b := range fn.Blocks {
				iff, isIf := condOf(b)
				if !isIf {
					continue
				}
				op, x, y, isCmp := cmpOf(iff.Cond)
				if !isCmp || (op != token.EQL && op != token.NEQ) {
					continue
				}
				if isNilConst(x) {
					x, y = y, x
				}
				// (the tested value may be a phi that merges this error with an earlier one:
				// `if err = a(); err == nil { err = b() }; if err != nil { return err }`)
				if !isNilConst(y) || !valueFlowsFrom(x, errVal) || !(b == call.Block() || call.Block().Dominates(b) || blockReaches(call.Block(), b)) {
					continue
				}
				tested = true
				failIdx := b2i(op == token.EQL) // successor taken when err != nil
				rets := returnsFromEdge(b, failIdx)
				if len(rets) == 0 {
					okEdge = false
				}
				for _, ra := range rets {
					rr := ra.ret.Results
					if len(rr) == 0 || isNilConst(ra.st.resolve(rr[len(rr)-1])) {
						okEdge = false
					}
				}
			}
			if handedOn && !tested {
				return
			}
			if !tested || !okEdge {
				nBad++
				why := "is never tested"
				if tested {
					why = "is tested, but on the edge where it is non-nil the function can still return a nil error (inverted or ineffective test)"
				}
				c.bad(rule, key, call.Pos(), "the error of a protocol call "+why+": a truncated message is encoded / decoded as success, or an intact one is reported as broken", c.describe(call))
			}
		})
	}
	if nBad == 0 {
		c.ok(rule, "m3/thrift/v2", token.NoPos, fmt.Sprintf("all %d protocol-call errors in the generated Read / Write methods and the client's send are tested and handed back on the failing edge", nSites))
	}
	c.floor(rule, nSites, 100)
}

// checkWriteErrorsFromProtocol: the generated Write / writeFieldN methods of the five v2 structs fail
// only when the protocol (that is: the transport) fails - every non-nil error they return flows from
// the error of a protocol call or of a nested Write / writeFieldN, possibly wrapped by a function of
// the thrift package. An error of their own making (a validation of the value being written) aborts a
// message after its first bytes were buffered; the client returns without flushing, and the fragment
// is sent in front of the next batch - a datagram longer than what was charged, that does not decode.
func (c *Ctx) checkWriteErrorsFromProtocol(rule string) {
	const pk = "m3/thrift/v2"
	structs := map[string]bool{"MetricValue": true, "MetricTag": true, "Metric": true, "MetricBatch": true, "M3EmitMetricBatchV2Args": true}
	writeFieldRe := regexp.MustCompile(`^writeField\d+$`)
	n, nBad := 0, 0
	for _, fn := range c.funcsOfPkg(pk) {
		fn := fn
		if fn.Signature.Recv() == nil || fn.Signature.Results().Len() == 0 {
			continue
		}
		nt, _ := deref(fn.Signature.Recv().Type()).(*types.Named)
		if nt == nil || !structs[nt.Obj().Name()] || !(fn.Name() == "Write" || writeFieldRe.MatchString(fn.Name())) {
			continue
		}
		key := c.fnKey(fn)
		c.sawFunc(key)
		n++
		// the error values of protocol calls and nested writes
		src := map[ssa.Value]bool{}
		instrsOf(fn, func(in ssa.Instruction) {
			call, ok := in.(*ssa.Call)
			if !ok {
				return
			}
			isProto := false
			if call.Call.IsInvoke() {
				if n2, isN := call.Call.Value.Type().(*types.Named); isN && n2.Obj().Name() == "TProtocol" {
					isProto = true
				}
			} else if g := staticCallee(call); g != nil && g.Pkg == fn.Pkg && g.Signature.Recv() != nil && (g.Name() == "Write" || writeFieldRe.MatchString(g.Name())) {
				isProto = true
			}
			if !isProto {
				return
			}
			res := call.Call.Signature().Results()
			if res.Len() == 1 {
				src[call] = true
			} else if call.Referrers() != nil {
				for _, r := range *call.Referrers() {
					if ex, isEx := r.(*ssa.Extract); isEx && ex.Index == res.Len()-1 {
						src[ex] = true
					}
				}
			}
		})
		var derives func(v ssa.Value, d int, seen map[ssa.Value]bool) bool
		derives = func(v ssa.Value, d int, seen map[ssa.Value]bool) bool {
			v = stripConv(v)
			if d == 0 || seen[v] {
				return true // cycles through a phi add nothing
			}
			seen[v] = true
			if src[v] || isNilConst(v) {
				return true
			}
			switch x := v.(type) {
			case *ssa.Phi:
				for _, e := range x.Edges {
					if !derives(e, d-1, seen) {
						return false
					}
				}
				return true
			case *ssa.UnOp:
				if x.Op == token.MUL {
					if al, ok := x.X.(*ssa.Alloc); ok && al.Referrers() != nil {
						for _, r := range *al.Referrers() {
							if st, isSt := r.(*ssa.Store); isSt && st.Addr == ssa.Value(al) && !derives(st.Val, d-1, seen) {
								return false
							}
						}
						return true
					}
				}
			case *ssa.Call:
				// a wrapper of the thrift package around a derived error (PrependError, NewT...ExceptionFromError)
				if g := staticCallee(x); g != nil && g.Pkg != nil && g.Pkg.Pkg.Path() == pkgPath(thriftPkg) {
					for _, a := range x.Call.Args {
						if types.Implements(a.Type(), types.Universe.Lookup("error").Type().Underlying().(*types.Interface)) && !isNilConst(a) && derives(a, d-1, seen) {
							if sa := stripConv(a); src[sa] || !isConstLike(sa) {
								return true
							}
						}
					}
				}
			}
			return false
		}
		okAll := true
		for _, r := range returnsOf(fn) {
			if len(r.Results) == 0 {
				continue
			}
			for _, va := range resultValues(r, len(r.Results)-1) {
				if !derives(va.Val, 8, map[ssa.Value]bool{}) {
					okAll = false
					nBad++
					c.bad(rule, key, va.At.Pos(), fn.Name()+" can fail with an error that does not come from the protocol: the message is abandoned after its first bytes were buffered and nothing resets the buffer - the fragment goes out in front of the next batch (an over-long, undecodable datagram)", c.describe(va.At))
				}
			}
		}
		if okAll {
			c.ok(rule, key, fn.Pos(), "every non-nil error returned flows from a protocol call or a nested write")
		}
	}
	_ = nBad
	c.floor(rule, n, 18) // 5 Write + 13 writeFieldN
}

func isConstLike(v ssa.Value) bool {
	_, ok := v.(*ssa.Const)
	return ok
}

// blockReaches: b is reachable from a along CFG edges.
func blockReaches(a, b *ssa.BasicBlock) bool {
	seen := map[*ssa.BasicBlock]bool{a: true}
	work := []*ssa.BasicBlock{a}
	for len(work) > 0 {
		x := work[0]
		work = work[1:]
		for _, s := range x.Succs {
			if s == b {
				return true
			}
			if !seen[s] {
				seen[s] = true
				work = append(work, s)
			}
		}
	}
	return false
}

// checkIsSetPresence: an optional field of a generated struct is written under `if p.IsSetX()` and a reader
// leaves an absent field nil, so encode/decode preserves "set but empty" only while IsSetX is the presence
// test itself. For every method IsSet<F>() bool of the package whose field <F> is of a nilable type (slice,
// map, pointer), the body is one return of `recv.F != nil` (either operand order, or `!(recv.F == nil)`).
// Fields of a non-nilable type (v2 Metric.Value, a struct) have no presence bit and are not judged.
func (c *Ctx) checkIsSetPresence(rule, short string, min int) {
	pk := c.pkg(short)
	if pk == nil {
		c.missing(rule, short)
		return
	}
	n := 0
	for _, f := range pk.Syntax {
		for _, d := range f.Decls {
			fd, ok := d.(*ast.FuncDecl)
			if !ok || fd.Recv == nil || fd.Body == nil || len(fd.Recv.List) != 1 || len(fd.Recv.List[0].Names) != 1 ||
				!strings.HasPrefix(fd.Name.Name, "IsSet") || fd.Type.Params.NumFields() != 0 || fd.Type.Results.NumFields() != 1 {
				continue
			}
			rt := pk.TypesInfo.TypeOf(fd.Recv.List[0].Type)
			if p, isPtr := rt.(*types.Pointer); isPtr {
				rt = p.Elem()
			}
			nt, isNamed := rt.(*types.Named)
			if !isNamed {
				continue
			}
			st, isStruct := nt.Underlying().(*types.Struct)
			if !isStruct {
				continue
			}
			fname := strings.TrimPrefix(fd.Name.Name, "IsSet")
			var fld *types.Var
			for i := 0; i < st.NumFields(); i++ {
				if st.Field(i).Name() == fname {
					fld = st.Field(i)
				}
			}
			if fld == nil {
				continue
			}
			switch fld.Type().Underlying().(type) {
			case *types.Slice, *types.Map, *types.Pointer:
			default:
				continue
			}
			n++
			recv := fd.Recv.List[0].Names[0].Name
			key := short + "." + nt.Obj().Name() + "." + fd.Name.Name
			isField := func(e ast.Expr) bool {
				se, isSel := ast.Unparen(e).(*ast.SelectorExpr)
				if !isSel || se.Sel.Name != fname {
					return false
				}
				id, isId := ast.Unparen(se.X).(*ast.Ident)
				return isId && id.Name == recv
			}
			isNil := func(e ast.Expr) bool {
				id, isId := ast.Unparen(e).(*ast.Ident)
				if !isId {
					return false
				}
				_, isNilObj := pk.TypesInfo.Uses[id].(*types.Nil)
				return isNilObj
			}
			cmp := func(e ast.Expr, op token.Token) bool {
				be, isBin := ast.Unparen(e).(*ast.BinaryExpr)
				return isBin && be.Op == op && ((isField(be.X) && isNil(be.Y)) || (isNil(be.X) && isField(be.Y)))
			}
			good := false
			if len(fd.Body.List) == 1 {
				if rs, isRet := fd.Body.List[0].(*ast.ReturnStmt); isRet && len(rs.Results) == 1 {
					e := ast.Unparen(rs.Results[0])
					if cmp(e, token.NEQ) {
						good = true
					} else if un, isUn := e.(*ast.UnaryExpr); isUn && un.Op == token.NOT && cmp(un.X, token.EQL) {
						good = true
					}
				}
			}
			c.check(good, rule, key, fd.Pos(), fd.Name.Name+" is the nil test of its field: a field that is set is written, also when it is empty",
				fd.Name.Name+" is not `"+recv+"."+fname+" != nil`: the writer skips a field that is set (e.g. an empty list), so the decoded structure differs from the encoded one")
		}
	}
	c.floor(rule, n, min)
}
