package main

import (
	"fmt"
	"go/constant"
	"go/token"
	"go/types"
	"math"
	"strings"

	"golang.org/x/tools/go/ssa"
)

// C13 O7: histogram bucket metrics carry a bucket id that increases with the bounds and a
// bucket-range tag built from (previous upper bound, this upper bound); a bucket handle is found
// by its upper bound in the list of its kind.
func (c *Ctx) checkM3BucketIdentity(rule string) {
	const pk = "m3"
	fn := c.fn(pk, "reporter", "AllocateHistogram")
	fID, fBucket := c.field(pk, "cachedHistogramBucket", "bucketID"), c.field(pk, "cachedHistogramBucket", "bucket")
	fVU, fDU := c.field(pk, "cachedHistogramBucket", "valueUpperBound"), c.field(pk, "cachedHistogramBucket", "durationUpperBound")
	if fn == nil || fID == nil || fBucket == nil || fVU == nil || fDU == nil {
		c.missing(rule, "m3.reporter.AllocateHistogram / cachedHistogramBucket fields")
		return
	}
	key := c.fnKey(fn)
	c.sawFunc(key)
	// the range over BucketPairs(buckets)
	var pairs *ssa.Call
	instrsOf(fn, func(in ssa.Instruction) {
		if call, ok := in.(*ssa.Call); ok {
			if f := staticCallee(call); f != nil && f.Name() == "BucketPairs" && canon(call.Call.Args[0]) == ssa.Value(fn.Params[3]) {
				pairs = call
			}
		}
	})
	if pairs == nil {
		c.bad(rule, key, fn.Pos(), "the histogram's buckets are not derived from tally.BucketPairs(buckets)")
		return
	}
	var idx ssa.Value
	var pairVal ssa.Value
	for _, r := range *pairs.Referrers() {
		if ia, ok := r.(*ssa.IndexAddr); ok {
			idx = ia.Index
			for _, u := range *ia.Referrers() {
				if ld, isLd := u.(*ssa.UnOp); isLd {
					pairVal = ld
				}
			}
		}
	}
	if idx == nil || pairVal == nil {
		c.undecided(rule, key, pairs.Pos(), "the pair list is not iterated by index")
		return
	}
	okAll := true
	fail := func(pos token.Pos, msg string) {
		okAll = false
		c.bad(rule, key, pos, msg)
	}
	isPairCall := func(v ssa.Value, method string) bool {
		call, ok := stripConv(v).(*ssa.Call)
		if !ok {
			return false
		}
		r, m := ifaceCall(call)
		return m != nil && m.Name() == method && r == pairVal
	}
	var stores = map[*types.Var][]*ssa.Store{}
	instrsOf(fn, func(in ssa.Instruction) {
		if st, ok := in.(*ssa.Store); ok {
			if f, _ := addrField(st.Addr); f != nil {
				stores[f] = append(stores[f], st)
			}
		}
	})
	// bucketID = [Intern](Sprintf(fmt, i)) with i the range index
	for _, st := range stores[fID] {
		v := stripConv(st.Val)
		if call, ok := v.(*ssa.Call); ok && staticCallee(call) != nil && staticCallee(call).Name() == "Intern" {
			v = stripConv(call.Call.Args[1])
		}
		okID := false
		if sp, isSp := isCallTo(v, "fmt", "Sprintf"); isSp {
			if el, okE := variadicElems(sp.Call.Args[1]); okE && len(el) == 1 {
				if mi, isMI := el[0].(*ssa.MakeInterface); isMI && mi.X == idx {
					okID = true
				}
			}
		}
		if !okID {
			fail(st.Pos(), "the bucket id tag is not formatted from the bucket's index in BucketPairs order: ids no longer increase with the bounds")
		}
	}
	if len(stores[fID]) == 0 {
		fail(fn.Pos(), "bucket handles get no bucket id")
	}
	// the zero-padding width of the id must cover the largest id, which is buckets.Len() (BucketPairs
	// yields Len()+1 pairs, ids 0..Len()): every ndigits(...) argument that feeds the width must be
	// buckets.Len() or len(pairs) (possibly -1), never something smaller
	if nd := c.fn(pk, "", "ndigits"); nd != nil {
		instrsOf(fn, func(in ssa.Instruction) {
			call, ok := in.(*ssa.Call)
			if !ok || staticCallee(call) != nd {
				return
			}
			a := stripConv(call.Call.Args[0])
			okArg := false
			if ic, isCall := a.(*ssa.Call); isCall {
				if r, m := ifaceCall(ic); m != nil && m.Name() == "Len" && canon(r) == ssa.Value(fn.Params[3]) {
					okArg = true
				}
				if isBuiltin(ic, "len") && canon(ic.Call.Args[0]) == ssa.Value(pairs) {
					okArg = true
				}
			}
			if bo, isBO := a.(*ssa.BinOp); isBO && bo.Op == token.SUB {
				if ic, isCall := stripConv(bo.X).(*ssa.Call); isCall && isBuiltin(ic, "len") && canon(ic.Call.Args[0]) == ssa.Value(pairs) {
					if k, isK := constInt(bo.Y); isK && k == 1 {
						okArg = true
					}
				}
			}
			if !okArg {
				fail(call.Pos(), "the zero-padding width of the bucket id is derived from something other than the number of buckets (the largest id is buckets.Len()): for some bucket counts the ids no longer sort in bound order")
			}
		})
	}
	// upper bound fields from the matching accessor of this pair
	for f, m := range map[*types.Var]string{fVU: "UpperBoundValue", fDU: "UpperBoundDuration"} {
		for _, st := range stores[f] {
			if !isPairCall(st.Val, m) {
				fail(st.Pos(), "cachedHistogramBucket."+f.Name()+" is not this pair's "+m+"(): ValueBucket/DurationBucket look the handle up by that bound")
			}
		}
		if len(stores[f]) == 0 {
			fail(fn.Pos(), "bucket handles do not record "+f.Name())
		}
	}
	// bucket range string: render(prev) + "-" + render(pair.Upper()), prev = loop-carried previous upper bound
	type flavour struct {
		render, upper string
		init          constant.Value
	}
	flv := []flavour{
		{"durationBucketString", "UpperBoundDuration", constant.MakeInt64(math.MinInt64)},
		{"valueBucketString", "UpperBoundValue", constant.MakeFloat64(-math.MaxFloat64)},
	}
	seen := map[string]bool{}
	type rangeVal struct {
		st *ssa.Store
		v  ssa.Value
	}
	var rangeVals []rangeVal
	for _, st := range stores[fBucket] {
		v := stripConv(st.Val)
		if call, ok := v.(*ssa.Call); ok && staticCallee(call) != nil && staticCallee(call).Name() == "Intern" {
			v = stripConv(call.Call.Args[1])
		}
		// the string may be chosen per kind first and interned / stored once: one candidate per phi edge
		var expand func(v ssa.Value, depth int)
		expand = func(v ssa.Value, depth int) {
			if phi, isPhi := canon(stripConv(v)).(*ssa.Phi); isPhi && depth > 0 {
				for _, e := range phi.Edges {
					expand(e, depth-1)
				}
				return
			}
			rangeVals = append(rangeVals, rangeVal{st, canon(stripConv(v))})
		}
		expand(v, 2)
	}
	for _, rv := range rangeVals {
		st, v := rv.st, rv.v
		b1, ok1 := v.(*ssa.BinOp)
		if !ok1 || b1.Op != token.ADD {
			fail(st.Pos(), "the bucket range tag is not <lower>-<upper>")
			continue
		}
		b0, ok0 := stripConv(b1.X).(*ssa.BinOp)
		dash := ""
		if ok0 {
			dash, _ = constString(b0.Y)
		}
		lo, okLo := stripConv(func() ssa.Value {
			if ok0 {
				return b0.X
			}
			return nil
		}()).(*ssa.Call)
		up, okUp := stripConv(b1.Y).(*ssa.Call)
		if !ok0 || dash != "-" || !okLo || !okUp {
			fail(st.Pos(), "the bucket range tag is not render(lower) + \"-\" + render(upper)")
			continue
		}
		matched := false
		for _, f := range flv {
			rf := c.fn(pk, "reporter", f.render)
			if rf == nil || staticCallee(lo) != rf || staticCallee(up) != rf {
				continue
			}
			matched = true
			seen[f.render] = true
			if !isPairCall(up.Call.Args[1], f.upper) {
				fail(st.Pos(), "the upper end of the bucket range tag is not this pair's "+f.upper+"()")
			}
			// lower: a header phi initialised to the open end and updated with pair.<upper>()
			phi, isPhi := stripConv(lo.Call.Args[1]).(*ssa.Phi)
			okPrev := false
			if isPhi && len(phi.Edges) == 2 {
				initOK, stepOK := false, false
				for _, e := range phi.Edges {
					if k, isK := stripConv(e).(*ssa.Const); isK && k.Value != nil {
						if constant.Compare(constant.ToFloat(k.Value), token.EQL, constant.ToFloat(f.init)) {
							initOK = true
						}
					}
					if isPairCall(e, f.upper) {
						stepOK = true
					}
				}
				okPrev = initOK && stepOK
			}
			if !okPrev {
				fail(st.Pos(), "the lower end of the bucket range tag is not the previous bucket's upper bound (starting at the open end): bucket range tags overlap or repeat")
			}
		}
		if !matched {
			fail(st.Pos(), "the two ends of the bucket range tag are not rendered by the same renderer of the histogram's kind")
		}
	}
	if !seen["durationBucketString"] || !seen["valueBucketString"] {
		fail(fn.Pos(), "the bucket range tag is not built for both value and duration histograms")
	}
	if okAll {
		c.ok(rule, key, fn.Pos(), "bucket id from the index in BucketPairs order; range tag = render(previous upper) - render(this upper); bounds recorded from the same pair")
	}
	// lookups: ValueBucket searches cachedValueBuckets by valueUpperBound >= upper parameter
	for _, lk := range []struct{ meth, list, bound string }{{"ValueBucket", "cachedValueBuckets", "valueUpperBound"}, {"DurationBucket", "cachedDurationBuckets", "durationUpperBound"}} {
		m := c.fn(pk, "cachedHistogram", lk.meth)
		if m == nil {
			c.missing(rule, "m3.cachedHistogram."+lk.meth)
			continue
		}
		k2 := c.fnKey(m)
		c.sawFunc(k2)
		sites := c.searchSites([]*ssa.Function{m})
		ok := len(sites) == 1 && sites[0].closure != nil
		why := "the bucket handle is not found by a binary search"
		if ok {
			s := sites[0]
			ok = false
			why = "the bucket handle is not searched by `" + lk.list + "[i]." + lk.bound + " >= upper bound argument`: a bucket's samples are sent under another bucket's tags"
			if rets := returnsOf(s.closure); len(rets) == 1 {
				if op, x, y, isCmp := cmpOf(rets[0].Results[0]); isCmp {
					if f, _ := loadedField(stripConv(y)); f != nil {
						x, y = y, x
						op = flipCmp(op)
					}
					f, base := loadedField(stripConv(x))
					if f != nil && f.Name() == lk.bound && op == token.GEQ && canon(y) == ssa.Value(m.Params[2]) {
						if ia, isIA := base.(*ssa.IndexAddr); isIA {
							if lf, _ := loadedField(ia.X); lf != nil && lf.Name() == lk.list {
								ok = true
							}
						}
					}
				}
			}
			// and the element used afterwards comes from the same list
			if ok {
				used := false
				instrsOf(m, func(in ssa.Instruction) {
					if ia, isIA := in.(*ssa.IndexAddr); isIA && canon(ia.Index) == ssa.Value(s.call) {
						if lf, _ := loadedField(ia.X); lf != nil && lf.Name() == lk.list {
							used = true
						} else {
							ok = false
							why = "the index found in " + lk.list + " is used on another list"
						}
					}
				})
				if !used && ok {
					ok = false
					why = "the index found is not used to pick the bucket handle"
				}
			}
		}
		c.check(ok, rule, k2, m.Pos(), fmt.Sprintf("handle = %s[first i with %s >= upper]", lk.list, lk.bound), why)
	}
}

// checkPublishedNotRecycled: a tag slice that has been published - stored as the reporter's common
// tags, handed to the tag cache, or stored in a pre-built metric template - stays owned by that
// holder. Returning the same slice to a pool (directly, or through a release helper that is handed a
// struct containing it) lets a later borrower overwrite the backing array of the published tags: every
// later batch then carries some metric's tags instead of the configured common tags.
func (c *Ctx) checkPublishedNotRecycled(rule string) {
	const pk = "m3"
	isTagSlice := func(t types.Type) bool {
		sl, ok := t.Underlying().(*types.Slice)
		if !ok {
			return false
		}
		n, isN := sl.Elem().(*types.Named)
		return isN && n.Obj().Name() == "MetricTag"
	}
	isPut := func(call ssa.CallInstruction) bool {
		com := call.Common()
		name := ""
		if com.IsInvoke() {
			name = com.Method.Name()
		} else if g := com.StaticCallee(); g != nil {
			name = g.Name()
		}
		return name == "Put"
	}
	// recycled access paths of a function's parameters: "i" (the parameter itself) or "i.Field"
	type summary map[string]bool
	memo := map[*ssa.Function]summary{}
	var summarize func(g *ssa.Function, depth int) summary
	pathOf := func(g *ssa.Function, v ssa.Value) string {
		// v is param, or a field load of param (struct passed by value is spilled into a cell)
		v = stripConv(v)
		if sl, ok := v.(*ssa.Slice); ok {
			v = stripConv(sl.X)
		}
		v = canon(v)
		if pi := paramIndex(g, v); pi >= 0 {
			return fmt.Sprintf("%d", pi)
		}
		if f, base := loadedField(v); f != nil {
			if pi := paramIndex(g, canon(rootOf(base))); pi >= 0 {
				return fmt.Sprintf("%d.%s", pi, f.Name())
			}
		}
		if fv, ok := v.(*ssa.Field); ok {
			if pi := paramIndex(g, canon(fv.X)); pi >= 0 {
				return fmt.Sprintf("%d.%s", pi, structFieldOf(fv.X.Type(), fv.Field).Name())
			}
		}
		return ""
	}
	summarize = func(g *ssa.Function, depth int) summary {
		if s, ok := memo[g]; ok {
			return s
		}
		s := summary{}
		memo[g] = s
		if g == nil || g.Blocks == nil || depth == 0 {
			return s
		}
		instrsOf(g, func(in ssa.Instruction) {
			ci, ok := in.(ssa.CallInstruction)
			if !ok {
				return
			}
			com := ci.Common()
			if isPut(ci) {
				for _, a := range com.Args {
					if p := pathOf(g, a); p != "" {
						s[p] = true
					}
				}
				return
			}
			if h := com.StaticCallee(); h != nil && c.inModule(h) {
				hs := summarize(h, depth-1)
				for hp := range hs {
					// hp = "j" or "j.F": map through this call's argument j
					var j int
					fld := ""
					if k := strings.Index(hp, "."); k >= 0 {
						fmt.Sscanf(hp[:k], "%d", &j)
						fld = hp[k+1:]
					} else {
						fmt.Sscanf(hp, "%d", &j)
					}
					if j >= len(com.Args) {
						continue
					}
					if fld == "" {
						if p := pathOf(g, com.Args[j]); p != "" {
							s[p] = true
						}
					} else if pi := paramIndex(g, canon(stripConv(com.Args[j]))); pi >= 0 {
						s[fmt.Sprintf("%d.%s", pi, fld)] = true
					}
				}
			}
		})
		return s
	}
	n := 0
	okAll := true
	for _, fn := range c.funcsOfPkg(pk) {
		// published values of this function
		published := map[ssa.Value]string{}
		instrsOf(fn, func(in ssa.Instruction) {
			switch x := in.(type) {
			case *ssa.Store:
				if f, base := addrField(x.Addr); f != nil && isTagSlice(f.Type()) {
					if n2, ok := deref(base.Type()).(*types.Named); ok && (n2.Obj().Name() == "reporter" || n2.Obj().Name() == "Metric") {
						published[canon(stripConv(x.Val))] = n2.Obj().Name() + "." + f.Name()
					}
				}
			case *ssa.Call:
				if g := staticCallee(x); g != nil && g.Signature.Recv() != nil {
					if n2, ok := deref(g.Signature.Recv().Type()).(*types.Named); ok && n2.Obj().Name() == "TagCache" && g.Name() == "Set" {
						for _, a := range x.Call.Args {
							if isTagSlice(a.Type()) {
								published[canon(stripConv(a))] = "the tag cache"
							}
						}
					}
				}
			}
		})
		if len(published) == 0 {
			continue
		}
		n++
		// recycled values of this function: arguments of Put, or of helpers that recycle (a field of) their parameter
		instrsOf(fn, func(in ssa.Instruction) {
			ci, ok := in.(ssa.CallInstruction)
			if !ok {
				return
			}
			com := ci.Common()
			check := func(v ssa.Value) {
				v = stripConv(v)
				if sl, isSl := v.(*ssa.Slice); isSl {
					v = stripConv(sl.X)
				}
				if where, isPub := published[canon(v)]; isPub {
					okAll = false
					c.bad(rule, c.fnKey(fn), in.Pos(), "a tag slice that is published as "+where+" is also returned to a pool: the next borrower writes its own tags into the backing array, and everything that still refers to the published slice (every later batch's common tags, every metric sharing the cached tags) carries those instead", c.describe(in))
				}
			}
			if isPut(ci) {
				for _, a := range com.Args {
					check(a)
				}
				return
			}
			h := com.StaticCallee()
			if h == nil || !c.inModule(h) {
				return
			}
			for hp := range summarize(h, 3) {
				var j int
				fld := ""
				if k := strings.Index(hp, "."); k >= 0 {
					fmt.Sscanf(hp[:k], "%d", &j)
					fld = hp[k+1:]
				} else {
					fmt.Sscanf(hp, "%d", &j)
				}
				if j >= len(com.Args) {
					continue
				}
				a := com.Args[j]
				if fld == "" {
					check(a)
					continue
				}
				// the struct argument: what was stored into its field fld
				root := stripConv(a)
				if ld, isLd := root.(*ssa.UnOp); isLd && ld.Op == token.MUL {
					root = ld.X
				}
				if al, isAl := root.(*ssa.Alloc); isAl && al.Referrers() != nil {
					for _, r := range *al.Referrers() {
						if fa, isFA := r.(*ssa.FieldAddr); isFA && structFieldOf(fa.X.Type(), fa.Field).Name() == fld && fa.Referrers() != nil {
							for _, u := range *fa.Referrers() {
								if st, isSt := u.(*ssa.Store); isSt && st.Addr == ssa.Value(fa) {
									check(st.Val)
								}
							}
						}
					}
				}
			}
		})
	}
	// inside the tag cache: a cached slice is shared by every metric allocated with those tags for as
	// long as the reporter lives. It leaves the cache only as a result of Get / Set - it is never handed
	// to a callback or to other code (an eviction hook that recycles it lets the next conversion
	// overwrite the tags of metrics that are still in use)
	nCache := 0
	fEntries := c.field("internal/cache", "TagCache", "entries")
	if fEntries == nil {
		c.missing(rule, "internal/cache.TagCache.entries")
	} else {
		for _, fn := range c.funcsOfPkg("internal/cache") {
			fn := fn
			cached := map[ssa.Value]bool{}
			instrsOf(fn, func(in ssa.Instruction) {
				switch x := in.(type) {
				case *ssa.Lookup:
					if f, _ := loadedField(x.X); f == fEntries {
						cached[x] = true
					}
				case *ssa.Extract:
					if lk, ok := x.Tuple.(*ssa.Lookup); ok && x.Index == 0 {
						if f, _ := loadedField(lk.X); f == fEntries {
							cached[x] = true
						}
					}
					if nx, ok := x.Tuple.(*ssa.Next); ok && x.Index == 2 {
						if rg, isR := nx.Iter.(*ssa.Range); isR {
							if f, _ := loadedField(rg.X); f == fEntries {
								cached[x] = true
							}
						}
					}
				}
			})
			if len(cached) == 0 {
				continue
			}
			nCache++
			instrsOf(fn, func(in ssa.Instruction) {
				ci, ok := in.(ssa.CallInstruction)
				if !ok {
					return
				}
				com := ci.Common()
				if _, isB := com.Value.(*ssa.Builtin); isB {
					return
				}
				for _, a := range com.Args {
					v := stripConv(a)
					if sl, isSl := v.(*ssa.Slice); isSl {
						v = stripConv(sl.X)
					}
					if cached[canon(v)] || cached[v] {
						if g := com.StaticCallee(); g != nil && g.Pkg == fn.Pkg && len(summarize(g, 3)) == 0 {
							continue // a helper of the cache that does not recycle its arguments
						}
						okAll = false
						c.bad(rule, c.fnKey(fn)+":cached", in.Pos(), "a tag slice held by the tag cache is handed to other code ("+calleeName(ci)+"): the cached slice is shared by every metric allocated with those tags; if that code recycles it, the next tag conversion overwrites the tags of metrics that are still in use", c.describe(in))
					}
				}
			})
		}
	}
	if okAll {
		c.ok(rule, "m3:published-tag-slices", token.NoPos, fmt.Sprintf("no published tag slice is returned to a pool (%d publishing functions); cached tag slices leave the cache only as results (%d cache functions)", n, nCache))
	}
	c.floor(rule, n, 1)
}

// checkBorrowedTagsReturnedOnce: the batching goroutine borrows tag slices from a pool for histogram
// buckets, remembers them in a list, and returns them to the pool after the batch was emitted. After
// that hand-back the list must be emptied on the same path: a list that still holds the slices returns
// them a second time after the next batch, and a slice that sits in the pool twice is handed to two
// metrics at once (one overwrites the other's tags).
func (c *Ctx) checkBorrowedTagsReturnedOnce(rule string) {
	const pk = "m3"
	n := 0
	for _, fn := range c.funcsOfPkg(pk) {
		for _, fl := range fullIndexLoops(fn) {
			// a loop over a list of slices whose body Puts list[i] (re-sliced) into a pool
			lt, ok := fl.lenArg.Type().Underlying().(*types.Slice)
			if !ok {
				continue
			}
			if _, isSl := lt.Elem().Underlying().(*types.Slice); !isSl {
				continue
			}
			puts := false
			var putPos token.Pos
			for b := range fl.loop.Blocks {
				for _, in := range b.Instrs {
					ci, isCall := in.(ssa.CallInstruction)
					if !isCall {
						continue
					}
					name := ""
					if g := ci.Common().StaticCallee(); g != nil {
						name = g.Name()
					} else if ci.Common().IsInvoke() {
						name = ci.Common().Method.Name()
					}
					if name == "Put" {
						puts = true
						putPos = in.Pos()
						// what goes back is empty: the next borrower appends the metric's tags to it
						args := callArgs(ci)
						emptied := false
						if len(args) == 1 {
							if sl, isSl := stripConv(args[0]).(*ssa.Slice); isSl && sl.High != nil {
								if k, isK := constInt(sl.High); isK && k == 0 {
									emptied = true
								}
							}
						}
						if !emptied {
							c.bad(rule, c.fnKey(fn)+":emptied", in.Pos(), "a borrowed tag slice goes back to the pool without being truncated to length 0: the next bucket metric that borrows it appends its tags after the stale ones and is emitted with another metric's tags", c.describe(in))
						}
					}
				}
			}
			if !puts {
				continue
			}
			n++
			key := c.fnKey(fn)
			c.sawFunc(key)
			list := canon(stripConv(fl.lenArg))
			// the enclosing (outer) loop
			var outer *loopInfo
			for _, l := range loopsOf(fn) {
				if l.Header != fl.header && l.Blocks[fl.header] && (outer == nil || len(l.Blocks) < len(outer.Blocks)) {
					outer = l
				}
			}
			// blocks reachable from the put loop's exit without passing the outer header
			var exit *ssa.BasicBlock
			for _, sc := range fl.header.Succs {
				if !fl.loop.Blocks[sc] {
					exit = sc
				}
			}
			if exit == nil {
				c.undecided(rule, key, fl.header.Instrs[0].Pos(), "the hand-back loop has no exit")
				continue
			}
			reach := map[*ssa.BasicBlock]bool{exit: true, fl.header: true}
			work := []*ssa.BasicBlock{exit}
			for len(work) > 0 {
				b := work[len(work)-1]
				work = work[:len(work)-1]
				for _, sc := range b.Succs {
					if reach[sc] || (outer != nil && sc == outer.Header) || (outer != nil && !outer.Blocks[sc]) {
						continue
					}
					reach[sc] = true
					work = append(work, sc)
				}
			}
			var tainted func(v ssa.Value, depth int) bool
			tainted = func(v ssa.Value, depth int) bool {
				if depth == 0 {
					return false
				}
				v = stripConv(v)
				if canon(v) == list || v == list {
					return true
				}
				switch x := v.(type) {
				case *ssa.Slice:
					if k, isK := constInt(x.High); x.High != nil && isK && k == 0 {
						return false // truncated: starts over
					}
					return tainted(x.X, depth-1)
				case *ssa.Call:
					if isBuiltin(x, "append") {
						return tainted(x.Call.Args[0], depth-1)
					}
				case *ssa.Phi:
					// only what arrives from the hand-back side counts
					for i, e := range x.Edges {
						if reach[x.Block().Preds[i]] && tainted(e, depth-1) {
							return true
						}
					}
				}
				return false
			}
			var bad ssa.Instruction
			check := func(b *ssa.BasicBlock) {
				for _, in := range b.Instrs {
					phi, isPhi := in.(*ssa.Phi)
					if !isPhi {
						break
					}
					if !types.Identical(phi.Type(), fl.lenArg.Type()) {
						continue
					}
					for i, e := range phi.Edges {
						pred := b.Preds[i]
						if reach[pred] && !fl.loop.Blocks[pred] && tainted(e, 6) {
							bad = in
						}
					}
				}
			}
			for b := range reach {
				if !fl.loop.Blocks[b] {
					check(b)
				}
			}
			if outer != nil {
				check(outer.Header)
			}
			c.check(bad == nil, rule, key, putPos, "after the borrowed tag slices went back to the pool the list that remembers them is emptied on the same path",
				"after the borrowed tag slices were returned to the pool the list still holds them when the batching loop continues: they are returned again after the next batch, the pool then holds one slice twice and hands it to two bucket metrics at once - one metric is emitted with the other's tags", func() string {
					if bad != nil {
						return c.describe(bad)
					}
					return ""
				}())
		}
	}
	c.floor(rule, n, 1)
}

// checkClockRefresh (O5): the cached clock that stamps every metric is refreshed for as long as the
// reporter lives: the goroutine the constructor starts for it reaches a loop that stores time.Now()
// into the clock and then waits for a ticker that is stopped only when the loop is left.
func (c *Ctx) checkClockRefresh(rule string) {
	const pk = "m3"
	fNow := c.field(pk, "reporter", "now")
	ctor := c.fn(pk, "", "NewReporter")
	if fNow == nil || ctor == nil {
		c.missing(rule, "m3.reporter.now / NewReporter")
		return
	}
	// functions with a loop that stores the clock
	var loopFn *ssa.Function
	var store ssa.Instruction
	for _, fn := range c.funcsOfPkg(pk) {
		for _, lp := range loopsOf(fn) {
			for b := range lp.Blocks {
				for _, in := range b.Instrs {
					if op := atomicOpOf(in); op != nil && op.Field == fNow && op.Kind == "store" {
						loopFn, store = fn, in
					}
				}
			}
		}
	}
	if loopFn == nil {
		c.bad(rule, "m3.reporter.now", ctor.Pos(), "the cached clock is not refreshed inside any loop: every metric reported after the first moments carries a stale timestamp")
		return
	}
	key := c.fnKey(loopFn)
	c.sawFunc(key)
	okAll := true
	// the stored value is time.Now().UnixNano()
	op := atomicOpOf(store)
	isNow := false
	if len(op.Args) > 0 {
		if call, ok := stripConv(op.Args[len(op.Args)-1]).(*ssa.Call); ok {
			if g := staticCallee(call); g != nil && g.Name() == "UnixNano" {
				isNow = true
			}
		}
	}
	if !isNow {
		okAll = false
		c.bad(rule, key+":value", store.Pos(), "the value stored into the cached clock is not time.Now().UnixNano()", c.describe(store))
	}
	// a ticker Stop that is not deferred must not precede the loop
	instrsOf(loopFn, func(in ssa.Instruction) {
		call, ok := in.(*ssa.Call)
		if !ok {
			return
		}
		if g := staticCallee(call); g != nil && g.Name() == "Stop" && g.Pkg != nil && g.Pkg.Pkg.Path() == "time" {
			if reachAvoiding(in, false, func(i ssa.Instruction) bool { return i == store }, nil) != nil {
				okAll = false
				c.bad(rule, key+":ticker", in.Pos(), "the ticker that paces the clock refresh is stopped before the refresh loop runs: the loop blocks on a dead ticker and the clock is never refreshed again", c.describe(in))
			}
		}
	})
	// the constructor starts it: a go statement in NewReporter reaches loopFn
	started := false
	var reaches func(f *ssa.Function, depth int) bool
	reaches = func(f *ssa.Function, depth int) bool {
		if f == nil || depth == 0 {
			return false
		}
		if f == loopFn {
			return true
		}
		res := false
		instrsOf(f, func(in ssa.Instruction) {
			if ci, ok := in.(ssa.CallInstruction); ok && !res {
				g := ci.Common().StaticCallee()
				if g == nil && !ci.Common().IsInvoke() {
					// a function value held in a (captured) variable with one binding: `fn := r.timeLoop`
					if mc, isMC := canon(ci.Common().Value).(*ssa.MakeClosure); isMC {
						g, _ = mc.Fn.(*ssa.Function)
					}
				}
				if g != nil && (c.inModule(g) || strings.HasPrefix(g.Synthetic, "bound method wrapper")) {
					res = reaches(g, depth-1)
				}
			}
		})
		return res
	}
	instrsOf(ctor, func(in ssa.Instruction) {
		g, ok := in.(*ssa.Go)
		if !ok {
			return
		}
		var f *ssa.Function
		if mc, isMC := g.Call.Value.(*ssa.MakeClosure); isMC {
			f, _ = mc.Fn.(*ssa.Function)
		} else {
			f = g.Call.StaticCallee()
		}
		if reaches(f, 4) {
			started = true
		}
	})
	if !started {
		okAll = false
		c.bad(rule, key+":started", ctor.Pos(), "the constructor does not start a goroutine that runs the clock refresh loop: the clock keeps the construction time for ever")
	}
	if okAll {
		c.ok(rule, key, store.Pos(), "the constructor starts a goroutine whose loop stores time.Now().UnixNano() into the clock; the pacing ticker is not stopped before the loop")
	}
}

// checkNdigits (O7): the helper that sizes the zero padding of bucket ids counts decimal digits:
// n starts at 1 and is incremented once per division by 10 while the quotient is non-zero.
func (c *Ctx) checkNdigits(rule string) {
	fn := c.fn("m3", "", "ndigits")
	if fn == nil {
		c.missing(rule, "m3.ndigits")
		return
	}
	key := c.fnKey(fn)
	c.sawFunc(key)
	have := intConstsOf(fn)
	// init 1 (phi edge), += 1, / 10 twice (test and step), != 0
	initOne, stepOne := false, false
	instrsOf(fn, func(in ssa.Instruction) {
		if phi, ok := in.(*ssa.Phi); ok {
			for _, e := range phi.Edges {
				if k, isK := constInt(e); isK && k == 1 {
					initOne = true
				}
				if bo, isB := e.(*ssa.BinOp); isB && bo.Op == token.ADD && bo.X == ssa.Value(phi) {
					if k, isK := constInt(bo.Y); isK && k == 1 {
						stepOne = true
					}
				}
			}
		}
	})
	ok := initOne && stepOne && have["/:10"] && (have["!=:0"] || have["==:0"] || have[">:0"]) && !have["*:10"]
	for k := range have {
		if strings.HasPrefix(k, "/:") && k != "/:10" {
			ok = false
		}
	}
	c.check(ok, rule, key, fn.Pos(), "counts decimal digits (1, then +1 per division by 10 while the quotient is non-zero)",
		fmt.Sprintf("ndigits does not count decimal digits (starts at 1: %v, +1 per step: %v, constants %v): the zero padding of bucket ids is too narrow for some bucket counts and the ids no longer sort in bound order", initOne, stepOne, have))
}

// checkConfiguredDestinations (O9): Configuration.NewReporter emits to the configured HostPorts list
// as it is, or - only when that list is empty - to the single HostPort; never to a list assembled from
// both (a server named by both settings would receive every batch twice: each value then appears in two
// emitted batches).
func (c *Ctx) checkConfiguredDestinations(rule string) {
	const pk = "m3"
	fn := c.fn(pk, "Configuration", "NewReporter")
	fOpt := c.field(pk, "Options", "HostPorts")
	fHPs, fHP := c.field(pk, "Configuration", "HostPorts"), c.field(pk, "Configuration", "HostPort")
	if fn == nil || fOpt == nil || fHPs == nil || fHP == nil {
		c.missing(rule, "m3.Configuration.NewReporter / Options.HostPorts / Configuration.HostPort(s)")
		return
	}
	key := c.fnKey(fn)
	c.sawFunc(key)
	var stores []*ssa.Store
	instrsOf(fn, func(in ssa.Instruction) {
		if st, ok := in.(*ssa.Store); ok {
			if f, _ := addrField(st.Addr); f == fOpt {
				stores = append(stores, st)
			}
		}
	})
	if len(stores) == 0 {
		c.bad(rule, key, fn.Pos(), "Options.HostPorts is not set from the configuration")
		return
	}
	var why string
	var at ssa.Instruction
	var leaf func(v ssa.Value, g *ssa.Function, depth int, seen map[ssa.Value]bool) bool
	leaf = func(v ssa.Value, g *ssa.Function, depth int, seen map[ssa.Value]bool) bool {
		v = canon(stripConv(v))
		if depth == 0 {
			why = "its origin could not be traced"
			return false
		}
		if seen[v] {
			return true
		}
		seen[v] = true
		if in, ok := v.(ssa.Instruction); ok {
			at = in
		}
		switch x := v.(type) {
		case *ssa.Phi:
			for _, e := range x.Edges {
				if !leaf(e, g, depth-1, seen) {
					return false
				}
			}
			return true
		case *ssa.UnOp, *ssa.Field:
			if f, _ := loadedField(v); f == fHPs {
				return true
			}
		case *ssa.Slice:
			// []string{c.HostPort}: a one-element array literal
			if al, ok := x.X.(*ssa.Alloc); ok {
				if arr, isArr := deref(al.Type()).Underlying().(*types.Array); isArr && arr.Len() == 1 && al.Referrers() != nil {
					okElem := false
					for _, r := range *al.Referrers() {
						if ia, isIA := r.(*ssa.IndexAddr); isIA && ia.Referrers() != nil {
							for _, u := range *ia.Referrers() {
								if st, isSt := u.(*ssa.Store); isSt {
									if f, _ := loadedField(stripConv(st.Val)); f == fHP {
										okElem = true
									}
								}
							}
						}
					}
					if okElem {
						return true
					}
				}
			}
		case *ssa.Call:
			if isBuiltin(x, "append") {
				why = "the destination list is assembled with append (HostPort added to HostPorts, or the other way round)"
				return false
			}
			if h := staticCallee(x); h != nil && h.Pkg == fn.Pkg && h.Blocks != nil {
				for _, r := range returnsOf(h) {
					for _, va := range resultValues(r, 0) {
						if !leaf(va.Val, h, depth-1, seen) {
							return false
						}
					}
				}
				return true
			}
		}
		if why == "" {
			why = fmt.Sprintf("it is neither the configured HostPorts list nor the one-element list {HostPort} (%T)", v)
		}
		return false
	}
	for _, st := range stores {
		if !leaf(st.Val, fn, 8, map[ssa.Value]bool{}) {
			pos := st.Pos()
			if at != nil && at.Pos().IsValid() {
				pos = at.Pos()
			}
			c.bad(rule, key, pos, "the destinations handed to the reporter are not the configured HostPorts list or, for an empty list, the single HostPort: "+why+" - a server named by both settings receives every batch twice", c.describe(st))
			return
		}
	}
	c.ok(rule, key, stores[0].Pos(), "destinations = the configured HostPorts list, or {HostPort} when that list is empty")
}

// checkHandleOwnTemplate: the handle an Allocate{Counter,Gauge,Timer} call returns is built by that
// call: a cachedMetric literal whose metric is the result of newMetric(name, tags, <kind>) with the
// call's own name and tags and the kind of the method. A handle that can come out of a table (a memo
// of earlier allocations) is whatever the table's key makes of it: keyed by name+tags a gauge is
// served the counter allocated earlier for the same series - its values are emitted under the wrong
// kind, or as the sizing placeholder.
func (c *Ctx) checkHandleOwnTemplate(rule string) {
	const pk = "m3"
	tmpl := c.fn(pk, "reporter", "newMetric")
	fMetric := c.field(pk, "cachedMetric", "metric")
	if tmpl == nil || fMetric == nil {
		c.missing(rule, "m3.reporter.newMetric / cachedMetric.metric")
		return
	}
	kindOf := func(name string) (int64, bool) {
		k, ok := c.pkg(pk).Types.Scope().Lookup(name).(*types.Const)
		if !ok {
			return 0, false
		}
		v, exact := constant.Int64Val(constant.ToInt(k.Val()))
		return v, exact
	}
	n := 0
	for _, a := range []struct{ method, kind string }{{"AllocateCounter", "counterType"}, {"AllocateGauge", "gaugeType"}, {"AllocateTimer", "timerType"}, {"allocateCounter", "counterType"}} {
		fn := c.fn(pk, "reporter", a.method)
		if fn == nil {
			if a.method == "allocateCounter" {
				continue // an internal helper; its absence is not a finding
			}
			c.missing(rule, "m3.reporter."+a.method)
			continue
		}
		kv, okK := kindOf(a.kind)
		if !okK {
			c.missing(rule, "m3."+a.kind)
			continue
		}
		key := c.fnKey(fn)
		c.sawFunc(key)
		n++
		okAll := true
		var classify func(v ssa.Value, at ssa.Instruction, d int) string
		classify = func(v ssa.Value, at ssa.Instruction, d int) string {
			v = stripConv(v)
			if d == 0 {
				return "origin not traced"
			}
			switch x := v.(type) {
			case *ssa.Phi:
				for _, e := range x.Edges {
					if w := classify(e, at, d-1); w != "" {
						return w
					}
				}
				return ""
			case *ssa.Call:
				// delegation to the sibling allocator of the same kind (AllocateCounter -> allocateCounter)
				if g := staticCallee(x); g != nil && g.Package() == fn.Package() && g != fn && g.Name() == "allocateCounter" && a.kind == "counterType" {
					if len(x.Call.Args) == 3 && canon(x.Call.Args[1]) == ssa.Value(fn.Params[1]) && canon(x.Call.Args[2]) == ssa.Value(fn.Params[2]) {
						return ""
					}
					return "the sibling allocator is not called with this call's name and tags"
				}
				return "the handle is the result of " + x.Call.String()
			case *ssa.UnOp:
				if x.Op != token.MUL {
					return fmt.Sprintf("unexpected %s", x)
				}
				al, isAl := x.X.(*ssa.Alloc)
				if !isAl {
					return "the handle is read from " + accessPath(x.X) + ", not built by this call"
				}
				// a local: either the composite literal or a variable assigned from elsewhere
				found := false
				for _, u := range *al.Referrers() {
					switch y := u.(type) {
					case *ssa.Store:
						if y.Addr == ssa.Value(al) {
							if w := classify(y.Val, y, d-1); w != "" {
								return w
							}
							found = true
						}
					case *ssa.FieldAddr:
						if structFieldOf(al.Type(), y.Field) != fMetric || y.Referrers() == nil {
							continue
						}
						for _, uu := range *y.Referrers() {
							st, isSt := uu.(*ssa.Store)
							if !isSt || st.Addr != ssa.Value(y) {
								continue
							}
							call, isCall := stripConv(st.Val).(*ssa.Call)
							if !isCall || staticCallee(call) != tmpl {
								return "the handle's metric is not the result of newMetric"
							}
							args := call.Call.Args
							if len(args) != 4 || canon(args[1]) != ssa.Value(fn.Params[1]) || canon(args[2]) != ssa.Value(fn.Params[2]) {
								return "newMetric is not called with this call's name and tags"
							}
							if k, isK := constInt(args[3]); !isK || k != kv {
								return "newMetric is not called with " + a.kind
							}
							found = true
						}
					}
				}
				if !found {
					return "the handle's metric field is never set from newMetric"
				}
				return ""
			case *ssa.Extract, *ssa.Lookup:
				return "the handle is taken out of a table (" + x.String() + "), not built by this call"
			}
			return fmt.Sprintf("the handle is %T, not a literal built by this call", v)
		}
		for _, r := range returnsOf(fn) {
			if len(r.Results) == 0 {
				continue
			}
			for _, va := range resultValues(r, 0) {
				if w := classify(va.Val, va.At, 8); w != "" {
					okAll = false
					c.bad(rule, key, va.At.Pos(), a.method+": "+w+": the metric emitted through the handle need not have this call's name, tags and kind ("+a.kind+") - a second kind of the same series, or a colliding name+tags key, is served another metric's template, and its values go out under that kind or as the sizing placeholder", c.describe(va.At))
				}
			}
		}
		if okAll {
			c.ok(rule, key, fn.Pos(), "the returned handle is a literal of this call whose metric is newMetric(name, tags, "+a.kind+")")
		}
	}
	c.floor(rule, n, 3)
}
