package main

import (
	"fmt"
	"go/constant"
	"go/token"
	"go/types"

	"golang.org/x/tools/go/ssa"
)

func init() { register("C02", checkC02) }

// flagSetCond recognises "the consumed flag was set" over the result of a swap/CAS on the flag.
func flagSetCond(res ssa.Value, isCAS bool) func(ssa.Value) (bool, bool) {
	return func(cond ssa.Value) (bool, bool) {
		if isCAS {
			neg := false
			v := cond
			for {
				if u, ok := v.(*ssa.UnOp); ok && u.Op == token.NOT {
					neg = !neg
					v = u.X
					continue
				}
				break
			}
			if v == res {
				return true, !neg
			}
			return false, false
		}
		op, x, y, ok := cmpOf(cond)
		if !ok {
			return false, false
		}
		if stripConv(y) == res {
			x, y = y, x
			op = flipCmp(op)
		}
		if stripConv(x) != res {
			return false, false
		}
		k, isK := constInt(y)
		if !isK {
			return false, false
		}
		switch {
		case op == token.EQL && k == 1, op == token.NEQ && k == 0, op == token.GTR && k == 0, op == token.GEQ && k == 1:
			return true, true
		case op == token.NEQ && k == 1, op == token.EQL && k == 0, op == token.LEQ && k == 0, op == token.LSS && k == 1:
			return true, false
		}
		return false, false
	}
}

func checkC02(c *Ctx) {
	c.Explanation = "Decides the structure of the gauge publication protocol, which is schedule-independent: (O1) curr/updated are atomic-only; (O2) every store of the value is followed by raising the flag on all paths (value first, flag second), every delivery consumes the flag by one swap/CAS that precedes the load of the value and is made only on the 'flag was set' edge, at most once; (O3) the delivered value is Float64frombits(load(curr)) and the stored value Float64bits(argument) with no arithmetic in between (bit-exact conduit); (O4) the flag is raised only by Update-like functions and cleared only by deliveries; (O5) both scope passes visit every gauge once. With sequentially consistent atomics this ordering is necessary and sufficient for 'the last update is delivered by the first pass that starts afterwards' and 'deliveries <= updates'."
	c.NotDecided = []string{"'the first pass that starts afterwards' as a wall-clock statement", "which reporter instance receives the value"}
	c.Assumptions = append(c.Assumptions, "Go atomics are sequentially consistent", "one updating goroutine per gauge (as in the property's quantifier)")

	c.checkAtomicOnly("O1 atomic-only", "", "gauge", "curr")
	c.checkAtomicOnly("O1 atomic-only", "", "gauge", "updated")
	fCurr := c.field("", "gauge", "curr")
	fUpd := c.field("", "gauge", "updated")
	if fCurr == nil || fUpd == nil {
		return
	}
	currOps := c.atomicOpsOn(fCurr)
	updOps := c.atomicOpsOn(fUpd)

	// classify flag operations
	type consumer struct {
		op    *atomicOp
		isCAS bool
	}
	raisers := map[*ssa.Function][]*atomicOp{}
	consumers := map[*ssa.Function][]consumer{}
	for _, fn := range c.sortedFuncs(updOps) {
		c.sawFunc(c.fnKey(fn))
		for _, op := range updOps[fn] {
			key := c.fnKey(fn)
			switch op.Kind {
			case "load":
				// a plain look at the flag is harmless
			case "store":
				if k, ok := constInt(op.Args[0]); ok && k == 1 {
					raisers[fn] = append(raisers[fn], op)
				} else {
					c.bad("O4 flag-writers", key, op.Call.Pos(), "the updated flag is stored with a value other than the constant 1: only Update may raise it (store 1) and only a delivery may clear it (swap/CAS to 0)", c.describe(op.Call.(ssa.Instruction)))
				}
			case "swap":
				if k, ok := constInt(op.Args[0]); ok && k == 0 {
					consumers[fn] = append(consumers[fn], consumer{op, false})
				} else {
					c.bad("O4 flag-writers", key, op.Call.Pos(), "swap on the updated flag with a value other than 0", c.describe(op.Call.(ssa.Instruction)))
				}
			case "cas":
				o, ok1 := constInt(op.Args[0])
				n, ok2 := constInt(op.Args[1])
				if ok1 && ok2 && o == 1 && n == 0 {
					consumers[fn] = append(consumers[fn], consumer{op, true})
				} else {
					c.bad("O4 flag-writers", key, op.Call.Pos(), "CAS on the updated flag other than 1 -> 0", c.describe(op.Call.(ssa.Instruction)))
				}
			default:
				c.bad("O4 flag-writers", key, op.Call.Pos(), "arithmetic on the updated flag: it must only hold 0 or 1", c.describe(op.Call.(ssa.Instruction)))
			}
		}
	}

	// O2a: in every function that stores curr: the store is followed by a raise on all paths.
	nStores := 0
	for _, fn := range c.sortedFuncs(currOps) {
		for _, op := range currOps[fn] {
			if op.Kind == "load" {
				continue
			}
			nStores++
			key := c.fnKey(fn)
			in := op.Call.(ssa.Instruction)
			if op.Kind != "store" {
				c.bad("O2 update-order", key, in.Pos(), "gauge value written by "+op.Kind+" instead of an atomic store", c.describe(in))
				continue
			}
			isRaise := func(i ssa.Instruction) bool {
				for _, r := range raisers[fn] {
					if r.Call.(ssa.Instruction) == i && accessPath(r.Base) == accessPath(op.Base) {
						return true
					}
				}
				return false
			}
			if esc := reachAvoiding(in, false, isReturn, isRaise); esc != nil {
				c.bad("O2 update-order", key, in.Pos(),
					"the store of the gauge value is not followed by raising the updated flag on every path: a report that consumes the flag in between reads the old value and the new one is never delivered",
					"value store: "+c.describe(in), "reaches exit without raising the flag: "+c.describe(esc))
			} else {
				c.ok("O2 update-order", key, in.Pos(), "value store precedes the flag raise on every path")
			}
			// O3a: stored value is Float64bits(parameter)
			okProv := false
			if call, ok := isCallTo(op.Args[0], "math", "Float64bits"); ok {
				if paramIndex(fn, call.Call.Args[0]) >= 0 {
					okProv = true
				}
			}
			c.check(okProv, "O3 bit-exact", key+":store", in.Pos(), "stored bits are math.Float64bits(parameter)",
				"the stored gauge bits are not math.Float64bits of the function's parameter (arithmetic or conversion on the way loses NaN payloads / -0)", c.describe(in))
		}
	}
	// every raiser must be preceded by a value store (otherwise an 'update' delivers a stale value)
	nRaise := 0
	for _, fn := range c.AllFuncs {
		for _, r := range raisers[fn] {
			nRaise++
			in := r.Call.(ssa.Instruction)
			found := false
			for _, op := range currOps[fn] {
				if op.Kind == "store" && accessPath(op.Base) == accessPath(r.Base) && dominates(op.Call.(ssa.Instruction), in) {
					found = true
				}
			}
			c.check(found, "O2 raise-after-store", c.fnKey(fn), in.Pos(), "flag raise is dominated by the value store",
				"the updated flag is raised without a preceding store of the value in the same function", c.describe(in))
		}
	}
	c.floor("O2 update-order", nStores, 1)
	c.floor("O2 raise-after-store", nRaise, 1)

	// Deliveries: interface calls ReportGauge whose value derives from gauge.curr.
	mPlain := c.ifaceMethod("", "StatsReporter", "ReportGauge")
	mCached := c.ifaceMethod("", "CachedGauge", "ReportGauge")
	if mPlain == nil || mCached == nil {
		c.missing("O2 delivery", "interface methods StatsReporter.ReportGauge / CachedGauge.ReportGauge")
		return
	}
	isCurrLoad := func(v ssa.Value) bool {
		call, ok := v.(*ssa.Call)
		if !ok {
			return false
		}
		op := atomicOpOf(call)
		return op != nil && op.Field == fCurr && op.Kind == "load"
	}
	loadLifter := c.newLifter(func(in ssa.Instruction) bool {
		op := atomicOpOf(in)
		return op != nil && op.Field == fCurr && op.Kind == "load"
	}, 3)
	nDeliv := 0
	for _, call := range invokesOf(c.funcsOfPkg(""), mPlain, mCached) {
		in := call.(ssa.Instruction)
		fn := in.Parent()
		args := call.Common().Args
		val := args[len(args)-1]
		// does the value come from gauge.curr?
		fromCurr := false
		isExact := func(leaf ssa.Value) bool {
			if fb, ok := isCallTo(leaf, "math", "Float64frombits"); ok {
				if c.traceReturns(fb.Call.Args[0], 2, isCurrLoad) {
					fromCurr = true
					return true
				}
			}
			return false
		}
		exact := c.traceReturns(val, 3, isExact)
		if _, isPhi := stripConv(val).(*ssa.Phi); !exact && isPhi {
			// the value of a joined (value, ok) helper: judge what it can be when the delivery executes
			exact = true
			for _, rv := range valuesReaching(val, in) {
				if !c.traceReturns(rv, 3, isExact) {
					exact = false
				}
			}
		}
		if !fromCurr {
			// Not obviously a gauge delivery; it is one if the enclosing function is a gauge method.
			if fn.Signature.Recv() == nil || deref(fn.Signature.Recv().Type()) != types.Type(c.named("", "gauge")) {
				continue
			}
		}
		nDeliv++
		key := c.fnKey(fn)
		c.sawFunc(key)
		c.callSites++
		c.check(exact, "O3 bit-exact", key+":delivery", in.Pos(), "delivered value is math.Float64frombits(atomic load of curr)",
			"the delivered gauge value is not exactly math.Float64frombits(atomic load of gauge.curr): the value reported may differ from every value passed to Update", c.describe(in))
		cons := consumers[fn]
		if len(cons) == 0 {
			c.bad("O2 delivery", key, in.Pos(), "a gauge value is delivered in a function that does not consume the updated flag by an atomic swap/CAS: the gauge is re-delivered without an update (or a racing update is lost)", c.describe(in))
			continue
		}
		okOne := false
		for _, k := range cons {
			kin := k.op.Call.(ssa.Instruction)
			res, _ := kin.(ssa.Value)
			if !dominates(kin, in) || res == nil {
				continue
			}
			// every (possibly inlined) load of curr in this function is dominated by the swap
			var early ssa.Instruction
			instrsOf(fn, func(i ssa.Instruction) {
				if early == nil && loadLifter.May(i) && !dominates(kin, i) {
					early = i
				}
			})
			if early != nil {
				c.bad("O2 delivery", key, early.Pos(), "the gauge value is loaded before the flag is consumed: an update landing between load and swap is lost forever", "load: "+c.describe(early), "swap: "+c.describe(kin))
				okOne = true // reported
				break
			}
			if g := guardedByEdge(in, flagSetCond(res, k.isCAS)); g == nil {
				c.bad("O2 delivery", key, in.Pos(), "the delivery is not restricted to the 'flag was set' outcome of the swap/CAS: a gauge that was not updated is delivered again", c.describe(in))
				okOne = true
				break
			} else if miss := undeliveredExit(g, in, func(i ssa.Instruction) bool {
				ci, isCall := i.(ssa.CallInstruction)
				if !isCall {
					return false
				}
				_, m := ifaceCall(ci)
				return m != nil && (m == mPlain || m == mCached)
			}); miss != nil {
				// round 11: once the flag is consumed the value must go out on every path (no "unchanged value"
				// suppression between the swap and the delivery: the consumed update would be lost)
				c.bad("O2 delivery", key, miss.Pos(), "after the flag was consumed a path returns without delivering: the update that set the flag is lost (the reporter keeps an older value)", c.describe(miss))
				okOne = true
				break
			}
			okOne = true
			c.ok("O2 delivery", key, in.Pos(), "flag consumed by one RMW before the load; delivery on the flag-was-set edge")
			break
		}
		if !okOne {
			c.bad("O2 delivery", key, in.Pos(), "no flag-consuming swap/CAS dominates this gauge delivery", c.describe(in))
		}
		// at most one delivery per call of the function
		pc := c.newPathCounter(func(i ssa.Instruction) bool {
			ci, ok := i.(ssa.CallInstruction)
			if !ok {
				return false
			}
			_, m := ifaceCall(ci)
			return m != nil && (m == mPlain || m == mCached)
		}, 2)
		cnt := pc.fn(fn, 2)
		c.paths++
		c.check(cnt.max <= 1, "O2 at-most-once", key, in.Pos(), "at most one delivery per pass and gauge",
			fmt.Sprintf("up to %d deliveries on one path of the delivery function (deliveries must never exceed updates)", cnt.max))
	}
	c.floor("O2 delivery", nDeliv, 2)
	// consumers that deliver nothing lose updates
	for _, fn := range c.AllFuncs {
		for _, k := range consumers[fn] {
			kin := k.op.Call.(ssa.Instruction)
			has := false
			for _, call := range invokesOf([]*ssa.Function{fn}, mPlain, mCached) {
				if dominates(kin, call.(ssa.Instruction)) {
					has = true
				}
			}
			c.check(has, "O4 flag-writers", c.fnKey(fn)+":consumer", kin.Pos(), "the flag is cleared only where a delivery follows",
				"the updated flag is cleared in a function that delivers nothing afterwards: the update is lost", c.describe(kin))
		}
	}

	// O5 iteration coverage of the two scope passes over gauges.
	c.checkScopePassCoverage("O5 pass-coverage", "gauges", "gaugesSlice", "gauge")
	c.checkRegistryPassCoverage("O5 registry-coverage", "Report", "report")
	c.checkRegistryPassCoverage("O5 registry-coverage", "CachedReport", "cachedReport")
	// O6: the last update is not lost around Close / re-acquire / racing first use (shared with C07, C09)
	c.checkReportBeforeClear("O6 flag-before-report", "O6 report-before-clear")
	c.checkSliceSibling("O6 slice-sibling", "gauges", "gaugesSlice")
	c.checkDoubleChecked("O6 double-checked", c.newLockEngine())
}

// undeliveredExit: iff is the test of the consumed flag and in a delivery dominated by one of its edges. Returns
// the terminator of a block that leaves the function on that edge without passing any delivery (nil if every
// path from the edge to an exit passes one).
func undeliveredExit(iff *ssa.If, in ssa.Instruction, isDelivery func(ssa.Instruction) bool) ssa.Instruction {
	b := iff.Block()
	var start *ssa.BasicBlock
	for idx := 0; idx < 2; idx++ {
		if edgeDominates(b, idx, in.Block()) {
			start = b.Succs[idx]
		}
	}
	if start == nil {
		return nil
	}
	// the walk threads jumps through phis of constants: arriving from a predecessor for which the branch
	// condition is a known boolean, only the matching successor is followed (a helper returning (v, ok) that
	// is called in place leaves exactly this shape)
	type visit struct{ x, from *ssa.BasicBlock }
	seen := map[visit]bool{}
	var walk func(x, from *ssa.BasicBlock) ssa.Instruction
	walk = func(x, from *ssa.BasicBlock) ssa.Instruction {
		if seen[visit{x, from}] {
			return nil
		}
		seen[visit{x, from}] = true
		for _, i := range x.Instrs {
			if isDelivery(i) {
				return nil
			}
		}
		if len(x.Instrs) == 0 {
			return nil
		}
		last := x.Instrs[len(x.Instrs)-1]
		if r, isRet := last.(*ssa.Return); isRet {
			return r
		}
		succs := x.Succs
		if br, isIf := last.(*ssa.If); isIf {
			cond, neg := br.Cond, false
			for {
				u, isUn := cond.(*ssa.UnOp)
				if !isUn || u.Op != token.NOT {
					break
				}
				cond, neg = u.X, !neg
			}
			if phi, isPhi := cond.(*ssa.Phi); isPhi && phi.Block() == x {
				for k, p := range x.Preds {
					if p != from || k >= len(phi.Edges) {
						continue
					}
					if cst, isConst := phi.Edges[k].(*ssa.Const); isConst && cst.Value != nil && cst.Value.Kind() == constant.Bool {
						v := constant.BoolVal(cst.Value) != neg
						if v {
							succs = x.Succs[:1]
						} else {
							succs = x.Succs[1:2]
						}
					}
				}
			}
		}
		for _, s := range succs {
			if m := walk(s, x); m != nil {
				return m
			}
		}
		return nil
	}
	return walk(start, b)
}
