package main

import (
	"fmt"
	"go/token"
	"go/types"
	"strings"

	"golang.org/x/tools/go/ssa"
)

func init() { register("C09", checkC09) }

// mapLookup describes a comma-ok lookup of a struct-field map, made directly or through a helper
// whose body is exactly such a lookup on a parameter (e.g. lockedLookup(bucket, key)).
type mapLookup struct {
	fld  *types.Var
	base ssa.Value // struct holding the map (caller's value)
	key  ssa.Value
	ok   ssa.Value // the boolean "found"
	at   ssa.Instruction
}

func (p *Program) lookupsIn(fn *ssa.Function) []mapLookup {
	var out []mapLookup
	okOf := func(v ssa.Value) ssa.Value {
		if v.Referrers() == nil {
			return nil
		}
		for _, r := range *v.Referrers() {
			if e, isE := r.(*ssa.Extract); isE && e.Index == 1 {
				return e
			}
		}
		return nil
	}
	instrsOf(fn, func(in ssa.Instruction) {
		switch x := in.(type) {
		case *ssa.Lookup:
			if !x.CommaOk {
				return
			}
			if f, base := loadedField(x.X); f != nil {
				out = append(out, mapLookup{f, base, x.Index, okOf(x), in})
			}
		case *ssa.Call:
			g := staticCallee(x)
			if g == nil || !p.inModule(g) || g.Blocks == nil || len(g.Blocks) != 1 {
				return
			}
			// helper: single block, one Lookup on param.field with key param, returns its parts
			var lk *ssa.Lookup
			n := 0
			instrsOf(g, func(i ssa.Instruction) {
				if l, isL := i.(*ssa.Lookup); isL && l.CommaOk {
					lk = l
					n++
				}
			})
			if n != 1 {
				return
			}
			f, base := loadedField(lk.X)
			bi, ki := paramIndex(g, canon(base)), paramIndex(g, canon(lk.Index))
			if f == nil || bi < 0 || ki < 0 || g.Signature.Results().Len() != 2 {
				return
			}
			out = append(out, mapLookup{f, x.Call.Args[bi], x.Call.Args[ki], okOf(x), in})
		}
	})
	return out
}

// missEdges returns, for every If of fn that tests the "found" flag of l, the index of its miss edge.
func missEdges(fn *ssa.Function, l *mapLookup) map[*ssa.BasicBlock]int {
	out := map[*ssa.BasicBlock]int{}
	for _, b := range fn.Blocks {
		if iff, ok := condOf(b); ok {
			if m, onTrue := boolValueCond(l.ok)(iff.Cond); m {
				if onTrue {
					out[b] = 1
				} else {
					out[b] = 0
				}
			}
		}
	}
	return out
}

// absentByDelete: on every path from the lookup l to `at` that does not leave a test of l's found
// flag through its miss edge, the entry l found is deleted (same map, same holder, same key), and
// the lock lockPath is not released anywhere between the lookup and `at`.
func (p *Program) absentByDelete(l *mapLookup, at ssa.Instruction, lockPath string) bool {
	fn := at.Parent()
	skip := missEdges(fn, l)
	if len(skip) == 0 {
		return false
	}
	isAt := func(i ssa.Instruction) bool { return i == at }
	isDel := func(i ssa.Instruction) bool {
		call, ok := i.(*ssa.Call)
		if !ok || !isBuiltin(call, "delete") {
			return false
		}
		f, base := loadedField(call.Call.Args[0])
		return f == l.fld && accessPath(base) == accessPath(l.base) && canon(call.Call.Args[1]) == canon(l.key)
	}
	// a found entry that is a scope whose closed flag was observed set is dead (only waiting to be
	// dropped): overwriting it is a replacement, not a second object for a live identity
	if v, isV := l.at.(ssa.Value); isV && v.Referrers() != nil && p.field("", "scope", "closed") != nil {
		fldClosed := p.field("", "scope", "closed")
		var found ssa.Value
		for _, r := range *v.Referrers() {
			if e, isE := r.(*ssa.Extract); isE && e.Index == 0 {
				found = e
			}
		}
		for _, b := range fn.Blocks {
			iff, ok := condOf(b)
			if !ok || found == nil {
				continue
			}
			cond, neg := ssa.Value(iff.Cond), false
			for {
				if u, isU := cond.(*ssa.UnOp); isU && u.Op == token.NOT {
					neg, cond = !neg, u.X
					continue
				}
				break
			}
			if ci, isI := cond.(ssa.Instruction); isI {
				if op := atomicOpOf(ci); op != nil && op.Field == fldClosed && op.Kind == "load" && canon(op.Base) == found {
					if _, dup := skip[b]; !dup {
						skip[b] = b2i(neg) // the "closed" outcome
					}
				}
			}
		}
	}
	if reachAvoidingF(l.at, false, skip, isAt, isDel) != nil {
		return false
	}
	return !p.lockReleasedBetween(l.at, at, lockPath)
}

// lockReleasedBetween: some path from `from` to `to` executes a (non-deferred) release of lockPath,
// directly or inside a statically resolved in-module callee (which sees the mutex under another
// access path: there any release of a mutex held in the same struct field counts).
func (p *Program) lockReleasedBetween(from, to ssa.Instruction, lockPath string) bool {
	isTo := func(i ssa.Instruction) bool { return i == to }
	lastField := lockPath
	if i := strings.LastIndex(lockPath, "."); i >= 0 {
		lastField = lockPath[i:]
	}
	inner := p.newLifter(func(i ssa.Instruction) bool {
		op := lockOpOf(i)
		return op != nil && strings.HasSuffix(op.Path, lastField) && (op.Op == "Unlock" || op.Op == "RUnlock")
	}, 2)
	rel := reachAvoiding(from, false, func(i ssa.Instruction) bool {
		if _, isDefer := i.(*ssa.Defer); isDefer {
			return false
		}
		if op := lockOpOf(i); op != nil {
			return op.Path == lockPath && (op.Op == "Unlock" || op.Op == "RUnlock")
		}
		if call, ok := i.(*ssa.Call); ok {
			if g := staticCallee(call); g != nil && p.inModule(g) {
				return inner.May(i)
			}
		}
		return false
	}, isTo)
	if rel == nil {
		return false
	}
	// the release must be able to reach `to` to matter
	return reachAvoiding(rel, false, isTo, nil) != nil
}

// checkDoubleChecked (A3): every insertion into an identity-bearing map is made on the miss edge of
// a lookup of the same map with the same key, performed after the write lock that covers the
// insertion was taken; allocations on a cached reporter happen on that same miss edge.
func (c *Ctx) checkDoubleChecked(rule string, eng *lockEngine) {
	type idMap struct{ typ, field, mutex string }
	maps := []idMap{{"scope", "counters", "cm"}, {"scope", "gauges", "gm"}, {"scope", "timers", "tm"}, {"scope", "histograms", "hm"}, {"scopeBucket", "s", "mu"}}
	byField := map[*types.Var]idMap{}
	for _, m := range maps {
		if f := c.field("", m.typ, m.field); f != nil {
			byField[f] = m
		} else {
			c.missing(rule, "tally."+m.typ+"."+m.field)
		}
	}
	allocMethods := map[*types.Func]bool{}
	for _, n := range []string{"AllocateCounter", "AllocateGauge", "AllocateTimer", "AllocateHistogram"} {
		if m := c.ifaceMethod("", "CachedStatsReporter", n); m != nil {
			allocMethods[m] = true
		}
	}
	n := 0
	for _, fn := range c.funcsOfPkg("") {
		var lookups []mapLookup
		first := true
		ord := map[*types.Var]int{}
		instrsOf(fn, func(in ssa.Instruction) {
			mu, ok := in.(*ssa.MapUpdate)
			if !ok {
				return
			}
			f, base := loadedField(mu.Map)
			im, isID := byField[f]
			if !isID {
				return
			}
			if al, isAl := canon(rootOf(base)).(*ssa.Alloc); isAl && al.Parent() == fn {
				return // constructor
			}
			if first {
				lookups = c.lookupsIn(fn)
				first = false
			}
			n++
			ord[f]++
			key := fmt.Sprintf("%s/%s#%d", c.fnKey(fn), im.field, ord[f])
			c.sawFunc(c.fnKey(fn))
			c.callSites++
			lockPath := accessPath(base) + "." + im.mutex
			// nearest write-lock acquisition that dominates the update
			var lock ssa.Instruction
			instrsOf(fn, func(i ssa.Instruction) {
				if op := lockOpOf(i); op != nil && op.Op == "Lock" && op.Path == lockPath {
					if _, isDefer := i.(*ssa.Defer); !isDefer && dominates(i, in) {
						lock = i
					}
				}
			})
			if lock == nil || eng.heldAt(in)[lockPath] != 'W' {
				c.bad(rule, key, in.Pos(), "an entry is inserted into "+im.field+" without holding "+lockPath+" for writing", c.describe(in))
				return
			}
			// a lookup of the same map/base/key after the lock whose miss edge dominates the update
			var hit *mapLookup
			viaDelete := false
			for i := range lookups {
				l := &lookups[i]
				if l.fld != f || accessPath(l.base) != accessPath(base) || canon(l.key) != canon(mu.Key) || l.ok == nil {
					continue
				}
				if !dominates(lock, l.at) || !dominates(l.at, in) {
					continue
				}
				if guardedByEdge(in, func(cond ssa.Value) (bool, bool) { m, t := boolValueCond(l.ok)(cond); return m, !t }) != nil {
					hit = l
					continue
				}
				// or: every path from the re-check to the insertion that does not take the miss edge
				// deletes that very key first, inside the same uninterrupted write-locked region (the
				// found entry is being replaced, e.g. a closed scope that is reported and dropped)
				if c.absentByDelete(l, in, lockPath) {
					hit = l
					viaDelete = true
				}
			}
			if hit == nil {
				c.bad(rule, key, in.Pos(),
					"an entry is inserted into "+im.field+" without re-checking, under the write lock, that the same key is still absent: two goroutines that both missed in the read-locked probe create two objects, and only the one stored last is ever reported",
					c.describe(in), "write lock: "+c.describe(lock))
				return
			}
			// allocations on the cached reporter: only on that miss edge
			okAlloc := true
			instrsOf(fn, func(i ssa.Instruction) {
				ci, isCall := i.(ssa.CallInstruction)
				if !isCall {
					return
				}
				if _, m := ifaceCall(ci); m != nil && allocMethods[m] {
					if !dominates(hit.at, i) || (!viaDelete && guardedByEdge(i, func(cond ssa.Value) (bool, bool) { m, t := boolValueCond(hit.ok)(cond); return m, !t }) == nil) {
						okAlloc = false
						c.bad(rule, key+":allocate", i.Pos(), "the cached reporter's Allocate call is not made on the miss edge of the write-locked re-check: it can be made more than once for one metric", c.describe(i))
					}
				}
			})
			if okAlloc {
				if viaDelete {
					c.ok(rule, key, in.Pos(), "inserted after a same-key lookup made under the write lock, on its miss edge or after deleting the entry found, without releasing the lock")
				} else {
					c.ok(rule, key, in.Pos(), "inserted on the miss edge of a same-key lookup made under the write lock")
				}
			}
		})
	}
	c.floor(rule, n, 5)
}

func checkC09(c *Ctx) {
	c.Explanation = "Decides the schedule-independent conditions for 'concurrent first use creates one object, without races': (O1) double-checked creation - all 7 insertions into the identity-bearing maps of package tally (4 metric kinds, 3 in the registry) are made under the write lock on the miss edge of a same-key re-check performed after that lock was taken, cached-reporter allocations happen on that same edge; the 4 Prometheus vectors use one exclusive section; (O2) field discipline - every access of a guarded field (table in DESIGN appendix A) is made with its mutex held in the required mode, helpers that rely on the caller's lock are verified at every call site, atomic-only fields are accessed only atomically; (O3) every function releases the locks it takes on every path (deferred operations replayed LIFO), and the lock-class order graph is acyclic without re-acquisition of a held class (exception E1 checked)."
	c.NotDecided = []string{"nothing schedule-specific is run; races inside user-supplied reporters are outside the repository"}
	c.Assumptions = append(c.Assumptions, "the guarded-field table (DESIGN appendix A) names the lock of each shared field", "Go RWMutex semantics")
	eng := c.newLockEngine()
	c.checkDoubleChecked("O1 double-checked", eng)
	for _, v := range []struct{ fn, mapField string }{{"counterVec", "counters"}, {"gaugeVec", "gauges"}, {"summaryVec", "timers"}, {"histogramVec", "timers"}} {
		fn, fm := c.fn("prometheus", "reporter", v.fn), c.field("prometheus", "reporter", v.mapField)
		if fn == nil || fm == nil {
			c.missing("O1 exclusive-section", "prometheus.reporter."+v.fn)
			continue
		}
		c.checkExclusiveGetOrCreate("O1 exclusive-section", fn, fm)
	}
	pkgs := []string{"", "internal/cache", "prometheus", "m3"}
	c.checkFieldDiscipline("O2 field-discipline", pkgs, eng, 40)
	for _, f := range [][3]string{{"", "scope", "closed"}, {"", "counter", "curr"}, {"", "counter", "prev"}, {"", "gauge", "curr"}, {"", "gauge", "updated"}, {"m3/thriftudp", "TUDPTransport", "closed"}} {
		c.checkAtomicOnly("O2 atomic-only", f[0], f[1], f[2])
	}
	c.checkLockPairing("O3 lock-pairing", pkgs, eng, 15)
	c.checkLockOrder("O3 lock-order", pkgs, eng)
	_ = token.NoPos
}
