package main

import (
	"fmt"
	"go/token"
	"go/types"
	"strings"

	"golang.org/x/tools/go/ssa"
)

func init() { register("C09", checkC09) }

// mapLookup describes a comma-ok lookup of a struct-field map, made directly or through a helper
// whose body is exactly such a lookup on a parameter (e.g. lockedLookup(bucket, key)).
type mapLookup struct {
	fld  *types.Var
	base ssa.Value // struct holding the map (caller's value)
	key  ssa.Value
	ok   ssa.Value // the boolean "found"
	at   ssa.Instruction
}

func (p *Program) lookupsIn(fn *ssa.Function) []mapLookup {
	var out []mapLookup
	okOf := func(v ssa.Value) ssa.Value {
		if v.Referrers() == nil {
			return nil
		}
		for _, r := range *v.Referrers() {
			if e, isE := r.(*ssa.Extract); isE && e.Index == 1 {
				return e
			}
		}
		return nil
	}
	instrsOf(fn, func(in ssa.Instruction) {
		switch x := in.(type) {
		case *ssa.Lookup:
			if !x.CommaOk {
				return
			}
			if f, base := loadedField(x.X); f != nil {
				out = append(out, mapLookup{f, base, x.Index, okOf(x), in})
			}
		case *ssa.Call:
			g := staticCallee(x)
			if g == nil || !p.inModule(g) || g.Blocks == nil || len(g.Blocks) != 1 {
				return
			}
			// helper: single block, one Lookup on param.field with key param, returns its parts
			var lk *ssa.Lookup
			n := 0
			instrsOf(g, func(i ssa.Instruction) {
				if l, isL := i.(*ssa.Lookup); isL && l.CommaOk {
					lk = l
					n++
				}
			})
			if n != 1 {
				return
			}
			f, base := loadedField(lk.X)
			bi, ki := paramIndex(g, canon(base)), paramIndex(g, canon(lk.Index))
			if f == nil || bi < 0 || ki < 0 || g.Signature.Results().Len() != 2 {
				return
			}
			out = append(out, mapLookup{f, x.Call.Args[bi], x.Call.Args[ki], okOf(x), in})
		}
	})
	return out
}

// expandPhis: a phi is replaced by its incoming values, each committed at the end of the predecessor it
// flows in from.
func expandPhis(va valAt, depth int) []valAt {
	phi, ok := canon(stripConv(va.Val)).(*ssa.Phi)
	if !ok || depth == 0 {
		return []valAt{va}
	}
	var out []valAt
	for i, e := range phi.Edges {
		pred := phi.Block().Preds[i]
		out = append(out, expandPhis(valAt{e, pred.Instrs[len(pred.Instrs)-1]}, depth-1)...)
	}
	return out
}

// missEdges returns, for every If of fn that tests the "found" flag of l, the index of its miss edge.
func missEdges(fn *ssa.Function, l *mapLookup) map[*ssa.BasicBlock]int {
	out := map[*ssa.BasicBlock]int{}
	for _, b := range fn.Blocks {
		if iff, ok := condOf(b); ok {
			if m, onTrue := boolValueCond(l.ok)(iff.Cond); m {
				if onTrue {
					out[b] = 1
				} else {
					out[b] = 0
				}
			}
		}
	}
	return out
}

// absentByDelete: on every path from the lookup l to `at` that does not leave a test of l's found
// flag through its miss edge, the entry l found is deleted (same map, same holder, same key), and
// the lock lockPath is not released anywhere between the lookup and `at`.
func (p *Program) absentByDelete(l *mapLookup, at ssa.Instruction, lockPath string) bool {
	fn := at.Parent()
	skip := missEdges(fn, l)
	if len(skip) == 0 {
		return false
	}
	isAt := func(i ssa.Instruction) bool { return i == at }
	isDel := func(i ssa.Instruction) bool {
		call, ok := i.(*ssa.Call)
		if !ok || !isBuiltin(call, "delete") {
			return false
		}
		f, base := loadedField(call.Call.Args[0])
		return f == l.fld && accessPath(base) == accessPath(l.base) && canon(call.Call.Args[1]) == canon(l.key)
	}
	// a found entry that is a scope whose closed flag was observed set is dead (only waiting to be
	// dropped): overwriting it is a replacement, not a second object for a live identity
	if v, isV := l.at.(ssa.Value); isV && v.Referrers() != nil && p.field("", "scope", "closed") != nil {
		fldClosed := p.field("", "scope", "closed")
		var found ssa.Value
		for _, r := range *v.Referrers() {
			if e, isE := r.(*ssa.Extract); isE && e.Index == 0 {
				found = e
			}
		}
		for _, b := range fn.Blocks {
			iff, ok := condOf(b)
			if !ok || found == nil {
				continue
			}
			cond, neg := ssa.Value(iff.Cond), false
			for {
				if u, isU := cond.(*ssa.UnOp); isU && u.Op == token.NOT {
					neg, cond = !neg, u.X
					continue
				}
				break
			}
			if ci, isI := cond.(ssa.Instruction); isI {
				if op := atomicOpOf(ci); op != nil && op.Field == fldClosed && op.Kind == "load" && canon(op.Base) == found {
					if _, dup := skip[b]; !dup {
						skip[b] = b2i(neg) // the "closed" outcome
					}
				}
			}
		}
	}
	_ = isAt
	if reachThreaded(l.at, at, skip, isDel) {
		return false
	}
	return !p.lockReleasedBetween(l.at, at, lockPath)
}

// lockReleasedBetween: some path from `from` to `to` executes a (non-deferred) release of lockPath,
// directly or inside a statically resolved in-module callee (which sees the mutex under another
// access path: there any release of a mutex held in the same struct field counts).
func (p *Program) lockReleasedBetween(from, to ssa.Instruction, lockPath string) bool {
	isTo := func(i ssa.Instruction) bool { return i == to }
	lastField := lockPath
	if i := strings.LastIndex(lockPath, "."); i >= 0 {
		lastField = lockPath[i:]
	}
	inner := p.newLifter(func(i ssa.Instruction) bool {
		op := lockOpOf(i)
		return op != nil && strings.HasSuffix(op.Path, lastField) && (op.Op == "Unlock" || op.Op == "RUnlock")
	}, 2)
	rel := reachAvoiding(from, false, func(i ssa.Instruction) bool {
		if _, isDefer := i.(*ssa.Defer); isDefer {
			return false
		}
		if op := lockOpOf(i); op != nil {
			return op.Path == lockPath && (op.Op == "Unlock" || op.Op == "RUnlock")
		}
		if call, ok := i.(*ssa.Call); ok {
			if g := staticCallee(call); g != nil && p.inModule(g) {
				return inner.May(i)
			}
		}
		return false
	}, isTo)
	if rel == nil {
		return false
	}
	// the release must be able to reach `to` to matter
	return reachAvoiding(rel, false, isTo, nil) != nil
}

// checkDoubleChecked (A3): every insertion into an identity-bearing map is made on the miss edge of
// a lookup of the same map with the same key, performed after the write lock that covers the
// insertion was taken; allocations on a cached reporter happen on that same miss edge.
func (c *Ctx) checkDoubleChecked(rule string, eng *lockEngine) {
	type idMap struct{ typ, field, mutex string }
	maps := []idMap{{"scope", "counters", "cm"}, {"scope", "gauges", "gm"}, {"scope", "timers", "tm"}, {"scope", "histograms", "hm"}, {"scopeBucket", "s", "mu"}}
	byField := map[*types.Var]idMap{}
	for _, m := range maps {
		if f := c.field("", m.typ, m.field); f != nil {
			byField[f] = m
		} else {
			c.missing(rule, "tally."+m.typ+"."+m.field)
		}
	}
	allocMethods := map[*types.Func]bool{}
	for _, n := range []string{"AllocateCounter", "AllocateGauge", "AllocateTimer", "AllocateHistogram"} {
		if m := c.ifaceMethod("", "CachedStatsReporter", n); m != nil {
			allocMethods[m] = true
		}
	}
	n := 0
	for _, fn := range c.funcsOfPkg("") {
		var lookups []mapLookup
		first := true
		ord := map[*types.Var]int{}
		instrsOf(fn, func(in ssa.Instruction) {
			mu, ok := in.(*ssa.MapUpdate)
			if !ok {
				return
			}
			f, base := loadedField(mu.Map)
			im, isID := byField[f]
			if !isID {
				return
			}
			if al, isAl := canon(rootOf(base)).(*ssa.Alloc); isAl && al.Parent() == fn {
				return // constructor
			}
			if first {
				lookups = c.lookupsIn(fn)
				first = false
			}
			n++
			ord[f]++
			key := fmt.Sprintf("%s/%s#%d", c.fnKey(fn), im.field, ord[f])
			c.sawFunc(c.fnKey(fn))
			c.callSites++
			lockPath := accessPath(base) + "." + im.mutex
			// nearest write-lock acquisition that dominates the update
			var lock ssa.Instruction
			instrsOf(fn, func(i ssa.Instruction) {
				if op := lockOpOf(i); op != nil && op.Op == "Lock" && op.Path == lockPath {
					if _, isDefer := i.(*ssa.Defer); !isDefer && dominates(i, in) {
						lock = i
					}
				}
			})
			if lock == nil || eng.heldAt(in)[lockPath] != 'W' {
				c.bad(rule, key, in.Pos(), "an entry is inserted into "+im.field+" without holding "+lockPath+" for writing", c.describe(in))
				return
			}
			// a lookup of the same map/base/key after the lock whose miss edge dominates the update
			var hit *mapLookup
			viaDelete := false
			for i := range lookups {
				l := &lookups[i]
				if l.fld != f || accessPath(l.base) != accessPath(base) || canon(l.key) != canon(mu.Key) || l.ok == nil {
					continue
				}
				if !dominates(lock, l.at) || !dominates(l.at, in) {
					continue
				}
				if guardedByEdge(in, func(cond ssa.Value) (bool, bool) { m, t := boolValueCond(l.ok)(cond); return m, !t }) != nil {
					hit = l
					continue
				}
				// or: every path from the re-check to the insertion that does not take the miss edge
				// deletes that very key first, inside the same uninterrupted write-locked region (the
				// found entry is being replaced, e.g. a closed scope that is reported and dropped)
				if c.absentByDelete(l, in, lockPath) {
					hit = l
					viaDelete = true
				}
			}
			if hit == nil {
				c.bad(rule, key, in.Pos(),
					"an entry is inserted into "+im.field+" without re-checking, under the write lock, that the same key is still absent: two goroutines that both missed in the read-locked probe create two objects, and only the one stored last is ever reported",
					c.describe(in), "write lock: "+c.describe(lock))
				return
			}
			// allocations on the cached reporter: only on that miss edge
			okAlloc := true
			instrsOf(fn, func(i ssa.Instruction) {
				ci, isCall := i.(ssa.CallInstruction)
				if !isCall {
					return
				}
				if _, m := ifaceCall(ci); m != nil && allocMethods[m] {
					if !dominates(hit.at, i) || (!viaDelete && guardedByEdge(i, func(cond ssa.Value) (bool, bool) { m, t := boolValueCond(hit.ok)(cond); return m, !t }) == nil) {
						okAlloc = false
						c.bad(rule, key+":allocate", i.Pos(), "the cached reporter's Allocate call is not made on the miss edge of the write-locked re-check: it can be made more than once for one metric", c.describe(i))
					}
				}
			})
			// the object created here is handed out only registered: every return of it is preceded by
			// its insertion (a loser of the creation race must return the winner's object, not its own)
			okRet := true
			created := canon(stripConv(mu.Value))
			if ex, isEx := created.(*ssa.Extract); isEx {
				for i := range lookups {
					if lookups[i].at == ex.Tuple.(ssa.Instruction) {
						created = nil // an existing entry registered under one more key, not a new object
					}
				}
			}
			for _, r := range returnsOf(fn) {
				if created == nil {
					break
				}
				if len(r.Results) == 0 {
					continue
				}
				for _, va0 := range resultValues(r, 0) {
					for _, va := range expandPhis(va0, 3) {
						if canon(stripConv(va.Val)) != created {
							continue
						}
						registered := false
						instrsOf(fn, func(i ssa.Instruction) {
							if m2, isMU := i.(*ssa.MapUpdate); isMU && canon(stripConv(m2.Value)) == created {
								if f2, b2 := loadedField(m2.Map); f2 == f && accessPath(b2) == accessPath(base) && (dominates(i, va.At) || i == va.At) {
									registered = true
								}
							}
						})
						if !registered {
							okRet = false
							c.bad(rule, key+":returned", va.At.Pos(), "the object created here is returned on a path on which it was not inserted into "+im.field+": the caller holds an object the scope does not know (what is recorded on it is never reported, and a later request for the same name returns a different object)", c.describe(va.At))
						}
					}
				}
			}
			// every other value the function returns is an entry of the same map (found by the probe or by
			// the re-check): a metric taken from anywhere else - another scope, the no-op scope - is not
			// registered here, so what is recorded on it never shows up in a report or a snapshot
			if im.typ == "scope" {
				var isEntry func(v ssa.Value, depth int) bool
				isEntry = func(v ssa.Value, depth int) bool {
					if depth == 0 {
						return false
					}
					switch x := canon(stripConv(v)).(type) {
					case *ssa.Lookup:
						lf, _ := loadedField(x.X)
						return lf == f
					case *ssa.Extract:
						if lk, isLk := x.Tuple.(*ssa.Lookup); isLk {
							lf, _ := loadedField(lk.X)
							return lf == f
						}
						if call, isCall := x.Tuple.(*ssa.Call); isCall {
							g := staticCallee(call)
							if g == nil || !c.inModule(g) || g.Blocks == nil {
								return false
							}
							k := 0
							for _, r := range returnsOf(g) {
								if x.Index >= len(r.Results) {
									return false
								}
								for _, va := range resultValues(r, x.Index) {
									k++
									if !isEntry(va.Val, depth-1) {
										return false
									}
								}
							}
							return k > 0
						}
					case *ssa.Phi:
						for _, e := range x.Edges {
							if !isEntry(e, depth-1) {
								return false
							}
						}
						return len(x.Edges) > 0
					}
					return false
				}
				for _, r := range returnsOf(fn) {
					if len(r.Results) != 1 {
						continue
					}
					for _, va0 := range resultValues(r, 0) {
						for _, va := range expandPhis(va0, 3) {
							v := canon(stripConv(va.Val))
							if v == created || isEntry(v, 3) {
								continue
							}
							okRet = false
							c.bad(rule, key+":foreign", va.At.Pos(), "the function hands out a metric that is neither the entry found in "+im.field+" nor the one it has just inserted there (e.g. a metric of another scope or of the no-op scope): the scope does not know it, so what is recorded on it is never reported and never appears in a snapshot", c.describe(va.At))
						}
					}
				}
			}
			if okAlloc && okRet {
				if viaDelete {
					c.ok(rule, key, in.Pos(), "inserted after a same-key lookup made under the write lock, on its miss edge or after deleting the entry found, without releasing the lock")
				} else {
					c.ok(rule, key, in.Pos(), "inserted on the miss edge of a same-key lookup made under the write lock")
				}
			}
		})
	}
	c.floor(rule, n, 5)
}

func checkC09(c *Ctx) {
	c.Explanation = "Decides the schedule-independent conditions for 'concurrent first use creates one object, without races': (O1) double-checked creation - all 7 insertions into the identity-bearing maps of package tally (4 metric kinds, 3 in the registry) are made under the write lock on the miss edge of a same-key re-check performed after that lock was taken, cached-reporter allocations happen on that same edge; the 4 Prometheus vectors use one exclusive section; (O2) field discipline - every access of a guarded field (table in DESIGN appendix A) is made with its mutex held in the required mode, helpers that rely on the caller's lock are verified at every call site, atomic-only fields are accessed only atomically; (O3) every function releases the locks it takes on every path (deferred operations replayed LIFO), and the lock-class order graph is acyclic without re-acquisition of a held class (exception E1 checked)."
	c.Explanation += " Added by round 8: (O7 handles-stateless) the Report* methods of the reporters' cached handles store only into call-local storage."
	c.NotDecided = []string{"nothing schedule-specific is run; races inside user-supplied reporters are outside the repository"}
	c.Assumptions = append(c.Assumptions, "the guarded-field table (DESIGN appendix A) names the lock of each shared field", "Go RWMutex semantics")
	eng := c.newLockEngine()
	c.checkDoubleChecked("O1 double-checked", eng)
	for _, v := range []struct{ fn, mapField string }{{"counterVec", "counters"}, {"gaugeVec", "gauges"}, {"summaryVec", "timers"}, {"histogramVec", "timers"}} {
		fn, fm := c.fn("prometheus", "reporter", v.fn), c.field("prometheus", "reporter", v.mapField)
		if fn == nil || fm == nil {
			c.missing("O1 exclusive-section", "prometheus.reporter."+v.fn)
			continue
		}
		c.checkExclusiveGetOrCreate("O1 exclusive-section", fn, fm)
	}
	pkgs := []string{"", "internal/cache", "prometheus", "m3"}
	c.checkFieldDiscipline("O2 field-discipline", pkgs, eng, 40)
	for _, f := range [][3]string{{"", "scope", "closed"}, {"", "counter", "curr"}, {"", "counter", "prev"}, {"", "gauge", "curr"}, {"", "gauge", "updated"}, {"m3/thriftudp", "TUDPTransport", "closed"}} {
		c.checkAtomicOnly("O2 atomic-only", f[0], f[1], f[2])
	}
	c.checkPrivateKeyBuffer("O4 private-key-buffer")
	// a racing re-acquire must not unregister the scope another goroutine has just created (shared with C07 O3)
	if fM, clr := c.field("", "scopeBucket", "s"), c.fn("", "scope", "clearMetrics"); fM != nil && clr != nil {
		c.checkGapSafeDeletes("O1 lock-gap", fM, eng, clr)
	}
	c.checkLockPairing("O3 lock-pairing", pkgs, eng, 15)
	c.checkLockOrder("O3 lock-order", pkgs, eng)
	// "everything recorded through any of the returned handles is delivered", whatever report pass runs
	// concurrently: the lock-free protocols of the handles themselves (shared with C01 O2/O3 and C02 O2)
	c.shared(checkC02, map[string]string{"O2 delivery": "O5 gauge-protocol", "O2 update-order": "O5 gauge-protocol", "O2 raise-after-store": "O5 gauge-protocol", "O4 flag-writers": "O5 gauge-protocol"})
	c.shared(checkC01, map[string]string{"O2 delta-rmw": "O5 counter-protocol", "O3 delivery": "O5 counter-protocol"})
	// what a handle delegates to is fixed when the handle is built (a lazily filled field is written while
	// other goroutines record through the handle: a race, and values recorded meanwhile take the fallback
	// path) - shared with C08 O5; the object inserted into the map is the object the cached pass walks
	// (shared with C01 O6 / C02 O6)
	c.checkSetOnlyAtConstruction("O6 handles-fixed", "", "histogram", "samples", "buckets", "specification", "htype")
	c.checkSetOnlyAtConstruction("O6 handles-fixed", "", "sampleCounter", "counter", "cachedBucket")
	c.checkSetOnlyAtConstruction("O6 handles-fixed", "", "counter", "cachedCount")
	c.checkSetOnlyAtConstruction("O6 handles-fixed", "", "gauge", "cachedGauge")
	c.checkSetOnlyAtConstruction("O6 handles-fixed", "", "timer", "cachedTimer", "name", "tags")
	c.checkSliceSibling("O6 slice-sibling", "counters", "countersSlice")
	c.checkSliceSibling("O6 slice-sibling", "histograms", "histogramsSlice")
	c.checkSliceSibling("O6 slice-sibling", "gauges", "gaugesSlice")
	// "everything recorded through any returned handle is delivered": no pass skips a metric kind (a
	// try-lock that leaves a busy kind "for the next pass" loses it at the last pass)
	c.shared(checkC01, map[string]string{"O7 pass-coverage": "O6 pass-coverage"})
	c.shared(checkC02, map[string]string{"O5 pass-coverage": "O6 pass-coverage"})
	// the cached handles of the reporters are shared by every goroutine that records: their report
	// methods keep no per-call state in the handle
	c.checkCachedHandlesStateless("O7 handles-stateless", []string{"m3", "prometheus", "multi", "statsd"})
	_ = token.NoPos
}

// checkPrivateKeyBuffer: a byte slice that is viewed as a string through an unsafe pointer cast
// (the registry's allocation-free lookup key) must be private to the call for as long as that string
// can be read: it is built from storage allocated in the same function, and neither the slice nor
// anything it is derived from is handed to code that could retain or recycle it (a pool, a field,
// a global, another goroutine). Otherwise a concurrent first user can overwrite the bytes behind the
// key between the lookup and the insertion, and a scope is registered under another identity's key.
func (c *Ctx) checkPrivateKeyBuffer(rule string) {
	n := 0
	for _, fn := range c.funcsOfPkg("") {
		instrsOf(fn, func(in ssa.Instruction) {
			cv, ok := in.(*ssa.Convert)
			if !ok {
				return
			}
			if b, isB := cv.Type().Underlying().(*types.Basic); !isB || b.Kind() != types.UnsafePointer {
				return
			}
			pt, isP := cv.X.Type().Underlying().(*types.Pointer)
			if !isP {
				return
			}
			if sl, isS := pt.Elem().Underlying().(*types.Slice); !isS || !types.Identical(sl.Elem(), types.Typ[types.Byte]) {
				return
			}
			n++
			key := fmt.Sprintf("%s#%d", c.fnKey(fn), n)
			c.sawFunc(c.fnKey(fn))
			cell, isAl := cv.X.(*ssa.Alloc)
			if !isAl {
				c.bad(rule, key, in.Pos(), "the byte slice viewed as a string through unsafe.Pointer is not a local variable of this function", c.describe(in))
				return
			}
			why, at := c.privateSlice(fn, cell, cv)
			if why != "" {
				c.bad(rule, key, at.Pos(), "the bytes behind the unsafe string key are not private to this call: "+why+"; a concurrent caller can change them while the key is still in use (lookup, copy, insertion), so a scope is looked up or registered under another identity's key", c.describe(at))
				return
			}
			c.ok(rule, key, in.Pos(), "the buffer behind the unsafe string is allocated in this call and never handed to code that could retain or recycle it")
		})
	}
	c.floor(rule, n, 1)
}

// privateSlice: see checkPrivateKeyBuffer. Returns "" when private, else the reason and the site.
func (c *Ctx) privateSlice(fn *ssa.Function, cell *ssa.Alloc, cast *ssa.Convert) (string, ssa.Instruction) {
	tracked := map[ssa.Value]bool{}
	var work []ssa.Value
	add := func(v ssa.Value) {
		if !tracked[v] {
			tracked[v] = true
			work = append(work, v)
		}
	}
	// backward: what is stored into the cell must be derived from fresh storage
	visiting := map[ssa.Value]bool{}
	var fresh func(v ssa.Value, depth int) (string, ssa.Instruction)
	fresh = func(v ssa.Value, depth int) (string, ssa.Instruction) {
		at, _ := v.(ssa.Instruction)
		if at == nil {
			at = cast
		}
		if visiting[v] {
			return "", nil
		}
		visiting[v] = true
		defer delete(visiting, v)
		if depth == 0 {
			return "its origin could not be traced", at
		}
		switch x := v.(type) {
		case *ssa.MakeSlice:
			add(x)
			return "", nil
		case *ssa.Slice:
			add(x)
			if al, ok := x.X.(*ssa.Alloc); ok && al.Parent() == fn {
				if _, isArr := deref(al.Type()).Underlying().(*types.Array); isArr {
					return "", nil
				}
			}
			return fresh(x.X, depth-1)
		case *ssa.Phi:
			add(x)
			for _, e := range x.Edges {
				if w, a := fresh(e, depth-1); w != "" {
					return w, a
				}
			}
			return "", nil
		case *ssa.Call:
			add(x)
			if isBuiltin(x, "append") {
				return fresh(x.Call.Args[0], depth-1)
			}
			g := staticCallee(x)
			if g == nil || !c.inModule(g) || g.Blocks == nil {
				return "it comes from " + c.describe(x) + " (not an allocation of this call)", x
			}
			// a builder: returns only what it derives from one of its parameters, and does not leak it
			for i, a := range x.Call.Args {
				if _, isSl := a.Type().Underlying().(*types.Slice); !isSl || i >= len(g.Params) {
					continue
				}
				if c.returnsDerivedFromParam(g, i) {
					if w := c.paramLeak(g, i); w != "" {
						return g.Name() + " " + w, x
					}
					return fresh(a, depth-1)
				}
			}
			return "it is the result of " + g.Name() + ", which does not build it from storage of this call", x
		}
		return "it comes from " + v.Name() + " (" + fmt.Sprintf("%T", v) + "), not from an allocation of this call", at
	}
	if cell.Referrers() != nil {
		for _, r := range *cell.Referrers() {
			switch x := r.(type) {
			case *ssa.Store:
				if x.Addr == ssa.Value(cell) {
					if w, a := fresh(x.Val, 30); w != "" {
						return w, a
					}
				} else {
					return "the address of the buffer variable is stored", x
				}
			case *ssa.UnOp:
				add(x) // a load of the slice
			case *ssa.Convert, *ssa.DebugRef:
			default:
				return "the address of the buffer variable escapes", r
			}
		}
	}
	// forward: none of the tracked slice values reaches anything that could keep it
	var writes []ssa.Instruction
	for len(work) > 0 {
		v := work[len(work)-1]
		work = work[:len(work)-1]
		if v.Referrers() == nil {
			continue
		}
		for _, r := range *v.Referrers() {
			switch x := r.(type) {
			case *ssa.DebugRef:
			case *ssa.Store:
				if x.Addr != ssa.Value(cell) {
					return "the slice is stored outside the function's own buffer variable", x
				}
			case *ssa.Slice:
				add(x)
			case *ssa.Phi:
				add(x)
			case *ssa.IndexAddr, *ssa.Index, *ssa.Lookup:
			case *ssa.Convert:
				// string(b) copies the bytes
				if bt, isB := x.Type().Underlying().(*types.Basic); !isB || bt.Info()&types.IsString == 0 {
					return "it flows into " + c.describe(r) + ", where it may be retained", r
				}
			case *ssa.Call:
				if isBuiltin(x, "append") || isBuiltin(x, "len") || isBuiltin(x, "cap") || isBuiltin(x, "copy") {
					if isBuiltin(x, "append") && x.Call.Args[0] == v {
						add(x)
						writes = append(writes, x)
					}
					if isBuiltin(x, "copy") && x.Call.Args[0] == v {
						writes = append(writes, x)
					}
					continue
				}
				g := staticCallee(x)
				if g != nil && !c.inModule(g) && g.Pkg != nil && g.Pkg.Pkg.Path() == "hash/maphash" {
					continue // reads the bytes
				}
				if g != nil && c.inModule(g) && g.Blocks != nil {
					leak := ""
					for i, a := range x.Call.Args {
						if a == v && i < len(g.Params) {
							leak = c.paramLeak(g, i)
							if leak == "" && c.returnsDerivedFromParam(g, i) {
								add(x)
							}
						}
					}
					if leak == "" {
						writes = append(writes, x) // a builder appends to (writes into) the buffer
						continue
					}
					return "it is handed to " + g.Name() + ", which " + leak, x
				}
				return "it is handed to " + c.describe(x) + ", which may retain it", x
			default:
				return "it flows into " + c.describe(r) + ", where it may be retained", r
			}
		}
	}
	// the unsafe string shares the buffer: once it exists nothing may write into the buffer again
	// (re-using it for a second key rewrites the bytes the first key's string still points at)
	for _, w := range writes {
		if w.Parent() == cast.Parent() && reachAvoiding(cast, false, func(i ssa.Instruction) bool { return i == w }, nil) != nil {
			return "the buffer is written again (" + c.describe(w) + ") after the unsafe string view of it was taken, while that string is still in use: the key changes under its user", w
		}
	}
	return "", nil
}

// returnsDerivedFromParam: every value g returns as a slice is param i, or append/slice/phi chains of it.
func (c *Ctx) returnsDerivedFromParam(g *ssa.Function, i int) bool {
	p := ssa.Value(g.Params[i])
	visiting := map[ssa.Value]bool{}
	var der func(v ssa.Value, depth int) bool
	der = func(v ssa.Value, depth int) bool {
		if depth == 0 {
			return false
		}
		v = canon(v)
		if v == p || visiting[v] {
			return true // visiting: a loop-carried value is derived if all its other sources are
		}
		visiting[v] = true
		defer delete(visiting, v)
		switch x := v.(type) {
		case *ssa.Slice:
			return der(x.X, depth-1)
		case *ssa.Phi:
			for _, e := range x.Edges {
				if e != ssa.Value(x) && !der(e, depth-1) {
					return false
				}
			}
			return true
		case *ssa.Call:
			if isBuiltin(x, "append") {
				return der(x.Call.Args[0], depth-1)
			}
			if h := staticCallee(x); h != nil && c.inModule(h) && h.Blocks != nil {
				for j, a := range x.Call.Args {
					if _, isSl := a.Type().Underlying().(*types.Slice); isSl && j < len(h.Params) && der(a, depth-1) && c.returnsDerivedFromParam(h, j) {
						return true
					}
				}
			}
			// strconv.AppendX / utf8.AppendRune return their first argument extended
			if h := staticCallee(x); h != nil && h.Pkg != nil && (h.Pkg.Pkg.Path() == "strconv" || h.Pkg.Pkg.Path() == "unicode/utf8") && strings.HasPrefix(h.Name(), "Append") && len(x.Call.Args) > 0 {
				return der(x.Call.Args[0], depth-1)
			}
		}
		return false
	}
	n := 0
	for _, r := range returnsOf(g) {
		for k := range r.Results {
			if _, isSl := r.Results[k].Type().Underlying().(*types.Slice); !isSl {
				continue
			}
			for _, va := range resultValues(r, k) {
				n++
				if !der(va.Val, 40) {
					return false
				}
			}
		}
	}
	return n > 0
}

// paramLeak: "" when g only reads param i, appends to it, slices it, passes it to builders that do
// the same, or returns it; otherwise what it does with it.
func (c *Ctx) paramLeak(g *ssa.Function, i int) string {
	return c.paramLeakDepth(g, i, 3)
}

func (c *Ctx) paramLeakDepth(g *ssa.Function, i int, depth int) string {
	if depth == 0 {
		return "passes it on too deeply to follow"
	}
	seen := map[ssa.Value]bool{}
	work := []ssa.Value{g.Params[i]}
	// a parameter that is captured or address-taken is spilled into a cell
	for len(work) > 0 {
		v := work[len(work)-1]
		work = work[:len(work)-1]
		if seen[v] || v.Referrers() == nil {
			continue
		}
		seen[v] = true
		for _, r := range *v.Referrers() {
			switch x := r.(type) {
			case *ssa.DebugRef, *ssa.Return, *ssa.IndexAddr, *ssa.Index:
			case *ssa.Slice:
				work = append(work, x)
			case *ssa.Phi:
				work = append(work, x)
			case *ssa.Store:
				if al, ok := x.Addr.(*ssa.Alloc); ok && al.Parent() == g && x.Val == v {
					// local variable: follow its loads
					if al.Referrers() != nil {
						for _, ar := range *al.Referrers() {
							if ld, isLd := ar.(*ssa.UnOp); isLd {
								work = append(work, ld)
							} else if _, isSt := ar.(*ssa.Store); !isSt {
								if _, isDbg := ar.(*ssa.DebugRef); !isDbg {
									return "lets its buffer variable escape (" + c.describe(ar) + ")"
								}
							}
						}
					}
					continue
				}
				if x.Val == v {
					return "stores it (" + c.describe(x) + ")"
				}
			case *ssa.Call:
				if isBuiltin(x, "append") || isBuiltin(x, "len") || isBuiltin(x, "cap") || isBuiltin(x, "copy") {
					if isBuiltin(x, "append") && x.Call.Args[0] == v {
						work = append(work, x)
					}
					continue
				}
				h := staticCallee(x)
				if h != nil && c.inModule(h) && h.Blocks != nil {
					for j, a := range x.Call.Args {
						if a == v && j < len(h.Params) {
							if w := c.paramLeakDepth(h, j, depth-1); w != "" {
								return "passes it to " + h.Name() + ", which " + w
							}
							if c.returnsDerivedFromParam(h, j) {
								work = append(work, x)
							}
						}
					}
					continue
				}
				if h != nil && h.Pkg != nil && (h.Pkg.Pkg.Path() == "strconv" || h.Pkg.Pkg.Path() == "unicode/utf8") {
					if _, isSl := x.Type().Underlying().(*types.Slice); isSl {
						work = append(work, x) // strconv.AppendX returns the extended slice
					}
					continue
				}
				return "hands it to " + c.describe(x)
			default:
				return "lets it flow into " + c.describe(r)
			}
		}
	}
	return ""
}

// checkCachedHandlesStateless: the cached handles a reporter hands out (implementations of
// CachedCount / CachedGauge / CachedTimer / CachedHistogramBucket in the module) are used from any
// number of goroutines at once - every scope that records, and the report loop. Their Report*
// methods therefore write nothing that another call could see: every store lands in storage local to
// the call (the spilled copy of a value receiver, a local) or is an atomic / locked operation of the
// callee. A store through a pointer receiver (or through a pointer read from the handle) is a data
// race in which one goroutine's value is delivered with - or instead of - another's.
func (c *Ctx) checkCachedHandlesStateless(rule string, pkgs []string) {
	methods := map[string]bool{"ReportCount": true, "ReportGauge": true, "ReportTimer": true, "ReportSamples": true}
	n := 0
	for _, pk := range pkgs {
		for _, fn := range c.funcsOfPkg(pk) {
			if fn.Signature.Recv() == nil || !methods[fn.Name()] || fn.Parent() != nil {
				continue
			}
			// storage classes: local = an Alloc of this function that does not escape through a pointer read
			var rootOf func(v ssa.Value, d int) (ssa.Value, bool)
			rootOf = func(v ssa.Value, d int) (ssa.Value, bool) {
				if d == 0 {
					return v, false
				}
				switch x := v.(type) {
				case *ssa.FieldAddr:
					return rootOf(x.X, d-1)
				case *ssa.IndexAddr:
					if _, isPtrToArr := x.X.Type().Underlying().(*types.Pointer); isPtrToArr {
						return rootOf(x.X, d-1)
					}
					return x.X, false // element of a slice: shared backing array
				case *ssa.Alloc:
					return x, true
				}
				return v, false
			}
			key := c.fnKey(fn)
			c.sawFunc(key)
			n++
			okAll := true
			stores := 0
			instrsOf(fn, func(in ssa.Instruction) {
				st, ok := in.(*ssa.Store)
				if !ok {
					return
				}
				stores++
				root, local := rootOf(st.Addr, 8)
				if local {
					return
				}
				okAll = false
				c.bad(rule, key, st.Pos(), fmt.Sprintf("%s of the cached handle %s writes into storage shared by every caller of the handle (%s): two goroutines reporting through the same handle - two scopes recording, or a recorder and the report loop - overwrite each other's value before it is queued", fn.Name(), deref(fn.Signature.Recv().Type()), root.Name()+" "+root.Type().String()), c.describe(st))
			})
			if okAll {
				c.ok(rule, key, fn.Pos(), fmt.Sprintf("the %d store(s) of the method land in storage local to the call", stores))
			}
		}
	}
	c.floor(rule, n, 6)
}
