package main

import (
	"fmt"
	"go/constant"
	"go/token"
	"go/types"
	"math"
	"sort"
	"strings"

	"golang.org/x/tools/go/ssa"
)

func init() { register("C12", checkC12) }

// tagLit describes one MetricTag literal built in a function: which fields its Name and Value
// come from.
type tagLit struct {
	cell              *ssa.Alloc
	nameSrc, valueSrc string // field names of the sources ("" if not a field load)
}

func metricTagLits(fn *ssa.Function) []tagLit {
	var out []tagLit
	instrsOf(fn, func(in ssa.Instruction) {
		al, ok := in.(*ssa.Alloc)
		if !ok {
			return
		}
		n, isN := deref(al.Type()).(*types.Named)
		if !isN || n.Obj().Name() != "MetricTag" || al.Referrers() == nil {
			return
		}
		tl := tagLit{cell: al}
		for _, r := range *al.Referrers() {
			fa, isFA := r.(*ssa.FieldAddr)
			if !isFA || fa.Referrers() == nil {
				continue
			}
			f := structFieldOf(fa.X.Type(), fa.Field)
			for _, u := range *fa.Referrers() {
				st, isSt := u.(*ssa.Store)
				if !isSt || st.Addr != ssa.Value(fa) {
					continue
				}
				src := ""
				if sf, _ := loadedField(stripConv(st.Val)); sf != nil {
					src = sf.Name()
				}
				if f.Name() == "Name" {
					tl.nameSrc = src
				} else if f.Name() == "Value" {
					tl.valueSrc = src
				}
			}
		}
		out = append(out, tl)
	})
	return out
}

// appendedTagLits: the MetricTag literals appended (possibly through several appends) to build v.
func appendedTagLits(v ssa.Value, lits []tagLit, depth int) (found []tagLit, bases []ssa.Value) {
	if depth <= 0 {
		return nil, []ssa.Value{v}
	}
	base, elems, spread, ok := appendedValues(stripConv(v))
	if !ok {
		return nil, []ssa.Value{v}
	}
	f, b := appendedTagLits(base, lits, depth-1)
	found = append(found, f...)
	bases = append(bases, b...)
	if spread != nil {
		bases = append(bases, spread)
	}
	for _, e := range elems {
		if ld, isLd := stripConv(e).(*ssa.UnOp); isLd {
			for _, l := range lits {
				if ld.X == ssa.Value(l.cell) {
					found = append(found, l)
				}
			}
		}
	}
	return
}

func tagLitSet(ls []tagLit) string {
	var s []string
	for _, l := range ls {
		s = append(s, l.nameSrc+"="+l.valueSrc)
	}
	sort.Strings(s)
	return strings.Join(s, ",")
}

func checkC12(c *Ctx) {
	c.Explanation = "Decides the structure of the packet size accounting: (O1) the batching loop keeps `bytes >= sum of the charged sizes of the open batch`, tests `bytes + size > freeBytes` before appending and emits the open batch before appending a metric that does not fit; (O2) the size enqueued with a metric is the handle's size, which is calculateSize of the very template stored in the handle (bucket handles: of the template with the two bucket tags in place); (O3) every field written at report time (Count/Gauge/Timer, Timestamp) holds the maximum of its type in the template of that kind, and each Allocate* uses the template kind its handle method writes; (O4a) the envelope overhead is measured by emitting the empty batch with the common tags through the same generated EmitMetricBatchV2 over the size-calculating transport with the longest sequence id, plus a constant >= the growth of the metric list header (or a constant >= the table maximum 33); (O4b) the two bucket tags the batching loop appends are exactly the (name field, value field) pairs the bucket template was sized with; (O5) freeBytes = MaxPacketSizeBytes - overhead, the constructor refuses freeBytes <= 0, and the overflow test reads that field."
	c.Explanation += " Added by round 9: (O5 write-errors-from-protocol, shared with C16) the generated writers fail only when the protocol fails."
	c.NotDecided = []string{"actual datagram lengths (the encoder is C16; the vendored protocols' per-op costs are trusted)", "the 65000-byte transport limit (C15)"}
	c.Assumptions = append(c.Assumptions, "per-op byte costs of the vendored Compact/Binary protocols: varint length grows with magnitude, fixed-width doubles; list header Compact 1..6 bytes, Binary 5")
	const pk = "m3"

	// ---- O1 ------------------------------------------------------------------------------------
	c.checkBatching("O1", true, false)

	calc := c.fn(pk, "reporter", "calculateSize")
	if calc == nil {
		c.missing("O2 size-provenance", "m3.reporter.calculateSize")
		return
	}
	// ---- O2 size provenance: every store into a cachedMetric.size is calculateSize(X) with X the
	// value stored into the same object's metric (or, for bucket handles, X derived from it).
	fSize, fMetric := c.field(pk, "cachedMetric", "size"), c.field(pk, "cachedMetric", "metric")
	if fSize == nil || fMetric == nil {
		c.missing("O2 size-provenance", "m3.cachedMetric{size,metric}")
		return
	}
	nSize := 0
	var bucketSizing *ssa.Call
	var bucketFn *ssa.Function
	for _, fn := range c.funcsOfPkg(pk) {
		instrsOf(fn, func(in ssa.Instruction) {
			st, ok := in.(*ssa.Store)
			if !ok {
				return
			}
			f, base := addrField(st.Addr)
			if f != fSize {
				return
			}
			nSize++
			key := c.fnKey(fn)
			c.sawFunc(key)
			call, isCall := stripConv(st.Val).(*ssa.Call)
			if !isCall || staticCallee(call) != calc {
				c.bad("O2 size-provenance", key, st.Pos(), "the size stored in a cached metric handle is not the result of calculateSize (arithmetic on it, a constant, or another metric's size): the charged size is not an upper bound of what is emitted", c.describe(st))
				return
			}
			arg := call.Call.Args[1]
			// composite literal: sibling store into .metric of the same cell with the same value
			okProv := false
			if al, isAl := base.(*ssa.Alloc); isAl {
				for _, r := range *al.Referrers() {
					if fa, isFA := r.(*ssa.FieldAddr); isFA && structFieldOf(fa.X.Type(), fa.Field) == fMetric && fa.Referrers() != nil {
						for _, u := range *fa.Referrers() {
							if ms, isSt := u.(*ssa.Store); isSt && ms.Addr == ssa.Value(fa) && ms.Val == arg {
								okProv = true
							}
						}
					}
				}
			} else {
				// bucket handle: hbucket.metric.size = calculateSize(sized) where sized is a copy of
				// hbucket.metric.metric (checked further by O4b)
				if cell := cellOfAny(arg); cell != nil {
					for _, s := range cellStores(cell) {
						if lf, lb := loadedField(stripConv(s.Val)); lf == fMetric && accessPath(lb) == accessPath(base) {
							okProv = true
							bucketSizing = call
							bucketFn = fn
						}
					}
				}
			}
			c.check(okProv, "O2 size-provenance", key, st.Pos(), "size = calculateSize(<the template stored in the same handle>)",
				"the size stored in the handle is calculateSize of something other than the template stored in that handle", c.describe(st))
		})
	}
	c.floor("O2 size-provenance", nSize, 3)

	// ---- O3 max placeholders ---------------------------------------------------------------------
	c.checkMaxPlaceholders("O3 max-placeholder")

	// ---- O4a envelope ----------------------------------------------------------------------------
	c.checkEnvelope("O4a envelope")

	// ---- O4b bucket tags --------------------------------------------------------------------------
	if bucketSizing == nil {
		c.bad("O4b bucket-tags", "m3.AllocateHistogram", token.NoPos, "no bucket handle whose size is calculateSize of a copy of its own template was found: the bucket tags appended at emission are not charged with their encoding")
	} else {
		key := c.fnKey(bucketFn)
		lits := metricTagLits(bucketFn)
		cell := cellOfAny(bucketSizing.Call.Args[1])
		var sized []tagLit
		var bases []ssa.Value
		if cell != nil {
			for _, r := range *cell.Referrers() {
				if fa, isFA := r.(*ssa.FieldAddr); isFA && structFieldOf(fa.X.Type(), fa.Field).Name() == "Tags" && fa.Referrers() != nil {
					for _, u := range *fa.Referrers() {
						if st, isSt := u.(*ssa.Store); isSt && st.Addr == ssa.Value(fa) && dominates(st, bucketSizing) {
							sized, bases = appendedTagLits(st.Val, lits, 4)
						}
					}
				}
			}
		}
		// what process appends
		bl := c.findBatchLoop("O4b bucket-tags")
		var emitted []tagLit
		if bl != nil {
			plits := metricTagLits(bl.fn)
			instrsOf(bl.fn, func(in ssa.Instruction) {
				st, ok := in.(*ssa.Store)
				if !ok {
					return
				}
				if f, _ := addrField(st.Addr); f == nil || f.Name() != "Tags" {
					return
				}
				if e, _ := appendedTagLits(st.Val, plits, 4); len(e) > 0 {
					emitted = e
				}
			})
		}
		// the sized template must also carry the handle's ordinary tags
		hasBase := false
		for _, b := range bases {
			if _, isMS := stripConv(b).(*ssa.MakeSlice); !isMS {
				hasBase = true
			}
		}
		ok := len(emitted) > 0 && tagLitSet(sized) == tagLitSet(emitted) && hasBase
		c.check(ok, "O4b bucket-tags", key, bucketSizing.Pos(),
			"bucket template sized with the tags {"+tagLitSet(sized)+"} that the batching loop appends",
			fmt.Sprintf("the bucket handle is sized with tags {%s} (plus its ordinary tags: %v) but the batching loop appends {%s} at emission: the struct/field encoding of the appended tags is not charged and datagrams exceed the limit", tagLitSet(sized), hasBase, tagLitSet(emitted)))
	}

	// ---- O5 freeBytes -------------------------------------------------------------------------------
	c.checkFreeBytes("O5 free-bytes")
	// ---- O6 the measuring device itself (shared with C16 O2/O3) --------------------------------------
	c.checkCalcTransport("O6 calc-transport")
	c.checkCalculateSize("O6 calculate-size")
	// ---- O7 what is sized is what is emitted: shared tag slices are never appended to in place ------
	c.checkSharedTagSlices("O7 shared-tags")
	// the common tags freeBytes was computed from are the common tags every datagram carries: a published
	// tag slice never goes back to a pool (shared with C13 O8)
	c.checkPublishedNotRecycled("O7 published-not-recycled")
	c.checkBucketOwnTemplate("O4b bucket-own-template")
	c.checkPooledSlicesDisjoint("O7 pooled-slices-disjoint")
	// what is charged for a metric is the size computed for it at allocation: the queue element carries the
	// handle's size unchanged (no value-dependent discount on the way) - shared with C13 O1
	c.shared(checkC13, map[string]string{"O1 enqueue-once": "O2 charged-as-sized"})
	// a message is abandoned half-written only when the transport fails: the generated writers have no
	// error of their own (shared with C16 O1)
	c.checkWriteErrorsFromProtocol("O5 write-errors-from-protocol")
	c.checkOwnResourcePool("O8 own-resource-pool")
}

// cellOfAny: v is a load of a local cell (single- or multi-store).
func cellOfAny(v ssa.Value) *ssa.Alloc {
	if u, ok := stripConv(v).(*ssa.UnOp); ok && u.Op == token.MUL {
		al, _ := u.X.(*ssa.Alloc)
		return al
	}
	return nil
}

// globalInit returns the constant a package-level variable is initialised with (in init).
func (c *Ctx) globalConst(short, name string) constant.Value {
	pk := c.ssaPkg(short)
	if pk == nil {
		return nil
	}
	g, ok := pk.Members[name].(*ssa.Global)
	if !ok {
		return nil
	}
	var val constant.Value
	n := 0
	for _, fn := range c.AllFuncs {
		instrsOf(fn, func(in ssa.Instruction) {
			if st, isSt := in.(*ssa.Store); isSt && st.Addr == ssa.Value(g) {
				n++
				v := stripConv(st.Val)
				if cv, isCv := v.(*ssa.Convert); isCv {
					v = cv.X
				}
				if k, isK := v.(*ssa.Const); isK {
					val = k.Value
				}
			}
		})
	}
	// stores in the synthetic package initialiser
	if init := pk.Func("init"); init != nil {
		instrsOf(init, func(in ssa.Instruction) {
			if st, isSt := in.(*ssa.Store); isSt && st.Addr == ssa.Value(g) {
				n++
				v := stripConv(st.Val)
				if cv, isCv := v.(*ssa.Convert); isCv {
					v = cv.X
				}
				if k, isK := v.(*ssa.Const); isK {
					val = k.Value
				}
			}
		})
	}
	if n != 1 {
		return nil
	}
	return val
}

func (c *Ctx) checkMaxPlaceholders(rule string) {
	const pk = "m3"
	// the template constructor: the function that stores Value.MetricType
	var tmpl *ssa.Function
	for _, fn := range c.funcsOfPkg(pk) {
		instrsOf(fn, func(in ssa.Instruction) {
			if st, ok := in.(*ssa.Store); ok {
				if f, _ := addrField(st.Addr); f != nil && f.Name() == "MetricType" {
					tmpl = fn
				}
			}
		})
	}
	if tmpl == nil {
		c.missing(rule, "the M3 metric template constructor (stores Value.MetricType)")
		return
	}
	key := c.fnKey(tmpl)
	c.sawFunc(key)
	isMax := func(v ssa.Value, float bool) bool {
		v = stripConv(v)
		var k constant.Value
		if cst, isK := v.(*ssa.Const); isK {
			k = cst.Value
		} else if ld, isLd := v.(*ssa.UnOp); isLd && ld.Op == token.MUL {
			if g, isG := ld.X.(*ssa.Global); isG {
				k = c.globalConst(pk, g.Name())
				// the global must never be written elsewhere (globalConst demands a single store)
			}
		}
		if k == nil {
			return false
		}
		if float {
			return constant.Compare(constant.ToFloat(k), token.EQL, constant.MakeFloat64(math.MaxFloat64))
		}
		return constant.Compare(constant.ToInt(k), token.EQL, constant.MakeInt64(math.MaxInt64))
	}
	// kind constants
	kindOf := func(name string) (int64, bool) {
		k, ok := c.pkg(pk).Types.Scope().Lookup(name).(*types.Const)
		if !ok {
			return 0, false
		}
		v, exact := constant.Int64Val(constant.ToInt(k.Val()))
		return v, exact
	}
	want := []struct {
		kind, field string
		float       bool
	}{{"counterType", "Count", false}, {"gaugeType", "Gauge", true}, {"timerType", "Timer", false}}
	stores := map[string][]*ssa.Store{}
	instrsOf(tmpl, func(in ssa.Instruction) {
		if st, ok := in.(*ssa.Store); ok {
			if f, _ := addrField(st.Addr); f != nil {
				stores[f.Name()] = append(stores[f.Name()], st)
			}
		}
	})
	okAll := true
	// Timestamp
	okTS := len(stores["Timestamp"]) > 0
	for _, st := range stores["Timestamp"] {
		if !isMax(st.Val, false) {
			okTS = false
		}
	}
	if !okTS {
		okAll = false
		c.bad(rule, key+":Timestamp", tmpl.Pos(), "the template's Timestamp is not MaxInt64: a real timestamp has a longer varint encoding than the placeholder the size was measured with")
	}
	var tParam *ssa.Parameter
	for _, p := range tmpl.Params {
		if n, isN := p.Type().(*types.Named); isN && n.Obj().Name() == "metricType" {
			tParam = p
		}
	}
	for _, w := range want {
		kv, okK := kindOf(w.kind)
		sts := stores[w.field]
		if !okK || len(sts) == 0 || tParam == nil {
			okAll = false
			c.bad(rule, key+":"+w.field, tmpl.Pos(), "the template constructor does not initialise Value."+w.field+" for "+w.kind)
			continue
		}
		for _, st := range sts {
			if !isMax(st.Val, w.float) {
				okAll = false
				c.bad(rule, key+":"+w.field, st.Pos(), "the template's Value."+w.field+" placeholder is not the maximum of its type: values reported later can encode longer than the size that was charged", c.describe(st))
			}
			g := guardedByEdge(st, func(cond ssa.Value) (bool, bool) {
				op, x, y, ok := cmpOf(cond)
				if !ok || op != token.EQL || canon(x) != ssa.Value(tParam) {
					return false, false
				}
				k, isK := constInt(y)
				return isK && k == kv, true
			})
			if g == nil {
				okAll = false
				c.bad(rule, key+":"+w.field, st.Pos(), "Value."+w.field+" is not initialised under `type == "+w.kind+"`", c.describe(st))
			}
		}
	}
	if okAll {
		c.ok(rule, key, tmpl.Pos(), "Timestamp and the value field of each kind are initialised to the maximum of their type")
	}
	// each Allocate* uses the kind whose field its handle method writes
	for _, a := range []struct{ method, kind string }{{"AllocateCounter", "counterType"}, {"AllocateGauge", "gaugeType"}, {"AllocateTimer", "timerType"}, {"AllocateHistogram", "counterType"}} {
		fn := c.fn(pk, "reporter", a.method)
		if fn == nil {
			c.missing(rule, "m3.reporter."+a.method)
			continue
		}
		kv, _ := kindOf(a.kind)
		lift := map[*ssa.Function]bool{}
		var kinds []int64
		var visit func(f *ssa.Function, d int)
		visit = func(f *ssa.Function, d int) {
			if f == nil || lift[f] || d > 2 || !c.inModule(f) || f.Blocks == nil {
				return
			}
			lift[f] = true
			instrsOf(f, func(in ssa.Instruction) {
				if call, ok := in.(*ssa.Call); ok {
					if staticCallee(call) == tmpl {
						for i, p := range tmpl.Params {
							if p == tParam {
								if k, isK := constInt(call.Call.Args[i]); isK {
									kinds = append(kinds, k)
								} else {
									kinds = append(kinds, -1)
								}
							}
						}
					} else if g := staticCallee(call); g != nil && g.Package() == f.Package() && g != calc(c) {
						visit(g, d+1)
					}
				}
			})
		}
		visit(fn, 0)
		ok := len(kinds) > 0
		for _, k := range kinds {
			if k != kv {
				ok = false
			}
		}
		c.check(ok, rule, c.fnKey(fn)+":kind", fn.Pos(), a.method+" builds its template with "+a.kind,
			a.method+" does not build its template with "+a.kind+": the field its handle writes at report time was not sized with a maximal placeholder")
	}
}

func calc(c *Ctx) *ssa.Function { return c.fn("m3", "reporter", "calculateSize") }

func (c *Ctx) checkEnvelope(rule string) {
	ctor := c.fn("m3", "", "NewReporter")
	fOver := c.field("m3", "reporter", "overheadBytes")
	if ctor == nil || fOver == nil {
		c.missing(rule, "m3.NewReporter / reporter.overheadBytes")
		return
	}
	key := c.fnKey(ctor)
	c.sawFunc(key)
	// the overhead value: K + calc.GetCount()
	var over ssa.Value
	instrsOf(ctor, func(in ssa.Instruction) {
		if st, ok := in.(*ssa.Store); ok {
			if f, _ := addrField(st.Addr); f == fOver {
				over = st.Val
			}
		}
	})
	bo, isB := stripConv(over).(*ssa.BinOp)
	if over == nil || !isB || bo.Op != token.ADD {
		c.bad(rule, key, ctor.Pos(), "the envelope overhead is not `constant + measured size`")
		return
	}
	kv, cnt := bo.X, bo.Y
	if _, isK := constInt(kv); !isK {
		kv, cnt = cnt, kv
	}
	K, isK := constInt(kv)
	getCount, isCall := stripConv(cnt).(*ssa.Call)
	if !isK || !isCall || staticCallee(getCount) == nil || staticCallee(getCount).Name() != "GetCount" {
		c.bad(rule, key, bo.Pos(), "the envelope overhead is not `constant + calcTransport.GetCount()`", c.describe(bo))
		return
	}
	// what was measured before GetCount
	var emit, write *ssa.Call
	instrsOf(ctor, func(in ssa.Instruction) {
		call, ok := in.(*ssa.Call)
		if !ok || !dominates(call, getCount) {
			return
		}
		if f := staticCallee(call); f != nil {
			switch f.String() {
			case "(*" + modPath + "/m3/thrift/v2.M3Client).EmitMetricBatchV2":
				emit = call
			case "(*" + modPath + "/m3/thrift/v2.MetricBatch).Write":
				write = call
			}
		}
	})
	// the emitter used by flush must be the same method
	sameEmit := false
	if fl := c.fn("m3", "reporter", "flush"); fl != nil && emit != nil {
		instrsOf(fl, func(in ssa.Instruction) {
			if call, ok := in.(*ssa.Call); ok && staticCallee(call) == staticCallee(emit) {
				sameEmit = true
			}
		})
	}
	switch {
	case emit != nil:
		okAll := true
		if !sameEmit {
			okAll = false
			c.bad(rule, key+":same-emit", emit.Pos(), "the overhead is measured with a different emit method than the one flush uses")
		}
		if K < 5 {
			okAll = false
			c.bad(rule, key+":constant", bo.Pos(), fmt.Sprintf("the constant added to the measured empty-batch message is %d; the compact list header of a non-empty batch is up to 5 bytes longer than that of the empty list", K))
		}
		// sequence id maximal: store to SeqId of a constant whose successor needs 5 varint bytes
		okSeq := false
		instrsOf(ctor, func(in ssa.Instruction) {
			if st, ok := in.(*ssa.Store); ok {
				if f, _ := addrField(st.Addr); f != nil && f.Name() == "SeqId" {
					if k, isK := constInt(st.Val); isK && (k >= (1<<28)-1) && dominates(st, emit) {
						okSeq = true
					}
				}
			}
		})
		if !okSeq {
			okAll = false
			c.bad(rule, key+":seqid", emit.Pos(), "the overhead is measured with a small sequence id: the compact varint of the sequence id grows to 5 bytes while the reporter runs, the measured envelope is up to 4 bytes short")
		}
		// the measured batch carries the reporter's common tags and an empty metric list
		fCommon := c.field("m3", "reporter", "commonTags")
		var ctVal, rVal ssa.Value
		instrsOf(ctor, func(in ssa.Instruction) {
			if st, ok := in.(*ssa.Store); ok {
				if f, _ := addrField(st.Addr); f != nil {
					if f.Name() == "CommonTags" {
						ctVal = st.Val
					}
					if f == fCommon {
						rVal = st.Val
					}
				}
			}
		})
		if ctVal == nil || rVal == nil || canon(ctVal) != canon(rVal) {
			okAll = false
			c.bad(rule, key+":common-tags", emit.Pos(), "the measured batch does not carry the very common tags the reporter emits with every batch")
		}
		if okAll {
			c.ok(rule, key, emit.Pos(), fmt.Sprintf("overhead = %d + size of the empty batch (same common tags) emitted through the same EmitMetricBatchV2 with the longest sequence id", K))
		}
	case write != nil:
		c.check(K >= 33, rule, key, bo.Pos(), fmt.Sprintf("overhead constant %d covers the message envelope of both protocols", K),
			fmt.Sprintf("only the batch struct is measured and the constant allowance for everything the client writes around it is %d bytes; the envelope (message header, sequence id, argument struct, list header growth) is 23..32 bytes with the compact protocol and 33 with the binary one: datagrams exceed MaxPacketSizeBytes", K))
	default:
		c.bad(rule, key, bo.Pos(), "nothing is measured into the size-calculating transport before its count is read")
	}
}

func (c *Ctx) checkFreeBytes(rule string) {
	ctor := c.fn("m3", "", "NewReporter")
	fFree, fOver := c.field("m3", "reporter", "freeBytes"), c.field("m3", "reporter", "overheadBytes")
	fMax := c.field("m3", "Options", "MaxPacketSizeBytes")
	if ctor == nil || fFree == nil || fOver == nil || fMax == nil {
		c.missing(rule, "m3.NewReporter / reporter.freeBytes / Options.MaxPacketSizeBytes")
		return
	}
	key := c.fnKey(ctor)
	var free, over ssa.Value
	instrsOf(ctor, func(in ssa.Instruction) {
		if st, ok := in.(*ssa.Store); ok {
			f, _ := addrField(st.Addr)
			if f == fFree {
				free = st.Val
			}
			if f == fOver {
				over = st.Val
			}
		}
	})
	ok := false
	var sub *ssa.BinOp
	if b, isB := stripConv(free).(*ssa.BinOp); isB && b.Op == token.SUB {
		sub = b
		if lf, _ := loadedField(stripConv(b.X)); lf == fMax && b.Y == over {
			ok = true
		}
	}
	c.check(ok, rule, key+":formula", ctor.Pos(), "freeBytes = MaxPacketSizeBytes - overhead", "freeBytes is not MaxPacketSizeBytes minus the envelope overhead (allowance + measured common tags)")
	// refuse freeBytes <= 0
	okGuard := false
	if sub != nil {
		for _, b := range ctor.Blocks {
			iff, isIf := condOf(b)
			if !isIf {
				continue
			}
			op, x, y, isCmp := cmpOf(iff.Cond)
			if !isCmp || stripConv(x) != ssa.Value(sub) {
				continue
			}
			k, isK := constInt(y)
			if !isK {
				continue
			}
			rej := -1
			switch {
			case op == token.LEQ && k == 0, op == token.LSS && k == 1:
				rej = 0
			case op == token.GTR && k == 0, op == token.GEQ && k == 1:
				rej = 1
			}
			if rej < 0 {
				continue
			}
			for _, r := range returnsOf(ctor) {
				if len(r.Results) == 2 && !isNilConst(r.Results[1]) && edgeDominates(b, rej, r.Block()) {
					okGuard = true
				}
			}
		}
	}
	c.check(okGuard, rule, key+":refuse", ctor.Pos(), "the constructor returns an error when freeBytes <= 0", "the constructor accepts a configuration whose free space is <= 0: every metric overflows the packet")
	// the overflow test reads reporter.freeBytes (checked in O1 by construction: CHK is only recognised over that field)
}

// checkSharedTagSlices (C12 O7 / C13): tag slices handed out by convertTags live in the tag cache
// and in every metric template built with the same tag set; a template's Tags likewise is shared
// by everything that copies the template. Appending to such a slice (or storing into one of its
// elements) writes into spare capacity that other goroutines size or emit concurrently: a bucket
// metric is then sized with another histogram's bucket tags (undercharged), or emitted with them.
// Rule: in package m3 every append base / element store target of type []MetricTag is private
// (fresh from make or a pool, or the running result of appends onto such a slice).
func (c *Ctx) checkSharedTagSlices(rule string) {
	const pk = "m3"
	conv := c.fn(pk, "reporter", "convertTags")
	if conv == nil {
		c.missing(rule, "m3.reporter.convertTags")
		return
	}
	isTagSlice := func(t types.Type) bool {
		sl, ok := t.Underlying().(*types.Slice)
		if !ok {
			return false
		}
		n, isN := sl.Elem().(*types.Named)
		return isN && n.Obj().Name() == "MetricTag"
	}
	var shared func(v ssa.Value, depth int, seen map[ssa.Value]bool) string
	shared = func(v ssa.Value, depth int, seen map[ssa.Value]bool) string {
		v = canon(stripConv(v))
		if v == nil || seen[v] || depth <= 0 {
			return ""
		}
		seen[v] = true
		switch x := v.(type) {
		case *ssa.Parameter:
			return "parameter " + x.Name() + " (the caller's slice)"
		case *ssa.Phi:
			for _, e := range x.Edges {
				if r := shared(e, depth-1, seen); r != "" {
					return r
				}
			}
		case *ssa.Slice:
			return shared(x.X, depth-1, seen)
		case *ssa.UnOp:
			if f, _ := loadedField(x); f != nil && isTagSlice(f.Type()) {
				return "field " + f.Name() + " (shared by every copy of the metric / batch)"
			}
		case *ssa.Extract:
			if call, ok := x.Tuple.(*ssa.Call); ok {
				if f := staticCallee(call); f != nil && f.Signature.Recv() != nil {
					if n, isN := deref(f.Signature.Recv().Type()).(*types.Named); isN && n.Obj().Name() == "TagCache" {
						return "tag cache entry"
					}
				}
			}
		case *ssa.Call:
			if isBuiltin(x, "append") {
				return shared(x.Call.Args[0], depth-1, seen)
			}
			f := staticCallee(x)
			if f == nil {
				return ""
			}
			if f == conv {
				return "result of convertTags (cached and shared between metrics with the same tags)"
			}
			if f.Signature.Recv() != nil {
				if n, isN := deref(f.Signature.Recv().Type()).(*types.Named); isN && n.Obj().Name() == "TagCache" {
					return "tag cache entry"
				}
			}
			if c.inModule(f) && f.Blocks != nil {
				for _, r := range returnsOf(f) {
					for _, res := range r.Results {
						if isTagSlice(res.Type()) {
							// a parameter returned by the callee is judged at this call site's argument
							if p, isP := canon(stripConv(res)).(*ssa.Parameter); isP {
								if pi := paramIndex(f, p); pi >= 0 && pi < len(x.Call.Args) {
									if rr := shared(x.Call.Args[pi], depth-1, seen); rr != "" {
										return rr
									}
								}
								continue
							}
							if rr := shared(res, depth-1, seen); rr != "" {
								return rr
							}
						}
					}
				}
			}
		}
		return ""
	}
	n := 0
	for _, fn := range c.funcsOfPkg(pk) {
		ord := 0
		instrsOf(fn, func(in ssa.Instruction) {
			switch x := in.(type) {
			case *ssa.Call:
				if !isBuiltin(x, "append") || !isTagSlice(x.Type()) {
					return
				}
				n++
				ord++
				key := fmt.Sprintf("%s:append#%d", c.fnKey(fn), ord)
				if why := shared(x.Call.Args[0], 8, map[ssa.Value]bool{}); why != "" {
					c.bad(rule, key, x.Pos(), "tags are appended in place to a slice that is not private to this call ("+why+"): when it has spare capacity the append writes into storage that other goroutines size or emit concurrently, so a metric is sized (undercharged) or emitted with another metric's tags", c.describe(x))
				} else {
					c.ok(rule, key, x.Pos(), "append base is private (fresh, pooled, or the running result of such appends)")
				}
			case *ssa.Store:
				ia, ok := x.Addr.(*ssa.IndexAddr)
				if !ok || !isTagSlice(ia.X.Type()) {
					return
				}
				n++
				ord++
				key := fmt.Sprintf("%s:element-store#%d", c.fnKey(fn), ord)
				if why := shared(ia.X, 8, map[ssa.Value]bool{}); why != "" {
					c.bad(rule, key, x.Pos(), "an element of a shared tag slice ("+why+") is overwritten", c.describe(x))
				} else {
					c.ok(rule, key, x.Pos(), "element store into a private slice")
				}
			}
		})
	}
	c.floor(rule, n, 4)
}

// checkOwnResourcePool (O8): the objects a reporter measures sizes with - the size-calculating
// protocol taken from its resource pool - are built for THIS reporter from the protocol factory it
// also emits with: the pool stored in the reporter comes out of a constructor call (every return a
// fresh allocation) that is handed the very factory value the client is built from. A pool shared
// between reporters (a package-level singleton) measures with whichever protocol came first: a Binary
// reporter then charges Compact sizes and overruns the packet limit.
func (c *Ctx) checkOwnResourcePool(rule string) {
	const pk = "m3"
	ctor := c.fn(pk, "", "NewReporter")
	fPool := c.field(pk, "reporter", "resourcePool")
	if ctor == nil || fPool == nil {
		c.missing(rule, "m3.NewReporter / reporter.resourcePool")
		return
	}
	key := c.fnKey(ctor)
	c.sawFunc(key)
	var poolVal ssa.Value
	instrsOf(ctor, func(in ssa.Instruction) {
		if st, ok := in.(*ssa.Store); ok {
			if f, _ := addrField(st.Addr); f == fPool {
				poolVal = canon(stripConv(st.Val))
			}
		}
	})
	call, isCall := poolVal.(*ssa.Call)
	if !isCall {
		c.bad(rule, key, ctor.Pos(), "the reporter's resource pool is not the result of a constructor call made in NewReporter")
		return
	}
	g := staticCallee(call)
	fresh := g != nil && c.inModule(g) && g.Blocks != nil
	if fresh {
		k := 0
		for _, r := range returnsOf(g) {
			for _, va := range resultValues(r, 0) {
				k++
				if al, ok := canon(stripConv(va.Val)).(*ssa.Alloc); !ok || al.Parent() != g {
					fresh = false
				}
			}
		}
		fresh = fresh && k > 0
	}
	if !fresh {
		c.bad(rule, key, call.Pos(), "the resource pool (which supplies the size-calculating protocol) is not freshly built for this reporter: a pool shared between reporters measures with the protocol of whichever reporter created it, so a reporter using the other wire protocol charges sizes that are too small and its datagrams exceed the configured maximum", c.describe(call))
		return
	}
	// the factory handed to the pool constructor is the one the client emits with
	var clientFac ssa.Value
	instrsOf(ctor, func(in ssa.Instruction) {
		if cc, ok := in.(*ssa.Call); ok {
			if h := staticCallee(cc); h != nil && h.Name() == "NewM3ClientFactory" && len(cc.Call.Args) == 2 {
				clientFac = canon(stripConv(cc.Call.Args[1]))
			}
		}
	})
	same := false
	for _, a := range call.Call.Args {
		if clientFac != nil && canon(stripConv(a)) == clientFac {
			same = true
		}
	}
	c.check(same, rule, key, call.Pos(), "the pool is built in NewReporter from the same protocol factory the client emits with",
		"the resource pool is not built from the protocol factory the client emits with: sizes are measured with a different wire protocol than the one used on the wire", c.describe(call))
}

// checkBucketOwnTemplate (O4b): every bucket handle of a cached histogram has a metric template of its
// own, allocated in the iteration that builds the handle. The size charged for a bucket is written into
// that template; one template shared by all buckets is charged the size of whichever bucket was sized
// last while each bucket emits its own (possibly longer) tags.
func (c *Ctx) checkBucketOwnTemplate(rule string) {
	const pk = "m3"
	fM := c.field(pk, "cachedHistogramBucket", "metric")
	fn := c.fn(pk, "reporter", "AllocateHistogram")
	if fM == nil || fn == nil {
		c.missing(rule, "m3.cachedHistogramBucket.metric / reporter.AllocateHistogram")
		return
	}
	key := c.fnKey(fn)
	c.sawFunc(key)
	n := 0
	okAll := true
	instrsOf(fn, func(in ssa.Instruction) {
		st, ok := in.(*ssa.Store)
		if !ok {
			return
		}
		if f, _ := addrField(st.Addr); f != fM {
			return
		}
		n++
		lp := innermostLoop(loopsOf(fn), st.Block())
		al, isAl := stripConv(st.Val).(*ssa.Alloc)
		switch {
		case lp == nil:
			okAll = false
			c.bad(rule, key, st.Pos(), "the bucket handle is not built inside the per-bucket loop", c.describe(st))
		case !isAl:
			okAll = false
			c.bad(rule, key, st.Pos(), "the bucket handle's metric template is not a variable allocated by this function", c.describe(st))
		case !lp.Blocks[al.Block()]:
			okAll = false
			c.bad(rule, key, st.Pos(), "all bucket handles share one metric template (it is allocated outside the per-bucket loop): the size written for each bucket overwrites the previous one, so every bucket is charged the size of the last bucket while it emits its own tags - packets fill beyond the limit", c.describe(st), "template: "+c.describe(al))
		}
	})
	if n == 0 {
		c.bad(rule, key, fn.Pos(), "no bucket handle receives a metric template")
		return
	}
	if okAll {
		c.ok(rule, key, fn.Pos(), "each bucket handle gets a metric template allocated in its own iteration")
	}
}

// checkPooledSlicesDisjoint (O7): every slice the resource pools hand out owns its whole capacity: the
// allocator literals of newResourcePool return freshly made slices (or three-index slices whose capacity
// is capped). A window cut out of a shared block with a two-index slice keeps the capacity to the end of
// the block: appending an 11th tag does not reallocate but writes into the next pooled slice, so two
// tag sets (or the common tags and a metric's tags) overwrite each other after they were sized.
func (c *Ctx) checkPooledSlicesDisjoint(rule string) {
	fn := c.fn("m3", "", "newResourcePool")
	if fn == nil {
		c.missing(rule, "m3.newResourcePool")
		return
	}
	key := c.fnKey(fn)
	c.sawFunc(key)
	n := 0
	okAll := true
	// the allocators: the function literals of the constructor and the named functions of the
	// package it passes along as values (func() T)
	allocators := append([]*ssa.Function(nil), fn.AnonFuncs...)
	seenAlloc := map[*ssa.Function]bool{}
	for _, l := range allocators {
		seenAlloc[l] = true
	}
	instrsOf(fn, func(in ssa.Instruction) {
		for _, op := range in.Operands(nil) {
			if op == nil || *op == nil {
				continue
			}
			g, isFn := stripConv(*op).(*ssa.Function)
			if !isFn || g.Blocks == nil || g.Pkg != fn.Pkg || seenAlloc[g] {
				continue
			}
			if call, isCall := in.(ssa.CallInstruction); isCall && call.Common().Value == *op {
				continue // called, not passed along
			}
			if g.Signature.Params().Len() == 0 && g.Signature.Results().Len() == 1 && g.Signature.Recv() == nil {
				seenAlloc[g] = true
				allocators = append(allocators, g)
			}
		}
	})
	for _, lit := range allocators {
		rets := returnsOf(lit)
		isSlice := false
		for _, r := range rets {
			if len(r.Results) == 0 {
				continue
			}
			for _, va := range resultValues(r, 0) {
				v := stripConv(va.Val)
				if _, ok := v.Type().Underlying().(*types.Slice); !ok {
					continue
				}
				isSlice = true
				var bad func(v ssa.Value, d int) string
				bad = func(v ssa.Value, d int) string {
					v = stripConv(v)
					if d == 0 {
						return "origin not traced"
					}
					switch x := v.(type) {
					case *ssa.MakeSlice:
						return ""
					case *ssa.Slice:
						if x.Max != nil {
							return "" // capacity capped
						}
						if al, isAl := x.X.(*ssa.Alloc); isAl && al.Parent() == lit {
							return "" // a literal of the allocator itself
						}
						return "a two-index slice of storage shared between the pooled slices (its capacity runs to the end of that storage)"
					case *ssa.Phi:
						for _, e := range x.Edges {
							if w := bad(e, d-1); w != "" {
								return w
							}
						}
						return ""
					case *ssa.UnOp:
						if x.Op == token.MUL {
							if al, isAl := x.X.(*ssa.Alloc); isAl && al.Referrers() != nil {
								for _, rr := range *al.Referrers() {
									if st, isSt := rr.(*ssa.Store); isSt && st.Addr == ssa.Value(al) {
										if w := bad(st.Val, d-1); w != "" {
											return w
										}
									}
								}
								return ""
							}
						}
					}
					return fmt.Sprintf("not a freshly made slice (%T)", v)
				}
				if w := bad(v, 6); w != "" {
					okAll = false
					c.bad(rule, c.fnKey(lit), va.At.Pos(), "a pool allocator hands out "+w+": an append beyond the slice's intended size does not reallocate but overwrites the neighbouring pooled slice - tags of another metric (or the common tags) change after the sizes were computed", c.describe(va.At))
				}
			}
		}
		if isSlice {
			n++
		}
	}
	if okAll {
		c.ok(rule, key, fn.Pos(), fmt.Sprintf("the %d slice allocators of the resource pool return freshly made (or capacity-capped) slices", n))
	}
	c.floor(rule, n, 2)
}
