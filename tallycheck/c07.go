package main

import (
	"fmt"
	"go/token"
	"go/types"
	"sort"

	"golang.org/x/tools/go/ssa"
)

func init() { register("C07", checkC07) }

// fieldNonNilCond recognises `X.<fld> != nil` (any base); returns (match, nonNilOnTrue).
func fieldNonNilCond(fld *types.Var) func(ssa.Value) (bool, bool) {
	return func(cond ssa.Value) (bool, bool) {
		op, x, y, ok := cmpOf(cond)
		if !ok {
			return false, false
		}
		if isNilConst(x) {
			x, y = y, x
		}
		if !isNilConst(y) {
			return false, false
		}
		f, _ := loadedField(stripConv(x))
		if f != fld {
			return false, false
		}
		return true, op == token.NEQ
	}
}

func checkC07(c *Ctx) {
	c.Explanation = "Decides the structure of subscope closing: (O1) wherever a scope's metrics are cleared, the closed flag that decides it was sampled before that scope was reported (so everything recorded before Close is covered by the report); (O2) every clearMetrics outside the root shutdown is preceded on all paths by a report of that same scope (report dispatch on the configured reporter); (O3) every deletion from a registry bucket is gap-safe: either the key was obtained from the map inside the same uninterrupted write-locked region, or the delete is conditional on the key still mapping to the scope the caller supplied, and each caller supplies the scope it looked up and reported; (O4) Subscope returns the inert scope when root or parent is closed before any lookup, Close flips the flag by compare-and-swap and closes the done channel only on success; (O5) lock pairing (no lock leaked on any path) and lock-order acyclicity for package tally; (O6) a scope that Subscope returns out of a registry lookup was observed not closed (or is a test scope); (O7) a replacement scope is inserted only after a re-check under the write lock (miss, or dead entry replaced), and the unsafe lookup key is backed by storage private to the call."
	c.NotDecided = []string{"the quantitative 'exactly once' across re-acquire cycles", "liveness"}
	c.Assumptions = append(c.Assumptions, "Go atomics are sequentially consistent", "Go RWMutex semantics")

	fClosed := c.field("", "scope", "closed")
	fBucketMap := c.field("", "scopeBucket", "s")
	clearFn := c.fn("", "scope", "clearMetrics")
	if fClosed == nil || fBucketMap == nil || clearFn == nil {
		c.missing("O1 flag-before-report", "tally.scope.closed / scopeBucket.s / scope.clearMetrics")
		return
	}
	c.checkReportBeforeClear("O1 flag-before-report", "O2 report-before-clear")

	// ---- O3 gap-safe deletion -----------------------------------------------------------------------
	eng := c.newLockEngine()
	c.checkGapSafeDeletes("O3 lock-gap", fBucketMap, eng, clearFn)

	// ---- O4 inert scope / Close -----------------------------------------------------------------------
	c.checkInertAndClose("O4 inert-and-close", fClosed)

	// ---- O6 a scope handed out by the registry is live ----------------------------------------------------
	c.checkLiveHandout("O6 live-handout")

	// ---- O7 a re-acquired scope stays registered: created under the write lock only after a re-check
	// made under that lock (shared with C09 O1); the unsafe lookup key stays private (C09 O4)
	c.checkDoubleChecked("O7 double-checked", eng)
	c.checkPrivateKeyBuffer("O7 private-key-buffer")

	// ---- O8 a scope's mutable state is its own
	c.checkFreshScopeState("O8 fresh-state")
	c.checkDerivationThroughRegistry("O4 through-registry")
	// a scope leaves the registry only through a checked deletion: the shard maps themselves are never
	// replaced (a rebuilt map that leaves closed-but-unreported scopes behind drops what they recorded)
	c.checkSetOnlyAtConstruction("O2 shard-map-fixed", "", "scopeBucket", "s")
	// a handle to a dropped scope stays a handle to THAT (inert) scope: every scope Subscope hands out is an
	// entry of the shard map or newly created, never a recycled object (shared with C04 O2 / C05 O1)
	c.checkSubscopeSource("O8 scope-source")
	// the passes (also the final one before the purge) visit every shard and every scope - no try-lock that
	// skips a busy shard (shared with C01 O8)
	c.checkRegistryPassCoverage("O2 registry-coverage", "Report", "report")
	c.checkRegistryPassCoverage("O2 registry-coverage", "CachedReport", "cachedReport")

	// ---- O5 ------------------------------------------------------------------------------------------
	c.checkLockPairing("O5 lock-pairing", []string{""}, eng, 12)
	c.checkLockOrder("O5 lock-order", []string{""}, eng)
}

func (c *Ctx) checkGapSafeDeletes(rule string, fMap *types.Var, eng *lockEngine, clearFn *ssa.Function) {
	n := 0
	type validated struct {
		fn       *ssa.Function
		expParam int
	}
	var helpers []validated
	for _, fn := range c.funcsOfPkg("") {
		instrsOf(fn, func(in ssa.Instruction) {
			call, ok := in.(*ssa.Call)
			if !ok || !isBuiltin(call, "delete") {
				return
			}
			f, base := loadedField(call.Call.Args[0])
			if f != fMap {
				return
			}
			n++
			key := c.fnKey(fn)
			c.sawFunc(key)
			lockPath := accessPath(base) + ".mu"
			k := call.Call.Args[1]
			var lock ssa.Instruction
			instrsOf(fn, func(i ssa.Instruction) {
				if op := lockOpOf(i); op != nil && op.Op == "Lock" && op.Path == lockPath {
					if _, isDefer := i.(*ssa.Defer); !isDefer && dominates(i, in) {
						lock = i
					}
				}
			})
			if lock == nil || eng.heldAt(in)[lockPath] != 'W' {
				c.bad(rule, key, in.Pos(), "a scope is deleted from a registry bucket without holding the bucket's write lock", c.describe(in))
				return
			}
			// (a) key from a range over the same map inside the region
			if ex, isEx := canon(k).(*ssa.Extract); isEx {
				if nx, isNx := ex.Tuple.(*ssa.Next); isNx {
					if rg, isRg := nx.Iter.(*ssa.Range); isRg {
						if rf, rb := loadedField(rg.X); rf == fMap && accessPath(rb) == accessPath(base) && dominates(lock, rg) {
							c.ok(rule, key, in.Pos(), "the deleted key comes from iterating the map inside the same write-locked region")
							return
						}
					}
				}
			}
			// (b) conditional on M[k] == expected (a parameter), evaluated after the lock
			okB := false
			for _, l := range c.lookupsIn(fn) {
				if l.fld != fMap || accessPath(l.base) != accessPath(base) || canon(l.key) != canon(k) {
					continue
				}
				if !dominates(lock, l.at) || !dominates(l.at, in) {
					continue
				}
				// the value found
				var found ssa.Value
				if v, isV := l.at.(ssa.Value); isV && v.Referrers() != nil {
					for _, r := range *v.Referrers() {
						if e, isE := r.(*ssa.Extract); isE && e.Index == 0 {
							found = e
						}
					}
				}
				if found == nil {
					continue
				}
				g := guardedByEdge(in, func(cond ssa.Value) (bool, bool) {
					op, x, y, ok := cmpOf(cond)
					if !ok || (op != token.EQL && op != token.NEQ) {
						return false, false
					}
					if canon(y) == found {
						x, y = y, x
					}
					if canon(x) != found {
						return false, false
					}
					if paramIndex(fn, canon(y)) < 0 {
						return false, false
					}
					return true, op == token.EQL
				})
				if g != nil {
					okB = true
					// which parameter is "expected"
					op, x, y, _ := cmpOf(g.Cond)
					_ = op
					exp := canon(y)
					if canon(y) == found {
						exp = canon(x)
					}
					helpers = append(helpers, validated{fn, paramIndex(fn, exp)})
				}
			}
			// (c) the key was looked up inside the same uninterrupted write-locked region and the delete
			// is made on the hit edge of that lookup: the entry removed is the one just found
			for _, l := range c.lookupsIn(fn) {
				if l.fld != fMap || accessPath(l.base) != accessPath(base) || canon(l.key) != canon(k) || l.ok == nil {
					continue
				}
				if !dominates(lock, l.at) || !dominates(l.at, in) {
					continue
				}
				if guardedByEdge(in, boolValueCond(l.ok)) == nil || c.lockReleasedBetween(l.at, in, lockPath) {
					continue
				}
				// the victim must be the entry found: this function itself clears the very scope it found
				// (a helper that is handed the victim by its caller has to compare identities instead: form b)
				var found ssa.Value
				if v, isV := l.at.(ssa.Value); isV && v.Referrers() != nil {
					for _, r := range *v.Referrers() {
						if e, isE := r.(*ssa.Extract); isE && e.Index == 0 {
							found = e
						}
					}
				}
				clearsFound := false
				instrsOf(fn, func(i ssa.Instruction) {
					if call, isCall := i.(*ssa.Call); isCall && staticCallee(call) == clearFn && found != nil && canon(call.Call.Args[0]) == found {
						clearsFound = true
					}
				})
				if !clearsFound {
					continue
				}
				c.ok(rule, key, in.Pos(), "the deleted key was looked up (hit) inside the same uninterrupted write-locked region, and the entry found is the scope this function clears")
				return
			}
			if okB {
				c.ok(rule, key, in.Pos(), "delete is conditional on the key still mapping to the scope supplied by the caller (re-validated under the write lock)")
				return
			}
			c.bad(rule, key, in.Pos(), "a registry entry is deleted by key after the lock under which the victim was found has been released and re-taken, without re-validating that the key still maps to that scope: a live scope re-created under the same key in the gap is unregistered and everything recorded on it afterwards is never reported", c.describe(in), "write lock: "+c.describe(lock))
		})
	}
	c.floor(rule, n, 2)
	// callers pass the scope they iterated / looked up and then clear
	sites := c.staticCallSites()
	nSites := 0
	for _, h := range helpers {
		if dyn := c.dynamicCallers(h.fn); len(dyn) > 0 {
			c.bad(rule+"-caller", c.fnKey(h.fn)+":closed-world", dyn[0].Pos(), "the re-validating delete helper can be reached through an interface or function value (VTA call graph): the scope its callers pass cannot be checked", c.describe(dyn[0].(ssa.Instruction)))
		}
		for _, cs := range sites[h.fn] {
			nSites++
			caller := cs.Parent()
			key := c.fnKey(h.fn) + "@" + c.fnKey(caller)
			arg := canon(cs.Common().Args[h.expParam])
			// the same value must be what the caller clears afterwards
			okSame := false
			instrsOf(caller, func(in ssa.Instruction) {
				if call, ok := in.(*ssa.Call); ok && staticCallee(call) == clearFn && canon(call.Call.Args[0]) == arg {
					okSame = true
				}
			})
			c.check(okSame, rule+"-caller", key+fmt.Sprintf("#%d", nSites), cs.Pos(), "the caller supplies the very scope it reported and clears",
				"the scope passed for re-validation is not the scope this caller reported and clears: the identity check protects the wrong entry", c.describe(cs.(ssa.Instruction)))
		}
	}
	if len(helpers) > 0 {
		c.floor(rule+"-caller", nSites, 2)
	}
}

// checkLiveHandout: every scope that scopeRegistry.Subscope returns after finding it in a registry
// bucket is returned only on paths that observed that very scope's closed flag not set (or the
// scope is a test scope, which is never dropped). A closed scope is only waiting to be unregistered
// and cleared by the next pass: handing it out gives the caller a scope that does not stay
// registered, under whichever key (raw or sanitized spelling) it was found.
func (c *Ctx) checkLiveHandout(rule string) {
	fClosed, fTest := c.field("", "scope", "closed"), c.field("", "scope", "testScope")
	fn := c.fn("", "scopeRegistry", "Subscope")
	if fClosed == nil || fTest == nil || fn == nil {
		c.missing(rule, "tally.scopeRegistry.Subscope / scope.closed / scope.testScope")
		return
	}
	c.sawFunc(c.fnKey(fn))
	lookups := c.lookupsIn(fn)
	found := map[ssa.Value]*mapLookup{}
	for i := range lookups {
		l := &lookups[i]
		if v, isV := l.at.(ssa.Value); isV && v.Referrers() != nil {
			for _, r := range *v.Referrers() {
				if e, isE := r.(*ssa.Extract); isE && e.Index == 0 {
					found[e] = l
				}
			}
		}
	}
	// expand phis: a value committed at the end of the predecessor it flows in from
	var expand func(va valAt, depth int) []valAt
	expand = func(va valAt, depth int) []valAt {
		phi, ok := canon(va.Val).(*ssa.Phi)
		if !ok || depth == 0 {
			return []valAt{{canon(va.Val), va.At}}
		}
		var out []valAt
		for i, e := range phi.Edges {
			pred := phi.Block().Preds[i]
			out = append(out, expand(valAt{e, pred.Instrs[len(pred.Instrs)-1]}, depth-1)...)
		}
		return out
	}
	n := 0
	for _, r := range returnsOf(fn) {
		for _, va0 := range resultValues(r, 0) {
			for _, va := range expand(va0, 3) {
				l := found[va.Val]
				if l == nil {
					continue
				}
				n++
				key := fmt.Sprintf("%s#%d", c.fnKey(fn), n)
				// edges that establish "live": closed flag of this scope observed not set, or testScope set
				skip := map[*ssa.BasicBlock]int{}
				for _, b := range fn.Blocks {
					iff, ok := condOf(b)
					if !ok {
						continue
					}
					cond, neg := ssa.Value(iff.Cond), false
					for {
						if u, isU := cond.(*ssa.UnOp); isU && u.Op == token.NOT {
							neg, cond = !neg, u.X
							continue
						}
						break
					}
					if ci, isI := cond.(ssa.Instruction); isI {
						if op := atomicOpOf(ci); op != nil && op.Field == fClosed && op.Kind == "load" && canon(op.Base) == va.Val {
							skip[b] = b2i(!neg) // the "not closed" outcome
							continue
						}
					}
					if f, base := loadedField(cond); f == fTest && canon(base) == va.Val {
						skip[b] = b2i(neg)
					}
				}
				at := va.At
				esc := reachAvoidingF(l.at, false, skip, func(i ssa.Instruction) bool { return i == at }, nil)
				c.check(esc == nil, rule, key, at.Pos(), "a scope found in the registry is returned only after its closed flag was observed not set (or it is a test scope)",
					"a scope found in the registry is returned on a path that never observed its closed flag not set: a scope that was closed and is waiting to be dropped is handed out, the next pass unregisters and clears it, and everything recorded on it afterwards is lost",
					"lookup: "+c.describe(l.at), "returned at: "+c.describe(at))
			}
		}
	}
	c.floor(rule, n, 2)
}

func (c *Ctx) checkInertAndClose(rule string, fClosed *types.Var) {
	// Subscope: inert when root or parent closed, before any lookup
	if fn := c.fn("", "scopeRegistry", "Subscope"); fn != nil {
		key := c.fnKey(fn)
		c.sawFunc(key)
		var loads []ssa.Value
		instrsOf(fn, func(in ssa.Instruction) {
			if op := atomicOpOf(in); op != nil && op.Field == fClosed && op.Kind == "load" {
				r := canon(rootOf(op.Base))
				if paramIndex(fn, r) >= 0 { // r.root.closed (receiver) or parent.closed
					if v, ok := in.(ssa.Value); ok {
						loads = append(loads, v)
					}
				}
			}
		})
		// need one load rooted at the receiver (root) and one at the parent parameter, both guarding all lookups
		rootSeen, parentSeen := false, false
		okAll := true
		lookups := c.lookupsIn(fn)
		for _, lv := range loads {
			op := atomicOpOf(lv.(ssa.Instruction))
			pi := paramIndex(fn, canon(rootOf(op.Base)))
			guardsAll := len(lookups) > 0
			for _, l := range lookups {
				if guardedByEdge(l.at, func(cond ssa.Value) (bool, bool) { m, t := boolValueCond(lv)(cond); return m, !t }) == nil {
					guardsAll = false
				}
			}
			if guardsAll {
				if pi == 0 {
					rootSeen = true
				} else {
					parentSeen = true
				}
			}
		}
		if !rootSeen || !parentSeen {
			okAll = false
		}
		// the closed outcome returns the inert scope (NoopScope)
		retNoop := false
		for _, r := range returnsOf(fn) {
			for _, va := range resultValues(r, 0) {
				if ta, isTA := stripConv(va.Val).(*ssa.TypeAssert); isTA {
					if ld, isLd := ta.X.(*ssa.UnOp); isLd {
						if g, isG := ld.X.(*ssa.Global); isG && g.Name() == "NoopScope" {
							retNoop = true
						}
					}
				}
			}
		}
		c.check(okAll && retNoop, rule, key, fn.Pos(), "root.closed and parent.closed are tested before any registry lookup; the closed outcome returns the inert scope",
			"Subscope does not return the inert scope for a closed root or parent before touching the registry: scopes derived from a closed scope are registered (and leak, or resurrect a closed identity)")
	} else {
		c.missing(rule, "tally.scopeRegistry.Subscope")
	}
	// Close: CAS; close(done) only on success; failed CAS returns nil
	if fn := c.fn("", "scope", "Close"); fn != nil {
		key := c.fnKey(fn)
		c.sawFunc(key)
		var cas ssa.Value
		var casI ssa.Instruction
		instrsOf(fn, func(in ssa.Instruction) {
			if op := atomicOpOf(in); op != nil && op.Field == fClosed {
				switch op.Kind {
				case "cas":
					cas, _ = in.(ssa.Value)
					casI = in
				case "store", "swap":
					casI = in
				}
			}
		})
		ok := cas != nil
		why := "Close sets the closed flag by a plain store/swap instead of a compare-and-swap whose success is tested: two Close calls both close the done channel (panic: close of closed channel)"
		if casI == nil {
			why = "Close does not set the closed flag"
		}
		if ok {
			nClose := 0
			for _, co := range chanOpsOf(fn) {
				if co.Kind == "close" {
					nClose++
					if guardedByEdge(co.Instr, boolValueCond(cas)) == nil {
						ok = false
						why = "the done channel is closed on a path where the compare-and-swap did not succeed (double close panics)"
					}
				}
			}
			if nClose != 1 {
				ok = false
				why = fmt.Sprintf("Close closes a channel at %d sites (the done channel must be closed exactly once, on CAS success)", nClose)
			}
			for _, r := range returnsOf(fn) {
				if guardedByEdge(r, func(cond ssa.Value) (bool, bool) { m, t := boolValueCond(cas)(cond); return m, !t }) != nil {
					for _, va := range resultValues(r, 0) {
						if !isNilConst(va.Val) {
							ok = false
							why = "a repeated Close does not return nil"
						}
					}
				}
			}
		}
		c.check(ok, rule, key, fn.Pos(), "closed flipped by CAS(false,true); done closed once, on success only; repeated Close returns nil", why)
	} else {
		c.missing(rule, "tally.scope.Close")
	}
}

// checkReportBeforeClear (C07 O1/O2; also armed by C01 as "no loss on close"): wherever a scope's
// metrics are cleared outside the root shutdown, the same scope was reported first on every
// branch-consistent path, and the closed-flag sample that decides the removal precedes that report.
func (c *Ctx) checkReportBeforeClear(ruleO1, ruleO2 string) {
	fClosed := c.field("", "scope", "closed")
	fRoot := c.field("", "scopeRegistry", "root")
	fRep, fCRep := c.field("", "scope", "reporter"), c.field("", "scope", "cachedReporter")
	fBucketMap := c.field("", "scopeBucket", "s")
	clearFn := c.fn("", "scope", "clearMetrics")
	repFn, crepFn := c.fn("", "scope", "report"), c.fn("", "scope", "cachedReport")
	if fClosed == nil || fRoot == nil || fRep == nil || fCRep == nil || fBucketMap == nil || clearFn == nil || repFn == nil || crepFn == nil {
		c.missing(ruleO1, "tally.scope{closed,reporter,cachedReporter,clearMetrics,report,cachedReport} / scopeRegistry.root / scopeBucket.s")
		return
	}
	sitesAll := c.staticCallSites()
	// reportsItsParam: f is a function (or closure) whose every path calls report/cachedReport on
	// its first parameter
	var reportsParam func(f *ssa.Function, pi int) bool
	reportsItsParam := func(f *ssa.Function) bool { return reportsParam(f, 0) }
	reportsParam = func(f *ssa.Function, pi int) bool {
		if f == nil || f.Blocks == nil || len(f.Params) <= pi {
			return false
		}
		p0 := ssa.Value(f.Params[pi])
		l := c.newLifter(func(in ssa.Instruction) bool {
			call, ok := in.(*ssa.Call)
			if !ok {
				return false
			}
			g := staticCallee(call)
			return (g == repFn || g == crepFn) && canon(call.Call.Args[0]) == p0
		}, 1)
		e := entryInstr(f)
		return e != nil && reachAvoiding(e, true, isReturn, l.Must) == nil
	}
	isReportOf := func(S ssa.Value) Pred {
		return func(in ssa.Instruction) bool {
			call, ok := in.(*ssa.Call)
			if !ok {
				return false
			}
			g := staticCallee(call)
			if (g == repFn || g == crepFn) && canon(call.Call.Args[0]) == canon(S) {
				return true
			}
			// a function literal / helper that is handed the scope and reports it on every path
			if g != nil && g != repFn && g != crepFn && c.inModule(g) {
				for i, a := range call.Call.Args {
					if canon(a) == canon(S) && reportsParam(g, i) {
						return true
					}
				}
			}
			// report dispatch through a function-typed parameter: every caller must pass a function
			// that reports its argument
			if g == nil && !call.Call.IsInvoke() && len(call.Call.Args) >= 1 && canon(call.Call.Args[0]) == canon(S) {
				fn := in.Parent()
				pi := paramIndex(fn, canon(call.Call.Value))
				if pi < 0 || len(sitesAll[fn]) == 0 {
					return false
				}
				for _, cs := range sitesAll[fn] {
					var target *ssa.Function
					switch a := cs.Common().Args[pi].(type) {
					case *ssa.MakeClosure:
						target, _ = a.Fn.(*ssa.Function)
					case *ssa.Function:
						target = a
					}
					if !reportsItsParam(target) {
						return false
					}
				}
				return true
			}
			return false
		}
	}
	// ---- O1 / O2 -----------------------------------------------------------------------------
	nClear := 0
	for _, fn := range c.funcsOfPkg("") {
		var clears []*ssa.Call
		instrsOf(fn, func(in ssa.Instruction) {
			if call, ok := in.(*ssa.Call); ok && staticCallee(call) == clearFn {
				clears = append(clears, call)
			}
		})
		if len(clears) == 0 {
			continue
		}
		c.sawFunc(c.fnKey(fn))
		// "no reporter configured" edges: the false edge of `cachedReporter != nil` reached only after
		// `reporter != nil` was false (nothing can be delivered there)
		skip := map[*ssa.BasicBlock]int{}
		for _, b := range fn.Blocks {
			iff, ok := condOf(b)
			if !ok {
				continue
			}
			if m, nn := fieldNonNilCond(fCRep)(iff.Cond); m {
				for _, b2 := range fn.Blocks {
					if iff2, ok2 := condOf(b2); ok2 {
						if m2, nn2 := fieldNonNilCond(fRep)(iff2.Cond); m2 {
							idx2 := 0
							if nn2 {
								idx2 = 1
							}
							if edgeDominates(b2, idx2, b) || (b2.Succs[idx2] == b) {
								if nn {
									skip[b] = 1
								} else {
									skip[b] = 0
								}
							}
						}
					}
				}
			}
		}
		for i, cl := range clears {
			nClear++
			key := fmt.Sprintf("%s#%d", c.fnKey(fn), i)
			S := cl.Call.Args[0]
			// root shutdown: guarded by `<registry>.root.closed` being set
			shutdown := guardedByEdge(cl, func(cond ssa.Value) (bool, bool) {
				neg := false
				for {
					if u, ok := cond.(*ssa.UnOp); ok && u.Op == token.NOT {
						neg = !neg
						cond = u.X
						continue
					}
					break
				}
				call, ok := cond.(*ssa.Call)
				if !ok {
					return false, false
				}
				op := atomicOpOf(call)
				if op == nil || op.Field != fClosed || op.Kind != "load" {
					return false, false
				}
				if f, _ := loadedField(op.Base); f != fRoot {
					return false, false
				}
				return true, !neg
			}) != nil
			if shutdown {
				c.ok(ruleO2, key, cl.Pos(), "root shutdown purge (allowed only from Close after the final report: C08 O3)")
				continue
			}
			// O2: every path to the clear passes a report of S
			entry := entryInstr(fn)
			rep := isReportOf(S)
			if esc := reachAvoidingCorr(entry, true, skip, func(i ssa.Instruction) bool { return i == ssa.Instruction(cl) }, rep); esc != nil {
				c.bad(ruleO2, key, cl.Pos(), "a scope's metrics are cleared on a path on which that scope has not been reported first: what was recorded since the last pass is lost", c.describe(cl))
				continue
			}
			c.ok(ruleO2, key, cl.Pos(), "every path to clearMetrics reports the same scope first")
			// ... and the closed scope is unregistered: every path to the clear passes a removal from a
			// registry bucket (a delete, or a call of a function that deletes from a bucket map). A closed
			// scope that is cleared but stays registered is reported and cleared again by every pass and
			// is found (and reported, and replaced) again by every later request for its identity.
			removal := c.newLifter(func(in ssa.Instruction) bool {
				call, ok := in.(*ssa.Call)
				if !ok || !isBuiltin(call, "delete") {
					return false
				}
				f, _ := loadedField(call.Call.Args[0])
				return f == fBucketMap
			}, 2)
			overwrite := func(in ssa.Instruction) bool {
				if removal.May(in) {
					return true
				}
				mu, ok := in.(*ssa.MapUpdate)
				if !ok {
					return false
				}
				f, _ := loadedField(mu.Map)
				return f == fBucketMap // the entry is replaced by a new scope
			}
			before := reachAvoidingCorr(entry, true, skip, func(i ssa.Instruction) bool { return i == ssa.Instruction(cl) }, removal.May) == nil
			after := reachAvoiding(cl, false, isReturn, overwrite) == nil
			if !before && !after {
				c.bad(ruleO2+"/dropped-after-report", key, cl.Pos(), "a closed scope's metrics are cleared on a path on which its registry entry is not removed: the scope is never dropped (it is reported and cleared again by every pass, and re-acquiring its identity finds it again)", c.describe(cl))
			} else {
				c.ok(ruleO2+"/dropped-after-report", key, cl.Pos(), "the scope that is cleared is also removed from its registry bucket")
			}
			// O1: the deciding flag sample dominates the report(s)
			var deciding ssa.Instruction
			instrsOf(fn, func(in ssa.Instruction) {
				op := atomicOpOf(in)
				if op == nil || op.Field != fClosed || op.Kind != "load" || canon(op.Base) != canon(S) {
					return
				}
				lv, isV := in.(ssa.Value)
				if !isV {
					return
				}
				// the load decides the clear iff no (branch-consistent) path reaches the clear without
				// taking the "flag is set" outcome of a test of this load
				skip2 := map[*ssa.BasicBlock]int{}
				for k, v := range skip {
					skip2[k] = v
				}
				tested := false
				for _, b := range fn.Blocks {
					if iff, ok := condOf(b); ok {
						if m, onTrue := boolValueCond(lv)(iff.Cond); m {
							tested = true
							if onTrue {
								skip2[b] = 0
							} else {
								skip2[b] = 1
							}
						}
					}
				}
				if tested && reachAvoidingCorr(entry, true, skip2, func(i ssa.Instruction) bool { return i == ssa.Instruction(cl) }, nil) == nil {
					deciding = in
				}
			})
			if deciding == nil {
				c.bad(ruleO1, key, cl.Pos(), "clearing a scope's metrics is not decided by a load of that scope's closed flag", c.describe(cl))
				continue
			}
			okOrder := true
			var late ssa.Instruction
			instrsOf(fn, func(in ssa.Instruction) {
				if rep(in) && !dominates(deciding, in) {
					// a report of S that is not preceded by the deciding sample and can reach the clear
					if reachAvoiding(in, false, func(i ssa.Instruction) bool { return i == ssa.Instruction(cl) }, nil) != nil {
						okOrder = false
						late = in
					}
				}
			})
			if !okOrder {
				c.bad(ruleO1, key, deciding.Pos(), "the closed flag that decides the removal is read after the scope was reported: increments made between that report and a Close landing before the flag read are cleared without ever being delivered",
					"report: "+c.describe(late), "flag read: "+c.describe(deciding), "clear: "+c.describe(cl))
			} else {
				c.ok(ruleO1, key, deciding.Pos(), "the closed flag is sampled before the scope is reported and that sample decides the removal")
			}
		}
	}
	c.floor(ruleO2, nClear, 2)

}

// checkFreshScopeState: the mutable state of a newly built scope - its metric tables, the slices the
// cached pass walks, its done channel - is allocated for that scope alone. State taken over from
// another scope (the closed scope it replaces, the parent) is shared between two objects that guard it
// with different mutexes and clear it independently: clearing the dropped scope wipes the live one.
func (c *Ctx) checkFreshScopeState(rule string) {
	scopeT := c.named("", "scope")
	if scopeT == nil {
		c.missing(rule, "tally.scope")
		return
	}
	want := []string{"counters", "countersSlice", "gauges", "gaugesSlice", "histograms", "histogramsSlice", "timers", "done"}
	n := 0
	var freshVal func(v ssa.Value, depth int) bool
	freshVal = func(v ssa.Value, depth int) bool {
		if depth == 0 {
			return false
		}
		switch x := canon(stripConv(v)).(type) {
		case *ssa.MakeMap, *ssa.MakeSlice, *ssa.MakeChan:
			return true
		case *ssa.Slice:
			if al, ok := x.X.(*ssa.Alloc); ok {
				_, isArr := deref(al.Type()).Underlying().(*types.Array)
				return isArr
			}
		case *ssa.Phi:
			for _, e := range x.Edges {
				if !freshVal(e, depth-1) {
					return false
				}
			}
			return len(x.Edges) > 0
		case *ssa.Call:
			g := staticCallee(x)
			if g == nil || !c.inModule(g) || g.Blocks == nil || g.Signature.Results().Len() != 1 {
				return false
			}
			k := 0
			for _, r := range returnsOf(g) {
				for _, va := range resultValues(r, 0) {
					k++
					if !freshVal(va.Val, depth-1) {
						return false
					}
				}
			}
			return k > 0
		case *ssa.Extract:
			call, ok := x.Tuple.(*ssa.Call)
			if !ok {
				return false
			}
			g := staticCallee(call)
			if g == nil || !c.inModule(g) || g.Blocks == nil {
				return false
			}
			k := 0
			for _, r := range returnsOf(g) {
				if x.Index >= len(r.Results) {
					return false
				}
				for _, va := range resultValues(r, x.Index) {
					k++
					if !freshVal(va.Val, depth-1) {
						return false
					}
				}
			}
			return k > 0
		}
		return false
	}
	for _, fn := range c.funcsOfPkg("") {
		// scope literals built in this function
		var lits []*ssa.Alloc
		instrsOf(fn, func(in ssa.Instruction) {
			if al, ok := in.(*ssa.Alloc); ok && al.Heap && deref(al.Type()) == types.Type(scopeT) {
				lits = append(lits, al)
			}
		})
		for _, lit := range lits {
			stores := map[string]*ssa.Store{}
			if lit.Referrers() == nil {
				continue
			}
			for _, r := range *lit.Referrers() {
				fa, ok := r.(*ssa.FieldAddr)
				if !ok || fa.Referrers() == nil {
					continue
				}
				f := structFieldOf(fa.X.Type(), fa.Field)
				for _, u := range *fa.Referrers() {
					if st, isSt := u.(*ssa.Store); isSt && st.Addr == ssa.Value(fa) && f != nil {
						stores[f.Name()] = st
					}
				}
			}
			if stores["counters"] == nil && stores["gauges"] == nil {
				continue // not a functional scope (e.g. the no-op scope is built elsewhere)
			}
			n++
			key := fmt.Sprintf("%s:scope#%d", c.fnKey(fn), n)
			c.sawFunc(c.fnKey(fn))
			var bad []string
			var at ssa.Instruction = lit
			for _, f := range want {
				st := stores[f]
				if st == nil {
					continue // left nil: lazily nothing to share
				}
				if !freshVal(st.Val, 3) {
					bad = append(bad, f)
					at = st
				}
			}
			sort.Strings(bad)
			c.check(len(bad) == 0, rule, key, at.Pos(), "the new scope's metric tables, slices and done channel are allocated for it alone",
				fmt.Sprintf("field(s) %v of a newly built scope are not freshly allocated (they are taken from another scope or a shared value): two scopes then share one table under different locks, and clearing or closing one of them wipes, races with or double-closes the other", bad), c.describe(at))
		}
	}
	c.floor(rule, n, 2)
}

// checkDerivationThroughRegistry: Tagged and SubScope hand out only what the registry's Subscope
// returns. Subscope is where a closed root or parent yields the inert scope and where identities are
// shared; a shortcut around it (`if len(tags) == 0 { return s }`) hands out a closed scope after Close.
func (c *Ctx) checkDerivationThroughRegistry(rule string) {
	sub := c.fn("", "scopeRegistry", "Subscope")
	if sub == nil {
		c.missing(rule, "tally.scopeRegistry.Subscope")
		return
	}
	var viaRegistry func(v ssa.Value, depth int) bool
	viaRegistry = func(v ssa.Value, depth int) bool {
		if depth == 0 {
			return false
		}
		switch x := canon(stripConv(v)).(type) {
		case *ssa.Phi:
			for _, e := range x.Edges {
				if !viaRegistry(e, depth-1) {
					return false
				}
			}
			return len(x.Edges) > 0
		case *ssa.Call:
			g := staticCallee(x)
			if g == sub {
				return true
			}
			if g == nil || !c.inModule(g) || g.Blocks == nil || g.Signature.Results().Len() != 1 {
				return false
			}
			k := 0
			for _, r := range returnsOf(g) {
				for _, va := range resultValues(r, 0) {
					k++
					if !viaRegistry(va.Val, depth-1) {
						return false
					}
				}
			}
			return k > 0
		}
		return false
	}
	n := 0
	for _, m := range []string{"Tagged", "SubScope"} {
		fn := c.fn("", "scope", m)
		if fn == nil {
			c.missing(rule, "tally.scope."+m)
			continue
		}
		n++
		key := c.fnKey(fn)
		c.sawFunc(key)
		var bad ssa.Instruction
		for _, r := range returnsOf(fn) {
			for _, va := range resultValues(r, 0) {
				if !viaRegistry(va.Val, 3) {
					bad = va.At
				}
			}
		}
		c.check(bad == nil, rule, key, fn.Pos(), "every scope returned is what scopeRegistry.Subscope returned",
			m+" can return a scope that did not come from scopeRegistry.Subscope (a shortcut around the registry): after the root or this scope was closed the caller still gets a functional-looking scope instead of the inert one, and what is recorded on it reaches a closed reporter or is never delivered", func() string {
				if bad != nil {
					return c.describe(bad)
				}
				return ""
			}())
	}
	c.floor(rule, n, 2)
}

// checkSubscopeSource: every scope scopeRegistry.Subscope hands out was found in a shard's canonical
// map (scopeBucket.s, keyed by the rendered key) or was created in this call. A second index keyed by
// anything weaker than the canonical key (a fingerprint, a memo) hands one derivation the scope of
// another: wrong name and tags (C04), merged identities (C05).
func (c *Ctx) checkSubscopeSource(rule string) {
	fS := c.field("", "scopeBucket", "s")
	fn := c.fn("", "scopeRegistry", "Subscope")
	scopeT := c.named("", "scope")
	if fS == nil || fn == nil || scopeT == nil {
		c.missing(rule, "tally.scopeRegistry.Subscope / scopeBucket.s")
		return
	}
	key := c.fnKey(fn)
	c.sawFunc(key)
	var classify func(v ssa.Value, depth int, seen map[ssa.Value]bool) string
	classify = func(v ssa.Value, depth int, seen map[ssa.Value]bool) string {
		v = canon(v)
		if depth == 0 {
			return "its origin could not be traced"
		}
		if seen[v] {
			return ""
		}
		seen[v] = true
		switch x := v.(type) {
		case *ssa.Alloc:
			if types.Identical(deref(x.Type()), scopeT) {
				return "" // created here
			}
		case *ssa.Extract:
			if lk, ok := x.Tuple.(*ssa.Lookup); ok && x.Index == 0 {
				return classify(lk, depth, seen)
			}
			if call, ok := x.Tuple.(*ssa.Call); ok {
				if g := staticCallee(call); g != nil && g.Pkg == fn.Pkg && g.Blocks != nil {
					for _, r := range returnsOf(g) {
						if x.Index >= len(r.Results) {
							continue
						}
						for _, va := range resultValues(r, x.Index) {
							if w := classifyIn(c, g, fS, scopeT, va.Val, depth-1); w != "" {
								return w
							}
						}
					}
					return ""
				}
			}
		case *ssa.Lookup:
			if f, _ := loadedField(x.X); f == fS {
				return ""
			}
			if f, _ := loadedField(x.X); f != nil {
				return "it was looked up in " + f.Name() + ", which is not the canonical-key map of the shard"
			}
			return "it was looked up in a map that is not the canonical-key map of the shard"
		case *ssa.Phi:
			for _, e := range x.Edges {
				if w := classify(e, depth-1, seen); w != "" {
					return w
				}
			}
			return ""
		case *ssa.Call:
			if g := staticCallee(x); g != nil && g.Pkg == fn.Pkg && g.Blocks != nil {
				// a helper of the registry: the same holds for what it returns
				for _, r := range returnsOf(g) {
					if len(r.Results) == 0 {
						continue
					}
					for _, va := range resultValues(r, 0) {
						if w := classifyIn(c, g, fS, scopeT, va.Val, depth-1); w != "" {
							return w
						}
					}
				}
				return ""
			}
		case *ssa.Const:
			if x.IsNil() {
				return ""
			}
		case *ssa.TypeAssert:
			// the package's inert scope (registry or parent closed)
			if ld, ok := x.X.(*ssa.UnOp); ok && ld.Op == token.MUL {
				if g, isG := ld.X.(*ssa.Global); isG && g.Name() == "NoopScope" {
					return ""
				}
			}
		}
		return fmt.Sprintf("it is neither an entry of the shard's canonical-key map nor a scope created in this call (%T)", v)
	}
	bad := ""
	var at ssa.Instruction
	for _, r := range returnsOf(fn) {
		for _, va := range resultValues(r, 0) {
			if w := classify(va.Val, 8, map[ssa.Value]bool{}); w != "" && bad == "" {
				bad, at = w, va.At
			}
		}
	}
	if bad != "" {
		c.bad(rule, key, at.Pos(), "Subscope can hand out a scope that did not come from the canonical lookup: "+bad+" - a derivation is given the scope (name, tags, metrics) of another derivation whenever the weaker index cannot tell them apart", c.describe(at))
		return
	}
	c.ok(rule, key, fn.Pos(), "every scope handed out is an entry of scopeBucket.s or was created in this call")
}

// classifyIn: helper-level version of the classification above (entries of scopeBucket.s, fresh scopes,
// parameters of scope type - the caller passes what it found).
func classifyIn(c *Ctx, g *ssa.Function, fS *types.Var, scopeT *types.Named, v ssa.Value, depth int) string {
	v = canon(v)
	if depth <= 0 {
		return "its origin could not be traced"
	}
	switch x := v.(type) {
	case *ssa.Alloc:
		if types.Identical(deref(x.Type()), scopeT) {
			return ""
		}
	case *ssa.Parameter:
		return ""
	case *ssa.Const:
		if x.IsNil() {
			return ""
		}
	case *ssa.Extract:
		if lk, ok := x.Tuple.(*ssa.Lookup); ok && x.Index == 0 {
			return classifyIn(c, g, fS, scopeT, lk, depth)
		}
	case *ssa.Lookup:
		if f, _ := loadedField(x.X); f == fS {
			return ""
		}
		return "it was looked up in a map that is not the canonical-key map of the shard"
	case *ssa.Phi:
		for _, e := range x.Edges {
			if e == ssa.Value(x) {
				continue
			}
			if w := classifyIn(c, g, fS, scopeT, e, depth-1); w != "" {
				return w
			}
		}
		return ""
	}
	return fmt.Sprintf("it is neither an entry of the shard's canonical-key map nor a scope created there (%T)", v)
}
