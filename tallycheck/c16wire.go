package main

import (
	"fmt"
	"go/ast"
	"go/constant"
	"go/token"
	"go/types"
	"sort"
	"strings"

	"golang.org/x/tools/go/ssa"
)

// C16 O5-O8: the two vendored wire protocols (compact, binary) and the read transport. Nothing here
// compares the code with a frozen copy: every rule is an AGREEMENT between a writer and its reader
// (or between a table and its inverse) - the features each side uses are extracted from the current
// source and must match: byte order, width, scratch-slice length, varint width, zig-zag width,
// the constants of the varint loops, the compact type-code table and its inverse, and the payload
// of strings/binaries being handed over whole (or copied under a sufficient bound).

const thriftPkg = "thirdparty/github.com/apache/thrift/lib/go/thrift"

type wireFeatures map[string]bool

func (w wireFeatures) with(prefix string) []string {
	var out []string
	for k := range w {
		if strings.HasPrefix(k, prefix) {
			out = append(out, strings.TrimPrefix(k, prefix))
		}
	}
	sort.Strings(out)
	return out
}

// leafHelper classifies the compact protocol's internal helpers that are features themselves.
func leafHelper(name string) string {
	switch name {
	case "writeVarint32":
		return "varint:w32"
	case "writeVarint64":
		return "varint:w64"
	case "readVarint32":
		return "varint:r32"
	case "readVarint64":
		return "varint:r64"
	case "int32ToZigzag":
		return "zz:enc32"
	case "int64ToZigzag":
		return "zz:enc64"
	case "zigzagToInt32":
		return "zz:dec32"
	case "zigzagToInt64":
		return "zz:dec64"
	}
	return ""
}

// wireFeaturesOf collects the wire features of fn and of the same-package functions it calls
// statically (depth-bounded; the varint / zig-zag helpers are leaves).
func (c *Ctx) wireFeaturesOf(fn *ssa.Function, depth int, out wireFeatures, seen map[*ssa.Function]bool) {
	if fn == nil || fn.Blocks == nil || depth < 0 || seen[fn] {
		return
	}
	seen[fn] = true
	instrsOf(fn, func(in ssa.Instruction) {
		switch x := in.(type) {
		case *ssa.Slice:
			// p.buffer[lo:hi] with constant bounds
			if fa, ok := x.X.(*ssa.FieldAddr); ok {
				if f := structFieldOf(fa.X.Type(), fa.Field); f != nil && f.Name() == "buffer" {
					lo, hi := int64(0), int64(-1)
					if x.Low != nil {
						if k, isK := constInt(x.Low); isK {
							lo = k
						} else {
							lo = -1
						}
					}
					if x.High != nil {
						if k, isK := constInt(x.High); isK {
							hi = k
						}
					}
					if lo >= 0 && hi >= 0 {
						out[fmt.Sprintf("buf:%d", hi-lo)] = true
					}
				}
			}
		case ssa.CallInstruction:
			com := x.Common()
			if g := com.StaticCallee(); g != nil {
				pkgPath := ""
				if g.Pkg != nil {
					pkgPath = g.Pkg.Pkg.Path()
				}
				switch {
				case pkgPath == "encoding/binary" && g.Signature.Recv() != nil:
					order := ""
					if n, ok := deref(g.Signature.Recv().Type()).(*types.Named); ok {
						switch n.Obj().Name() {
						case "bigEndian":
							order = "big"
						case "littleEndian":
							order = "little"
						}
					}
					name := g.Name()
					dir := "get"
					if strings.HasPrefix(name, "Put") {
						dir = "put"
						name = strings.TrimPrefix(name, "Put")
					}
					if order != "" && strings.HasPrefix(name, "Uint") {
						out["fixed:"+order+":"+dir+":"+strings.TrimPrefix(name, "Uint")] = true
					}
				case pkgPath == "encoding/binary":
					out["binary."+g.Name()] = true // PutUvarint, PutVarint, ...
				case pkgPath == "math" && g.Name() == "Float64bits":
					out["f64:bits"] = true
				case pkgPath == "math" && g.Name() == "Float64frombits":
					out["f64:frombits"] = true
				case pkgPath == "io" && g.Name() == "ReadFull":
					out["readfull"] = true
				case pkgPath == pkgPath2(thriftPkg):
					if lf := leafHelper(g.Name()); lf != "" {
						out[lf] = true
					} else {
						c.wireFeaturesOf(g, depth-1, out, seen)
					}
				}
				return
			}
			if com.IsInvoke() {
				switch com.Method.Name() {
				case "WriteByte":
					out["byte:w"] = true
				case "ReadByte":
					out["byte:r"] = true
				}
			}
		}
	})
}

func pkgPath2(short string) string { return pkgPath(short) }

func (c *Ctx) featuresOfMethod(typ, method string) (wireFeatures, *ssa.Function) {
	fn := c.fn(thriftPkg, typ, method)
	if fn == nil {
		return nil, nil
	}
	out := wireFeatures{}
	c.wireFeaturesOf(fn, 3, out, map[*ssa.Function]bool{})
	return out, fn
}

func one(xs []string) string {
	if len(xs) == 1 {
		return xs[0]
	}
	return ""
}

// checkWirePrimitives (O5): writer / reader agreement per primitive, for both protocols.
func (c *Ctx) checkWirePrimitives(rule string) {
	n := 0
	for _, proto := range []string{"TBinaryProtocol", "TCompactProtocol"} {
		for _, prim := range []string{"I16", "I32", "I64", "Double", "Byte", "String", "Binary"} {
			w, wf := c.featuresOfMethod(proto, "Write"+prim)
			r, rf := c.featuresOfMethod(proto, "Read"+prim)
			key := "thrift." + proto + ":" + prim
			if wf == nil || rf == nil {
				c.missing(rule, "thrift."+proto+".Write"+prim+" / Read"+prim)
				continue
			}
			n++
			c.sawFunc(c.fnKey(wf))
			c.sawFunc(c.fnKey(rf))
			var problems []string
			// fixed-width part: byte order, width and scratch-slice length agree
			wPut, rGet := w.with("fixed:"), r.with("fixed:")
			var wFix, rFix []string
			for _, f := range wPut {
				if strings.Contains(f, ":put:") {
					wFix = append(wFix, strings.Replace(f, ":put:", ":", 1))
				}
			}
			for _, f := range rGet {
				if strings.Contains(f, ":get:") {
					rFix = append(rFix, strings.Replace(f, ":get:", ":", 1))
				}
			}
			if strings.Join(wFix, ",") != strings.Join(rFix, ",") {
				problems = append(problems, fmt.Sprintf("the writer stores fixed-width %v but the reader loads %v (byte order and width must agree)", wFix, rFix))
			}
			if len(wFix) > 0 || len(rFix) > 0 {
				wb, rb := w.with("buf:"), r.with("buf:")
				if strings.Join(wb, ",") != strings.Join(rb, ",") {
					problems = append(problems, fmt.Sprintf("the writer sends a scratch slice of %v byte(s) but the reader fills one of %v", wb, rb))
				}
				if wd := one(wFix); wd != "" {
					bits := wd[strings.LastIndex(wd, ":")+1:]
					want := map[string]string{"16": "2", "32": "4", "64": "8"}[bits]
					if one(wb) != want {
						problems = append(problems, fmt.Sprintf("a %s-bit value is sent in a scratch slice of %v byte(s)", bits, wb))
					}
				}
			}
			if (w["f64:bits"] || r["f64:frombits"]) && !(w["f64:bits"] && r["f64:frombits"]) {
				problems = append(problems, "Float64bits on the writing side and Float64frombits on the reading side do not both occur")
			}
			// variable-width part (compact): varint and zig-zag widths agree
			wv, rv := one(w.with("varint:w")), ""
			rvs := r.with("varint:r")
			if len(rvs) > 0 {
				rv = rvs[len(rvs)-1] // the widest read helper reached (readVarint32 reads through readVarint64)
			}
			if (wv != "") != (len(rvs) > 0) {
				problems = append(problems, fmt.Sprintf("varint on one side only (writer %v, reader %v)", w.with("varint:"), r.with("varint:")))
			} else if wv != "" {
				if len(w.with("varint:w")) != 1 {
					problems = append(problems, fmt.Sprintf("the writer uses several varint widths %v", w.with("varint:w")))
				}
				// the value read back must be narrowed to the width written: a 64-bit write needs a 64-bit read
				if wv == "64" && !r["varint:r64"] {
					problems = append(problems, "a 64-bit varint is written but only a 32-bit varint is read")
				}
				if wv == "64" && r["varint:r32"] {
					problems = append(problems, "a 64-bit varint is written but the reader truncates it through the 32-bit varint reader")
				}
				_ = rv
			}
			wz, rz := one(w.with("zz:enc")), one(r.with("zz:dec"))
			if wz != rz || len(w.with("zz:enc")) > 1 || len(r.with("zz:dec")) > 1 {
				problems = append(problems, fmt.Sprintf("zig-zag encoding %v on the writing side, decoding %v on the reading side (both must be present with the same width, or both absent)", w.with("zz:enc"), r.with("zz:dec")))
			}
			if wz != "" && wv != "" && wz != wv && !(prim == "I16") {
				problems = append(problems, fmt.Sprintf("a %s-bit zig-zag value is written as a %s-bit varint", wz, wv))
			}
			if prim == "I64" && wz != "" && wz != "64" {
				problems = append(problems, "a 64-bit integer is zig-zag encoded with the 32-bit helper (the upper half is lost)")
			}
			if prim == "Byte" {
				if !w["byte:w"] || !r["byte:r"] {
					problems = append(problems, "a byte is not written / read as a single transport byte")
				}
			}
			if w["binary.PutVarint"] || w["binary.PutUvarint"] || r["binary.Varint"] || r["binary.Uvarint"] {
				// a different varint implementation on one side: must be matched on the other
				if !(w["binary.PutUvarint"] && r["binary.Uvarint"]) && !(w["binary.PutVarint"] && r["binary.Varint"]) && len(rvs) == 0 {
					problems = append(problems, "encoding/binary varints are used on one side without their counterpart on the other")
				}
			}
			if len(problems) == 0 {
				feat := append(append([]string{}, wFix...), w.with("varint:")...)
				feat = append(feat, w.with("zz:")...)
				c.ok(rule, key, wf.Pos(), fmt.Sprintf("writer and reader agree (%s)", strings.Join(feat, " ")))
			} else {
				c.bad(rule, key, wf.Pos(), "Write"+prim+" and Read"+prim+" of "+proto+" disagree: "+strings.Join(problems, "; ")+" - a value written is read back as a different value")
			}
		}
	}
	c.floor(rule, n, 14)
}

// symInt renders an integer expression of a leaf helper: parameters by position, constants by
// value, conversions dropped, commutative operands sorted.
func symInt(fn *ssa.Function, v ssa.Value, depth int) string {
	if depth == 0 {
		return "?"
	}
	switch x := v.(type) {
	case *ssa.Parameter:
		for i, p := range fn.Params {
			if p == x {
				return fmt.Sprintf("p%d", i)
			}
		}
	case *ssa.Const:
		if x.Value != nil && x.Value.Kind() == constant.Int {
			return x.Value.ExactString()
		}
	case *ssa.Convert:
		return symInt(fn, x.X, depth)
	case *ssa.ChangeType:
		return symInt(fn, x.X, depth)
	case *ssa.UnOp:
		return x.Op.String() + "(" + symInt(fn, x.X, depth-1) + ")"
	case *ssa.BinOp:
		a, b := symInt(fn, x.X, depth-1), symInt(fn, x.Y, depth-1)
		switch x.Op {
		case token.ADD, token.MUL, token.XOR, token.AND, token.OR:
			if b < a {
				a, b = b, a
			}
		}
		return x.Op.String() + "(" + a + "," + b + ")"
	}
	return "?"
}

// checkZigZag (O6): the four zig-zag helpers compute (n<<1)^(n>>W-1) and (u>>1)^-(n&1).
func (c *Ctx) checkZigZag(rule string) {
	n := 0
	for _, h := range []struct {
		name, want, what string
	}{
		{"int32ToZigzag", "^(<<(p1,1),>>(p1,31))", "(n << 1) ^ (n >> 31)"},
		{"int64ToZigzag", "^(<<(p1,1),>>(p1,63))", "(n << 1) ^ (n >> 63)"},
		{"zigzagToInt32", "^(-(&(1,p1)),>>(p1,1))", "(u >> 1) ^ -(n & 1)"},
		{"zigzagToInt64", "^(-(&(1,p1)),>>(p1,1))", "(u >> 1) ^ -(n & 1)"},
	} {
		fn := c.fn(thriftPkg, "TCompactProtocol", h.name)
		if fn == nil {
			c.missing(rule, "thrift.TCompactProtocol."+h.name)
			continue
		}
		n++
		key := c.fnKey(fn)
		c.sawFunc(key)
		rets := returnsOf(fn)
		got := "?"
		if len(rets) == 1 && len(rets[0].Results) == 1 {
			got = symInt(fn, rets[0].Results[0], 8)
		}
		// the unsigned shift of the decoder must be made on the unsigned conversion of the argument
		okShift := true
		if strings.HasPrefix(h.name, "zigzagTo") {
			okShift = false
			instrsOf(fn, func(in ssa.Instruction) {
				if bo, ok := in.(*ssa.BinOp); ok && bo.Op == token.SHR {
					if b, isB := bo.X.Type().Underlying().(*types.Basic); isB && b.Info()&types.IsUnsigned != 0 {
						okShift = true
					}
				}
			})
		} else {
			instrsOf(fn, func(in ssa.Instruction) {
				if bo, ok := in.(*ssa.BinOp); ok && bo.Op == token.SHR {
					if b, isB := bo.X.Type().Underlying().(*types.Basic); isB && b.Info()&types.IsUnsigned != 0 {
						okShift = false // the encoder needs the arithmetic (sign-propagating) shift
					}
				}
			})
		}
		c.check(got == h.want && okShift, rule, key, fn.Pos(), "computes "+h.what+" with the right kind of shift",
			fmt.Sprintf("%s does not compute %s (symbolic form %s, expected %s; logical/arithmetic shift ok: %v): negative or large values do not survive the round trip", h.name, h.what, got, h.want, okShift))
	}
	c.floor(rule, n, 4)
}

// intConstsOf: the integer constants used by fn (operands of binary operations and comparisons).
func intConstsOf(fn *ssa.Function) map[string]bool {
	out := map[string]bool{}
	instrsOf(fn, func(in ssa.Instruction) {
		bo, ok := in.(*ssa.BinOp)
		if !ok {
			return
		}
		for _, o := range []ssa.Value{bo.X, bo.Y} {
			if k, isK := o.(*ssa.Const); isK && k.Value != nil && k.Value.Kind() == constant.Int {
				if v, exact := constant.Int64Val(k.Value); exact {
					if v < 0 {
						v = ^v // ^0x7F is written for "everything above the low seven bits"
					}
					out[fmt.Sprintf("%s:%d", bo.Op, v)] = true
				}
			}
		}
	})
	return out
}

// checkVarintLoops (O6): both varint writers and the varint reader use 7-bit groups with the
// continuation bit 0x80: payload mask 0x7F, continuation 0x80, shift by 7.
func (c *Ctx) checkVarintLoops(rule string) {
	n := 0
	for _, h := range []struct {
		name string
		need []string
		what string
	}{
		{"writeVarint32", []string{"&:127", "|:128", ">>:7"}, "n & ^0x7F == 0 ends; byte((n & 0x7F) | 0x80); n >>= 7 (unsigned)"},
		{"writeVarint64", []string{"&:127", "|:128", ">>:7"}, "n & ^0x7F == 0 ends; byte((n & 0x7F) | 0x80); n >>= 7 (unsigned)"},
		{"readVarint64", []string{"&:127", "&:128", "+:7", "!=:128"}, "result |= (b & 0x7f) << shift; ends when b & 0x80 != 0x80; shift += 7"},
	} {
		fn := c.fn(thriftPkg, "TCompactProtocol", h.name)
		if fn == nil {
			c.missing(rule, "thrift.TCompactProtocol."+h.name)
			continue
		}
		n++
		key := c.fnKey(fn)
		c.sawFunc(key)
		have := intConstsOf(fn)
		var missing []string
		for _, k := range h.need {
			if !have[k] {
				alt := false
				if k == "!=:128" && (have["==:128"] || have["==:0"] || have["!=:0"]) {
					alt = true
				}
				if !alt {
					missing = append(missing, k)
				}
			}
		}
		// no other mask / shift constants
		var extra []string
		for k := range have {
			op := k[:strings.Index(k, ":")]
			if op == "&" || op == "|" || op == ">>" || op == "<<" {
				okK := false
				for _, nk := range h.need {
					if nk == k {
						okK = true
					}
				}
				if !okK {
					extra = append(extra, k)
				}
			}
		}
		sort.Strings(extra)
		// the writer's shift must be unsigned (a negative value would never terminate / sign-extend)
		okU := true
		if strings.HasPrefix(h.name, "write") {
			okU = false
			instrsOf(fn, func(in ssa.Instruction) {
				if bo, ok := in.(*ssa.BinOp); ok && bo.Op == token.SHR {
					if b, isB := bo.X.Type().Underlying().(*types.Basic); isB && b.Info()&types.IsUnsigned != 0 {
						okU = true
					}
				}
			})
		}
		c.check(len(missing) == 0 && len(extra) == 0 && okU, rule, key, fn.Pos(), "7-bit groups, continuation bit 0x80 ("+h.what+")",
			fmt.Sprintf("%s does not use the varint constants its counterpart relies on (missing %v, unexpected %v, unsigned shift %v): lengths and integers are read back wrong", h.name, missing, extra, okU))
	}
	// readVarint32 narrows readVarint64
	if fn := c.fn(thriftPkg, "TCompactProtocol", "readVarint32"); fn != nil {
		n++
		f := wireFeatures{}
		c.wireFeaturesOf(fn, 1, f, map[*ssa.Function]bool{})
		c.check(f["varint:r64"] || len(intConstsOf(fn)) > 0, rule, c.fnKey(fn), fn.Pos(), "reads through the 64-bit varint reader", "readVarint32 neither reads through readVarint64 nor decodes a varint itself")
	}
	c.floor(rule, n, 4)
}

// checkCompactTypeTable (O7): getTType(ttypeToCompactType[t]) == t for every TType in the writer's
// table (BOOL maps to COMPACT_BOOLEAN_TRUE, which the reader maps back to BOOL).
func (c *Ctx) checkCompactTypeTable(rule string) {
	pkg := c.SSAPkg[pkgPath(thriftPkg)]
	get := c.fn(thriftPkg, "TCompactProtocol", "getTType")
	if pkg == nil || get == nil {
		c.missing(rule, "thrift package / TCompactProtocol.getTType")
		return
	}
	key := c.fnKey(get)
	c.sawFunc(key)
	// writer table: MapUpdates on the map stored into the global ttypeToCompactType in init
	g, _ := pkg.Members["ttypeToCompactType"].(*ssa.Global)
	if g == nil {
		c.missing(rule, "thrift.ttypeToCompactType")
		return
	}
	w := map[int64]int64{}
	var theMap ssa.Value
	var initFn *ssa.Function
	nStores := 0
	for _, f := range c.funcsOfPkg(thriftPkg) {
		instrsOf(f, func(in ssa.Instruction) {
			if st, ok := in.(*ssa.Store); ok && st.Addr == ssa.Value(g) {
				theMap, initFn = st.Val, f
				nStores++
			}
		})
	}
	if initFn == nil {
		initFn = pkg.Func("init")
		instrsOf(initFn, func(in ssa.Instruction) {
			if st, ok := in.(*ssa.Store); ok && st.Addr == ssa.Value(g) {
				theMap = st.Val
				nStores++
			}
		})
	}
	okTable := theMap != nil && nStores == 1
	instrsOf(initFn, func(in ssa.Instruction) {
		mu, ok := in.(*ssa.MapUpdate)
		if !ok || mu.Map != theMap {
			return
		}
		k, okK := constInt(mu.Key)
		v, okV := constInt(mu.Value)
		if !okK || !okV {
			okTable = false
			return
		}
		w[k] = v
	})
	if !okTable || len(w) == 0 {
		c.undecided(rule, key, get.Pos(), "the writer's type-code table (ttypeToCompactType) is not a map literal of constants")
		return
	}
	// reader table: in getTType, the value switched on is compared with constants; each case returns a constant
	r := map[int64]int64{}
	for _, b := range get.Blocks {
		iff, ok := condOf(b)
		if !ok {
			continue
		}
		op, x, y, isCmp := cmpOf(iff.Cond)
		if !isCmp || op != token.EQL {
			continue
		}
		k, isK := constInt(y)
		if !isK {
			k, isK = constInt(x)
		}
		if !isK {
			continue
		}
		// the true edge leads to a return of a constant
		for _, ra := range returnsFromEdge(b, 0) {
			if len(ra.ret.Results) == 2 && isNilConst(ra.ret.Results[1]) {
				if v, isV := constInt(ra.ret.Results[0]); isV {
					if _, dup := r[k]; !dup {
						r[k] = v
					}
				}
			}
		}
	}
	var bad []string
	for t, ct := range w {
		back, ok := r[ct]
		if !ok || back != t {
			bad = append(bad, fmt.Sprintf("TType %d is written as compact code %d, which is read back as %v", t, ct, r[ct]))
		}
	}
	sort.Strings(bad)
	c.check(len(bad) == 0 && len(w) >= 12, rule, key, get.Pos(), fmt.Sprintf("the reader's type switch inverts all %d entries of the writer's type-code table", len(w)),
		"the compact type-code tables of writer and reader disagree: "+strings.Join(bad, "; ")+fmt.Sprintf(" (%d writer entries)", len(w)))
}

// checkPayloadWhole (O8): WriteString / WriteBinary of both protocols hand the payload to the
// transport whole on every path that writes it; a copy of the payload into a scratch buffer is
// accepted only under a dominating bound that covers the offset it is copied to.
func (c *Ctx) checkPayloadWhole(rule string) {
	n := 0
	for _, proto := range []string{"TBinaryProtocol", "TCompactProtocol"} {
		for _, m := range []string{"WriteString", "WriteBinary"} {
			fn := c.fn(thriftPkg, proto, m)
			if fn == nil {
				c.missing(rule, "thrift."+proto+"."+m)
				continue
			}
			n++
			key := c.fnKey(fn)
			c.sawFunc(key)
			payload := ssa.Value(fn.Params[1])
			isWhole := func(in ssa.Instruction) bool {
				ci, ok := in.(ssa.CallInstruction)
				if !ok {
					return false
				}
				com := ci.Common()
				name := ""
				if com.IsInvoke() {
					name = com.Method.Name()
				} else if g := com.StaticCallee(); g != nil {
					name = g.Name()
				}
				if name != "Write" && name != "WriteString" {
					return false
				}
				for _, a := range com.Args {
					if canon(stripConv(a)) == payload {
						return true
					}
				}
				return false
			}
			var problems []string
			// every copy of the payload is bounded
			nCopy := 0
			instrsOf(fn, func(in ssa.Instruction) {
				call, ok := in.(*ssa.Call)
				if !ok || !isBuiltin(call, "copy") || canon(stripConv(call.Call.Args[1])) != payload {
					return
				}
				nCopy++
				if why := copyBounded(call, payload); why != "" {
					problems = append(problems, "copy of the payload into a scratch buffer "+why+" (copy truncates silently: the tail of the string is dropped while its full length was announced)")
				}
			})
			// every return that follows the length prefix without error has passed a whole-payload write
			// (or a bounded copy): conservatively, every path from the entry to a return passes a
			// whole write, a bounded copy, or an error return / empty-payload guard
			if nCopy == 0 {
				esc := reachAvoiding(entryInstr(fn), true, func(i ssa.Instruction) bool {
					r, isR := i.(*ssa.Return)
					if !isR {
						return false
					}
					// returns on the "an earlier step failed" edge and the "nothing to write" return are fine
					if guardedByEdge(r, func(cond ssa.Value) (bool, bool) {
						op, x, y, ok := cmpOf(cond)
						if !ok || (op != token.NEQ && op != token.EQL) {
							return false, false
						}
						if isNilConst(x) {
							x, y = y, x
						}
						if !isNilConst(y) || !types.Identical(x.Type(), types.Universe.Lookup("error").Type()) {
							return false, false
						}
						return true, op == token.NEQ
					}) != nil {
						return false
					}
					return guardedByEdge(r, func(cond ssa.Value) (bool, bool) {
						op, x, y, ok := cmpOf(cond)
						if !ok {
							return false, false
						}
						ln, isLen := stripConv(x).(*ssa.Call)
						if !isLen || !isBuiltin(ln, "len") || canon(ln.Call.Args[0]) != payload {
							return false, false
						}
						if k, isK := constInt(y); !isK || k != 0 {
							return false, false
						}
						switch op {
						case token.GTR, token.NEQ:
							return true, false
						case token.EQL, token.LEQ:
							return true, true
						}
						return false, false
					}) == nil
				}, isWhole)
				if esc != nil {
					problems = append(problems, "a success return is reachable without the payload having been handed to the transport")
				}
			}
			c.check(len(problems) == 0, rule, key, fn.Pos(), "the payload is handed to the transport whole (no unbounded copy into a scratch buffer)",
				proto+"."+m+": "+strings.Join(problems, "; "))
		}
	}
	c.floor(rule, n, 4)
}

// copyBounded: "" when copy(dst, payload) cannot truncate: dst is X[lo:] (or X) and a dominating
// condition establishes len(payload) + lo <= len(X) (forms: len(p)+lo <= len(X), len(p) <= len(X)-lo,
// and with lo absent/zero len(p) <= len(X)); otherwise the reason.
func copyBounded(call *ssa.Call, payload ssa.Value) string {
	dst := call.Call.Args[0]
	var X ssa.Value = dst
	var lo ssa.Value
	if sl, ok := dst.(*ssa.Slice); ok {
		X = sl.X
		lo = sl.Low
		if sl.High != nil {
			return "uses a destination with an upper slice bound the check does not follow"
		}
	}
	loZero := lo == nil
	if k, isK := constInt(lo); lo != nil && isK && k == 0 {
		loZero = true
	}
	isLenOf := func(v ssa.Value, of ssa.Value) bool {
		// len of an array is a constant
		if k, isK := constInt(v); isK {
			if arr, isArr := deref(of.Type()).Underlying().(*types.Array); isArr && arr.Len() == k {
				return true
			}
			if sl, isSl := of.(*ssa.Slice); isSl && sl.Low == nil && sl.High == nil {
				if arr, isArr := deref(sl.X.Type()).Underlying().(*types.Array); isArr && arr.Len() == k {
					return true
				}
			}
		}
		ln, ok := stripConv(v).(*ssa.Call)
		if cv, isCv := v.(*ssa.Convert); isCv {
			ln, ok = cv.X.(*ssa.Call)
		}
		if !ok || !(isBuiltin(ln, "len") || isBuiltin(ln, "cap")) {
			return false
		}
		a := ln.Call.Args[0]
		return canon(a) == canon(of) || accessPath(a) == accessPath(of) || sameArray(a, of)
	}
	g := guardedByEdge(call, func(cond ssa.Value) (bool, bool) {
		op, x, y, ok := cmpOf(cond)
		if !ok {
			return false, false
		}
		// normalise to  A <= B  /  A < B
		switch op {
		case token.GEQ, token.GTR:
			x, y = y, x
			op = flipCmp(op)
		}
		if op != token.LEQ && op != token.LSS {
			// the negated form  !(A > B)
			return false, false
		}
		if !isLenOf(y, X) {
			// len(p) <= len(X) - lo
			if bo, isB := y.(*ssa.BinOp); isB && bo.Op == token.SUB && isLenOf(bo.X, X) && lo != nil && canon(bo.Y) == canon(lo) && isLenOf(x, payload) {
				return true, true
			}
			return false, false
		}
		if isLenOf(x, payload) && loZero {
			return true, true
		}
		if bo, isB := x.(*ssa.BinOp); isB && bo.Op == token.ADD && lo != nil {
			if (isLenOf(bo.X, payload) && canon(bo.Y) == canon(lo)) || (isLenOf(bo.Y, payload) && canon(bo.X) == canon(lo)) {
				return true, true
			}
		}
		return false, false
	})
	if g != nil {
		return ""
	}
	if loZero {
		return "is not dominated by a check that the payload fits (len(payload) <= len(buffer))"
	}
	return "is made at a non-zero offset without a dominating check that offset + len(payload) fits the buffer (a check of len(payload) against the whole buffer is not enough)"
}

// sameArray: both are slices of / addresses of the same struct field array.
func sameArray(a, b ssa.Value) bool {
	root := func(v ssa.Value) string {
		for {
			switch x := v.(type) {
			case *ssa.Slice:
				v = x.X
				continue
			case *ssa.UnOp:
				if x.Op == token.MUL {
					v = x.X
					continue
				}
			}
			break
		}
		if fa, ok := v.(*ssa.FieldAddr); ok {
			return accessPath(fa)
		}
		return ""
	}
	ra, rb := root(a), root(b)
	return ra != "" && ra == rb
}

// checkReadTransportWrite (O8): a datagram handed to the buffered read transport REPLACES what the
// transport held: Write stores a buffer made from exactly its argument (or resets the buffer before
// appending the argument). Otherwise the unread tail of a rejected datagram is decoded in front of
// the next one.
func (c *Ctx) checkReadTransportWrite(rule string) {
	fn := c.fn("m3/customtransports", "TBufferedReadTransport", "Write")
	fld := c.field("m3/customtransports", "TBufferedReadTransport", "readBuf")
	if fn == nil || fld == nil {
		c.missing(rule, "customtransport.TBufferedReadTransport.Write / readBuf")
		return
	}
	key := c.fnKey(fn)
	c.sawFunc(key)
	arg := ssa.Value(fn.Params[1])
	replaced, reset, appended := false, false, false
	var appendAt, resetAt ssa.Instruction
	instrsOf(fn, func(in ssa.Instruction) {
		switch x := in.(type) {
		case *ssa.Store:
			if f, _ := addrField(x.Addr); f == fld {
				if call, ok := x.Val.(*ssa.Call); ok {
					if g := staticCallee(call); g != nil && g.Pkg != nil && g.Pkg.Pkg.Path() == "bytes" && (g.Name() == "NewBuffer" || g.Name() == "NewBufferString") && len(call.Call.Args) == 1 && derivesFrom(call.Call.Args[0], arg) {
						replaced = true
					}
				}
			}
		case *ssa.Call:
			g := staticCallee(x)
			if g == nil || g.Pkg == nil || g.Pkg.Pkg.Path() != "bytes" || g.Signature.Recv() == nil {
				return
			}
			if f, _ := loadedField(x.Call.Args[0]); f != fld {
				return
			}
			switch g.Name() {
			case "Reset", "Truncate":
				reset, resetAt = true, in
			case "Write", "WriteString":
				appended, appendAt = true, in
			}
		}
	})
	okW := replaced || (reset && appended && dominates(resetAt, appendAt))
	c.check(okW, rule, key, fn.Pos(), "Write replaces the read buffer with exactly the bytes given",
		"TBufferedReadTransport.Write does not replace the buffered bytes with its argument (it appends to what is left over, or ignores the argument): after a datagram that was not consumed completely the next one is decoded from the middle of stale bytes")
}

// ---- header sequences ---------------------------------------------------------------------------------
//
// checkHeaderSequences (O5): for the struct-field, list, set and message headers of both protocols the
// sequences of wire primitives written on the error-free paths of WriteXBegin equal, as a set, the
// sequences read on the error-free paths of ReadXBegin (byte, i16, i32, varint32, string body, ...).
// A component dropped, added, reordered or widened on one side only changes one of the two sets.

func primToken(name string) string {
	switch name {
	case "writeByteDirect", "readByteDirect", "WriteByte", "ReadByte":
		return "byte"
	case "writeVarint32", "readVarint32":
		return "v32"
	case "writeVarint64", "readVarint64":
		return "v64"
	case "WriteI16", "ReadI16":
		return "i16"
	case "WriteI32", "ReadI32":
		return "i32"
	case "WriteI64", "ReadI64":
		return "i64"
	case "WriteDouble", "ReadDouble":
		return "f64"
	case "WriteString", "ReadString", "WriteBinary", "ReadBinary":
		return "str"
	case "readStringBody":
		return "body"
	}
	return ""
}

// takesProtocolOf: g is a plain function one of whose parameters has the type of fn's receiver (a
// helper of the protocol written as a function) or, when fn is such a helper itself, of fn's own
// protocol parameter.
func takesProtocolOf(fn, g *ssa.Function) bool {
	var want []types.Type
	if r := fn.Signature.Recv(); r != nil {
		want = append(want, r.Type())
	} else {
		for i := 0; i < fn.Signature.Params().Len(); i++ {
			if _, isPtr := fn.Signature.Params().At(i).Type().(*types.Pointer); isPtr {
				want = append(want, fn.Signature.Params().At(i).Type())
			}
		}
	}
	for i := 0; i < g.Signature.Params().Len(); i++ {
		for _, w := range want {
			if types.Identical(g.Signature.Params().At(i).Type(), w) {
				return true
			}
		}
	}
	return false
}

// primSequences enumerates the primitive sequences of the error-free paths of fn (nil when fn has
// loops or too many paths).
func (c *Ctx) primSequences(fn *ssa.Function, depth int) ([][]string, bool) {
	if fn == nil || fn.Blocks == nil || depth < 0 || len(loopsOf(fn)) > 0 {
		return nil, false
	}
	errT := types.Universe.Lookup("error").Type()
	var out [][]string
	ok := true
	var walkB func(b *ssa.BasicBlock, seqs [][]string, steps int)
	walkB = func(b *ssa.BasicBlock, seqs [][]string, steps int) {
		if !ok || steps > 64 {
			ok = false
			return
		}
		for _, in := range b.Instrs {
			switch x := in.(type) {
			case ssa.CallInstruction:
				if _, isDefer := in.(*ssa.Defer); isDefer {
					continue
				}
				com := x.Common()
				name := ""
				var g *ssa.Function
				if com.IsInvoke() {
					name = com.Method.Name()
					if name != "WriteByte" && name != "ReadByte" {
						name = ""
					}
				} else if g = com.StaticCallee(); g != nil && g.Pkg != nil && g.Pkg.Pkg.Path() == pkgPath(thriftPkg) && (g.Signature.Recv() != nil || takesProtocolOf(fn, g)) {
					name = g.Name()
				} else {
					g = nil
				}
				if name == "" {
					continue
				}
				if tok := primToken(name); tok != "" {
					for i := range seqs {
						seqs[i] = append(append([]string{}, seqs[i]...), tok)
					}
					continue
				}
				if g != nil && g != fn && g.Blocks != nil {
					// an internal helper: splice in its sequences
					sub, subOK := c.primSequences(g, depth-1)
					if !subOK {
						ok = false
						return
					}
					if len(sub) == 0 {
						continue
					}
					var next [][]string
					for _, s := range seqs {
						for _, t := range sub {
							next = append(next, append(append([]string{}, s...), t...))
						}
					}
					seqs = next
					if len(seqs) > 256 {
						ok = false
						return
					}
				}
			case *ssa.Return:
				// error returns: an error result that is a constructed exception or a package-level error
				for _, res := range x.Results {
					if !types.Identical(res.Type(), errT) && !types.AssignableTo(res.Type(), errT) {
						continue
					}
					for _, va := range resultValues(x, len(x.Results)-1) {
						v := stripConv(va.Val)
						if call, isCall := v.(*ssa.Call); isCall {
							if h := staticCallee(call); h != nil && strings.HasPrefix(h.Name(), "NewTProtocolExceptionWithType") {
								return
							}
						}
						if ld, isLd := v.(*ssa.UnOp); isLd {
							if _, isG := ld.X.(*ssa.Global); isG {
								return
							}
						}
					}
					break
				}
				out = append(out, seqs...)
				return
			case *ssa.If:
				// follow only the "no error" edge of a test of an error value against nil
				op, a, bb, isCmp := cmpOf(x.Cond)
				if isCmp && (op == token.NEQ || op == token.EQL) {
					if isNilConst(a) {
						a, bb = bb, a
					}
					if isNilConst(bb) && types.Identical(a.Type(), errT) {
						idx := 1 // false edge of `err != nil`
						if op == token.EQL {
							idx = 0
						}
						walkB(b.Succs[idx], seqs, steps+1)
						return
					}
				}
				for _, s := range b.Succs {
					cp := make([][]string, len(seqs))
					copy(cp, seqs)
					walkB(s, cp, steps+1)
				}
				return
			case *ssa.Jump:
				walkB(b.Succs[0], seqs, steps+1)
				return
			case *ssa.Panic:
				return
			}
		}
	}
	walkB(fn.Blocks[0], [][]string{{}}, 0)
	if len(out) > 512 {
		return nil, false
	}
	return out, ok
}

func seqSet(seqs [][]string, binary bool) []string {
	set := map[string]bool{}
	for _, s := range seqs {
		var n []string
		for _, t := range s {
			if binary && t == "str" {
				n = append(n, "i32", "body") // a binary-protocol string is its i32 length and the body
			} else {
				n = append(n, t)
			}
		}
		if len(n) > 0 {
			set[strings.Join(n, " ")] = true
		}
	}
	var out []string
	for k := range set {
		out = append(out, k)
	}
	sort.Strings(out)
	return out
}

func (c *Ctx) checkHeaderSequences(rule string) {
	n := 0
	for _, proto := range []string{"TBinaryProtocol", "TCompactProtocol"} {
		heads := []string{"FieldBegin", "ListBegin", "SetBegin", "MessageBegin"}
		if proto == "TBinaryProtocol" {
			heads = append(heads, "MapBegin")
		}
		for _, h := range heads {
			wf, rf := c.fn(thriftPkg, proto, "Write"+h), c.fn(thriftPkg, proto, "Read"+h)
			key := "thrift." + proto + ":" + h
			if wf == nil || rf == nil {
				c.missing(rule, "thrift."+proto+".Write"+h+" / Read"+h)
				continue
			}
			n++
			c.sawFunc(c.fnKey(wf))
			c.sawFunc(c.fnKey(rf))
			ws, okW := c.primSequences(wf, 3)
			rs, okR := c.primSequences(rf, 3)
			if h == "FieldBegin" {
				// the reader's field header also reads the stop marker that WriteFieldStop writes
				if sf := c.fn(thriftPkg, proto, "WriteFieldStop"); sf != nil {
					ss, okS := c.primSequences(sf, 3)
					ws, okW = append(ws, ss...), okW && okS
				}
			}
			if !okW || !okR {
				c.undecided(rule, key, wf.Pos(), "the header functions contain loops or too many paths for the sequence comparison")
				continue
			}
			w, r := seqSet(ws, proto == "TBinaryProtocol"), seqSet(rs, proto == "TBinaryProtocol")
			c.check(strings.Join(w, " | ") == strings.Join(r, " | "), rule, key, wf.Pos(), "written and read primitive sequences agree: "+strings.Join(w, " | "),
				fmt.Sprintf("Write%s writes the primitive sequences {%s} but Read%s reads {%s}: the reader is out of step with the writer after this header", h, strings.Join(w, " | "), h, strings.Join(r, " | ")))
		}
	}
	c.floor(rule, n, 9)
}

// checkCompactHeaderConstants (O6): the compact protocol packs small numbers into the header byte;
// writer and reader must use the same split (high nibble = delta / size, low nibble = type, 15 = "a
// varint follows").
func (c *Ctx) checkCompactHeaderConstants(rule string) {
	type spec struct {
		fn   string
		need []string
		what string
	}
	n := 0
	for _, sp := range []spec{
		{"writeFieldBeginInternal", []string{"<<:4", "<=:15"}, "field id delta <= 15 in the high nibble"},
		{"ReadFieldBegin", []string{"&:240", ">>:4", "&:15"}, "type in the low nibble, delta in the high nibble"},
		{"writeCollectionBegin", []string{"<=:14", "<<:4", "|:240"}, "size <= 14 in the high nibble, 0xf0 announces a varint size"},
		{"ReadListBegin", []string{">>:4", "&:15", "==:15"}, "size from the high nibble, 15 announces a varint size"},
		{"WriteMessageBegin", []string{"<<:5", "&:224", "|:1", "arg:130"}, "protocol id 0x82; version 1 in the low five bits, message type in the high three"},
		{"ReadMessageBegin", []string{"cmp:130", "&:31", ">>:5", "&:7", "cmp:1"}, "protocol id 0x82 required; version from the low five bits (must be 1), message type from the high three"},
	} {
		fn := c.fn(thriftPkg, "TCompactProtocol", sp.fn)
		if fn == nil {
			c.missing(rule, "thrift.TCompactProtocol."+sp.fn)
			continue
		}
		n++
		key := c.fnKey(fn)
		c.sawFunc(key)
		have := intConstsOf(fn)
		// helpers of the protocol the function hands part of the header to (checkVersion(b) ...)
		{
			seenFn := map[*ssa.Function]bool{fn: true}
			frontier := []*ssa.Function{fn}
			for depth := 0; depth < 2; depth++ {
				var next []*ssa.Function
				for _, f := range frontier {
					instrsOf(f, func(in ssa.Instruction) {
						if call, ok := in.(*ssa.Call); ok {
							if g := staticCallee(call); g != nil && g.Pkg == fn.Pkg && g.Blocks != nil && !seenFn[g] && !ast.IsExported(g.Name()) {
								seenFn[g] = true
								next = append(next, g)
								for k := range intConstsOf(g) {
									have[k] = true
								}
							}
						}
					})
				}
				frontier = next
			}
		}
		// constant arguments of calls (the protocol id byte)
		instrsOf(fn, func(in ssa.Instruction) {
			if call, ok := in.(*ssa.Call); ok {
				for _, a := range call.Call.Args {
					if k, isK := constInt(a); isK {
						have[fmt.Sprintf("arg:%d", k)] = true
					}
				}
			}
		})
		for k := range have {
			if strings.HasPrefix(k, "==:") || strings.HasPrefix(k, "!=:") {
				have["cmp:"+k[3:]] = true // `x == K` and `x != K` test the same thing
			}
		}
		var missing []string
		for _, k := range sp.need {
			if !have[k] {
				missing = append(missing, k)
			}
		}
		c.check(len(missing) == 0, rule, key, fn.Pos(), sp.what,
			fmt.Sprintf("%s does not split the header byte the way its counterpart does (%s; missing operator:constant %v)", sp.fn, sp.what, missing))
	}
	// both sides advance lastFieldId on their success paths
	fLast := c.field(thriftPkg, "TCompactProtocol", "lastFieldId")
	for _, name := range []string{"writeFieldBeginInternal", "ReadFieldBegin"} {
		fn := c.fn(thriftPkg, "TCompactProtocol", name)
		if fn == nil || fLast == nil {
			continue
		}
		stores := 0
		instrsOf(fn, func(in ssa.Instruction) {
			if st, ok := in.(*ssa.Store); ok {
				if f, _ := addrField(st.Addr); f == fLast {
					stores++
				}
			}
		})
		c.check(stores >= 1, rule, c.fnKey(fn)+":lastFieldId", fn.Pos(), "records the field id for the next delta", name+" does not record the field id: the next field's delta is computed against a stale id on one side only")
	}
	// struct begin / end keep the id stack the same way on both sides
	for _, pair := range [][2]string{{"WriteStructBegin", "ReadStructBegin"}, {"WriteStructEnd", "ReadStructEnd"}} {
		wf, rf := c.fn(thriftPkg, "TCompactProtocol", pair[0]), c.fn(thriftPkg, "TCompactProtocol", pair[1])
		if wf == nil || rf == nil {
			c.missing(rule, "thrift.TCompactProtocol."+pair[0]+" / "+pair[1])
			continue
		}
		n++
		var sigOf func(fn *ssa.Function, depth int) []string
		sigOf = func(fn *ssa.Function, depth int) []string {
			var parts []string
			instrsOf(fn, func(in ssa.Instruction) {
				switch x := in.(type) {
				case *ssa.Store:
					if f, _ := addrField(x.Addr); f != nil {
						parts = append(parts, "store:"+f.Name()+"="+fieldSym(x.Val, 4))
					}
				case *ssa.Call:
					// a helper of the protocol (push / pop of the id stack extracted into a method)
					if g := staticCallee(x); g != nil && g.Pkg == fn.Pkg && g.Blocks != nil && depth > 0 && g.Signature.Recv() != nil {
						parts = append(parts, sigOf(g, depth-1)...)
					}
				}
			})
			return parts
		}
		sig := func(fn *ssa.Function) string { return strings.Join(sigOf(fn, 2), "; ") }
		// the save (begin) / restore (end) of the enclosing struct's last field id happens on every
		// path: a stack that stops saving beyond some depth, or a restore that is skipped, leaves the
		// delta base of the enclosing struct wrong - on one side only once a message was abandoned
		// mid-struct on a reused protocol object
		for _, f := range []*ssa.Function{wf, rf} {
			isBegin := strings.HasSuffix(pair[0], "Begin")
			var find func(g *ssa.Function, depth int) bool // an unconditional save / restore in g
			find = func(g *ssa.Function, depth int) bool {
				found := false
				instrsOf(g, func(in ssa.Instruction) {
					if found {
						return
					}
					uncond := func() bool {
						for _, r := range returnsOf(g) {
							if !dominates(in, r) {
								return false
							}
						}
						return true
					}
					switch x := in.(type) {
					case *ssa.Store:
						if isBegin {
							// stack slot = lastFieldId
							if fl, _ := loadedField(stripConv(x.Val)); fl == fLast {
								if _, isIA := x.Addr.(*ssa.IndexAddr); isIA && uncond() {
									found = true
								}
							}
						} else if fa, _ := addrField(x.Addr); fa == fLast {
							// lastFieldId = stack slot
							if ld, isLd := stripConv(x.Val).(*ssa.UnOp); isLd && ld.Op == token.MUL {
								if _, isIA := ld.X.(*ssa.IndexAddr); isIA && uncond() {
									found = true
								}
							}
						}
					case *ssa.Call:
						if isBegin && isBuiltin(x, "append") && uncond() {
							for _, a := range x.Call.Args[1:] {
								if fl, _ := loadedField(stripConv(a)); fl == fLast {
									found = true
								}
								if sl, isSl := a.(*ssa.Slice); isSl {
									// append(stack, v) is compiled as append(stack, [1]int{v}[:]...)
									if al, isAl := sl.X.(*ssa.Alloc); isAl && al.Referrers() != nil {
										for _, rr := range *al.Referrers() {
											if ia, isIA := rr.(*ssa.IndexAddr); isIA && ia.Referrers() != nil {
												for _, u := range *ia.Referrers() {
													if st, isSt := u.(*ssa.Store); isSt {
														if fl, _ := loadedField(stripConv(st.Val)); fl == fLast {
															found = true
														}
													}
												}
											}
										}
									}
								}
							}
						}
						if h := staticCallee(x); h != nil && h.Pkg == g.Pkg && h.Blocks != nil && h.Signature.Recv() != nil && depth > 0 && uncond() {
							if find(h, depth-1) {
								found = true
							}
						}
					}
				})
				return found
			}
			what := "saves the enclosing struct's last field id on the stack"
			if !isBegin {
				what = "restores the enclosing struct's last field id from the stack"
			}
			c.check(find(f, 2), rule, c.fnKey(f)+":stack", f.Pos(), what+" on every path",
				f.Name()+" does not "+strings.Replace(what, "s the", " the", 1)+" on every path (the save / restore is conditional): beyond that condition a nested struct's end leaves the enclosing struct's delta base wrong, so field headers are mis-encoded or intact messages rejected")
		}
		ws, rs := sig(wf), sig(rf)
		c.check(ws == rs && ws != "", rule, "thrift.TCompactProtocol:"+pair[0]+"/"+pair[1], wf.Pos(), "writer and reader maintain the field-id stack identically ("+ws+")",
			fmt.Sprintf("%s does {%s} but %s does {%s}: the field-id stack (delta base) diverges between writer and reader in nested structs", pair[0], ws, pair[1], rs))
	}
	c.floor(rule, n, 6)
}

// fieldSym renders a value in terms of receiver fields, constants and simple operations.
func fieldSym(v ssa.Value, depth int) string {
	if depth == 0 {
		return "?"
	}
	switch x := v.(type) {
	case *ssa.Const:
		if x.Value != nil {
			return x.Value.ExactString()
		}
		return "nil"
	case *ssa.UnOp:
		if x.Op == token.MUL {
			if f, _ := addrField(x.X); f != nil {
				return f.Name()
			}
			if ia, ok := x.X.(*ssa.IndexAddr); ok {
				return fieldSym(ia.X, depth-1) + "[" + fieldSym(ia.Index, depth-1) + "]"
			}
		}
		return x.Op.String() + fieldSym(x.X, depth-1)
	case *ssa.BinOp:
		return "(" + fieldSym(x.X, depth-1) + x.Op.String() + fieldSym(x.Y, depth-1) + ")"
	case *ssa.Call:
		if isBuiltin(x, "len") || isBuiltin(x, "append") {
			var as []string
			for _, a := range x.Call.Args {
				as = append(as, fieldSym(a, depth-1))
			}
			return x.Call.Value.Name() + "(" + strings.Join(as, ",") + ")"
		}
	case *ssa.Slice:
		lo, hi := "", ""
		if x.Low != nil {
			lo = fieldSym(x.Low, depth-1)
		}
		if x.High != nil {
			hi = fieldSym(x.High, depth-1)
		}
		return fieldSym(x.X, depth-1) + "[" + lo + ":" + hi + "]"
	case *ssa.Convert:
		return fieldSym(x.X, depth)
	case *ssa.Alloc:
		return "new"
	}
	return "?"
}

// checkDecodedPayloadOwned (O8): what ReadString / ReadBinary hand to the decoded structure is the
// decoded structure's own memory - a string made by a copying conversion (string(bytes),
// (*bytes.Buffer).String()) and a byte slice allocated in the reader - never a view of the transport's
// or the protocol's buffer (which the next packet overwrites: a batch decoded earlier would silently
// change). Followed through same-package helpers the readers return through.
func (c *Ctx) checkDecodedPayloadOwned(rule string) {
	n := 0
	for _, proto := range []string{"TBinaryProtocol", "TCompactProtocol"} {
		for _, m := range []string{"ReadString", "ReadBinary"} {
			fn := c.fn(thriftPkg, proto, m)
			if fn == nil {
				c.missing(rule, "thrift."+proto+"."+m)
				continue
			}
			n++
			key := c.fnKey(fn)
			c.sawFunc(key)
			visiting := map[*ssa.Function]bool{}
			var owned func(f *ssa.Function, depth int) (string, ssa.Instruction)
			var ownedVal func(f *ssa.Function, v ssa.Value, at ssa.Instruction, depth int, seen map[ssa.Value]bool) (string, ssa.Instruction)
			ownedVal = func(f *ssa.Function, v ssa.Value, at ssa.Instruction, depth int, seen map[ssa.Value]bool) (string, ssa.Instruction) {
				if in, ok := v.(ssa.Instruction); ok {
					at = in
				}
				if depth == 0 {
					return "its origin could not be traced", at
				}
				if seen[v] {
					return "", nil
				}
				seen[v] = true
				switch x := v.(type) {
				case *ssa.Const:
					return "", nil
				case *ssa.MakeSlice:
					return "", nil
				case *ssa.Convert:
					// []byte -> string and string -> []byte conversions copy
					_, fromSlice := x.X.Type().Underlying().(*types.Slice)
					_, toSlice := x.Type().Underlying().(*types.Slice)
					if fromSlice != toSlice {
						return "", nil
					}
					return ownedVal(f, x.X, at, depth-1, seen)
				case *ssa.ChangeType:
					return ownedVal(f, x.X, at, depth-1, seen)
				case *ssa.Phi:
					for _, e := range x.Edges {
						if w, a := ownedVal(f, e, at, depth-1, seen); w != "" {
							return w, a
						}
					}
					return "", nil
				case *ssa.Extract:
					if call, ok := x.Tuple.(*ssa.Call); ok && x.Index == 0 {
						return ownedVal(f, call, at, depth-1, seen)
					}
				case *ssa.Call:
					g := staticCallee(x)
					if g == nil {
						return "it is the result of a dynamic call (" + calleeName(x) + ")", x
					}
					if g.Pkg != nil && g.Pkg.Pkg.Path() == "bytes" && g.Name() == "String" {
						return "", nil // (*bytes.Buffer).String copies
					}
					if g.Pkg != nil && g.Pkg.Pkg.Path() == "strings" && g.Name() == "String" {
						return "", nil // (*strings.Builder).String: the builder's own memory, not reused
					}
					if g.Pkg == fn.Pkg {
						return owned(g, depth-1)
					}
					return "it is the result of " + g.String(), x
				case *ssa.UnOp:
					if x.Op == token.MUL {
						if al, ok := x.X.(*ssa.Alloc); ok && al.Parent() == f && al.Referrers() != nil {
							// a local / named-result cell: everything stored into it
							for _, r := range *al.Referrers() {
								if st, isSt := r.(*ssa.Store); isSt && st.Addr == ssa.Value(al) {
									if w, a := ownedVal(f, st.Val, st, depth-1, seen); w != "" {
										return w, a
									}
								}
							}
							return "", nil
						}
						return "it is read through a pointer (an unsafe view of a byte buffer, or a field)", x
					}
				case *ssa.Slice:
					if al, ok := x.X.(*ssa.Alloc); ok && al.Parent() == f {
						if _, isArr := deref(al.Type()).Underlying().(*types.Array); isArr {
							return "", nil // a composite literal / local array of the reader
						}
					}
					return ownedVal(f, x.X, at, depth-1, seen)
				}
				return "it is not a copy made by the reader (" + fmt.Sprintf("%T", v) + ")", at
			}
			owned = func(f *ssa.Function, depth int) (string, ssa.Instruction) {
				if visiting[f] || depth == 0 {
					return "", nil
				}
				visiting[f] = true
				defer delete(visiting, f)
				for _, r := range returnsOf(f) {
					if len(r.Results) == 0 {
						continue
					}
					if w, a := ownedVal(f, r.Results[0], r, 10, map[ssa.Value]bool{}); w != "" {
						return w, a
					}
				}
				return "", nil
			}
			why, at := owned(fn, 4)
			var pos token.Pos
			trail := ""
			if at != nil {
				pos = at.Pos()
				trail = c.describe(at)
			} else {
				pos = fn.Pos()
			}
			c.check(why == "", rule, key, pos, "the decoded "+strings.TrimPrefix(m, "Read")+" is a copy owned by the decoded structure (copying conversion / slice allocated in the reader)",
				"the decoded "+strings.TrimPrefix(m, "Read")+" is not the decoded structure's own memory: "+why+" - it aliases a buffer that the next packet overwrites, so a batch decoded earlier silently changes its content", trail)
		}
	}
	c.floor(rule, n, 4)
}

// checkDecodedSizeGuards (O8): the readers of list / set / map headers and of string / binary lengths
// reject exactly the negative sizes: every test of a decoded size against 0 or 1 that can lead to an
// error is `size < 0`. (`<= 0` or `< 1` rejects the empty list - a metric without tags, an empty common
// tag list - although the writer produced it: decode(encode(x)) fails for x with empty lists.)
func (c *Ctx) checkDecodedSizeGuards(rule string) {
	n := 0
	for _, proto := range []string{"TBinaryProtocol", "TCompactProtocol"} {
		for _, m := range []string{"ReadListBegin", "ReadSetBegin", "ReadMapBegin", "ReadString", "ReadBinary"} {
			fn := c.fn(thriftPkg, proto, m)
			if fn == nil {
				continue
			}
			key := c.fnKey(fn)
			c.sawFunc(key)
			okAll := true
			nT := 0
			for _, b := range fn.Blocks {
				iff, isIf := condOf(b)
				if !isIf {
					continue
				}
				op, x, y, isCmp := cmpOf(iff.Cond)
				if !isCmp {
					continue
				}
				if _, isK := x.(*ssa.Const); isK {
					x, y = y, x
					op = flipCmp(op)
				}
				k, isK := constInt(y)
				if !isK || (k != 0 && k != 1) {
					continue
				}
				bt, isB := x.Type().Underlying().(*types.Basic)
				if !isB || bt.Info()&types.IsInteger == 0 || bt.Info()&types.IsUnsigned != 0 {
					continue
				}
				if op != token.LSS && op != token.LEQ && op != token.GTR && op != token.GEQ {
					continue
				}
				// does the "small" outcome lead to an error return?
				smallIdx := 0
				if op == token.GTR || op == token.GEQ {
					smallIdx = 1
				}
				leadsToErr := false
				for _, ra := range returnsFromEdge(b, smallIdx) {
					rr := ra.ret.Results
					if len(rr) > 0 && !isNilConst(ra.st.resolve(rr[len(rr)-1])) {
						leadsToErr = true
					}
				}
				if !leadsToErr {
					continue
				}
				nT++
				// normalise to "small" = x < bound
				exact := (op == token.LSS && k == 0) || (op == token.GEQ && k == 0)
				if !exact {
					okAll = false
					pos := fn.Pos()
					if ci, isI := iff.Cond.(ssa.Instruction); isI && ci.Pos().IsValid() {
						pos = ci.Pos()
					}
					c.bad(rule, key, pos, fmt.Sprintf("%s rejects sizes with `%s %d` instead of `< 0`: an empty list / string that the writer produced is refused by the reader", m, op, k), c.describe(iff))
				}
			}
			if nT > 0 {
				n++
				if okAll {
					c.ok(rule, key, fn.Pos(), "decoded sizes are rejected exactly when negative")
				}
			}
		}
	}
	c.floor(rule, n, 4)
}
