package main

import (
	"fmt"
	"go/token"
	"go/types"
	"strings"

	"golang.org/x/tools/go/ssa"
)

func init() { register("C06", checkC06) }

func checkC06(c *Ctx) {
	c.Explanation = "Decides sanitize-before-sink as a property of flows, for all inputs: (O1) at each of the reporter call sites of package tally (Report*/Allocate* in stats.go, scope.go, scope_registry.go) every source of the name argument has passed Sanitizer.Name and every key/value of the tag-map argument has passed Sanitizer.Key/Sanitizer.Value of the scope's sanitizer - a backward all-sources qualifier inference through concatenation, phis, fields (all stores), parameters (all call sites), map keys/values (all updates) and ranges; this covers root prefix, separator, subscope names, tags at every level and the cardinality metrics; (O2) the validity test is inclusive at both range ends and extra characters match by equality; (O3) the sanitizer table wires name/key/value functions to the matching option and Name/Key/Value call their own function on their argument; (O4) the pooled scratch buffer is not used after it is returned to the pool and String() is taken before that; (O5) without options the no-op sanitizer (three identity functions) is installed."
	c.Explanation += " Added by round 9: (O2 inclusive-ranges:foreign-test) no comparison of the rune with anything outside the allow-list precedes the allow-list tests."
	c.NotDecided = []string{"idempotence, determinism and rune-count preservation as value statements", "invalid UTF-8 handling (range yields U+FFFD)"}
	c.Assumptions = append(c.Assumptions, "concatenating sanitized strings yields a sanitized string (per-rune character-class sanitizer; stated in scope.fullyQualifiedName)")

	// ---- O1 ---------------------------------------------------------------------------------
	e := c.newQualEngine()
	sinks := c.reporterSinks()
	c.floor("O1 sanitize-before-sink", len(sinks), 9)
	ord := map[string]int{}
	for _, s := range sinks {
		in := s.call.(ssa.Instruction)
		fn := in.Parent()
		base := c.fnKey(fn) + ":" + s.m.Name()
		ord[base]++
		key := fmt.Sprintf("%s#%d", base, ord[base])
		c.sawFunc(c.fnKey(fn))
		c.callSites++
		args := s.call.Common().Args
		nq := e.str(args[0])
		mq := e.mp(args[1])
		if nq&qN == 0 {
			c.bad("O1 sanitize-before-sink", key+":name", in.Pos(), "a metric name reaches the reporter through a flow that does not pass Sanitizer.Name: "+orDefault(e.explain(stripConv(args[0])), "source not sanitized"), c.describe(in))
		} else {
			c.ok("O1 sanitize-before-sink", key+":name", in.Pos(), "every source of the name has passed Sanitizer.Name")
		}
		if mq.k&qK == 0 || mq.v&qV == 0 {
			what := "tag keys"
			if mq.k&qK != 0 {
				what = "tag values"
			}
			c.bad("O1 sanitize-before-sink", key+":tags", in.Pos(), what+" reach the reporter through a flow that does not pass Sanitizer.Key/Value: "+orDefault(e.explain(stripConv(args[1])), "source not sanitized")+fmt.Sprintf(" (keys: %s, values: %s)", mq.k, mq.v), c.describe(in))
		} else {
			c.ok("O1 sanitize-before-sink", key+":tags", in.Pos(), "every tag key/value has passed Sanitizer.Key/Value")
		}
	}

	// ---- O2 validity test ----------------------------------------------------------------------
	c.checkSanitizeRanges("O2 inclusive-ranges")
	// ---- O3 table --------------------------------------------------------------------------------
	c.checkSanitizerTable("O3 sanitizer-table")
	// ---- O4 pooled buffer ------------------------------------------------------------------------
	c.checkSanitizeBuffer("O4 pooled-buffer")
	// ---- O5 no-op ----------------------------------------------------------------------------------
	c.checkNoOpSanitizer("O5 no-op")
	c.checkDecodedWidth("O6 decoded-width")
}

func orDefault(s, d string) string {
	if s == "" {
		return d
	}
	return s
}

// the closure returned by (*ValidCharacters).sanitizeFn
func (c *Ctx) sanitizeClosure() *ssa.Function {
	fn := c.fn("", "ValidCharacters", "sanitizeFn")
	if fn == nil {
		return nil
	}
	// the closure sanitizeFn returns (other literals of sanitizeFn are helpers of it)
	for _, r := range returnsOf(fn) {
		for _, va := range resultValues(r, 0) {
			if mc, ok := stripConv(va.Val).(*ssa.MakeClosure); ok {
				if g, isF := mc.Fn.(*ssa.Function); isF && g.Parent() == fn {
					return g
				}
			}
		}
	}
	for _, f := range fn.AnonFuncs {
		return f
	}
	return nil
}

func (c *Ctx) checkSanitizeRanges(rule string) {
	cl := c.sanitizeClosure()
	fRanges, fChars := c.field("", "ValidCharacters", "Ranges"), c.field("", "ValidCharacters", "Characters")
	if cl == nil || fRanges == nil || fChars == nil {
		c.missing(rule, "tally.ValidCharacters.sanitizeFn closure / Ranges / Characters")
		return
	}
	key := c.fnKey(cl)
	c.sawFunc(key)
	// comparisons between the current rune and Ranges[i][0|1] / Characters[i]
	type cmp struct {
		op    token.Token
		which int // 0 lower, 1 upper, 2 extra char
		at    ssa.Instruction
	}
	var cmps []cmp
	classify := func(v ssa.Value) int {
		ld, ok := stripConv(v).(*ssa.UnOp)
		if !ok || ld.Op != token.MUL {
			return -1
		}
		ia, ok := ld.X.(*ssa.IndexAddr)
		if !ok {
			return -1
		}
		// Characters[i]
		if f, _ := loadedField(ia.X); f == fChars {
			return 2
		}
		// Ranges[i][k]
		if k, isK := constInt(ia.Index); isK && (k == 0 || k == 1) {
			if ia2, ok2 := ia.X.(*ssa.IndexAddr); ok2 {
				if f, _ := loadedField(ia2.X); f == fRanges {
					return int(k)
				}
			}
			// `for _, r := range Ranges { r[k] }`: r is a local copy of Ranges[i]
			if al, isAl := ia.X.(*ssa.Alloc); isAl {
				if stores, fromEntry := reachingStores(al, ld); !fromEntry && len(stores) == 1 {
					if src, isLd := stripConv(stores[0].Val).(*ssa.UnOp); isLd && src.Op == token.MUL {
						if ia2, ok2 := src.X.(*ssa.IndexAddr); ok2 {
							if f, _ := loadedField(ia2.X); f == fRanges {
								return int(k)
							}
						}
					}
				}
			}
		}
		return -1
	}
	// the test may live in a helper called from the closure (isValid(ch)): scan the closure and the
	// module functions it calls, two levels deep
	scan := []*ssa.Function{cl}
	seenFn := map[*ssa.Function]bool{cl: true}
	for depth, frontier := 0, []*ssa.Function{cl}; depth < 2 && len(frontier) > 0; depth++ {
		var next []*ssa.Function
		for _, f := range frontier {
			instrsOf(f, func(in ssa.Instruction) {
				if call, ok := in.(ssa.CallInstruction); ok {
					g := staticCallee(call)
					if g == nil && !call.Common().IsInvoke() {
						// a sibling literal held in a captured single-assignment variable (inRange := func...)
						if mc, isMC := canon(call.Common().Value).(*ssa.MakeClosure); isMC {
							g, _ = mc.Fn.(*ssa.Function)
						}
					}
					if g != nil && c.inModule(g) && g.Blocks != nil && !seenFn[g] {
						seenFn[g] = true
						scan = append(scan, g)
						next = append(next, g)
					}
				}
			})
		}
		frontier = next
	}
	for _, scanned := range scan {
		instrsOf(scanned, func(in ssa.Instruction) {
			bo, ok := in.(*ssa.BinOp)
			if !ok {
				return
			}
			switch bo.Op {
			case token.EQL, token.NEQ, token.LSS, token.LEQ, token.GTR, token.GEQ:
			default:
				return
			}
			op := bo.Op
			w := classify(bo.Y)
			if w < 0 {
				if w2 := classify(bo.X); w2 >= 0 {
					w = w2
					op = flipCmp(op) // normalise to  ch OP bound
				}
			}
			if w >= 0 {
				cmps = append(cmps, cmp{op, w, in})
			}
		})
	}
	got := map[int]token.Token{}
	for _, x := range cmps {
		got[x.which] = x.op
	}
	ok := len(cmps) == 3 && got[0] == token.GEQ && got[1] == token.LEQ && got[2] == token.EQL
	why := fmt.Sprintf("the validity test compares the rune with (lower %v, upper %v, extra %v); a character is valid iff lower <= ch <= upper for some range (both ends inclusive) or it equals an extra character: with a strict comparison the boundary characters ('a','z','0','9', ...) are replaced although they are allowed", got[0], got[1], got[2])
	if len(cmps) != 3 {
		why = fmt.Sprintf("expected exactly three comparisons of the rune against Ranges[i][0], Ranges[i][1] and Characters[i], found %d", len(cmps))
	}
	c.check(ok, rule, key, cl.Pos(), "valid iff Ranges[i][0] <= ch <= Ranges[i][1] for some i, or ch == Characters[i] for some i", why)

	// ... and of nothing else: before the table is consulted the rune is not compared with anything that
	// is not in the table (a character that "counts as valid" because it equals the replacement, a
	// constant, ...). Only comparisons that dominate one of the table comparisons are judged: what the
	// closure does with the rune after validity is decided (how it writes it) is not this rule's business.
	var runeVals []ssa.Value
	instrsOf(cl, func(in ssa.Instruction) {
		if ex, isEx := in.(*ssa.Extract); isEx && ex.Index == 2 {
			if nx, isNx := ex.Tuple.(*ssa.Next); isNx && nx.IsString {
				runeVals = append(runeVals, ex)
			}
		}
	})
	isRune := func(v ssa.Value) bool {
		v = canon(v)
		if cv, isCv := v.(*ssa.Convert); isCv {
			v = canon(cv.X)
		}
		for _, r := range runeVals {
			if v == r {
				return true
			}
		}
		return false
	}
	foreign := 0
	instrsOf(cl, func(in ssa.Instruction) {
		bo, isBo := in.(*ssa.BinOp)
		if !isBo {
			return
		}
		switch bo.Op {
		case token.EQL, token.NEQ, token.LSS, token.LEQ, token.GTR, token.GEQ:
		default:
			return
		}
		if !isRune(bo.X) && !isRune(bo.Y) {
			return
		}
		if classify(bo.X) >= 0 || classify(bo.Y) >= 0 {
			return
		}
		for _, x := range cmps {
			if x.at.Parent() == cl && (bo.Block() == x.at.Block() && instrIndex(bo) < instrIndex(x.at) || bo.Block() != x.at.Block() && bo.Block().Dominates(x.at.Block())) {
				foreign++
				c.bad(rule, key+":foreign-test", bo.Pos(), "before the allow-list is consulted the rune is compared with something that is not in it ("+c.describe(bo)+"): whether a character passes no longer depends on the option alone - e.g. a rune equal to the replacement (an invalid byte decodes to U+FFFD) passes through raw", c.describe(bo))
				return
			}
		}
	})
	if foreign == 0 && len(runeVals) > 0 {
		c.ok(rule, key+":foreign-test", cl.Pos(), "no comparison of the rune with anything outside the allow-list precedes the allow-list tests")
	}
}

func (c *Ctx) checkSanitizerTable(rule string) {
	ns := c.fn("", "", "NewSanitizer")
	sfn := c.fn("", "ValidCharacters", "sanitizeFn")
	if ns == nil || sfn == nil {
		c.missing(rule, "tally.NewSanitizer / ValidCharacters.sanitizeFn")
		return
	}
	// sanitizeFn hands out its validating closure on every path: an empty allow-list means "nothing is
	// allowed" (every rune is replaced), not "nothing to check"
	{
		okAll := true
		for _, r := range returnsOf(sfn) {
			for _, va := range resultValues(r, 0) {
				mc, isMC := stripConv(va.Val).(*ssa.MakeClosure)
				if f, _ := func() (*ssa.Function, bool) {
					if !isMC {
						return nil, false
					}
					g, ok := mc.Fn.(*ssa.Function)
					return g, ok
				}(); f == nil || f.Parent() != sfn {
					okAll = false
					c.bad(rule, c.fnKey(sfn)+":result", r.Pos(), "sanitizeFn can return something other than its validating closure (a pass-through for some configurations): strings of that kind reach the reporter unsanitized, including invalid byte sequences", c.describe(r))
				}
			}
		}
		if okAll {
			c.ok(rule, c.fnKey(sfn)+":result", sfn.Pos(), "every return hands out the validating closure")
		}
	}
	c.sawFunc(c.fnKey(ns))
	want := map[string]string{"nameFn": "NameCharacters", "keyFn": "KeyCharacters", "valueFn": "ValueCharacters"}
	got := map[string]string{}
	repOK := true
	instrsOf(ns, func(in ssa.Instruction) {
		st, ok := in.(*ssa.Store)
		if !ok {
			return
		}
		f, _ := addrField(st.Addr)
		if f == nil || want[f.Name()] == "" {
			return
		}
		call, isCall := stripConv(st.Val).(*ssa.Call)
		if !isCall || staticCallee(call) != sfn {
			return
		}
		if of, _ := addrField(call.Call.Args[0]); of != nil {
			got[f.Name()] = of.Name()
		}
		if rf, _ := loadedField(call.Call.Args[1]); rf == nil || rf.Name() != "ReplacementCharacter" {
			repOK = false
		}
	})
	ok := repOK
	for k, v := range want {
		if got[k] != v {
			ok = false
		}
	}
	c.check(ok, rule, c.fnKey(ns), ns.Pos(), "nameFn/keyFn/valueFn are built from Name/Key/ValueCharacters with the configured replacement",
		fmt.Sprintf("NewSanitizer wires %v (expected nameFn<-NameCharacters, keyFn<-KeyCharacters, valueFn<-ValueCharacters, each with opts.ReplacementCharacter): names, keys or values are checked against the wrong character set", got))
	for _, m := range []struct{ meth, fld string }{{"Name", "nameFn"}, {"Key", "keyFn"}, {"Value", "valueFn"}} {
		fn := c.fn("", "sanitizer", m.meth)
		if fn == nil {
			c.missing(rule, "tally.sanitizer."+m.meth)
			continue
		}
		okM := false
		if rets := returnsOf(fn); len(rets) == 1 {
			if call, isCall := stripConv(rets[0].Results[0]).(*ssa.Call); isCall && staticCallee(call) == nil {
				f, base := loadedField(call.Call.Value)
				if f != nil && f.Name() == m.fld && canon(rootOf(base)) == ssa.Value(fn.Params[0]) && len(call.Call.Args) == 1 && canon(call.Call.Args[0]) == ssa.Value(fn.Params[1]) {
					okM = true
				}
			}
		}
		c.check(okM, rule, c.fnKey(fn), fn.Pos(), m.meth+"(x) returns s."+m.fld+"(x)", "sanitizer."+m.meth+" does not return s."+m.fld+" applied to its argument")
	}
}

func (c *Ctx) checkSanitizeBuffer(rule string) {
	cl := c.sanitizeClosure()
	put, get := c.fn("", "", "putSanitizeBuffer"), c.fn("", "", "getSanitizeBuffer")
	if cl == nil || put == nil || get == nil {
		c.missing(rule, "sanitize closure / getSanitizeBuffer / putSanitizeBuffer")
		return
	}
	// exclusive ownership: what getSanitizeBuffer hands out comes from a sync.Pool (which gives an object
	// to one caller at a time), from an atomic Swap (which takes it away from everyone else in one step)
	// or is freshly allocated - never a pointer that was merely loaded from a shared slot (two callers can
	// load it before either clears the slot and then write into one buffer)
	{
		okSrc := true
		var at ssa.Instruction
		var src func(v ssa.Value, depth int, seen map[ssa.Value]bool) bool
		src = func(v ssa.Value, depth int, seen map[ssa.Value]bool) bool {
			v = stripConv(v)
			if depth == 0 {
				return false
			}
			if seen[v] {
				return true
			}
			seen[v] = true
			switch x := v.(type) {
			case *ssa.Alloc:
				return true
			case *ssa.TypeAssert:
				return src(x.X, depth-1, seen)
			case *ssa.Extract:
				return src(x.Tuple, depth-1, seen)
			case *ssa.Phi:
				for _, e := range x.Edges {
					if !src(e, depth-1, seen) {
						return false
					}
				}
				return true
			case *ssa.Call:
				pkg, typ, m := recvNamed(x)
				if pkg == "sync" && typ == "Pool" && m == "Get" {
					return true
				}
				if pkg == "sync/atomic" && m == "Swap" {
					return true
				}
				if g := staticCallee(x); g != nil && g.Pkg != nil && g.Pkg.Pkg.Path() == "bytes" && (g.Name() == "NewBuffer" || g.Name() == "NewBufferString") {
					return true
				}
				if in, isI := v.(ssa.Instruction); isI {
					at = in
				}
				return false
			}
			if in, isI := v.(ssa.Instruction); isI {
				at = in
			}
			return false
		}
		for _, r := range returnsOf(get) {
			for _, va := range resultValues(r, 0) {
				if !src(va.Val, 8, map[ssa.Value]bool{}) {
					okSrc = false
					if at == nil {
						at = va.At
					}
				}
			}
		}
		pos := get.Pos()
		tr := ""
		if at != nil {
			pos, tr = at.Pos(), c.describe(at)
		}
		c.check(okSrc, rule, c.fnKey(get)+":exclusive", pos, "the buffer handed out comes from the pool (or is fresh): one owner at a time",
			"getSanitizeBuffer can hand out a buffer it did not obtain exclusively (a pointer loaded from a shared slot and cleared in a second step): two concurrent callers get the same buffer and each other's text", tr)
	}
	key := c.fnKey(cl)
	var puts []*ssa.Call
	nDeferred := 0
	instrsOf(cl, func(in ssa.Instruction) {
		if call, ok := in.(*ssa.Call); ok && staticCallee(call) == put {
			puts = append(puts, call)
		}
		if d, ok := in.(*ssa.Defer); ok && staticCallee(d) == put {
			nDeferred++
		}
	})
	ok := len(puts)+nDeferred >= 1
	why := "the scratch buffer is never returned to the pool"
	isBufUse := func(in ssa.Instruction) bool {
		call, isCall := in.(*ssa.Call)
		if !isCall {
			return false
		}
		pkg, typ, _ := recvNamed(call)
		return pkg == "bytes" && typ == "Buffer"
	}
	for _, p := range puts {
		if use := reachAvoiding(p, false, isBufUse, nil); use != nil {
			ok = false
			why = "the scratch buffer is used after it was returned to the pool: the next owner (possibly on another goroutine) writes into the same buffer - corrupted output under concurrency"
		}
		// String() before put
		hasString := false
		instrsOf(cl, func(in ssa.Instruction) {
			if call, isCall := in.(*ssa.Call); isCall {
				if _, _, m := recvNamed(call); m == "String" && isBufUse(in) && dominates(in, p) {
					hasString = true
				}
			}
		})
		if !hasString {
			ok = false
			why = "the result is not taken (String()) before the buffer goes back to the pool"
		}
	}
	// inside the release helper itself nothing touches the buffer after the pool's Put either
	instrsOf(put, func(in ssa.Instruction) {
		call, isCall := in.(*ssa.Call)
		if !isCall {
			return
		}
		name := ""
		if g := staticCallee(call); g != nil {
			name = g.Name()
		} else if call.Call.IsInvoke() {
			name = call.Call.Method.Name()
		}
		if name != "Put" {
			return
		}
		if use := reachAvoiding(in, false, isBufUse, nil); use != nil {
			ok = false
			why = "the release helper resets / uses the buffer after handing it to the pool: the next owner (possibly on another goroutine) may already be writing into it - its output is truncated or mixed"
		}
	})
	// the buffer goes back to the pool at most once per call (a buffer pooled twice is handed to two
	// goroutines at the same time), deferred puts included
	cnt := c.newPathCounter(func(i ssa.Instruction) bool {
		call := asCall(i)
		return call != nil && staticCallee(call) == put
	}, 1).fn(cl, 1)
	c.paths++
	if cnt.max > 1 {
		ok = false
		why = fmt.Sprintf("the scratch buffer can be returned to the pool %d times in one call: two later callers (possibly on different goroutines) receive the same buffer and corrupt each other's output", cnt.max)
	}
	// a deferred put runs after the explicit uses but also after `return buf.String()` has been
	// evaluated, which is fine; a put followed by a use is not (checked above)
	// the value returned on the buffered path is that String() result
	c.check(ok, rule, key, cl.Pos(), "get -> writes -> String() -> put; no use after put", why)
	// put resets before pooling
	okPut := false
	instrsOf(put, func(in ssa.Instruction) {
		if call, isCall := in.(*ssa.Call); isCall {
			if _, _, m := recvNamed(call); m == "Reset" {
				okPut = true
			}
		}
	})
	c.check(okPut, rule, c.fnKey(put), put.Pos(), "the buffer is reset before it is pooled", "putSanitizeBuffer does not reset the buffer: the next sanitized string starts with the previous one's bytes")
}

func (c *Ctx) checkNoOpSanitizer(rule string) {
	noop := c.fn("", "", "NoOpSanitizeFn")
	nn := c.fn("", "", "NewNoOpSanitizer")
	root := c.fn("", "", "newRootScope")
	if noop == nil || nn == nil || root == nil {
		c.missing(rule, "tally.NoOpSanitizeFn / NewNoOpSanitizer / newRootScope")
		return
	}
	okId := false
	if rets := returnsOf(noop); len(rets) == 1 && rets[0].Results[0] == ssa.Value(noop.Params[0]) {
		okId = true
	}
	c.check(okId, rule, c.fnKey(noop), noop.Pos(), "NoOpSanitizeFn returns its argument", "NoOpSanitizeFn does not return its argument unchanged: without sanitize options strings are no longer passed through byte-for-byte")
	n := 0
	instrsOf(nn, func(in ssa.Instruction) {
		if st, ok := in.(*ssa.Store); ok {
			if f, _ := addrField(st.Addr); f != nil && (f.Name() == "nameFn" || f.Name() == "keyFn" || f.Name() == "valueFn") {
				if g, isF := stripConv(st.Val).(*ssa.Function); isF && g == noop {
					n++
				} else if ct, isCT := st.Val.(*ssa.ChangeType); isCT && ct.X == ssa.Value(noop) {
					n++
				}
			}
		}
	})
	c.check(n == 3, rule, c.fnKey(nn), nn.Pos(), "the no-op sanitizer installs the identity for names, keys and values", fmt.Sprintf("NewNoOpSanitizer installs the identity function for %d of 3 slots", n))
	// newRootScope: sanitizer = NoOp unless SanitizeOptions != nil -> NewSanitizer(*o)
	var hasNoop, hasNew bool
	nsFn := c.fn("", "", "NewSanitizer")
	fSO := c.field("", "ScopeOptions", "SanitizeOptions")
	instrsOf(root, func(in ssa.Instruction) {
		if call, ok := in.(*ssa.Call); ok {
			if staticCallee(call) == nn {
				hasNoop = true
			}
			if staticCallee(call) == nsFn && nsFn != nil {
				if guardedByEdge(in, fieldNonNilCond(fSO)) != nil {
					hasNew = true
				}
			}
		}
	})
	c.check(hasNoop && hasNew, rule, c.fnKey(root), root.Pos(), "no options -> no-op sanitizer; options -> NewSanitizer(options)", "the root scope does not choose the no-op sanitizer when no SanitizeOptions are given and NewSanitizer(options) otherwise")
	_ = types.Typ
}

// checkDecodedWidth (O6): in the sanitizer, how many bytes a decoded rune occupied in the input is
// known only to the decoder (`for i, r := range s` advances i by it; utf8.DecodeRuneInString returns
// it). Re-deriving it from the rune - utf8.RuneLen(r), len(string(r)), EncodeRune - is wrong for
// invalid input: range yields U+FFFD with width 1, but RuneLen(U+FFFD) is 3, so two following bytes
// are skipped (or a slice bound overruns).
func (c *Ctx) checkDecodedWidth(rule string) {
	n := 0
	for _, fn := range c.funcsOfPkg("") {
		file := c.Fset.Position(fn.Pos()).Filename
		if !strings.HasSuffix(file, "sanitize.go") {
			continue
		}
		// runes that come out of a range over a string
		decoded := map[ssa.Value]bool{}
		instrsOf(fn, func(in ssa.Instruction) {
			if ex, ok := in.(*ssa.Extract); ok && ex.Index == 2 {
				if nx, isN := ex.Tuple.(*ssa.Next); isN && nx.IsString {
					decoded[ex] = true
				}
			}
		})
		if len(decoded) == 0 {
			continue
		}
		n++
		key := c.fnKey(fn)
		c.sawFunc(key)
		var bad ssa.Instruction
		instrsOf(fn, func(in ssa.Instruction) {
			if bad != nil {
				return
			}
			switch x := in.(type) {
			case *ssa.Call:
				g := staticCallee(x)
				if g != nil && g.Pkg != nil && g.Pkg.Pkg.Path() == "unicode/utf8" && (g.Name() == "RuneLen" || g.Name() == "EncodeRune" || g.Name() == "AppendRune") {
					for _, a := range x.Call.Args {
						if decoded[canon(stripConv(a))] && g.Name() == "RuneLen" {
							bad = in
						}
					}
				}
				if isBuiltin(x, "len") {
					if cv, isCv := stripConv(x.Call.Args[0]).(*ssa.Convert); isCv && decoded[canon(stripConv(cv.X))] {
						bad = in // len(string(r))
					}
				}
			}
		})
		c.check(bad == nil, rule, key, fn.Pos(), "the width of a decoded rune is never re-derived from the rune",
			"the number of input bytes a decoded rune occupied is re-derived from the rune (RuneLen / len(string(r))): for an invalid byte the decoder yields U+FFFD after consuming ONE byte while the re-derived width is 3, so the bytes after an invalid byte are dropped or a slice bound overruns (panic)", func() string {
				if bad != nil {
					return c.describe(bad)
				}
				return ""
			}())
	}
	c.floor(rule, n, 1)
}
