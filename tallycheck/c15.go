package main

import (
	"fmt"
	"go/constant"
	"go/token"
	"go/types"

	"golang.org/x/tools/go/ssa"
)

func init() { register("C15", checkC15) }

// bufCall: call of (*bytes.Buffer).<name> on &recv.writeBuf.
func bufCall(in ssa.Instruction, fBuf *types.Var, names ...string) *ssa.Call {
	call, ok := in.(*ssa.Call)
	if !ok {
		return nil
	}
	f := staticCallee(call)
	if f == nil || f.Signature.Recv() == nil {
		return nil
	}
	pkg, typ, m := recvNamed(call)
	if pkg != "bytes" || typ != "Buffer" {
		return nil
	}
	fld, _ := addrField(call.Call.Args[0])
	if fld != fBuf {
		return nil
	}
	for _, n := range names {
		if m == n {
			return call
		}
	}
	return nil
}

func checkC15(c *Ctx) {
	c.Explanation = "Decides the structure of the UDP transport: (O1) Read, Write, WriteByte, WriteString and Flush test IsOpen first and return the not-open error, everything else they do is on the open edge; (O2) the three write methods test `writeBuf.Len() + n > MaxLength` with the right n (len(buf), 1, len(s)) before appending, the refusing edge returns an error and appends nothing, and the append is the matching Buffer method with the method's own argument; (O3) Flush writes writeBuf.Bytes() to the socket exactly once and resets the buffer on every path after that; (O4) after a refused write the abandoned prefix must not stay buffered for the next message: the refusing path resets the buffer, or the writer (generated client / reporter.flush) discards it on error; (O5) the multi transport's Open/Close/Write/Flush/IsOpen visit every transport in order, leaving early only on an error / false; (O6) Close closes the socket only on the first swap of the closed flag; (O7) the reporter's flush counts a write error and returns normally."
	c.Explanation += " Added later: (O8) a thrift protocol / transport is flushed only by a forwarding Flush method or after a successful WriteMessageEnd; (O9) no socket deadline is armed outside the function that performs the bounded operation."
	c.Explanation += " Added by round 8: (O7 failed-batch-dropped, shared with C13) the reporter's flush returns an empty batch whatever the emit returned."
	c.NotDecided = []string{"byte equality of datagrams", "socket behaviour"}
	const pk = "m3/thriftudp"
	tr := c.named(pk, "TUDPTransport")
	fBuf, fClosed, fConn := c.field(pk, "TUDPTransport", "writeBuf"), c.field(pk, "TUDPTransport", "closed"), c.field(pk, "TUDPTransport", "conn")
	isOpenFn := c.fn(pk, "TUDPTransport", "IsOpen")
	if tr == nil || fBuf == nil || fClosed == nil || fConn == nil || isOpenFn == nil {
		c.missing("O1 open-guard", "thriftudp.TUDPTransport{writeBuf,closed,conn}.IsOpen")
		return
	}
	maxLen, _ := c.pkg(pk).Types.Scope().Lookup("MaxLength").(*types.Const)
	if maxLen == nil {
		c.missing("O2 bound-check", "thriftudp.MaxLength")
		return
	}
	// IsOpen itself: !closed.Load()
	{
		ok := false
		if rets := returnsOf(isOpenFn); len(rets) == 1 {
			if u, isU := rets[0].Results[0].(*ssa.UnOp); isU && u.Op == token.NOT {
				if call, isCall := u.X.(*ssa.Call); isCall {
					if op := atomicOpOf(call); op != nil && op.Field == fClosed && op.Kind == "load" {
						ok = true
					}
				}
			}
		}
		c.check(ok, "O1 open-guard", c.fnKey(isOpenFn), isOpenFn.Pos(), "IsOpen is !closed.Load()", "IsOpen is not the negation of the closed flag")
	}
	// openCond: cond is IsOpen(recv) (possibly negated) or closed.Load(); returns (match, openOnTrue)
	openCond := func(fn *ssa.Function) func(ssa.Value) (bool, bool) {
		return func(cond ssa.Value) (bool, bool) {
			neg := false
			for {
				if u, ok := cond.(*ssa.UnOp); ok && u.Op == token.NOT {
					neg = !neg
					cond = u.X
					continue
				}
				break
			}
			call, ok := cond.(*ssa.Call)
			if !ok {
				return false, false
			}
			if staticCallee(call) == isOpenFn && canon(call.Call.Args[0]) == ssa.Value(fn.Params[0]) {
				return true, !neg
			}
			if op := atomicOpOf(call); op != nil && op.Field == fClosed && op.Kind == "load" {
				return true, neg
			}
			return false, false
		}
	}
	type wspec struct {
		name, appendM string
		nKind         string // "len" | "one"
	}
	writes := map[string]wspec{"Write": {"Write", "Write", "len"}, "WriteByte": {"WriteByte", "WriteByte", "one"}, "WriteString": {"WriteString", "WriteString", "len"}}
	nGuards := 0
	var refusers []*ssa.Function
	refuseHasReset := map[*ssa.Function]bool{}
	for _, m := range []string{"Read", "Write", "WriteByte", "WriteString", "Flush"} {
		fn := c.fn(pk, "TUDPTransport", m)
		if fn == nil {
			c.missing("O1 open-guard", "thriftudp.TUDPTransport."+m)
			continue
		}
		key := c.fnKey(fn)
		c.sawFunc(key)
		oc := openCond(fn)
		// every buffer / socket operation must be on the open edge; the closed edge returns an error
		var guardBlock *ssa.BasicBlock
		openIdx := 0
		for _, b := range fn.Blocks {
			if iff, ok := condOf(b); ok {
				if mm, onTrue := oc(iff.Cond); mm {
					guardBlock = b
					openIdx = 1
					if onTrue {
						openIdx = 0
					}
					break
				}
			}
		}
		okGuard := guardBlock != nil
		why := "the method does not test IsOpen"
		if okGuard {
			instrsOf(fn, func(in ssa.Instruction) {
				call, isCall := in.(*ssa.Call)
				if !isCall {
					return
				}
				touches := bufCall(call, fBuf, "Write", "WriteByte", "WriteString", "Reset", "Bytes", "Len") != nil
				if f := staticCallee(call); f != nil && f.Signature.Recv() != nil && len(call.Call.Args) > 0 {
					if viaField(call.Call.Args[0], fConn) {
						touches = true
					}
				}
				if touches && !edgeDominates(guardBlock, openIdx, call.Block()) {
					okGuard = false
					why = "the buffer or the socket is used before (or regardless of) the IsOpen test: use after Close touches a closed socket"
				}
			})
			// closed edge returns a non-nil error
			closedRets := returnsFromEdge(guardBlock, 1-openIdx)
			for _, ra := range closedRets {
				if isNilConst(ra.st.resolve(ra.ret.Results[len(ra.ret.Results)-1])) {
					okGuard = false
					why = "the not-open outcome returns a nil error"
				}
			}
			if len(closedRets) == 0 {
				okGuard = false
				why = "the not-open outcome does not return"
			}
		}
		nGuards++
		c.check(okGuard, "O1 open-guard", key, fn.Pos(), "IsOpen tested first; the closed outcome returns the not-open error; buffer and socket are used only when open", why+" (use after Close must yield a not-open error, not a panic or a write)")

		ws, isWrite := writes[m]
		if !isWrite {
			continue
		}
		// ---- O2 -------------------------------------------------------------------------------
		arg := fn.Params[1]
		var chk *ssa.BasicBlock
		overIdx := 0
		whyB := "no test `writeBuf.Len() + n > MaxLength` found"
		for _, b := range fn.Blocks {
			iff, ok := condOf(b)
			if !ok {
				continue
			}
			op, x, y, isCmp := cmpOf(iff.Cond)
			if !isCmp {
				continue
			}
			if _, constFirst := stripConv(x).(*ssa.Const); constFirst {
				// `MaxLength < Len()+n`: the same test written the other way round
				x, y = y, x
				switch op {
				case token.LSS:
					op = token.GTR
				case token.GTR:
					op = token.LSS
				case token.LEQ:
					op = token.GEQ
				case token.GEQ:
					op = token.LEQ
				}
			}
			k, isK := stripConv(y).(*ssa.Const)
			sum, isSum := stripConv(x).(*ssa.BinOp)
			if !isK || !isSum || sum.Op != token.ADD || k.Value == nil {
				continue
			}
			a, bb := sum.X, sum.Y
			if bufCall(asInstr(bb), fBuf, "Len") != nil {
				a, bb = bb, a
			}
			if bufCall(asInstr(a), fBuf, "Len") == nil {
				continue
			}
			// n
			okN := false
			switch ws.nKind {
			case "len":
				if ln, isLn := stripConv(bb).(*ssa.Call); isLn && isBuiltin(ln, "len") && canon(ln.Call.Args[0]) == ssa.Value(arg) {
					okN = true
				}
			case "one":
				if kk, isKK := constInt(bb); isKK && kk == 1 {
					okN = true
				}
			}
			if !okN {
				whyB = "the length test does not add the size of this method's own argument"
				continue
			}
			lim := constant.ToInt(k.Value)
			mx := constant.ToInt(maxLen.Val())
			switch {
			case op == token.GTR && constant.Compare(lim, token.EQL, mx), op == token.GEQ && constant.Compare(lim, token.EQL, constant.BinaryOp(mx, token.ADD, constant.MakeInt64(1))):
				chk, overIdx = b, 0
			case op == token.LEQ && constant.Compare(lim, token.EQL, mx), op == token.LSS && constant.Compare(lim, token.EQL, constant.BinaryOp(mx, token.ADD, constant.MakeInt64(1))):
				chk, overIdx = b, 1
			default:
				whyB = fmt.Sprintf("the length test is `Len()+n %s %s`, it must refuse exactly when Len()+n > MaxLength (%s)", op, lim, mx)
			}
		}
		okB := chk != nil
		if okB {
			// the append: the matching Buffer method with the method's own argument, on the fits edge
			var apps []*ssa.Call
			instrsOf(fn, func(in ssa.Instruction) {
				if call := bufCall(in, fBuf, "Write", "WriteByte", "WriteString", "WriteRune"); call != nil {
					apps = append(apps, call)
				}
			})
			if len(apps) != 1 {
				okB = false
				whyB = fmt.Sprintf("the method appends to the buffer %d times", len(apps))
			} else {
				a := apps[0]
				_, _, mm := recvNamed(a)
				if mm != ws.appendM || canon(a.Call.Args[1]) != ssa.Value(arg) {
					okB = false
					whyB = "the append is not writeBuf." + ws.appendM + "(<the method's own argument>)"
				}
				if !edgeDominates(chk, 1-overIdx, a.Block()) {
					okB = false
					whyB = "the append is not restricted to the 'fits' outcome of the length test: an oversize message is buffered"
				}
			}
			overRets := returnsFromEdge(chk, overIdx)
			refOK := len(overRets) > 0
			refuseHasReset[fn] = len(overRets) > 0
			for _, ra := range overRets {
				r := ra.ret
				if isNilConst(ra.st.resolve(r.Results[len(r.Results)-1])) {
					refOK = false
				}
				// does the refusing path reset the buffer?
				reset := false
				instrsOf(fn, func(in ssa.Instruction) {
					if call := bufCall(in, fBuf, "Reset", "Truncate"); call != nil && edgeDominates(chk, overIdx, call.Block()) && dominates(call, r) {
						reset = true
					}
				})
				if !reset {
					refuseHasReset[fn] = false
				}
			}
			if !refOK {
				okB = false
				whyB = "the refusing outcome does not return an error"
			}
			refusers = append(refusers, fn)
		}
		c.check(okB, "O2 bound-check", key, fn.Pos(), "Len()+n > MaxLength tested with this method's n before the append; refusing edge returns an error and appends nothing", whyB+": a message longer than one datagram is buffered (and later truncated or rejected by the socket)")
	}
	c.floor("O1 open-guard", nGuards, 5)

	// ---- O3 Flush ---------------------------------------------------------------------------------
	if fl := c.fn(pk, "TUDPTransport", "Flush"); fl != nil {
		key := c.fnKey(fl)
		isConnWrite := func(in ssa.Instruction) bool {
			call, ok := in.(*ssa.Call)
			if !ok {
				return false
			}
			f := staticCallee(call)
			if f == nil || f.Name() != "Write" || f.Signature.Recv() == nil {
				return false
			}
			return viaField(call.Call.Args[0], fConn)
		}
		ws := findInstrs(fl, isConnWrite)
		cnt := c.newPathCounter(isConnWrite, 0).fn(fl, 0)
		ok := len(ws) == 1 && cnt.max == 1
		why := fmt.Sprintf("Flush writes to the socket %d times (up to %d on one path); one flush must be one datagram", len(ws), cnt.max)
		if ok {
			w := ws[0].(*ssa.Call)
			if bufCall(asInstr(w.Call.Args[1]), fBuf, "Bytes") == nil {
				ok = false
				why = "what Flush writes to the socket is not writeBuf.Bytes() (the whole message)"
			}
			isReset := func(in ssa.Instruction) bool { return bufCall(in, fBuf, "Reset") != nil }
			if esc := reachAvoiding(w, false, isReturn, c.newLifter(isReset, 1).Must); esc != nil && ok {
				ok = false
				why = "after the socket write Flush can return without resetting the buffer: the next message is appended to the one just sent (or to the one whose send failed)"
			}
			// the socket error is what Flush returns
			for _, r := range returnsOf(fl) {
				if dominates(w, r) {
					var errV ssa.Value
					for _, rr := range *w.Referrers() {
						if e, isE := rr.(*ssa.Extract); isE && e.Index == 1 {
							errV = e
						}
					}
					if errV == nil || canon(r.Results[0]) != errV {
						call, isCall := stripConv(r.Results[0]).(*ssa.Call)
						wrapped := isCall && len(call.Call.Args) == 1 && canon(call.Call.Args[0]) == errV
						nilOnSuccess := isNilConst(r.Results[0]) && errV != nil && guardedByEdge(r, func(cond ssa.Value) (bool, bool) {
							o, x, y, okc := cmpOf(cond)
							if !okc || canon(x) != errV || !isNilConst(y) {
								return false, false
							}
							return true, o == token.EQL
						}) != nil
						if !wrapped && !nilOnSuccess && ok {
							ok = false
							why = "Flush does not return the socket write's error"
						}
					}
				}
			}
		}
		c.check(ok, "O3 flush", key, fl.Pos(), "one conn.Write(writeBuf.Bytes()), buffer reset on every path afterwards, socket error returned", why)
	}

	// ---- O4 stale prefix ------------------------------------------------------------------------------
	writerDiscards := c.writerDiscardsOnError()
	for _, fn := range refusers {
		key := c.fnKey(fn)
		c.check(refuseHasReset[fn] || writerDiscards, "O4 stale-prefix", key, fn.Pos(), "a refused write does not leave the abandoned prefix buffered",
			"a write refused for length returns with the bytes buffered so far still in writeBuf, and neither the generated client nor the reporter discards them on error: the next message is sent behind the stale prefix (corrupt datagram), and once the prefix is long enough every later message is refused - the reporter never emits again")
	}
	c.floor("O4 stale-prefix", len(refusers), 3)

	// ---- O5 multi transport ---------------------------------------------------------------------------
	fTs := c.field(pk, "TMultiUDPTransport", "transports")
	nF := 0
	for _, m := range []struct {
		name string
		mode fwdMode
	}{{"Open", fwdErrExit}, {"Close", fwdErrExit}, {"Write", fwdErrExit}, {"Flush", fwdAllFirstErr}, {"IsOpen", fwdBoolAnd}} {
		fn := c.fn(pk, "TMultiUDPTransport", m.name)
		if fn == nil || fTs == nil {
			c.missing("O5 fan-out", "thriftudp.TMultiUDPTransport."+m.name)
			continue
		}
		nF++
		c.checkForwarderSSA("O5 fan-out", fwdSpec{fn: fn, list: fTs, target: m.name, mode: m.mode, perIter: 1})
	}
	c.floor("O5 fan-out", nF, 5)
	// the destination list (and each destination's socket) is fixed at construction: emptying or
	// replacing it later makes IsOpen/Write/Flush vacuous successes (use after Close must fail)
	c.checkSetOnlyAtConstruction("O5 fixed-destinations", pk, "TMultiUDPTransport", "transports")
	c.checkSetOnlyAtConstruction("O5 fixed-destinations", pk, "TUDPTransport", "conn", "addr")
	// the transport's buffer is its own: it is only ever appended to and reset, never replaced by
	// storage the caller (or anyone else) keeps a reference to
	c.checkSetOnlyAtConstruction("O2 own-buffer", pk, "TUDPTransport", "writeBuf")
	// the socket is written by Flush only: a write from anywhere else (Close "pushing out the tail", a
	// write method sending early) puts bytes on the wire that no Flush asked for - the abandoned prefix of
	// a refused message, or half a message
	{
		nW := 0
		okW := true
		for _, f := range c.funcsOfPkg(pk) {
			f := f
			instrsOf(f, func(in ssa.Instruction) {
				call, ok := in.(ssa.CallInstruction)
				if !ok {
					return
				}
				nm := ""
				if g := call.Common().StaticCallee(); g != nil {
					nm = g.Name()
				} else if call.Common().IsInvoke() {
					nm = call.Common().Method.Name()
				}
				switch nm {
				case "Write", "WriteTo", "WriteToUDP", "WriteMsgUDP":
				default:
					return
				}
				r := callRecv(call)
				if r == nil {
					return
				}
				isConn := false
				for v, i := stripConv(r), 0; i < 4 && v != nil; i++ {
					if fc, _ := loadedField(v); fc == fConn {
						isConn = true
						break
					}
					if fa, isFA := v.(*ssa.FieldAddr); isFA { // promoted method of the embedded connection
						v = fa.X
						continue
					}
					break
				}
				if !isConn {
					return
				}
				nW++
				if !(f.Name() == "Flush" && f.Signature.Recv() != nil) {
					okW = false
					c.bad("O3 socket-writer", c.fnKey(f), in.Pos(), "the socket is written outside Flush: bytes reach the wire that no Flush asked for (the abandoned prefix of a refused message, or part of a message)", c.describe(in))
				}
			})
		}
		if okW {
			c.ok("O3 socket-writer", pk, token.NoPos, fmt.Sprintf("the socket is written at %d site(s), all in Flush", nW))
		}
		c.floor("O3 socket-writer", nW, 1)
	}
	c.checkMultiTransportCtor("O5 every-destination")

	// ---- O6 Close ------------------------------------------------------------------------------------
	if cl := c.fn(pk, "TUDPTransport", "Close"); cl != nil {
		key := c.fnKey(cl)
		c.sawFunc(key)
		var swap *ssa.Call
		instrsOf(cl, func(in ssa.Instruction) {
			if op := atomicOpOf(in); op != nil && op.Field == fClosed && (op.Kind == "swap" || op.Kind == "cas") {
				swap, _ = in.(*ssa.Call)
			}
		})
		ok := swap != nil
		why := "Close does not flip the closed flag by one atomic swap/CAS"
		if ok {
			var closes []ssa.Instruction
			instrsOf(cl, func(in ssa.Instruction) {
				if call, isCall := in.(*ssa.Call); isCall {
					if f := staticCallee(call); f != nil && f.Name() == "Close" && f.Signature.Recv() != nil {
						if viaField(call.Call.Args[0], fConn) {
							closes = append(closes, in)
						}
					}
				}
			})
			op := atomicOpOf(swap)
			first := func(cond ssa.Value) (bool, bool) {
				m, t := boolValueCond(ssa.Value(swap))(cond)
				if op.Kind == "swap" {
					return m, !t // swap returns the old value: first close iff old == false
				}
				return m, t
			}
			if len(closes) != 1 {
				ok = false
				why = fmt.Sprintf("Close closes the socket at %d sites", len(closes))
			} else if guardedByEdge(closes[0], first) == nil {
				ok = false
				why = "the socket is closed on a path other than 'this call flipped the flag': a second Close closes a closed socket and returns its error"
			}
			for _, r := range returnsOf(cl) {
				if guardedByEdge(r, func(cond ssa.Value) (bool, bool) { m, t := first(cond); return m, !t }) != nil && !isNilConst(r.Results[0]) {
					ok = false
					why = "a repeated Close does not return nil"
				}
			}
		}
		c.check(ok, "O6 close-once", key, cl.Pos(), "socket closed only by the call that flipped the closed flag; later calls return nil", why)
	}

	// ---- O7 reporter.flush survives a write error --------------------------------------------------
	if fl := c.fn("m3", "reporter", "flush"); fl != nil {
		key := c.fnKey(fl)
		c.sawFunc(key)
		fErrs := c.field("m3", "reporter", "numWriteErrors")
		var emit *ssa.Call
		instrsOf(fl, func(in ssa.Instruction) {
			if call, ok := in.(*ssa.Call); ok {
				if f := staticCallee(call); f != nil && f.Name() == "EmitMetricBatchV2" {
					emit = call
				}
			}
		})
		ok := emit != nil
		why := "flush does not call EmitMetricBatchV2"
		if ok {
			panics := findInstrs(fl, func(in ssa.Instruction) bool { _, isP := in.(*ssa.Panic); return isP })
			if len(panics) > 0 {
				ok = false
				why = "flush can panic"
			}
			counted := false
			instrsOf(fl, func(in ssa.Instruction) {
				if op := atomicOpOf(in); op != nil && op.Field == fErrs && op.Kind == "add" {
					g := guardedByEdge(in, func(cond ssa.Value) (bool, bool) {
						o, x, y, okc := cmpOf(cond)
						if !okc || canon(x) != ssa.Value(emit) || !isNilConst(y) {
							return false, false
						}
						return true, o == token.NEQ
					})
					if g != nil {
						counted = true
					}
				}
			})
			if !counted {
				ok = false
				why = "a write error is not counted on the err != nil edge"
			}
			if fl.Signature.Results().Len() != 1 {
				ok = false
				why = "flush returns the error to the batching loop"
			}
		}
		c.check(ok, "O7 reporter-survives", key, fl.Pos(), "a write error is counted and flush returns normally", why+": one failed batch stops the reporter")
	}
	c.checkFlushCompletesMessage("O8 flush-completes-message")
	c.checkNoStandingDeadline("O9 no-standing-deadline")
	// "a failed message never poisons later ones" one level up: the reporter drops a batch whose emit failed
	// (kept, it is written again in front of the next batch, which then exceeds the transport's limit, fails
	// and is kept in turn) - shared with C13 O2
	c.shared(checkC13, map[string]string{"O2 batching": "O7 failed-batch-dropped"})
}

func asInstr(v ssa.Value) ssa.Instruction {
	if in, ok := stripConv(v).(ssa.Instruction); ok {
		return in
	}
	return nil
}

// writerDiscardsOnError: the generated client or reporter.flush calls Flush/Reset/Discard on the
// transport on the error path of an emit, which would drop an abandoned prefix.
func (c *Ctx) writerDiscardsOnError() bool {
	found := false
	for _, name := range [][3]string{{"m3", "reporter", "flush"}, {"m3/thrift/v2", "M3Client", "sendEmitMetricBatchV2"}, {"m3/thrift/v2", "M3Client", "EmitMetricBatchV2"}} {
		fn := c.fn(name[0], name[1], name[2])
		if fn == nil {
			continue
		}
		c.sawFunc(c.fnKey(fn))
		instrsOf(fn, func(in ssa.Instruction) {
			call, ok := in.(ssa.CallInstruction)
			if !ok {
				return
			}
			_, m := ifaceCall(call)
			if m == nil || (m.Name() != "Flush" && m.Name() != "Reset" && m.Name() != "Discard") {
				return
			}
			// on an error edge: dominated by some `err != nil` true edge
			g := guardedByEdge(in, func(cond ssa.Value) (bool, bool) {
				o, _, y, okc := cmpOf(cond)
				if !okc || !isNilConst(y) {
					return false, false
				}
				return true, o == token.NEQ
			})
			if g != nil {
				found = true
			}
		})
	}
	return found
}

// checkMultiTransportCtor: the multi transport has one transport per destination given, in order: in
// the constructor the list stored as `transports` is built by a loop over every index of the
// destination list that appends, in every iteration that does not return an error, a transport made
// for destinations[i]. A destination that is skipped (de-duplicated, filtered) never receives a datagram
// although every Write and Flush reports success.
func (c *Ctx) checkMultiTransportCtor(rule string) {
	const pk = "m3/thriftudp"
	fn := c.fn(pk, "", "NewTMultiUDPClientTransport")
	fTs := c.field(pk, "TMultiUDPTransport", "transports")
	if fn == nil || fTs == nil || len(fn.Params) == 0 {
		c.missing(rule, "thriftudp.NewTMultiUDPClientTransport / TMultiUDPTransport.transports")
		return
	}
	key := c.fnKey(fn)
	c.sawFunc(key)
	dests := ssa.Value(fn.Params[0])
	var list ssa.Value
	instrsOf(fn, func(in ssa.Instruction) {
		if st, ok := in.(*ssa.Store); ok {
			if f, _ := addrField(st.Addr); f == fTs {
				list = stripConv(st.Val)
			}
		}
	})
	ok, why := false, "the transports list is not built by one loop over all destinations"
	if phi, isPhi := list.(*ssa.Phi); isPhi {
		for _, fl := range fullIndexLoops(fn) {
			if fl.list != accessPath(dests) || phi.Block() != fl.header {
				continue
			}
			lp := fl.loop
			var app *ssa.Call
			okEdges := true
			for i, e := range phi.Edges {
				if lp.Blocks[phi.Block().Preds[i]] {
					call, isCall := e.(*ssa.Call)
					if !isCall || !isBuiltin(call, "append") || stripConv(call.Call.Args[0]) != ssa.Value(phi) {
						okEdges = false // an iteration can come back without having appended (continue)
						why = "an iteration can finish without appending a transport for its destination (the destination is skipped)"
						continue
					}
					app = call
				} else if !emptyPrivateSlice(e) {
					okEdges = false
					why = "the transports list does not start empty"
				}
			}
			if !okEdges || app == nil {
				continue
			}
			// the appended transport is made from destinations[i]
			_, elems, _, isApp := appendedValues(app)
			made := false
			if isApp && len(elems) == 1 {
				v := canon(stripConv(elems[0]))
				if ex, isEx := v.(*ssa.Extract); isEx {
					v = ex.Tuple
				}
				if call, isCall := v.(*ssa.Call); isCall {
					for _, a := range call.Call.Args {
						if fl.elemOf(a) {
							made = true
						}
					}
				}
			}
			if !made {
				why = "the transport appended in an iteration is not made for destinations[i]"
				continue
			}
			// leaving the loop early only by returning an error
			exits := true
			for b := range lp.Blocks {
				for _, sc := range b.Succs {
					if lp.Blocks[sc] || b == lp.Header {
						continue
					}
					for _, ra := range returnsFromEdge(b, indexOfSucc(b, sc)) {
						if len(ra.ret.Results) != 2 || isNilConst(ra.st.resolve(ra.ret.Results[1])) {
							exits = false
						}
					}
				}
			}
			if !exits {
				why = "the loop over the destinations can be left early without an error"
				continue
			}
			ok = true
		}
	}
	c.check(ok, rule, key, fn.Pos(), "one transport per destination, in order (an iteration either appends the transport made for destinations[i] or returns an error)",
		"the multi transport is not built with one transport per destination: "+why+" - such a destination never receives a datagram while every Write and Flush reports success")
}

func indexOfSucc(b, s *ssa.BasicBlock) int {
	for i, x := range b.Succs {
		if x == s {
			return i
		}
	}
	return 0
}

// checkFlushCompletesMessage (O8): a transport Flush SENDS what is buffered. In the reporter, the
// generated thrift clients / processors and the transports, a Flush of a thrift protocol or transport
// is therefore issued only
//   - by a Flush method of a protocol / transport itself (forwarding to what it wraps), or
//   - after WriteMessageEnd of the same function; when that call's error is tested, on the edge
//     where it succeeded.
//
// A Flush anywhere else (an error path "to clear the buffer") puts the abandoned prefix of a refused
// message, or an empty datagram, on the wire.
func (c *Ctx) checkFlushCompletesMessage(rule string) {
	tp := c.pkg(thriftPkg)
	if tp == nil {
		c.missing(rule, "vendored thrift package")
		return
	}
	var ifaces []*types.Interface
	for _, n := range []string{"TTransport", "TProtocol"} {
		if o, _ := tp.Types.Scope().Lookup(n).(*types.TypeName); o != nil {
			if it, ok := o.Type().Underlying().(*types.Interface); ok {
				ifaces = append(ifaces, it)
			}
		}
	}
	if len(ifaces) != 2 {
		c.missing(rule, "thrift.TTransport / thrift.TProtocol")
		return
	}
	isWire := func(t types.Type) bool {
		if t == nil {
			return false
		}
		for _, it := range ifaces {
			if types.Implements(t, it) {
				return true
			}
			if _, isPtr := t.(*types.Pointer); !isPtr {
				if _, isI := t.Underlying().(*types.Interface); !isI && types.Implements(types.NewPointer(t), it) {
					return true
				}
			}
		}
		return false
	}
	methodOn := func(ci ssa.CallInstruction, name string) ssa.Value {
		cc := ci.Common()
		if cc.IsInvoke() {
			if cc.Method.Name() == name && isWire(cc.Value.Type()) {
				return cc.Value
			}
			return nil
		}
		if g := cc.StaticCallee(); g != nil && g.Name() == name && g.Signature.Recv() != nil && len(cc.Args) > 0 && isWire(cc.Args[0].Type()) {
			return cc.Args[0]
		}
		if m := thunkMethod(cc); m != nil && m.Name() == name && len(cc.Args) > 0 && isWire(cc.Args[0].Type()) {
			return cc.Args[0]
		}
		return nil
	}
	n, nBad := 0, 0
	for _, pk := range []string{"m3", "m3/thrift/v1", "m3/thrift/v2", "m3/thriftudp", "m3/customtransports"} {
		for _, fn := range c.funcsOfPkg(pk) {
			fn := fn
			instrsOf(fn, func(in ssa.Instruction) {
				ci, ok := in.(ssa.CallInstruction)
				if !ok || methodOn(ci, "Flush") == nil {
					return
				}
				n++
				c.sawFunc(c.fnKey(fn))
				// a Flush method of a protocol / transport forwarding to what it wraps
				if fn.Name() == "Flush" && fn.Signature.Recv() != nil && isWire(fn.Signature.Recv().Type()) {
					return
				}
				// after WriteMessageEnd, on its success edge when tested
				okSite := false
				instrsOf(fn, func(e ssa.Instruction) {
					ec, isCall := e.(*ssa.Call)
					if !isCall || methodOn(ec, "WriteMessageEnd") == nil {
						return
					}
					if !dominates(e, in) {
						return
					}
					tested := false
					onSuccess := false
					for _, b := range fn.Blocks {
						iff, isIf := condOf(b)
						if !isIf {
							continue
						}
						o, x, y, okc := cmpOf(iff.Cond)
						if !okc || !isNilConst(y) || !valueFlowsFrom(x, ec) {
							continue
						}
						tested = true
						succ := 1 // err != nil: false edge
						if o == token.EQL {
							succ = 0
						}
						if edgeDominates(b, succ, in.Block()) {
							onSuccess = true
						}
					}
					if !tested || onSuccess {
						okSite = true
					}
				})
				if !okSite {
					nBad++
					c.bad(rule, fmt.Sprintf("%s#%d", c.fnKey(fn), n), in.Pos(), "a thrift protocol / transport is flushed on a path where no message was completed (not a forwarding Flush method, not after a successful WriteMessageEnd): Flush sends what is buffered, so the prefix of a refused message - or an empty datagram - goes on the wire", c.describe(in))
				}
			})
		}
	}
	if nBad == 0 {
		c.ok(rule, "m3 packages", token.NoPos, fmt.Sprintf("all %d Flush calls on thrift protocols / transports are forwarding Flush methods or follow a successful WriteMessageEnd", n))
	}
	c.floor(rule, n, 4)
}

// valueFlowsFrom: v is src, possibly through a named-result cell / phi / interface conversion.
func valueFlowsFrom(v ssa.Value, src ssa.Value) bool {
	seen := map[ssa.Value]bool{}
	var walk func(v ssa.Value, d int) bool
	walk = func(v ssa.Value, d int) bool {
		if d == 0 || seen[v] {
			return false
		}
		seen[v] = true
		v = stripConv(v)
		if v == src {
			return true
		}
		switch x := v.(type) {
		case *ssa.Phi:
			for _, e := range x.Edges {
				if walk(e, d-1) {
					return true
				}
			}
		case *ssa.UnOp:
			if x.Op == token.MUL {
				if al, ok := x.X.(*ssa.Alloc); ok && al.Referrers() != nil {
					for _, r := range *al.Referrers() {
						if st, isSt := r.(*ssa.Store); isSt && st.Addr == ssa.Value(al) && walk(st.Val, d-1) {
							return true
						}
					}
				}
			}
		}
		return false
	}
	return walk(v, 6)
}

// checkNoStandingDeadline (O9): a socket deadline is an absolute point in time. Armed anywhere but in
// the function that performs the bounded operation right after it (per-send form), it eventually lies
// in the past and every later Flush fails with an i/o timeout while sending nothing. Expected count of
// deadline calls on today's tree: zero (the self-test keeps a mutant that arms one in the constructor).
func (c *Ctx) checkNoStandingDeadline(rule string) {
	n, nBad := 0, 0
	nFuncs := 0
	for _, pk := range []string{"m3", "m3/thriftudp", "m3/customtransports"} {
		for _, fn := range c.funcsOfPkg(pk) {
			fn := fn
			nFuncs++
			instrsOf(fn, func(in ssa.Instruction) {
				ci, ok := in.(ssa.CallInstruction)
				if !ok {
					return
				}
				nm := ""
				if g := ci.Common().StaticCallee(); g != nil {
					nm = g.Name()
				} else if ci.Common().IsInvoke() {
					nm = ci.Common().Method.Name()
				}
				if nm != "SetDeadline" && nm != "SetWriteDeadline" && nm != "SetReadDeadline" {
					return
				}
				n++
				// per-operation form: the same function performs the socket operation after it
				follows := false
				instrsOf(fn, func(e ssa.Instruction) {
					ec, isCall := e.(ssa.CallInstruction)
					if !isCall || e == in {
						return
					}
					en := ""
					if g := ec.Common().StaticCallee(); g != nil {
						en = g.Name()
					} else if ec.Common().IsInvoke() {
						en = ec.Common().Method.Name()
					}
					switch en {
					case "Write", "Read", "WriteTo", "ReadFrom", "WriteToUDP", "ReadFromUDP":
						if callRecv(ec) != nil && callRecv(ci) != nil && accessPath(callRecv(ec)) == accessPath(callRecv(ci)) && dominates(in, e) {
							follows = true
						}
					}
				})
				// clearing the deadline (zero time) is always fine
				args := callArgs(ci)
				zero := false
				if len(args) == 1 {
					if _, isK := stripConv(args[0]).(*ssa.Const); isK {
						zero = true
					}
					if u, isU := args[0].(*ssa.UnOp); isU && u.Op == token.MUL {
						if al, isAl := u.X.(*ssa.Alloc); isAl && spilled(al) == nil && al.Referrers() != nil && len(*al.Referrers()) == 1 {
							zero = true
						}
					}
				}
				if !follows && !zero {
					nBad++
					c.bad(rule, fmt.Sprintf("%s#%d", c.fnKey(fn), n), in.Pos(), "a socket deadline is armed in a function that does not perform the bounded operation itself: the deadline is an absolute time, so once it has passed every Flush fails with an i/o timeout and sends nothing of what was written", c.describe(in))
				}
			})
		}
	}
	if nBad == 0 {
		c.ok(rule, "m3 transports", token.NoPos, fmt.Sprintf("%d socket deadline calls in %d functions, none outside the function performing the operation", n, nFuncs))
	}
}
