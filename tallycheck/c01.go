package main

import (
	"fmt"
	"go/token"
	"go/types"

	"golang.org/x/tools/go/ssa"
)

func init() { register("C01", checkC01) }

// zeroGuard recognises "v != 0" over the delta value v.
func nonZeroCond(v ssa.Value) func(ssa.Value) (bool, bool) {
	return func(cond ssa.Value) (bool, bool) {
		op, x, y, ok := cmpOf(cond)
		if !ok {
			return false, false
		}
		if stripConv(y) == v {
			x, y = y, x
			op = flipCmp(op)
		}
		if stripConv(x) != v {
			return false, false
		}
		if k, isK := constInt(y); !isK || k != 0 {
			return false, false
		}
		switch op {
		case token.NEQ:
			return true, true
		case token.EQL:
			return true, false
		}
		return false, false
	}
}

// isCounterDelivery: an invoke of a reporter method whose last argument carries a counter delta.
func (c *Ctx) counterDeliveryMethods() map[*types.Func]bool {
	out := map[*types.Func]bool{}
	for _, m := range []*types.Func{
		c.ifaceMethod("", "StatsReporter", "ReportCounter"),
		c.ifaceMethod("", "CachedCount", "ReportCount"),
		c.ifaceMethod("", "StatsReporter", "ReportHistogramValueSamples"),
		c.ifaceMethod("", "StatsReporter", "ReportHistogramDurationSamples"),
		c.ifaceMethod("", "CachedHistogramBucket", "ReportSamples"),
	} {
		if m != nil {
			out[m] = true
		}
	}
	return out
}

func checkC01(c *Ctx) {
	c.Explanation = "Decides the structure of the counter delta protocol (also used by histogram bucket counters): (O1) curr/prev atomic-only; (O2) every function that writes prev has the shape p:=Load(prev); c:=Load(curr) (in that order); CAS(prev,p,c) with retry; result c-p on the success edge - the one-step 'subtract and advance' that makes concurrent report passes hand every increment to exactly one of them and keeps deltas non-negative; (O3) every caller of the delta function delivers that value exactly once on the delta!=0 edge, for every histogram type; (O4) Inc is one atomic add of its argument and nothing else writes curr; (O6) creation appends to the slice the cached pass iterates; (O7/O8) both scope passes visit every counter/histogram once and the registry passes visit every shard and scope; (O9) nothing is cleared or unregistered before it was reported (flag sampled before the report, report before clear, identity-checked removal, purge only from Close after the final report - shared with C07/C08); (O10) racing first users get one counter (double-checked creation, shared with C09). Paper argument: successive values of prev telescope, so the sum of delivered deltas equals the final prev = final curr after a quiescent pass."
	c.NotDecided = []string{"the totals as numbers", "that every scope is visited by a pass (C07/C08)"}
	c.Assumptions = append(c.Assumptions, "Go atomics are sequentially consistent")

	c.checkAtomicOnly("O1 atomic-only", "", "counter", "curr")
	c.checkAtomicOnly("O1 atomic-only", "", "counter", "prev")
	fCurr, fPrev := c.field("", "counter", "curr"), c.field("", "counter", "prev")
	if fCurr == nil || fPrev == nil {
		return
	}
	prevOps, currOps := c.atomicOpsOn(fPrev), c.atomicOpsOn(fCurr)

	// O2: the delta function(s) = writers of prev.
	var deltaFns []*ssa.Function
	for _, fn := range c.sortedFuncs(prevOps) {
		writes := false
		for _, op := range prevOps[fn] {
			if op.Kind != "load" {
				writes = true
			}
		}
		if !writes {
			continue
		}
		deltaFns = append(deltaFns, fn)
		c.sawFunc(c.fnKey(fn))
		c.checkDeltaShape(fn, prevOps[fn], currOps[fn])
	}
	c.floor("O2 delta-rmw", len(deltaFns), 1)
	if len(deltaFns) == 0 {
		c.bad("O2 delta-rmw", "tally.counter.prev", fPrev.Pos(), "no function advances counter.prev: every pass re-delivers the whole running total")
	}

	// O4: writers of curr.
	nInc := 0
	for _, fn := range c.sortedFuncs(currOps) {
		for _, op := range currOps[fn] {
			if op.Kind == "load" {
				continue
			}
			nInc++
			key := c.fnKey(fn)
			in := op.Call.(ssa.Instruction)
			okShape := op.Kind == "add" && len(op.Args) == 1 && paramIndex(fn, op.Args[0]) >= 0
			if !okShape {
				c.bad("O4 inc", key, in.Pos(), "counter.curr is written by something other than one atomic add of the function's argument: increments are lost or invented", c.describe(in))
				continue
			}
			cnt := c.newPathCounter(func(i ssa.Instruction) bool {
				o := atomicOpOf(i)
				return o != nil && o.Field == fCurr && o.Kind != "load"
			}, 1).fn(fn, 1)
			c.check(cnt.min == 1 && cnt.max == 1, "O4 inc", key, in.Pos(), "exactly one atomic add of the argument on every path",
				fmt.Sprintf("the increment is applied between %d and %d times depending on the path", cnt.min, cnt.max), c.describe(in))
		}
	}
	c.floor("O4 inc", nInc, 1)

	// O3: deliveries.
	deliv := c.counterDeliveryMethods()
	if len(deliv) < 5 {
		c.missing("O3 delivery", "reporter interface methods of package tally")
	}
	isDeliv := func(i ssa.Instruction) bool {
		ci, ok := i.(ssa.CallInstruction)
		if !ok {
			return false
		}
		_, m := ifaceCall(ci)
		return m != nil && deliv[m]
	}
	nSites := 0
	hType := c.named("", "histogramType")
	for _, fn := range c.funcsOfPkg("") {
		var dcalls []*ssa.Call
		instrsOf(fn, func(in ssa.Instruction) {
			if call, ok := in.(*ssa.Call); ok {
				for _, d := range deltaFns {
					if staticCallee(call) == d {
						dcalls = append(dcalls, call)
					}
				}
			}
		})
		if len(dcalls) == 0 {
			continue
		}
		key := c.fnKey(fn)
		c.sawFunc(key)
		loops := loopsOf(fn)
		skip := infeasibleEdges(fn)
		for di, d := range dcalls {
			nSites++
			c.callSites++
			dkey := key
			if len(dcalls) > 1 {
				dkey = fmt.Sprintf("%s#%d", key, di)
			}
			// deliveries that carry this delta
			var rs []ssa.Instruction
			instrsOf(fn, func(in ssa.Instruction) {
				if !isDeliv(in) {
					return
				}
				args := in.(ssa.CallInstruction).Common().Args
				if len(args) > 0 && derivesFrom(args[len(args)-1], d) && stripConv(args[len(args)-1]) == ssa.Value(d) {
					rs = append(rs, in)
				}
			})
			if len(rs) == 0 {
				c.bad("O3 delivery", dkey, d.Pos(), "the delta taken from the counter (which advances prev) is not handed to any reporter call unchanged: these increments are never delivered", c.describe(d))
				continue
			}
			// every delivery in the function that is reachable from d must carry d's value
			allOK := true
			for _, r := range rs {
				if guardedByEdge(r, nonZeroCond(d)) == nil {
					allOK = false
					c.bad("O3 delivery", dkey, r.Pos(), "the delivery is not restricted to delta != 0: a report cycle without new increments delivers a zero for this counter", c.describe(r))
				}
			}
			// scope of one "pass over this counter": the innermost loop containing d, else the function
			lp := innermostLoop(loops, d.Block())
			var cnt counter2
			var dcnt counter2
			pcR := c.newPathCounter(func(i ssa.Instruction) bool {
				for _, r := range rs {
					if r == i {
						return true
					}
				}
				return false
			}, 0)
			pcD := c.newPathCounter(func(i ssa.Instruction) bool { return i == ssa.Instruction(d) }, 0)
			if lp != nil {
				isLatch := func(b *ssa.BasicBlock) bool {
					for _, l := range lp.Latch {
						if l == b {
							return true
						}
					}
					return false
				}
				cnt = pcR.region(fn, lp.Header, lp.Blocks, isLatch, 0)
				dcnt = pcD.region(fn, lp.Header, lp.Blocks, isLatch, 0)
			} else {
				cnt = pcR.fn(fn, 0)
				dcnt = pcD.fn(fn, 0)
			}
			c.paths += 2
			if cnt.max > 1 {
				allOK = false
				c.bad("O3 delivery", dkey, d.Pos(), fmt.Sprintf("one delta can be delivered %d times on one path (double delivery)", cnt.max), c.describe(d))
			}
			if dcnt.max > 1 {
				allOK = false
				c.bad("O3 delivery", dkey, d.Pos(), "the delta function is called more than once per counter and pass: the first delta is advanced past but only the last one can be delivered", c.describe(d))
			}
			// a pass drains every counter it is responsible for: the delta is taken on every path
			// (per bucket: in every iteration of a loop that visits every bucket and is reached on
			// every path). A pass that can skip the drain on some condition (a dirty flag cleared at
			// the wrong moment, a cached "nothing to do") strands increments for good.
			if dcnt.min < 1 {
				allOK = false
				c.bad("O3 delivery", dkey+":drain", d.Pos(), "the pass can skip taking the delta of this counter (the call is conditional): increments recorded while the condition is stale are never delivered", c.describe(d))
			}
			if lp != nil {
				full := false
				for _, fl := range fullIndexLoops(fn) {
					if fl.loop.Header != lp.Header {
						continue
					}
					if f, base := loadedField(canon(fl.lenArg)); f != nil && base != nil && len(fn.Params) > 0 && canon(base) == ssa.Value(fn.Params[0]) {
						full = true
					}
				}
				exitsOK := true
				for b := range lp.Blocks {
					if b == lp.Header {
						continue
					}
					for _, sc := range b.Succs {
						if !lp.Blocks[sc] {
							exitsOK = false
						}
					}
				}
				skips := false
				if e := entryInstr(fn); e != nil {
					h0 := lp.Header.Instrs[0]
					if esc := reachAvoiding(e, true, isReturn, func(i ssa.Instruction) bool { return i == h0 }); esc != nil {
						skips = true
					}
				}
				if !full || !exitsOK || skips {
					allOK = false
					why := "the per-bucket loop does not visit every bucket of the receiver"
					switch {
					case skips:
						why = "the pass can return without entering the per-bucket loop (early return on some condition): samples counted while that condition is stale are never delivered"
					case !exitsOK:
						why = "the per-bucket loop can be left early: later buckets are not drained"
					}
					c.bad("O3 delivery", dkey+":drain", d.Pos(), why, c.describe(d))
				}
			}
			// on the delta != 0 edge some delivery must follow before the pass over this counter ends
			// (exhaustive switches over the histogram type are recognised)
			var after ssa.Instruction
			for _, b := range fn.Blocks {
				iff, ok := condOf(b)
				if !ok {
					continue
				}
				m, onTrue := nonZeroCond(d)(iff.Cond)
				if !m {
					continue
				}
				idx := 1
				if onTrue {
					idx = 0
				}
				after = b.Succs[idx].Instrs[0]
			}
			if after != nil {
				isEnd := func(i ssa.Instruction) bool {
					if isReturn(i) {
						return true
					}
					if lp != nil && i == lp.Header.Instrs[0] {
						return true
					}
					return false
				}
				if esc := reachAvoidingF(after, true, skip, isEnd, func(i ssa.Instruction) bool {
					for _, r := range rs {
						if r == i {
							return true
						}
					}
					return false
				}); esc != nil {
					allOK = false
					c.bad("O3 delivery", dkey, d.Pos(), "a non-zero delta can reach the end of the pass over this counter without being delivered (for some histogram type or branch): these increments are lost",
						"delta: "+c.describe(d), "escapes to: "+c.describe(esc))
				}
			}
			if allOK {
				c.ok("O3 delivery", dkey, d.Pos(), fmt.Sprintf("delta delivered unchanged, exactly once, only when non-zero (%d delivery site(s))", len(rs)))
			}
		}
		_ = hType
	}
	c.floor("O3 delivery", nSites, 2)

	// every counter delivery in package tally must carry a delta taken in the same function
	for _, fn := range c.funcsOfPkg("") {
		instrsOf(fn, func(in ssa.Instruction) {
			if !isDeliv(in) {
				return
			}
			// only deliveries made on behalf of a counter: methods of counter/histogram
			if fn.Signature.Recv() == nil {
				return
			}
			rt, _ := deref(fn.Signature.Recv().Type()).(*types.Named)
			if rt == nil || (rt.Obj().Name() != "counter" && rt.Obj().Name() != "histogram") {
				return
			}
			args := in.(ssa.CallInstruction).Common().Args
			last := stripConv(args[len(args)-1])
			call, ok := last.(*ssa.Call)
			isDelta := false
			if ok {
				for _, d := range deltaFns {
					if staticCallee(call) == d {
						isDelta = true
					}
				}
			}
			c.check(isDelta, "O3 value-provenance", c.fnKey(fn)+":"+in.(ssa.CallInstruction).Common().Method.Name(), in.Pos(),
				"delivered value is the result of the delta function",
				"a counter/histogram delivery passes a value that is not the result of the delta function (constant, arithmetic or a different counter)", c.describe(in))
		})
	}

	// O6: creation appends to the slice the cached pass iterates.
	c.checkSliceSibling("O6 slice-sibling", "counters", "countersSlice")
	c.checkSliceSibling("O6 slice-sibling", "histograms", "histogramsSlice")
	// O7
	c.checkScopePassCoverage("O7 pass-coverage", "counters", "countersSlice", "counter")
	c.checkScopePassCoverage("O7 pass-coverage", "histograms", "histogramsSlice", "histogram")
	// O9: nothing recorded is lost around Close / re-acquire (shared with C07 O1-O3 and C08 O3),
	// O10: racing first users get one counter (shared with C09 O1)
	if fM, clr := c.field("", "scopeBucket", "s"), c.fn("", "scope", "clearMetrics"); fM != nil && clr != nil {
		eng := c.newLockEngine()
		c.checkReportBeforeClear("O9 flag-before-report", "O9 report-before-clear")
		// a closed scope that is still registered is never handed out as live (re-opened in place): the pass
		// that sampled it as closed still drops it, with everything counted on it afterwards (shared with C07 O6)
		c.checkLiveHandout("O9 live-handout")
		c.checkGapSafeDeletes("O9 lock-gap", fM, eng, clr)
		c.checkPurgeOnlyFromClose("O9 purge-only-from-close")
		c.checkDoubleChecked("O10 double-checked", eng)
		// what is pending when the root is closed is delivered by the final report: Close waits for the
		// periodic pass first, then reports and flushes (shared with C08 O1)
		c.shared(checkC08, map[string]string{"O1 close-chain": "O11 final-report", "O1 report-then-flush": "O11 report-then-flush"})
	} else {
		c.missing("O9 report-before-clear", "tally.scopeBucket.s / scope.clearMetrics")
	}
	// O8: the registry passes visit every shard and every scope
	c.checkRegistryPassCoverage("O8 registry-coverage", "Report", "report")
	c.checkRegistryPassCoverage("O8 registry-coverage", "CachedReport", "cachedReport")
	// every bucket of a histogram is visited by both histogram passes
	c.checkHistogramBucketCoverage("O7 bucket-coverage")
	// O12 (shared with C04 O4): "delivered under that counter's name and tags" - the tags a scope's
	// counters are delivered with are the scope's private copy; a map the caller keeps writing to would
	// move earlier increments under tags the counter never had
	if merge, copySan := c.fn("", "", "mergeRightTags"), c.fn("", "scope", "copyAndSanitizeMap"); merge != nil && copySan != nil {
		c.checkTagsIngress("O12 own-tags", merge, copySan)
	} else {
		c.missing("O12 own-tags", "tally.mergeRightTags / scope.copyAndSanitizeMap")
	}
	// ... and its own name: names, keys and values are sanitized by their own rule's function (shared with
	// C06 O3; one memo shared by the three rules delivers a counter under another spelling)
	c.checkSanitizerTable("O12 sanitizer-wiring")
}

// checkDeltaShape checks shape S1 of a function that writes counter.prev.
func (c *Ctx) checkDeltaShape(fn *ssa.Function, pOps, cOps []*atomicOp) {
	rule, key := "O2 delta-rmw", c.fnKey(fn)
	var lp, lc, cas *atomicOp
	for _, op := range pOps {
		switch op.Kind {
		case "load":
			if lp != nil {
				c.undecided(rule, key, fn.Pos(), "more than one load of prev in the delta function: shape not recognised")
				return
			}
			lp = op
		case "cas":
			if cas != nil {
				c.undecided(rule, key, fn.Pos(), "more than one CAS on prev in the delta function: shape not recognised")
				return
			}
			cas = op
		default:
			in := op.Call.(ssa.Instruction)
			c.bad(rule, key, in.Pos(),
				"counter.prev is advanced by a plain "+op.Kind+" that is not tied to the value subtracted: two report passes running at the same time both subtract the same prev (every increment in between is delivered twice) or emit a negative delta; it must be one compare-and-swap from the prev that was read to the curr that was read",
				c.describe(in))
			return
		}
	}
	for _, op := range cOps {
		if op.Kind == "load" {
			if lc != nil {
				c.undecided(rule, key, fn.Pos(), "more than one load of curr in the delta function: shape not recognised")
				return
			}
			lc = op
		}
	}
	if lp == nil || lc == nil || cas == nil {
		c.bad(rule, key, fn.Pos(), "the function writes counter.prev without the load(prev)/load(curr)/CAS(prev) triple")
		return
	}
	lpI, lcI, casI := lp.Call.(ssa.Instruction), lc.Call.(ssa.Instruction), cas.Call.(ssa.Instruction)
	if !dominates(lpI, lcI) {
		c.bad(rule, key, lcI.Pos(), "curr is read before prev: a concurrent pass can advance prev past this curr and the delta becomes negative although every increment is non-negative", c.describe(lcI), c.describe(lpI))
		return
	}
	if !dominates(lcI, casI) {
		c.bad(rule, key, casI.Pos(), "the CAS on prev is not preceded by the load of curr", c.describe(casI))
		return
	}
	if stripConv(cas.Args[0]) != lpI.(ssa.Value) || stripConv(cas.Args[1]) != lcI.(ssa.Value) {
		c.bad(rule, key, casI.Pos(), "the CAS on prev is not CAS(prev, <prev that was read>, <curr that was read>): subtracting and advancing are not one step", c.describe(casI))
		return
	}
	casV := casI.(ssa.Value)
	casOK := flagSetCond(casV, true)
	var succBlock *ssa.BasicBlock
	for _, b := range fn.Blocks {
		if iff, ok := condOf(b); ok {
			if m, onTrue := casOK(iff.Cond); m {
				if onTrue {
					succBlock = b.Succs[0]
				} else {
					succBlock = b.Succs[1]
				}
			}
		}
	}
	if succBlock == nil {
		c.bad(rule, key, casI.Pos(), "the result of the CAS on prev is not tested: a failed CAS (another pass advanced prev) must retry, not return a delta", c.describe(casI))
		return
	}
	for _, r := range returnsOf(fn) {
		v := stripConv(r.Results[0])
		afterSuccess := r.Block() == succBlock || succBlock.Dominates(r.Block())
		if k, isK := constInt(v); isK && k == 0 {
			if afterSuccess {
				c.bad(rule, key, r.Pos(), "returns 0 after prev has been advanced: that delta is lost", c.describe(r))
				return
			}
			continue
		}
		bo, isSub := v.(*ssa.BinOp)
		if !isSub || bo.Op != token.SUB || stripConv(bo.X) != lcI.(ssa.Value) || stripConv(bo.Y) != lpI.(ssa.Value) {
			c.bad(rule, key, r.Pos(), "the delta returned is not <curr that was read> - <prev that was read>", c.describe(r))
			return
		}
		if !afterSuccess {
			c.bad(rule, key, r.Pos(), "a delta is returned on a path where the CAS on prev did not succeed: another pass delivers the same increments", c.describe(r))
			return
		}
	}
	// a failed CAS must not fall out of the function: from the failure edge every return is
	// preceded by a fresh load of prev (retry)
	for _, b := range fn.Blocks {
		if iff, ok := condOf(b); ok {
			if m, onTrue := casOK(iff.Cond); m {
				fail := b.Succs[0]
				if onTrue {
					fail = b.Succs[1]
				}
				if esc := reachAvoiding(fail.Instrs[0], true, isReturn, func(i ssa.Instruction) bool { return i == lpI }); esc != nil {
					c.bad(rule, key, esc.Pos(), "after a failed CAS the function returns without re-reading prev (no retry)", c.describe(esc))
					return
				}
			}
		}
	}
	c.ok(rule, key, casI.Pos(), "p:=Load(prev); c:=Load(curr); CAS(prev,p,c) with retry; c-p returned only on the success edge")
}

// checkSliceSibling: every function that inserts v into scope.<mapField> also appends the same v
// to scope.<sliceField> (the cached pass iterates the slice).
func (c *Ctx) checkSliceSibling(rule, mapField, sliceField string) {
	fm, fs := c.field("", "scope", mapField), c.field("", "scope", sliceField)
	if fm == nil || fs == nil {
		c.missing(rule, "fields scope."+mapField+" / scope."+sliceField)
		return
	}
	n := 0
	for _, fn := range c.funcsOfPkg("") {
		instrsOf(fn, func(in ssa.Instruction) {
			mu, ok := in.(*ssa.MapUpdate)
			if !ok {
				return
			}
			f, base := loadedField(mu.Map)
			if f != fm {
				return
			}
			n++
			key := c.fnKey(fn) + "/" + mapField
			found := false
			instrsOf(fn, func(j ssa.Instruction) {
				st, ok := j.(*ssa.Store)
				if !ok {
					return
				}
				sf, sbase := addrField(st.Addr)
				if sf != fs || accessPath(sbase) != accessPath(base) {
					return
				}
				ab, elems, _, isApp := appendedValues(st.Val)
				if !isApp {
					return
				}
				if lf, lbase := loadedField(ab); lf != fs || accessPath(lbase) != accessPath(base) {
					return
				}
				for _, e := range elems {
					if stripConv(e) == stripConv(mu.Value) {
						found = true
					}
				}
			})
			c.check(found, rule, key, in.Pos(), "the inserted metric is appended to "+sliceField+" in the same function",
				"a metric is inserted into scope."+mapField+" but the same value is not appended to scope."+sliceField+": the cached report pass iterates the slice and never delivers it", c.describe(in))
		})
	}
	c.floor(rule+"/"+mapField, n, 1)
}
