package main

import (
	"fmt"
	"go/token"
	"go/types"
	"sort"
	"strings"

	"golang.org/x/tools/go/ssa"
)

func init() { register("C20", checkC20) }

type guardSpec struct {
	param string
	k     int64
}

func checkC20(c *Ctx) {
	c.Explanation = "Decides the structural clauses of the bucket constructors and of bucket identity: (O1) each constructor rejects exactly n<=0 (linear) resp. n<=0, start<=0, factor<=1 (exponential) with (nil, error), the success return is reachable only when all guards are false, and the result is make(T, n); (O2) each MustMake* calls its own plain sibling with its parameters in order, panics exactly on err != nil and returns the sibling's result; (O3) no slice of bucket element type that is not freshly allocated in the same function is ever the target of an element store, copy, sort or Swap in the library packages (so the caller's Buckets are never modified; the two sorts operate on copies); (O4) bucketCache.Get returns a cached storage only on a path where bucketsEqual(requested, stored) was true, every other returned storage is built from the requested buckets, and bucketsEqual compares dynamic type, length and every element; (O5) each constructor writes every index 0..n-1 of its result exactly once per loop iteration with, symbolically, start + i*width (or an accumulator seeded with start and advanced by + width after the store) resp. an accumulator seeded with start and advanced by * factor after the store (or start*Pow(factor,i)): element 0 is start and each further element is the previous one plus width / times factor."
	c.Explanation += " Added later: (O6) the bound table shared between a cache entry and its histograms is written only where it is allocated."
	c.Explanation += " Added by round 8: (O4) the non-hit path of the cache builds storage through a function that reads no stored storage."
	c.NotDecided = []string{"the floating-point / integer results of the recurrences (rounding, overflow, the truncation in the duration conversion): O5 decides the recurrence symbolically"}

	// ---- O1 guards ------------------------------------------------------------------------
	ctors := []struct {
		name   string
		guards []guardSpec
	}{
		{"LinearValueBuckets", []guardSpec{{"n", 0}}},
		{"LinearDurationBuckets", []guardSpec{{"n", 0}}},
		{"ExponentialValueBuckets", []guardSpec{{"n", 0}, {"start", 0}, {"factor", 1}}},
		{"ExponentialDurationBuckets", []guardSpec{{"n", 0}, {"start", 0}, {"factor", 1}}},
	}
	for _, ct := range ctors {
		fn := c.fn("", "", ct.name)
		if fn == nil {
			c.missing("O1 guards", "function tally."+ct.name)
			continue
		}
		c.sawFunc(c.fnKey(fn))
		c.checkCtorGuards("O1 guards", fn, ct.guards)
		c.checkMust("O2 must-shape", "MustMake"+ct.name, fn)
		c.checkRecurrence("O5 recurrence", fn, strings.HasPrefix(ct.name, "Exponential"))
	}

	// ---- O3 no mutation of non-fresh bucket storage ----------------------------------------
	c.checkNoBucketMutation("O3 caller-slice")

	// ---- O4 cache hit equality -------------------------------------------------------------
	c.checkBucketCacheGet("O4 cache-hit-equality")
	c.checkBucketsEqual("O4 buckets-equal")
	c.checkBucketsUsed("O4 buckets-used")
	// bucket pairs are derived from a sorted COPY that stays private while it is read (shared with C03 O5)
	c.checkSortedCopy("O3 sorted-copy")
	c.checkBoundTablePrivate("O6 bound-table-private")
	c.checkOnePairPerBound("O4 one-pair-per-bound")
}

// checkRecurrence (O5): the bounds follow the documented recurrence. Decided symbolically on SSA, not
// numerically: the returned slice is written by exactly one element store, executed once in every
// iteration of a loop whose induction variable covers 0..n-1, at that index, and the stored value,
// normalised (conversions dropped, operands of + and * sorted), is
//
//	linear:       start + i*step,  or an accumulator  a = phi[start, a+step]  stored before its update
//	exponential:  an accumulator   a = phi[start, a*step]  stored before its update, or start * Pow(step, i)
//
// i.e. element 0 is start and each further element is the previous one plus width / times factor.
func (c *Ctx) checkRecurrence(rule string, fn *ssa.Function, exponential bool) {
	key := c.fnKey(fn)
	if len(fn.Params) != 3 {
		c.undecided(rule, key, fn.Pos(), "constructor does not have the parameters (start, step, n)")
		return
	}
	var ms *ssa.MakeSlice
	for _, r := range returnsOf(fn) {
		if len(r.Results) == 2 && isNilConst(r.Results[1]) {
			if m, ok := stripConv(r.Results[0]).(*ssa.MakeSlice); ok {
				ms = m
			}
		}
	}
	if ms == nil {
		return // O1 reports the shape of the result
	}
	// element stores into the result
	var stores []*ssa.Store
	instrsOf(fn, func(in ssa.Instruction) {
		if st, ok := in.(*ssa.Store); ok {
			if ia, isIA := st.Addr.(*ssa.IndexAddr); isIA && stripConv(canon(ia.X)) == ssa.Value(ms) {
				stores = append(stores, st)
			}
		}
	})
	if len(stores) != 1 {
		c.bad(rule, key, fn.Pos(), fmt.Sprintf("the result is written by %d element stores (expected one store, executed once per index)", len(stores)))
		return
	}
	st := stores[0]
	ia := st.Addr.(*ssa.IndexAddr)
	var fl *fwdLoop
	for _, l := range countingLoops(fn) {
		if l.idx != ia.Index || !l.loop.Blocks[st.Block()] {
			continue
		}
		boundOK := false
		if l.lenArg != nil && stripConv(canon(l.lenArg)) == ssa.Value(ms) {
			boundOK = true
		}
		if stripConv(canon(l.bound)) == stripConv(canon(ms.Len)) {
			boundOK = true
		}
		if boundOK {
			fl = l
		}
	}
	if fl == nil {
		c.bad(rule, key, st.Pos(), "the element store is not indexed by the induction variable of a loop that runs over every index 0..n-1 of the result: some bounds are left zero or written twice", c.describe(st))
		return
	}
	for _, latch := range fl.loop.Latch {
		if !st.Block().Dominates(latch) {
			c.bad(rule, key, st.Pos(), "the element store is not executed in every iteration of the loop", c.describe(st))
			return
		}
	}
	for _, lp := range loopsOf(fn) {
		if lp != fl.loop && lp.Blocks[st.Block()] && fl.loop.Blocks[lp.Header] && lp.Header != fl.header {
			c.bad(rule, key, st.Pos(), "the element store sits in a nested loop", c.describe(st))
			return
		}
	}
	S, W := ssa.Value(fn.Params[0]), ssa.Value(fn.Params[1])
	var sym func(v ssa.Value, acc *ssa.Phi, depth int) string
	sym = func(v ssa.Value, acc *ssa.Phi, depth int) string {
		if depth == 0 {
			return "?"
		}
		for {
			switch x := v.(type) {
			case *ssa.Convert:
				v = x.X
				continue
			case *ssa.ChangeType:
				v = x.X
				continue
			}
			break
		}
		v = canon(v)
		switch {
		case v == fl.idx:
			return "I"
		case v == S:
			return "S"
		case v == W:
			return "W"
		}
		switch x := v.(type) {
		case *ssa.Convert:
			return sym(x.X, acc, depth-1)
		case *ssa.ChangeType:
			return sym(x.X, acc, depth-1)
		case *ssa.Const:
			return "K:" + x.Value.String()
		case *ssa.BinOp:
			a, b := sym(x.X, acc, depth-1), sym(x.Y, acc, depth-1)
			if (x.Op == token.ADD || x.Op == token.MUL) && b < a {
				a, b = b, a
			}
			return x.Op.String() + "(" + a + "," + b + ")"
		case *ssa.Call:
			if g := staticCallee(x); g != nil && g.Pkg != nil && g.Pkg.Pkg.Path() == "math" && g.Name() == "Pow" && len(x.Call.Args) == 2 {
				return "POW(" + sym(x.Call.Args[0], acc, depth-1) + "," + sym(x.Call.Args[1], acc, depth-1) + ")"
			}
		case *ssa.Phi:
			if x == acc {
				return "ACC"
			}
			if x.Block() == fl.header && acc == nil {
				init, next := "", ""
				for i, e := range x.Edges {
					s := ""
					if fl.loop.Blocks[x.Block().Preds[i]] {
						s = sym(e, x, depth-1)
						if next != "" && next != s {
							return "?phi"
						}
						next = s
					} else {
						s = sym(e, x, depth-1)
						if init != "" && init != s {
							return "?phi"
						}
						init = s
					}
				}
				return "ACC{" + init + ";" + next + "}"
			}
		}
		return "?" + v.Name()
	}
	got := sym(st.Val, nil, 8)
	var want []string
	what := ""
	if exponential {
		// the recurrence itself (start, then repeatedly times factor); start * Pow(factor, i) is equal only
		// in exact arithmetic - in float64 it differs from the recurrence by ulps from some index on, so
		// the bounds (and the bucket a sample on a bound lands in) change
		want = []string{"ACC{S;*(ACC,W)}"}
		what = "element 0 = start, element i+1 = element i * factor"
	} else {
		want = []string{"+(*(I,W),S)", "ACC{S;+(ACC,W)}"}
		what = "element i = start + i*width"
	}
	for _, w := range want {
		if got == w {
			c.ok(rule, key, st.Pos(), "every index 0..n-1 is written once per iteration with "+what+" (symbolic form "+got+")")
			return
		}
	}
	c.bad(rule, key, st.Pos(), "the value stored for index i is not "+what+": symbolic form "+got+", accepted "+strings.Join(want, " | "), c.describe(st))
}

// leqGuard recognises `param <= k` (ints: also `param < k+1`), returning the parameter.
func leqGuard(fn *ssa.Function, cond ssa.Value) (param string, k int64, onTrue, ok bool) {
	op, x, y, isCmp := cmpOf(cond)
	if !isCmp {
		return "", 0, false, false
	}
	xv, yv := stripConv(x), stripConv(y)
	if cv, isConv := xv.(*ssa.Convert); isConv {
		xv = cv.X
	}
	if cv, isConv := yv.(*ssa.Convert); isConv {
		yv = cv.X
	}
	if _, isP := yv.(*ssa.Parameter); isP {
		xv, yv = yv, xv
		op = flipCmp(op)
	}
	p, isP := xv.(*ssa.Parameter)
	if !isP {
		return "", 0, false, false
	}
	kc, isC := yv.(*ssa.Const)
	if !isC || kc.Value == nil {
		return "", 0, false, false
	}
	kf, _ := constFloat(kc)
	kI := int64(kf)
	if float64(kI) != kf {
		return "", 0, false, false
	}
	isInt := false
	if b, okb := p.Type().Underlying().(*types.Basic); okb && b.Info()&types.IsInteger != 0 {
		isInt = true
	}
	switch op {
	case token.LEQ:
		return p.Name(), kI, true, true
	case token.GTR:
		return p.Name(), kI, false, true
	case token.LSS:
		if isInt {
			return p.Name(), kI - 1, true, true
		}
	case token.GEQ:
		if isInt {
			return p.Name(), kI - 1, false, true
		}
	}
	return "", 0, false, false
}

func (c *Ctx) checkCtorGuards(rule string, fn *ssa.Function, want []guardSpec) {
	key := c.fnKey(fn)
	var errRets, okRets []*ssa.Return
	for _, r := range returnsOf(fn) {
		if len(r.Results) != 2 {
			c.undecided(rule, key, r.Pos(), "constructor does not return (buckets, error)")
			return
		}
		if isNilConst(r.Results[1]) {
			okRets = append(okRets, r)
		} else {
			errRets = append(errRets, r)
		}
	}
	// collect guards: If blocks with a recognised comparison
	type guard struct {
		spec   guardSpec
		b      *ssa.BasicBlock
		onTrue bool
	}
	var guards []guard
	for _, b := range fn.Blocks {
		if iff, ok := condOf(b); ok {
			if p, k, onTrue, okg := leqGuard(fn, iff.Cond); okg {
				guards = append(guards, guard{guardSpec{p, k}, b, onTrue})
			}
		}
	}
	allOK := true
	for _, w := range want {
		var g *guard
		for i := range guards {
			if guards[i].spec == w {
				g = &guards[i]
			}
		}
		if g == nil {
			allOK = false
			var have []string
			for _, x := range guards {
				have = append(have, fmt.Sprintf("%s<=%d", x.spec.param, x.spec.k))
			}
			sort.Strings(have)
			c.bad(rule, key+":"+w.param, fn.Pos(), fmt.Sprintf("the constructor has no guard `%s <= %d` (guards found: %s): arguments it must reject are accepted", w.param, w.k, strings.Join(have, ", ")))
			continue
		}
		rejIdx, accIdx := 0, 1
		if !g.onTrue {
			rejIdx, accIdx = 1, 0
		}
		// reject edge leads only to error returns with nil buckets (path-sensitive: the error may be
		// joined with other guards' errors and tested after the join, as an inlined helper does)
		rejRets := returnsFromEdge(g.b, rejIdx)
		rejOK := len(rejRets) > 0
		for _, ra := range rejRets {
			if len(ra.ret.Results) != 2 {
				rejOK = false
				continue
			}
			for _, tuple := range resultTuples(ra.ret) {
				b0, e1 := ra.st.resolve(tuple[0].Val), ra.st.resolve(tuple[1].Val)
				if !isNilConst(b0) || isNilConst(e1) {
					rejOK = false
				}
			}
		}
		accOK := len(okRets) > 0
		for _, r := range okRets {
			if !edgeDominates(g.b, accIdx, r.Block()) {
				accOK = false
			}
		}
		if !rejOK {
			allOK = false
			c.bad(rule, key+":"+w.param, g.b.Instrs[len(g.b.Instrs)-1].Pos(), fmt.Sprintf("the `%s <= %d` outcome does not return (nil, error)", w.param, w.k))
		}
		if !accOK {
			allOK = false
			c.bad(rule, key+":"+w.param, g.b.Instrs[len(g.b.Instrs)-1].Pos(), fmt.Sprintf("a successful return is reachable although `%s <= %d`", w.param, w.k))
		}
	}
	// no other rejecting condition: every error return is dominated by the reject edge of a wanted guard
	rejectEdges := map[*ssa.BasicBlock]int{}
	for _, g := range guards {
		for _, w := range want {
			if g.spec == w {
				idx := 0
				if !g.onTrue {
					idx = 1
				}
				rejectEdges[g.b] = idx
			}
		}
	}
	for _, r := range errRets {
		// with every documented reject edge removed the error return must be unreachable
		ok := entryInstr(fn) != nil && !reachThreaded(entryInstr(fn), r, rejectEdges, nil)
		if !ok {
			allOK = false
			c.bad(rule, key, r.Pos(), "an error is returned under a condition other than the documented guards: valid arguments are rejected", c.describe(r))
		}
	}
	// result is make(T, n)
	for _, r := range okRets {
		ms, isMS := stripConv(r.Results[0]).(*ssa.MakeSlice)
		okLen := false
		if isMS {
			if p, isP := stripConv(ms.Len).(*ssa.Parameter); isP && p.Name() == "n" {
				okLen = true
			}
		}
		if !okLen {
			allOK = false
			c.bad(rule, key+":len", r.Pos(), "the constructor does not return make(T, n): the number of bounds differs from n", c.describe(r))
		}
	}
	if allOK {
		var ws []string
		for _, w := range want {
			ws = append(ws, fmt.Sprintf("%s<=%d", w.param, w.k))
		}
		c.ok(rule, key, fn.Pos(), "rejects exactly {"+strings.Join(ws, ", ")+"} with (nil, error); result is make(T, n)")
	}
}

func (c *Ctx) checkMust(rule, name string, plain *ssa.Function) {
	fn := c.fn("", "", name)
	if fn == nil {
		c.missing(rule, "function tally."+name)
		return
	}
	c.sawFunc(c.fnKey(fn))
	key := c.fnKey(fn)
	var calls []*ssa.Call
	instrsOf(fn, func(in ssa.Instruction) {
		if call, ok := in.(*ssa.Call); ok && staticCallee(call) != nil && c.inModule(staticCallee(call)) {
			calls = append(calls, call)
		}
	})
	if len(calls) != 1 || staticCallee(calls[0]) != plain {
		c.bad(rule, key, fn.Pos(), "the Must variant does not call exactly its own plain sibling "+plain.Name())
		return
	}
	call := calls[0]
	for i, a := range call.Call.Args {
		if i >= len(fn.Params) || a != ssa.Value(fn.Params[i]) {
			c.bad(rule, key, call.Pos(), "the Must variant does not pass its parameters to the plain variant unchanged and in order", c.describe(call))
			return
		}
	}
	var ex0, ex1 *ssa.Extract
	for _, r := range *call.Referrers() {
		if e, ok := r.(*ssa.Extract); ok {
			if e.Index == 0 {
				ex0 = e
			} else {
				ex1 = e
			}
		}
	}
	if ex0 == nil || ex1 == nil {
		c.bad(rule, key, call.Pos(), "the plain variant's error or result is ignored")
		return
	}
	errNonNil := func(cond ssa.Value) (bool, bool) {
		op, x, y, ok := cmpOf(cond)
		if !ok {
			return false, false
		}
		if isNilConst(x) {
			x, y = y, x
		}
		if x != ssa.Value(ex1) || !isNilConst(y) {
			return false, false
		}
		return true, op == token.NEQ
	}
	okAll := true
	nPanic := 0
	instrsOf(fn, func(in ssa.Instruction) {
		if p, isP := in.(*ssa.Panic); isP {
			nPanic++
			if guardedByEdge(p, errNonNil) == nil {
				okAll = false
				c.bad(rule, key, p.Pos(), "the Must variant panics on a path that is not `err != nil`")
			}
		}
	})
	if nPanic == 0 {
		okAll = false
		c.bad(rule, key, fn.Pos(), "the Must variant never panics: errors of the plain variant are swallowed")
	}
	for _, r := range returnsOf(fn) {
		if stripConv(r.Results[0]) != ssa.Value(ex0) {
			okAll = false
			c.bad(rule, key, r.Pos(), "the Must variant does not return the plain variant's buckets", c.describe(r))
		}
		// return only when err == nil
		if guardedByEdge(r, func(cond ssa.Value) (bool, bool) { m, t := errNonNil(cond); return m, !t }) == nil {
			okAll = false
			c.bad(rule, key, r.Pos(), "the Must variant returns normally on a path where err != nil is possible", c.describe(r))
		}
	}
	if okAll {
		c.ok(rule, key, fn.Pos(), "calls "+plain.Name()+" with its parameters, panics iff err != nil, returns its result")
	}
}

// bucketElem reports whether t is a slice type whose elements are float64 or time.Duration
// (incl. the named ValueBuckets / DurationBuckets).
func bucketSlice(t types.Type) bool {
	sl, ok := t.Underlying().(*types.Slice)
	if !ok {
		return false
	}
	e := sl.Elem()
	if b, isB := e.(*types.Basic); isB && b.Kind() == types.Float64 {
		return true
	}
	if n, isN := e.(*types.Named); isN && n.Obj().Pkg() != nil && n.Obj().Pkg().Path() == "time" && n.Obj().Name() == "Duration" {
		return true
	}
	return false
}

// freshSlice: the slice value is allocated in this function (make, composite literal, append to
// fresh, nil), looking through re-slicing and conversions.
func freshSlice(v ssa.Value, depth int, seen map[ssa.Value]bool) bool {
	if depth <= 0 {
		return false
	}
	if seen[v] {
		return true // cycle through a loop phi: decided by the other edges
	}
	seen[v] = true
	switch x := v.(type) {
	case *ssa.MakeSlice:
		return true
	case *ssa.Const:
		return x.IsNil()
	case *ssa.Slice:
		if _, isAlloc := x.X.(*ssa.Alloc); isAlloc {
			return true // slice of a local array (composite literal)
		}
		return freshSlice(x.X, depth-1, seen)
	case *ssa.ChangeType:
		return freshSlice(x.X, depth-1, seen)
	case *ssa.Convert:
		return freshSlice(x.X, depth-1, seen)
	case *ssa.MakeInterface:
		return freshSlice(x.X, depth-1, seen)
	case *ssa.Phi:
		for _, e := range x.Edges {
			if !freshSlice(e, depth-1, seen) {
				return false
			}
		}
		return true
	case *ssa.Call:
		if isBuiltin(x, "append") {
			return freshSlice(x.Call.Args[0], depth-1, seen)
		}
	case *ssa.UnOp:
		if x.Op == token.MUL {
			if s := spilled(x.X); s != nil {
				return freshSlice(s, depth-1, seen)
			}
		}
	}
	return false
}

// bucketTaint computes the set of values that may alias bucket storage the library does not own:
// values of the bucket types (Buckets, ValueBuckets, DurationBuckets), results of
// AsValues/AsDurations, everything derived from them by conversion / re-slicing / phi, and the
// parameters of in-module functions that receive such a value at some call site (fixpoint).
func (c *Ctx) bucketTaint(pkgs []string) map[ssa.Value]bool {
	t := map[ssa.Value]bool{}
	isBucketType := func(ty types.Type) bool {
		if n, ok := ty.(*types.Named); ok && n.Obj().Pkg() != nil && n.Obj().Pkg().Path() == modPath {
			switch n.Obj().Name() {
			case "Buckets", "ValueBuckets", "DurationBuckets":
				return true
			}
		}
		return false
	}
	var fns []*ssa.Function
	for _, short := range pkgs {
		fns = append(fns, c.funcsOfPkg(short)...)
	}
	changed := true
	mark := func(v ssa.Value) {
		if v != nil && !t[v] {
			t[v] = true
			changed = true
		}
	}
	for changed {
		changed = false
		for _, fn := range fns {
			for _, p := range fn.Params {
				if isBucketType(p.Type()) {
					mark(p)
				}
			}
			instrsOf(fn, func(in ssa.Instruction) {
				v, isVal := in.(ssa.Value)
				if isVal && isBucketType(v.Type()) {
					mark(v)
				}
				switch x := in.(type) {
				case *ssa.Call:
					if _, m := ifaceCall(x); m != nil && (m.Name() == "AsValues" || m.Name() == "AsDurations") {
						mark(x)
					}
					if f := staticCallee(x); f != nil && (f.Name() == "AsValues" || f.Name() == "AsDurations") && f.Signature.Recv() != nil && isBucketType(f.Signature.Recv().Type()) {
						// AsValues on the matching type returns the receiver's storage
						mark(x)
					}
					if f := staticCallee(x); f != nil && c.inModule(f) && f.Blocks != nil {
						for i, a := range x.Call.Args {
							if t[a] && i < len(f.Params) {
								mark(f.Params[i])
							}
						}
					}
					if isBuiltin(x, "append") && t[x.Call.Args[0]] {
						mark(x)
					}
				case *ssa.ChangeType:
					if t[x.X] {
						mark(x)
					}
				case *ssa.Convert:
					if t[x.X] {
						mark(x)
					}
				case *ssa.Slice:
					if t[x.X] {
						mark(x)
					}
				case *ssa.MakeInterface:
					if t[x.X] {
						mark(x)
					}
				case *ssa.TypeAssert:
					if t[x.X] {
						mark(x)
					}
				case *ssa.Extract:
					if t[x.Tuple] {
						mark(x)
					}
				case *ssa.Phi:
					for _, e := range x.Edges {
						if t[e] {
							mark(x)
						}
					}
				case *ssa.UnOp:
					if x.Op == token.MUL {
						if s := spilled(x.X); s != nil && t[s] {
							mark(x)
						}
					}
				}
			})
		}
	}
	return t
}

func (c *Ctx) checkNoBucketMutation(rule string) {
	pkgs := []string{"", "m3", "prometheus", "statsd", "multi", "instrument", "internal/identity", "internal/cache"}
	taint := c.bucketTaint(pkgs)
	nSinks, nBad := 0, 0
	for _, short := range pkgs {
		for _, fn := range c.funcsOfPkg(short) {
			// the sort.Interface implementation itself: Swap(i, j) on the two bucket types is only
			// reached through sort.* (its call sites are sinks)
			isSwapImpl := fn.Name() == "Swap" && fn.Signature.Recv() != nil && bucketSlice(fn.Signature.Recv().Type())
			instrsOf(fn, func(in ssa.Instruction) {
				var target ssa.Value
				what := ""
				switch x := in.(type) {
				case *ssa.Store:
					if ia, ok := x.Addr.(*ssa.IndexAddr); ok && bucketSlice(ia.X.Type()) {
						target, what = ia.X, "element store into"
					}
				case *ssa.Call:
					switch {
					case isBuiltin(x, "copy") && bucketSlice(x.Call.Args[0].Type()):
						target, what = x.Call.Args[0], "copy into"
					case isBuiltin(x, "append") && bucketSlice(x.Call.Args[0].Type()):
						// append may write into spare capacity of the caller's backing array
						target, what = x.Call.Args[0], "append to"
					default:
						for _, nm := range []string{"Sort", "Stable", "Slice", "SliceStable", "Float64s"} {
							if _, isS := isCallTo(x, "sort", nm); isS && len(x.Call.Args) > 0 {
								a := stripConv(x.Call.Args[0])
								if bucketSlice(a.Type()) {
									target, what = a, "sort."+nm+" of"
								}
								// a Buckets value (interface) sorted directly: sorts whatever slice it wraps
								if n, isN := a.Type().(*types.Named); isN && n.Obj().Name() == "Buckets" {
									target, what = a, "sort."+nm+" of"
								}
							}
						}
						if _, m := ifaceCall(x); m != nil && m.Name() == "Swap" {
							if n, isN := x.Call.Value.Type().(*types.Named); isN && n.Obj().Name() == "Buckets" {
								target, what = x.Call.Value, "Swap on"
							}
						}
						if f := staticCallee(x); f != nil && f.Name() == "Swap" && f.Signature.Recv() != nil && bucketSlice(f.Signature.Recv().Type()) && c.inModule(f) {
							target, what = x.Call.Args[0], "Swap on"
						}
					}
				}
				if target == nil || !(taint[target] || taint[stripConv(target)] || taint[canon(target)]) {
					return
				}
				nSinks++
				if isSwapImpl && canon(target) == ssa.Value(fn.Params[0]) {
					return
				}
				if what == "Swap on" {
					nBad++
					c.bad(rule, c.fnKey(fn), in.Pos(), "a bucket list's elements are swapped directly: bucket storage that may belong to the caller is modified", c.describe(in))
					return
				}
				if freshSlice(target, 8, map[ssa.Value]bool{}) {
					return
				}
				nBad++
				c.bad(rule, c.fnKey(fn), in.Pos(), what+" a bucket slice that is not freshly allocated in this function (a parameter, a field or what AsValues/AsDurations handed back): the caller's bucket specification can be modified", c.describe(in))
			})
		}
	}
	c.extra["bucket_mutation_sinks"] = nSinks
	c.extra["bucket_tainted_values"] = len(taint)
	if nBad == 0 {
		c.ok(rule, "library packages", token.NoPos, fmt.Sprintf("all %d element stores / copies / appends / sorts over bucket-derived slices target storage allocated in the same function (%d bucket-derived values tracked)", nSinks, len(taint)))
	}
	c.floor(rule, nSinks, 2)
}

func (c *Ctx) checkBucketCacheGet(rule string) {
	fCache := c.field("", "bucketCache", "cache")
	eqFn := c.fn("", "", "bucketsEqual")
	fStorageBuckets := c.field("", "bucketStorage", "buckets")
	if fCache == nil || eqFn == nil || fStorageBuckets == nil {
		c.missing(rule, "tally.bucketCache.cache / bucketsEqual / bucketStorage.buckets")
		return
	}
	n := 0
	for _, fn := range c.funcsOfPkg("") {
		var lookups []*ssa.Lookup
		instrsOf(fn, func(in ssa.Instruction) {
			if lk, ok := in.(*ssa.Lookup); ok {
				if f, _ := loadedField(lk.X); f == fCache {
					lookups = append(lookups, lk)
				}
			}
		})
		if len(lookups) == 0 {
			continue
		}
		n++
		key := c.fnKey(fn)
		c.sawFunc(key)
		var req *ssa.Parameter
		for _, p := range fn.Params {
			if nt, ok := p.Type().(*types.Named); ok && nt.Obj().Name() == "Buckets" {
				req = p
			}
		}
		if req == nil {
			c.undecided(rule, key, fn.Pos(), "function reads the bucket cache but has no Buckets parameter")
			continue
		}
		isHit := func(v ssa.Value) bool {
			v = stripConv(v)
			if e, ok := v.(*ssa.Extract); ok && e.Index == 0 {
				for _, lk := range lookups {
					if e.Tuple == ssa.Value(lk) {
						return true
					}
				}
			}
			for _, lk := range lookups {
				if v == ssa.Value(lk) {
					return true
				}
			}
			return false
		}
		builtFromReq := func(v ssa.Value) bool {
			call, ok := stripConv(v).(*ssa.Call)
			if !ok || staticCallee(call) == nil || !c.inModule(staticCallee(call)) {
				return false
			}
			// a builder, not another cache: neither the callee nor what it calls reads a stored bucket storage
			storageT := fStorageBuckets
			readsStored := false
			seenB := map[*ssa.Function]bool{}
			var scan func(g *ssa.Function, d int)
			scan = func(g *ssa.Function, d int) {
				if g == nil || g.Blocks == nil || seenB[g] || d > 3 || !c.inModule(g) || readsStored {
					return
				}
				seenB[g] = true
				instrsOf(g, func(in ssa.Instruction) {
					var t types.Type
					switch x := in.(type) {
					case *ssa.Lookup:
						if mt, isMap := x.X.Type().Underlying().(*types.Map); isMap {
							t = mt.Elem()
						}
					case *ssa.Next:
						if !x.IsString {
							if tup, isT := x.Type().(*types.Tuple); isT && tup.Len() == 3 {
								t = tup.At(2).Type()
							}
						}
					case ssa.CallInstruction:
						if h := staticCallee(x); h != nil {
							scan(h, d+1)
						}
					}
					if t != nil {
						if st, isSt := deref(t).Underlying().(*types.Struct); isSt {
							for i := 0; i < st.NumFields(); i++ {
								if st.Field(i) == storageT {
									readsStored = true
								}
							}
						}
					}
				})
			}
			scan(staticCallee(call), 0)
			if readsStored {
				return false
			}
			for _, a := range call.Call.Args {
				if canon(a) == ssa.Value(req) {
					return true
				}
			}
			return false
		}
		// the equality tests: If blocks whose condition is bucketsEqual(req, <stored buckets of a hit>)
		eqEdges := map[*ssa.BasicBlock]int{} // block -> successor index taken when equal
		for _, b := range fn.Blocks {
			iff, isIf := condOf(b)
			if !isIf {
				continue
			}
			neg := false
			v := iff.Cond
			for {
				if u, ok := v.(*ssa.UnOp); ok && u.Op == token.NOT {
					neg = !neg
					v = u.X
					continue
				}
				break
			}
			call, ok := v.(*ssa.Call)
			if !ok || staticCallee(call) != eqFn {
				continue
			}
			isReq := func(x ssa.Value) bool { return canon(x) == ssa.Value(req) }
			isStored := func(x ssa.Value) bool {
				f, base := loadedField(stripConv(x))
				if f != fStorageBuckets {
					return false
				}
				if isHit(canon(base)) {
					return true
				}
				// field of a local cell that holds a hit at this point
				if al, isAl := base.(*ssa.Alloc); isAl {
					stores, fromEntry := reachingStores(al, call)
					if fromEntry || len(stores) == 0 {
						return false
					}
					for _, st := range stores {
						if !isHit(st.Val) {
							return false
						}
					}
					return true
				}
				return false
			}
			a, bb := call.Call.Args[0], call.Call.Args[1]
			if (isReq(a) && isStored(bb)) || (isReq(bb) && isStored(a)) {
				if neg {
					eqEdges[b] = 1
				} else {
					eqEdges[b] = 0
				}
			}
		}
		okAll := true
		checkVal := func(v ssa.Value, at ssa.Instruction) {
			if al := cellOf(v); al != nil {
				load := stripConv(v).(*ssa.UnOp)
				stores, fromEntry := reachingStores(al, load)
				if fromEntry {
					okAll = false
					c.bad(rule, key, at.Pos(), "an uninitialised bucket storage can be returned", c.describe(at))
				}
				for _, st := range stores {
					if isHit(st.Val) {
						esc := reachAvoidingF(st, false, eqEdges, func(i ssa.Instruction) bool { return i == ssa.Instruction(load) },
							func(i ssa.Instruction) bool { s2, ok := i.(*ssa.Store); return ok && s2.Addr == ssa.Value(al) })
						if esc != nil {
							okAll = false
							c.bad(rule, key, at.Pos(), "a bucket storage found in the cache is returned on a path where bucketsEqual(requested, stored) has not been evaluated true: the cache key is a commutative sum, so a permutation or a colliding set silently gives this histogram another histogram's bounds",
								"hit stored: "+c.describe(st), "returned: "+c.describe(at))
						}
					} else if !builtFromReq(st.Val) {
						okAll = false
						c.bad(rule, key, st.Pos(), "the bucket storage is neither a validated cache hit nor built from the requested buckets", c.describe(st))
					}
				}
				return
			}
			var visit func(v ssa.Value, at ssa.Instruction, via *ssa.BasicBlock, seen map[ssa.Value]bool)
			visit = func(v ssa.Value, at ssa.Instruction, via *ssa.BasicBlock, seen map[ssa.Value]bool) {
				v = canon(stripConv(v))
				if seen[v] {
					return
				}
				seen[v] = true
				if phi, ok := v.(*ssa.Phi); ok {
					for i, e := range phi.Edges {
						visit(e, phi, phi.Block().Preds[i], seen)
					}
					return
				}
				if isHit(v) {
					g := false
					for b, idx := range eqEdges {
						if via != nil && (b == via && b.Succs[idx] == at.Block() || edgeDominates(b, idx, via)) {
							g = true
						}
						if via == nil && edgeDominates(b, idx, at.Block()) {
							g = true
						}
					}
					if !g {
						okAll = false
						c.bad(rule, key, at.Pos(), "a bucket storage found in the cache is returned on a path where bucketsEqual(requested, stored) has not been evaluated true: the cache key is a commutative sum, so a permutation or a colliding set silently gives this histogram another histogram's bounds", c.describe(at))
					}
					return
				}
				if !builtFromReq(v) {
					okAll = false
					c.bad(rule, key, at.Pos(), "the bucket storage is neither a validated cache hit nor built from the requested buckets", c.describe(at))
				}
			}
			visit(v, at, nil, map[ssa.Value]bool{})
		}
		for _, r := range returnsOf(fn) {
			if len(r.Results) == 1 {
				checkVal(r.Results[0], r)
			}
		}
		// what is stored in the cache must be built from the requested buckets
		instrsOf(fn, func(in ssa.Instruction) {
			if mu, ok := in.(*ssa.MapUpdate); ok {
				if f, _ := loadedField(mu.Map); f == fCache {
					built := builtFromReq(mu.Value)
					if al := cellOf(mu.Value); al != nil {
						stores, fromEntry := reachingStores(al, stripConv(mu.Value).(*ssa.UnOp))
						built = !fromEntry && len(stores) > 0
						for _, st := range stores {
							if !builtFromReq(st.Val) {
								built = false
							}
						}
					}
					if !built {
						okAll = false
						c.bad(rule, key, in.Pos(), "the storage inserted into the bucket cache is not built from the requested buckets", c.describe(in))
					}
				}
			}
		})
		if okAll {
			c.ok(rule, key, fn.Pos(), "cache hit returned only after bucketsEqual(requested, stored); otherwise storage is built from the requested buckets")
		}
	}
	c.floor(rule, n, 1)
}

// checkBucketsEqual: the equality predicate compares dynamic type, length and every element.
func (c *Ctx) checkBucketsEqual(rule string) {
	fn := c.fn("", "", "bucketsEqual")
	if fn == nil {
		c.missing(rule, "function tally.bucketsEqual")
		return
	}
	c.sawFunc(c.fnKey(fn))
	key := c.fnKey(fn)
	if len(fn.Params) != 2 {
		c.undecided(rule, key, fn.Pos(), "unexpected signature")
		return
	}
	okAll := true
	for _, tn := range []string{"DurationBuckets", "ValueBuckets"} {
		t := c.named("", tn)
		var ax, ay *ssa.TypeAssert
		instrsOf(fn, func(in ssa.Instruction) {
			if ta, ok := in.(*ssa.TypeAssert); ok && types.Identical(ta.AssertedType, t) {
				switch canon(ta.X) {
				case ssa.Value(fn.Params[0]):
					ax = ta
				case ssa.Value(fn.Params[1]):
					ay = ta
				}
			}
		})
		if ax == nil || ay == nil || !ay.CommaOk {
			okAll = false
			c.bad(rule, key+":"+tn, fn.Pos(), "bucketsEqual does not test that both arguments have dynamic type "+tn+": a value set and a duration set with the same identity are taken for equal")
			continue
		}
		// values of the asserted slices
		sliceOf := func(ta *ssa.TypeAssert) map[ssa.Value]bool {
			out := map[ssa.Value]bool{}
			if !ta.CommaOk {
				out[ta] = true
			}
			for _, r := range *ta.Referrers() {
				if e, ok := r.(*ssa.Extract); ok && e.Index == 0 {
					out[e] = true
				}
			}
			return out
		}
		sx, sy := sliceOf(ax), sliceOf(ay)
		isOf := func(set map[ssa.Value]bool, v ssa.Value) bool { return set[canon(v)] || set[stripConv(v)] }
		lenCmp, elemCmp, okFalse := false, false, false
		for _, b := range fn.Blocks {
			iff, isIf := condOf(b)
			if !isIf {
				continue
			}
			op, x, y, isCmp := cmpOf(iff.Cond)
			if isCmp && (op == token.NEQ || op == token.EQL) {
				lx, okx := stripConv(x).(*ssa.Call)
				ly, oky := stripConv(y).(*ssa.Call)
				if okx && oky && isBuiltin(lx, "len") && isBuiltin(ly, "len") {
					if (isOf(sx, lx.Call.Args[0]) && isOf(sy, ly.Call.Args[0])) || (isOf(sy, lx.Call.Args[0]) && isOf(sx, ly.Call.Args[0])) {
						if c.edgeReturnsFalse(b, op == token.NEQ) {
							lenCmp = true
						}
					}
				}
				ex, okx2 := stripConv(x).(*ssa.UnOp)
				ey, oky2 := stripConv(y).(*ssa.UnOp)
				if okx2 && oky2 {
					ix, okix := ex.X.(*ssa.IndexAddr)
					iy, okiy := ey.X.(*ssa.IndexAddr)
					if okix && okiy && ix.Index == iy.Index {
						if (isOf(sx, ix.X) && isOf(sy, iy.X)) || (isOf(sy, ix.X) && isOf(sx, iy.X)) {
							// index is a loop variable covering 0..len-1
							if c.edgeReturnsFalse(b, op == token.NEQ) && coversAll(ix.Index, sx, sy) {
								elemCmp = true
							}
						}
					}
				}
			}
			// !ok -> return false
			if e, isE := iff.Cond.(*ssa.Extract); isE && e.Tuple == ssa.Value(ay) && e.Index == 1 {
				if c.edgeReturnsFalse(b, false) {
					okFalse = true
				}
			}
		}
		if !okFalse {
			okAll = false
			c.bad(rule, key+":"+tn, ay.Pos(), "a dynamic-type mismatch of the second argument does not make bucketsEqual return false")
		}
		if !lenCmp {
			okAll = false
			c.bad(rule, key+":"+tn, ax.Pos(), "bucketsEqual does not return false when the lengths differ (a prefix collides with the longer set)")
		}
		if !elemCmp {
			okAll = false
			c.bad(rule, key+":"+tn, ax.Pos(), "bucketsEqual does not compare every pair of elements (b1[i] != b2[i] -> false for all i)")
		}
	}
	if okAll {
		c.ok(rule, key, fn.Pos(), "same dynamic type, same length, every element compared")
	}
}

// edgeReturnsFalse: every return that is reachable through the (true|false) edge of the If in b
// yields the constant false there (path-sensitive: a result joined in a phi, e.g. `return ok && eq(..)`
// or an inlined helper's result, is resolved along the path).
func (c *Ctx) edgeReturnsFalse(b *ssa.BasicBlock, onTrue bool) bool {
	idx := 1
	if onTrue {
		idx = 0
	}
	rets := returnsFromEdge(b, idx)
	if len(rets) == 0 {
		return false
	}
	for _, ra := range rets {
		if len(ra.ret.Results) != 1 {
			return false
		}
		ok := false
		for _, va := range resultValues(ra.ret, 0) {
			v := ra.st.resolve(va.Val)
			if k, isB := constBool(v); isB && !k {
				ok = true
			} else {
				return false
			}
		}
		if !ok {
			return false
		}
	}
	return true
}

// coversAll: idx is the induction variable of `for i := 0; i < len(s); i++` (phi of 0 and i+1,
// loop condition i < len(one of the slices)).
func coversAll(idx ssa.Value, sx, sy map[ssa.Value]bool) bool {
	var fn *ssa.Function
	if in, ok := idx.(ssa.Instruction); ok {
		fn = in.Parent()
	}
	if fn == nil {
		return false
	}
	// the index is the induction variable of a loop that runs over every index of one of the two
	// slices (classic index loop or range loop, see fullIndexLoops)
	for _, fl := range fullIndexLoops(fn) {
		if fl.idx != idx {
			continue
		}
		a := fl.lenArg
		if sx[canon(a)] || sy[canon(a)] || sx[stripConv(a)] || sy[stripConv(a)] {
			return true
		}
	}
	return false
}

// checkBoundTablePrivate (O6): the bound table derived from a specification (bucketStorage.hbuckets)
// is shared by reference between the bucket cache and every histogram built from that entry
// (histogram.buckets). A histogram therefore keeps the bounds it was created with only if that table
// is written nowhere but where it is allocated:
//
//	(a) whatever is stored into bucketStorage.hbuckets is storage allocated in the same function
//	    (make / append chain on the same local struct), never a parameter's or another entry's slice;
//	(b) outside such construction nothing appends to, stores into, copies into or sorts a slice
//	    loaded from bucketStorage.hbuckets or histogram.buckets.
func (c *Ctx) checkBoundTablePrivate(rule string) {
	fH := c.field("", "bucketStorage", "hbuckets")
	fB := c.field("", "histogram", "buckets")
	if fH == nil || fB == nil {
		c.missing(rule, "tally.bucketStorage.hbuckets / tally.histogram.buckets")
		return
	}
	nStores, nBad := 0, 0
	for _, fn := range c.funcsOfPkg("") {
		fn := fn
		// local struct cells of this function
		localBase := func(addr ssa.Value) bool {
			fa, ok := addr.(*ssa.FieldAddr)
			if !ok {
				return false
			}
			al, isAl := fa.X.(*ssa.Alloc)
			if !isAl || al.Parent() != fn || al.Referrers() == nil {
				return false
			}
			// under construction: filled field by field, never assigned as a whole (a spilled
			// parameter, a cache entry or a call result assigned to the variable is not)
			for _, r := range *al.Referrers() {
				if st, isSt := r.(*ssa.Store); isSt && st.Addr == ssa.Value(al) {
					return false
				}
			}
			return true
		}
		var fresh func(v ssa.Value, depth int, seen map[ssa.Value]bool) bool
		fresh = func(v ssa.Value, depth int, seen map[ssa.Value]bool) bool {
			if depth <= 0 {
				return false
			}
			if seen[v] {
				return true
			}
			seen[v] = true
			switch x := v.(type) {
			case *ssa.MakeSlice:
				return true
			case *ssa.Const:
				return x.IsNil()
			case *ssa.Slice:
				if al, isAlloc := x.X.(*ssa.Alloc); isAlloc && al.Parent() == fn {
					return true
				}
				return fresh(x.X, depth-1, seen)
			case *ssa.ChangeType:
				return fresh(x.X, depth-1, seen)
			case *ssa.Phi:
				for _, e := range x.Edges {
					if !fresh(e, depth-1, seen) {
						return false
					}
				}
				return true
			case *ssa.Call:
				if isBuiltin(x, "append") {
					return fresh(x.Call.Args[0], depth-1, seen)
				}
				// a same-package helper all of whose results are storage it allocated itself
				if g := staticCallee(x); g != nil && g.Pkg == fn.Pkg && g.Blocks != nil && g.Signature.Results().Len() == 1 {
					return c.returnsFreshSlice(g, 3)
				}
			case *ssa.UnOp:
				if x.Op == token.MUL {
					if s := spilled(x.X); s != nil {
						return fresh(s, depth-1, seen)
					}
					// the same field of a struct under construction in this function: decided by
					// the stores into it, each of which is checked by this rule
					if f, _ := addrField(x.X); f == fH && localBase(x.X) {
						return true
					}
				}
			}
			return false
		}
		derivedFromTable := func(v ssa.Value) (bool, bool) { // (from a table field, of a struct under construction here)
			for i := 0; i < 8; i++ {
				v = stripConv(v)
				switch x := v.(type) {
				case *ssa.Slice:
					v = x.X
					continue
				case *ssa.UnOp:
					if x.Op == token.MUL {
						if f, _ := addrField(x.X); f == fH || f == fB {
							return true, localBase(x.X)
						}
						if s := spilled(x.X); s != nil {
							v = s
							continue
						}
					}
				case *ssa.Field:
					if f := structFieldOf(x.X.Type(), x.Field); f == fH || f == fB {
						return true, false
					}
				case *ssa.Call:
					if isBuiltin(x, "append") {
						v = x.Call.Args[0]
						continue
					}
				}
				break
			}
			return false, false
		}
		instrsOf(fn, func(in ssa.Instruction) {
			switch x := in.(type) {
			case *ssa.Store:
				if f, _ := addrField(x.Addr); f == fH {
					nStores++
					c.sawFunc(c.fnKey(fn))
					if !fresh(x.Val, 10, map[ssa.Value]bool{}) {
						nBad++
						c.bad(rule, c.fnKey(fn)+":stored", in.Pos(), "the bound table stored into a bucket storage is not allocated in this function (it comes from a parameter, a receiver or another cache entry): filling it overwrites the bounds of every histogram already built from the entry it was taken from - those histograms no longer keep the bounds they were created with", c.describe(in))
					}
					return
				}
				// element store into a table
				if ia, ok := x.Addr.(*ssa.IndexAddr); ok {
					if is, local := derivedFromTable(ia.X); is && !local {
						nStores++
						nBad++
						c.bad(rule, c.fnKey(fn)+":element", in.Pos(), "an element of a bound table that histograms share by reference is overwritten after construction", c.describe(in))
					}
				} else if fa, ok := x.Addr.(*ssa.FieldAddr); ok {
					if ia, ok := fa.X.(*ssa.IndexAddr); ok {
						if is, local := derivedFromTable(ia.X); is && !local {
							if st, isSt := deref(ia.Type()).Underlying().(*types.Struct); isSt {
								name := st.Field(fa.Field).Name()
								if strings.Contains(name, "UpperBound") || strings.Contains(name, "LowerBound") {
									nStores++
									nBad++
									c.bad(rule, c.fnKey(fn)+":element", in.Pos(), "a bound inside a bound table that histograms share by reference is overwritten after construction", c.describe(in))
								}
							}
						}
					}
				}
			case *ssa.Call:
				if isBuiltin(x, "append") {
					if is, local := derivedFromTable(x.Call.Args[0]); is && !local {
						// appending to a full-capacity table reallocates, but one re-sliced to [:0] or
						// with spare capacity is overwritten in place: not decidable here - reject
						nStores++
						nBad++
						c.bad(rule, c.fnKey(fn)+":append", in.Pos(), "append to a bound table loaded from a cache entry or a histogram: when it has spare capacity (or was re-sliced) the shared table is overwritten in place", c.describe(in))
					}
				} else if isBuiltin(x, "copy") {
					if is, local := derivedFromTable(x.Call.Args[0]); is && !local {
						nStores++
						nBad++
						c.bad(rule, c.fnKey(fn)+":copy", in.Pos(), "copy into a bound table that histograms share by reference", c.describe(in))
					}
				}
			}
		})
	}
	if nBad == 0 {
		c.ok(rule, "tally", token.NoPos, fmt.Sprintf("all %d stores into bucketStorage.hbuckets store storage allocated in the storing function; nothing appends to, copies into or overwrites a table loaded from a cache entry or a histogram", nStores))
	}
	c.floor(rule, nStores, 1)
}

// returnsFreshSlice: every result of g is a slice allocated in g (make / append chain / literal),
// possibly through helpers of the same kind.
func (c *Ctx) returnsFreshSlice(g *ssa.Function, depth int) bool {
	if depth == 0 {
		return false
	}
	rets := returnsOf(g)
	if len(rets) == 0 {
		return false
	}
	var fresh func(v ssa.Value, d int, seen map[ssa.Value]bool) bool
	fresh = func(v ssa.Value, d int, seen map[ssa.Value]bool) bool {
		if d <= 0 {
			return false
		}
		if seen[v] {
			return true
		}
		seen[v] = true
		switch x := v.(type) {
		case *ssa.MakeSlice:
			return true
		case *ssa.Const:
			return x.IsNil()
		case *ssa.Slice:
			if al, ok := x.X.(*ssa.Alloc); ok && al.Parent() == g {
				return true
			}
			return fresh(x.X, d-1, seen)
		case *ssa.ChangeType:
			return fresh(x.X, d-1, seen)
		case *ssa.Phi:
			for _, e := range x.Edges {
				if !fresh(e, d-1, seen) {
					return false
				}
			}
			return true
		case *ssa.Call:
			if isBuiltin(x, "append") {
				return fresh(x.Call.Args[0], d-1, seen)
			}
			if h := staticCallee(x); h != nil && h.Pkg == g.Pkg && h.Blocks != nil && h.Signature.Results().Len() == 1 {
				return c.returnsFreshSlice(h, depth-1)
			}
		case *ssa.UnOp:
			if x.Op == token.MUL {
				if s := spilled(x.X); s != nil {
					return fresh(s, d-1, seen)
				}
				if al, ok := x.X.(*ssa.Alloc); ok && al.Parent() == g && al.Referrers() != nil {
					for _, r := range *al.Referrers() {
						if st, isSt := r.(*ssa.Store); isSt && st.Addr == ssa.Value(al) && !fresh(st.Val, d-1, seen) {
							return false
						}
					}
					return true
				}
			}
		}
		return false
	}
	for _, r := range rets {
		if len(r.Results) != 1 || !fresh(r.Results[0], 10, map[ssa.Value]bool{}) {
			return false
		}
	}
	return true
}

// checkOnePairPerBound: BucketPairs turns n bounds into n+1 pairs - the loop that derives a pair from
// its predecessor appends to the result in every iteration: the append dominates every
// latch of the loop, so no bound is skipped ("empty" buckets of repeated bounds included). A histogram
// whose table lacks a bound of its specification reports other bounds than it was created with, and
// the tables of two specifications that differ only in a repeated bound coincide.
func (c *Ctx) checkOnePairPerBound(rule string) {
	bp := c.fn("", "", "BucketPairs")
	if bp == nil {
		c.missing(rule, "tally.BucketPairs")
		return
	}
	key := c.fnKey(bp)
	c.sawFunc(key)
	n := 0
	// the appends that extend the result ([]BucketPair), per loop
	var resT types.Type
	if bp.Signature.Results().Len() == 1 {
		resT = bp.Signature.Results().At(0).Type()
	}
	for _, loop := range loopsOf(bp) {
		var apps []*ssa.Call
		for _, b := range bp.Blocks {
			if !loop.Blocks[b] {
				continue
			}
			for _, in := range b.Instrs {
				ac, isCall := in.(*ssa.Call)
				if !isCall || !isBuiltin(ac, "append") || resT == nil || !types.Identical(ac.Type(), resT) {
					continue
				}
				apps = append(apps, ac)
			}
		}
		if len(apps) == 0 {
			continue
		}
		n++
		okAll := false
		for _, app := range apps {
			dom := true
			for _, latch := range loop.Latch {
				if !(app.Block() == latch || app.Block().Dominates(latch)) {
					dom = false
				}
			}
			if dom {
				okAll = true
			}
		}
		c.check(okAll, rule, key, apps[0].Pos(), "every iteration of the pair loop appends the pair of its bound (n bounds give n+1 pairs)",
			"an iteration of the pair loop can end without appending the pair of its bound: the table has fewer buckets than the specification has bounds, so the histogram does not use exactly the bounds it was created with (and specifications that differ only in a skipped bound get the same table)", c.describe(apps[0]))
	}
	c.floor(rule, n, 1)
}
