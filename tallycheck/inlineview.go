package main

import (
	_ "embed"
	"fmt"
	"go/ast"
	"go/token"
	"go/types"
	"os"
	"sort"
	"strings"

	"golang.org/x/tools/go/packages"
	"golang.org/x/tools/go/ssa"

	"tallycheck/third_party/xtools/xint/refactor/inline"
)

// The "inlined view": helper extraction is the most common behaviour-preserving rewrite, and rules
// that read the shape of one function do not see through a helper they have never met. When (and
// only when) a property has violations on the tree as written, the checker builds a second,
// semantically identical view of the program in which every call of a function that is NOT part of
// the reference inventory (a helper that did not exist when the rules were written) is inlined
// with the source-level inliner of golang.org/x/tools (vendored under third_party/, BSD-3), and
// re-decides the property there. Inlining preserves semantics, so an obligation that is a
// necessary condition of the property must hold in both views of a correct program: the property
// is accepted if either view discharges every obligation, and the violations of the original view
// are reported otherwise. This can only remove alarms caused by new helpers; it cannot hide a
// violation unless the rule itself is blind to it.

//go:embed inventory.txt
var inventoryTxt string

func referenceInventory() map[string]bool {
	m := map[string]bool{}
	for _, l := range strings.Split(inventoryTxt, "\n") {
		l = strings.TrimSpace(l)
		if l != "" && !strings.HasPrefix(l, "#") {
			m[l] = true
		}
	}
	return m
}

// declKey is the inventory key of a declared function: "pkgpath.Func" or "pkgpath.(Recv).Method".
func declKey(pkgPath string, fd *ast.FuncDecl) string {
	rel := strings.TrimPrefix(strings.TrimPrefix(pkgPath, modPath), "/")
	if fd.Recv != nil && len(fd.Recv.List) == 1 {
		t := fd.Recv.List[0].Type
		if s, ok := t.(*ast.StarExpr); ok {
			t = s.X
		}
		if id, ok := t.(*ast.Ident); ok {
			return rel + ".(" + id.Name + ")." + fd.Name.Name
		}
	}
	return rel + "." + fd.Name.Name
}

func dumpInventory(p *Program) []string {
	var out []string
	for _, pk := range p.Pkgs {
		for _, f := range pk.Syntax {
			for _, d := range f.Decls {
				if fd, ok := d.(*ast.FuncDecl); ok {
					out = append(out, declKey(pk.PkgPath, fd))
				}
			}
		}
	}
	sort.Strings(out)
	return out
}

// newHelpers lists the functions of the module packages that are not in the reference inventory.
func newHelpers(p *Program) map[*types.Func]*ast.FuncDecl {
	inv := referenceInventory()
	out := map[*types.Func]*ast.FuncDecl{}
	for _, pk := range p.Pkgs {
		if strings.Contains(pk.PkgPath, "/thirdparty/") || strings.Contains(pk.PkgPath, "/example") {
			continue
		}
		for _, f := range pk.Syntax {
			for _, d := range f.Decls {
				fd, ok := d.(*ast.FuncDecl)
				if !ok || fd.Body == nil || inv[declKey(pk.PkgPath, fd)] {
					continue
				}
				if obj, isF := pk.TypesInfo.Defs[fd.Name].(*types.Func); isF {
					out[obj] = fd
				}
			}
		}
	}
	return out
}

// buildInlinedView returns a program in which calls of new helpers are inlined, the names of the
// helpers that were inlined, and an overlay of the rewritten files. nil when there is nothing to do.
func buildInlinedView(repoDir, goarch string, orig *Program) (p *Program, names []string, err error) {
	defer func() {
		// the view is an aid against false alarms: if building it fails in any way the tree as
		// written is what gets reported
		if r := recover(); r != nil {
			p, names, err = nil, nil, fmt.Errorf("inliner panicked: %v", r)
		}
	}()
	return buildInlinedView1(repoDir, goarch, orig)
}

func buildInlinedView1(repoDir, goarch string, orig *Program) (*Program, []string, error) {
	overlay := map[string][]byte{}
	inlined := map[string]bool{}
	// loops over a literal table of functions (`for _, w := range [...]func(P) error{p.a, p.b} { ... w(x) ... }`)
	// are written out: one copy of the body per entry, the entry in place of the loop variable
	for fname, res := range unrollFuncTables(orig) {
		overlay[fname] = res.content
		for _, nm := range res.names {
			inlined[nm] = true
		}
	}
	if len(newHelpers(orig)) == 0 && len(overlay) == 0 {
		return nil, nil, nil
	}
	failed := map[string]bool{}
	for round := 0; round < 16; round++ {
		p, err := loadSyntaxOnly(repoDir, goarch, overlay)
		if err != nil {
			return nil, nil, err
		}
		helpers := newHelpers(p)
		if len(helpers) == 0 {
			break
		}
		progress := false
		for _, pk := range p.Pkgs {
			for _, file := range pk.Syntax {
				fname := p.Fset.Position(file.Pos()).Filename
				// first call of a new helper in this file (outside the helper's own body)
				var call *ast.CallExpr
				var target *types.Func
				ast.Inspect(file, func(n ast.Node) bool {
					if call != nil {
						return false
					}
					ce, ok := n.(*ast.CallExpr)
					if !ok {
						return true
					}
					var id *ast.Ident
					switch f := ast.Unparen(ce.Fun).(type) {
					case *ast.Ident:
						id = f
					case *ast.SelectorExpr:
						id = f.Sel
					}
					if id == nil {
						return true
					}
					fn, isF := pk.TypesInfo.Uses[id].(*types.Func)
					if !isF {
						return true
					}
					if _, isNew := helpers[fn]; !isNew {
						return true
					}
					k := fname + ":" + fn.FullName() + fmt.Sprint(p.Fset.Position(ce.Pos()).Offset)
					if failed[k] {
						return true
					}
					// do not inline a helper into itself
					if fd := helpers[fn]; fd != nil && ce.Pos() >= fd.Pos() && ce.End() <= fd.End() {
						return true
					}
					call, target = ce, fn
					return false
				})
				if call == nil {
					continue
				}
				content, err := fileContent(fname, overlay)
				if err != nil {
					return nil, nil, err
				}
				// the callee's package / file
				cpk := p.ByPath[target.Pkg().Path()]
				cdecl := helpers[target]
				if cpk == nil || cdecl == nil {
					continue
				}
				cfile := p.Fset.Position(cdecl.Pos()).Filename
				ccontent, err := fileContent(cfile, overlay)
				if err != nil {
					return nil, nil, err
				}
				callee, err := inline.AnalyzeCallee(func(string, ...any) {}, p.Fset, cpk.Types, cpk.TypesInfo, cdecl, ccontent)
				k := fname + ":" + target.FullName() + fmt.Sprint(p.Fset.Position(call.Pos()).Offset)
				if err != nil {
					failed[k] = true
					continue
				}
				res, err := inline.Inline(&inline.Caller{Fset: p.Fset, Types: pk.Types, Info: pk.TypesInfo, File: file, Call: call, Content: content}, callee, &inline.Options{})
				if err != nil {
					failed[k] = true
					continue
				}
				overlay[fname] = res.Content
				inlined[target.FullName()] = true
				progress = true
			}
		}
		if !progress {
			break
		}
	}
	if len(inlined) == 0 {
		return nil, nil, nil
	}
	// A new unexported helper that is no longer referenced anywhere in the module is dead code in
	// the inlined view: drop its declaration so that rules quantifying over "every function that
	// writes X" do not see the same code twice.
	if p, err := loadSyntaxOnly(repoDir, goarch, overlay); err == nil {
		used := map[types.Object]bool{}
		for _, pk := range p.Pkgs {
			for _, o := range pk.TypesInfo.Uses {
				used[o] = true
			}
		}
		type cut struct{ from, to int }
		cuts := map[string][]cut{}
		for fn, fd := range newHelpers(p) {
			if fn.Exported() || used[fn] {
				continue
			}
			if sig := fn.Type().(*types.Signature); sig.Recv() != nil {
				// a method may satisfy an interface; only drop it when no interface of the module names it
				if methodNamedInInterfaces(p, fn.Name()) {
					continue
				}
			}
			from := fd.Pos()
			if fd.Doc != nil {
				from = fd.Doc.Pos()
			}
			fname := p.Fset.Position(from).Filename
			cuts[fname] = append(cuts[fname], cut{p.Fset.Position(from).Offset, p.Fset.Position(fd.End()).Offset})
		}
		for fname, cs := range cuts {
			b, err := fileContent(fname, overlay)
			if err != nil {
				continue
			}
			nb := append([]byte(nil), b...)
			for _, c := range cs {
				for i := c.from; i < c.to && i < len(nb); i++ {
					if nb[i] != '\n' {
						nb[i] = ' '
					}
				}
			}
			overlay[fname] = nb
		}
		// `(*T).m(x, args)` - a method expression the inliner substituted for a func-typed
		// parameter - is the method call `x.m(args)`; go/ssa would call a synthetic thunk instead
		var mexEdits = map[string][]textEdit{}
		for _, pk := range p.Pkgs {
			for _, file := range pk.Syntax {
				fname := p.Fset.Position(file.Pos()).Filename
				if _, inOverlay := overlay[fname]; !inOverlay {
					continue
				}
				ast.Inspect(file, func(n ast.Node) bool {
					ce, ok := n.(*ast.CallExpr)
					if !ok || len(ce.Args) == 0 || ce.Ellipsis.IsValid() {
						return true
					}
					se, ok := ast.Unparen(ce.Fun).(*ast.SelectorExpr)
					if !ok {
						return true
					}
					sel := pk.TypesInfo.Selections[se]
					if sel == nil || sel.Kind() != types.MethodExpr || len(sel.Index()) != 1 {
						return true
					}
					switch ast.Unparen(ce.Args[0]).(type) {
					case *ast.Ident, *ast.SelectorExpr:
					default:
						return true
					}
					if !types.Identical(pk.TypesInfo.TypeOf(ce.Args[0]), sel.Recv()) {
						return true
					}
					off := func(q token.Pos) int { return p.Fset.Position(q).Offset }
					// Fun + "(" + first argument (+ ", ") -> "x.m("
					to := off(ce.Args[0].End())
					if len(ce.Args) > 1 {
						to = off(ce.Args[1].Pos())
					}
					b, err := fileContent(fname, overlay)
					if err != nil {
						return true
					}
					recv := string(b[off(ce.Args[0].Pos()):off(ce.Args[0].End())])
					mexEdits[fname] = append(mexEdits[fname], textEdit{off(ce.Fun.Pos()), to, recv + "." + se.Sel.Name + "("})
					return true
				})
			}
		}
		for fname, es := range mexEdits {
			if b, err := fileContent(fname, overlay); err == nil {
				overlay[fname] = applyEdits(append([]byte(nil), b...), es)
			}
		}
	}
	// turn the immediately-invoked literals the inliner fell back to into straight-line code
	plain := map[string][]byte{}
	counter := 0
	nDelit := 0
	for name, b := range overlay {
		plain[name] = b
		nb, n := deliteralize(name, b, &counter)
		if n > 0 {
			overlay[name] = nb
			nDelit += n
		}
	}
	if nDelit > 0 {
		if _, err := loadSyntaxOnly(repoDir, goarch, overlay); err != nil {
			if os.Getenv("VERIF_DEBUG_INLINE") != "" {
				fmt.Printf("NOTE de-literalised view does not type-check (%v); keeping the function literals\n", err)
			}
			overlay = plain
		}
	}
	if d := os.Getenv("VERIF_DUMP_INLINE"); d != "" {
		for name, b := range overlay {
			_ = os.WriteFile(d+"/"+strings.ReplaceAll(strings.TrimPrefix(name, repoDir+"/"), "/", "_"), b, 0o644)
		}
	}
	p, err := loadProgramOverlay(repoDir, goarch, false, overlay)
	if err != nil {
		return nil, nil, fmt.Errorf("inlined view does not type-check: %v", err)
	}
	var names []string
	for n := range inlined {
		names = append(names, strings.ReplaceAll(n, modPath, "tally"))
	}
	sort.Strings(names)
	return p, names, nil
}

func methodNamedInInterfaces(p *Program, name string) bool {
	for _, pk := range p.Pkgs {
		sc := pk.Types.Scope()
		for _, n := range sc.Names() {
			if tn, ok := sc.Lookup(n).(*types.TypeName); ok {
				if it, isI := tn.Type().Underlying().(*types.Interface); isI {
					for i := 0; i < it.NumMethods(); i++ {
						if it.Method(i).Name() == name {
							return true
						}
					}
				}
			}
		}
	}
	return false
}

func fileContent(name string, overlay map[string][]byte) ([]byte, error) {
	if b, ok := overlay[name]; ok {
		return b, nil
	}
	return os.ReadFile(name)
}

// loadSyntaxOnly type-checks the module packages (no SSA), with an overlay.
func loadSyntaxOnly(repoDir, goarch string, overlay map[string][]byte) (*Program, error) {
	env := append(os.Environ(), "GOFLAGS=-mod=mod", "GOPROXY=off", "GOSUMDB=off", "GOWORK=off", "GOTOOLCHAIN=local")
	if goarch != "" {
		env = append(env, "GOARCH="+goarch)
	}
	fset := token.NewFileSet()
	cfg := &packages.Config{
		Mode:    packages.NeedName | packages.NeedFiles | packages.NeedCompiledGoFiles | packages.NeedImports | packages.NeedTypes | packages.NeedTypesSizes | packages.NeedSyntax | packages.NeedTypesInfo | packages.NeedDeps,
		Dir:     repoDir,
		Fset:    fset,
		Env:     env,
		Overlay: overlay,
	}
	pkgs, err := packages.Load(cfg, "./...")
	if err != nil {
		return nil, err
	}
	p := &Program{RepoDir: repoDir, Fset: fset, ByPath: map[string]*packages.Package{}, SSAPkg: map[string]*ssa.Package{}, GOARCH: goarch}
	for _, pk := range pkgs {
		if !strings.HasPrefix(pk.PkgPath, modPath) {
			continue
		}
		for _, e := range pk.Errors {
			return nil, fmt.Errorf("type error: %v", e)
		}
		p.Pkgs = append(p.Pkgs, pk)
		p.ByPath[pk.PkgPath] = pk
	}
	return p, nil
}

type unrollResult struct {
	content []byte
	names   []string
}

// unrollFuncTables rewrites, in the module's non-vendored packages, every
//
//	tbl := [...]F{e1, ..., en}        (or the literal written in the range clause itself)
//	for _, v := range tbl { BODY }
//
// where F is a function type, every ei is an identifier or a selector chain (a function or a method
// value: evaluating it has no effect), n <= 8, tbl is used nowhere else, and BODY neither assigns v,
// takes its address, nor contains break / continue / goto / labels, into n copies of BODY with (ei) in
// place of v. The meaning is unchanged: the entries are evaluated without effect, and the bodies run in
// the same order with the same values.
func unrollFuncTables(p *Program) map[string]unrollResult {
	out := map[string]unrollResult{}
	for _, pk := range p.Pkgs {
		if strings.Contains(pk.PkgPath, "/thirdparty/") || strings.Contains(pk.PkgPath, "/example") {
			continue
		}
		for _, file := range pk.Syntax {
			fname := p.Fset.Position(file.Pos()).Filename
			src, err := os.ReadFile(fname)
			if err != nil {
				continue
			}
			off := func(q token.Pos) int { return p.Fset.Position(q).Offset }
			var edits []textEdit
			var names []string
			isFuncTable := func(e ast.Expr) *ast.CompositeLit {
				cl, ok := ast.Unparen(e).(*ast.CompositeLit)
				if !ok || len(cl.Elts) == 0 || len(cl.Elts) > 8 {
					return nil
				}
				t := pk.TypesInfo.TypeOf(cl)
				if t == nil {
					return nil
				}
				var elem types.Type
				switch u := t.Underlying().(type) {
				case *types.Array:
					elem = u.Elem()
				case *types.Slice:
					elem = u.Elem()
				default:
					return nil
				}
				if _, isSig := elem.Underlying().(*types.Signature); !isSig {
					return nil
				}
				for _, el := range cl.Elts {
					x := ast.Unparen(el)
					for {
						if se, isSel := x.(*ast.SelectorExpr); isSel {
							x = ast.Unparen(se.X)
							continue
						}
						break
					}
					if _, isId := x.(*ast.Ident); !isId {
						return nil
					}
				}
				return cl
			}
			var visitList func(fd *ast.FuncDecl, list []ast.Stmt)
			visitList = func(fd *ast.FuncDecl, list []ast.Stmt) {
				for i, st := range list {
					rs, ok := st.(*ast.RangeStmt)
					if !ok || rs.Tok != token.DEFINE || rs.Value == nil {
						continue
					}
					if k, isId := rs.Key.(*ast.Ident); rs.Key != nil && (!isId || k.Name != "_") {
						continue
					}
					vid, isId := rs.Value.(*ast.Ident)
					if !isId || vid.Name == "_" {
						continue
					}
					vobj := pk.TypesInfo.Defs[vid]
					if vobj == nil {
						continue
					}
					cl := isFuncTable(rs.X)
					var tblAssign *ast.AssignStmt
					if cl == nil {
						xid, isX := ast.Unparen(rs.X).(*ast.Ident)
						if !isX || i == 0 {
							continue
						}
						as, isAs := list[i-1].(*ast.AssignStmt)
						if !isAs || as.Tok != token.DEFINE || len(as.Lhs) != 1 || len(as.Rhs) != 1 {
							continue
						}
						lid, isL := as.Lhs[0].(*ast.Ident)
						if !isL || pk.TypesInfo.Defs[lid] == nil || pk.TypesInfo.Uses[xid] != pk.TypesInfo.Defs[lid] {
							continue
						}
						uses := 0
						for id, o := range pk.TypesInfo.Uses {
							if o == pk.TypesInfo.Defs[lid] && id.Pos() >= fd.Pos() && id.End() <= fd.End() {
								uses++
							}
						}
						if uses != 1 {
							continue
						}
						cl = isFuncTable(as.Rhs[0])
						tblAssign = as
					}
					if cl == nil {
						continue
					}
					// the body
					okBody := true
					var uses []*ast.Ident
					ast.Inspect(rs.Body, func(n ast.Node) bool {
						switch x := n.(type) {
						case *ast.BranchStmt, *ast.LabeledStmt:
							okBody = false
						case *ast.AssignStmt:
							for _, l := range x.Lhs {
								if id, isI := ast.Unparen(l).(*ast.Ident); isI && pk.TypesInfo.Uses[id] == vobj {
									okBody = false
								}
							}
						case *ast.IncDecStmt:
							if id, isI := ast.Unparen(x.X).(*ast.Ident); isI && pk.TypesInfo.Uses[id] == vobj {
								okBody = false
							}
						case *ast.UnaryExpr:
							if id, isI := ast.Unparen(x.X).(*ast.Ident); isI && x.Op == token.AND && pk.TypesInfo.Uses[id] == vobj {
								okBody = false
							}
						case *ast.Ident:
							if pk.TypesInfo.Uses[x] == vobj {
								uses = append(uses, x)
							}
						}
						return okBody
					})
					if !okBody {
						continue
					}
					bFrom, bTo := off(rs.Body.Lbrace)+1, off(rs.Body.Rbrace)
					var rep strings.Builder
					for _, el := range cl.Elts {
						esrc := string(src[off(el.Pos()):off(el.End())])
						var be []textEdit
						for _, u := range uses {
							be = append(be, textEdit{off(u.Pos()) - bFrom, off(u.End()) - bFrom, esrc})
						}
						body := applyEdits(append([]byte(nil), src[bFrom:bTo]...), be)
						rep.WriteString("{\n")
						rep.Write(body)
						rep.WriteString("\n}\n")
					}
					edits = append(edits, textEdit{off(rs.Pos()), off(rs.End()), rep.String()})
					if tblAssign != nil {
						lid := tblAssign.Lhs[0].(*ast.Ident)
						edits = append(edits, textEdit{off(tblAssign.End()), off(tblAssign.End()), "\n_ = " + lid.Name})
					}
					names = append(names, "table loop in "+fd.Name.Name+" written out")
				}
			}
			for _, d := range file.Decls {
				fd, ok := d.(*ast.FuncDecl)
				if !ok || fd.Body == nil {
					continue
				}
				ast.Inspect(fd.Body, func(n ast.Node) bool {
					switch x := n.(type) {
					case *ast.BlockStmt:
						visitList(fd, x.List)
					case *ast.CaseClause:
						visitList(fd, x.Body)
					}
					return true
				})
			}
			if len(edits) > 0 {
				out[fname] = unrollResult{applyEdits(append([]byte(nil), src...), edits), names}
			}
		}
	}
	return out
}
