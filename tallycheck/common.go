package main

import (
	"fmt"
	"go/token"
	"go/types"
	"strings"

	"golang.org/x/tools/go/ssa"
)

// fieldRefs returns every FieldAddr / Field instruction in the module that selects fld.
func (p *Program) fieldRefs(fld *types.Var) []ssa.Instruction {
	var out []ssa.Instruction
	for _, fn := range p.AllFuncs {
		instrsOf(fn, func(in ssa.Instruction) {
			switch x := in.(type) {
			case *ssa.FieldAddr:
				if structFieldOf(x.X.Type(), x.Field) == fld {
					out = append(out, in)
				}
			case *ssa.Field:
				if structFieldOf(x.X.Type(), x.Field) == fld {
					out = append(out, in)
				}
			}
		})
	}
	return out
}

// checkAtomicOnly: every access of fld is an atomic operation (A4, class ATOM).
func (c *Ctx) checkAtomicOnly(rule string, short, typ, name string) (ops []*atomicOp) {
	fld := c.field(short, typ, name)
	key := short + "." + typ + "." + name
	if fld == nil {
		c.missing(rule, "field "+key)
		return nil
	}
	bad := 0
	n := 0
	for _, ref := range c.fieldRefs(fld) {
		v, isAddr := ref.(*ssa.FieldAddr)
		if !isAddr {
			bad++
			c.bad(rule, key+"@"+c.fnKey(ref.Parent()), ref.Pos(), "plain read of atomic-only field "+key+" (struct copy)", c.describe(ref))
			continue
		}
		refs := v.Referrers()
		if refs == nil || len(*refs) == 0 {
			continue
		}
		for _, u := range *refs {
			n++
			op := atomicOpOf(u)
			if op != nil && op.Addr == ssa.Value(v) {
				ops = append(ops, op)
				continue
			}
			if _, isDbg := u.(*ssa.DebugRef); isDbg {
				continue
			}
			bad++
			c.bad(rule, key+"@"+c.fnKey(u.Parent()), u.Pos(),
				"non-atomic access of atomic-only field "+key+": every access must be a sync/atomic (or go.uber.org/atomic) operation", c.describe(u))
		}
	}
	if bad == 0 {
		c.ok(rule, key, fld.Pos(), fmt.Sprintf("field is accessed only through atomic operations (%d access(es))", n))
	}
	return ops
}

// atomicOpsOn returns all atomic operations on field fld in the module, grouped by function.
func (p *Program) atomicOpsOn(fld *types.Var) map[*ssa.Function][]*atomicOp {
	out := map[*ssa.Function][]*atomicOp{}
	for _, fn := range p.AllFuncs {
		instrsOf(fn, func(in ssa.Instruction) {
			if op := atomicOpOf(in); op != nil && op.Field == fld {
				out[fn] = append(out[fn], op)
			}
		})
	}
	return out
}

// sortedFuncs returns the keys of m in AllFuncs order (deterministic).
func (p *Program) sortedFuncs(m map[*ssa.Function][]*atomicOp) []*ssa.Function {
	var out []*ssa.Function
	for _, f := range p.AllFuncs {
		if _, ok := m[f]; ok {
			out = append(out, f)
		}
	}
	return out
}

// returnsOf lists the Return instructions of fn. The return of the recover block that go/ssa adds to
// every function with a defer is left out when none of the deferred calls can call recover(): that
// block is then unreachable.
func returnsOf(fn *ssa.Function) []*ssa.Return {
	var out []*ssa.Return
	dead := fn.Recover != nil && !mayRecover(fn)
	instrsOf(fn, func(in ssa.Instruction) {
		if r, ok := in.(*ssa.Return); ok {
			if dead && r.Block() == fn.Recover {
				return
			}
			out = append(out, r)
		}
	})
	return out
}

var mayRecoverCache = map[*ssa.Function]bool{}

// mayRecover: some deferred call of fn may call the builtin recover (directly, or in a statically
// resolved callee up to depth 3; an unresolved deferred call counts as "may").
func mayRecover(fn *ssa.Function) bool {
	if v, ok := mayRecoverCache[fn]; ok {
		return v
	}
	var calls func(g *ssa.Function, depth int) bool
	calls = func(g *ssa.Function, depth int) bool {
		if g == nil {
			return true
		}
		if g.Blocks == nil {
			return false // external functions (sync, atomic, ...) recover on their own behalf only
		}
		if depth == 0 {
			return true
		}
		res := false
		instrsOf(g, func(in ssa.Instruction) {
			ci, ok := in.(ssa.CallInstruction)
			if !ok || res {
				return
			}
			if b, isB := ci.Common().Value.(*ssa.Builtin); isB {
				if b.Name() == "recover" {
					res = true
				}
				return
			}
			if h := ci.Common().StaticCallee(); h != nil && h.Blocks != nil && h.Pkg == g.Pkg {
				if calls(h, depth-1) {
					res = true
				}
			}
		})
		return res
	}
	res := false
	instrsOf(fn, func(in ssa.Instruction) {
		d, ok := in.(*ssa.Defer)
		if !ok || res {
			return
		}
		if d.Call.IsInvoke() {
			res = true
			return
		}
		g := d.Call.StaticCallee()
		if g == nil {
			if mc, isMC := d.Call.Value.(*ssa.MakeClosure); isMC {
				g, _ = mc.Fn.(*ssa.Function)
			}
		}
		if calls(g, 3) {
			res = true
		}
	})
	mayRecoverCache[fn] = res
	return res
}

// traceThroughCalls resolves v through single-result in-module static calls to the values the
// callee returns (depth-bounded). leaf is called on every leaf value; all must be accepted.
func (p *Program) traceReturns(v ssa.Value, depth int, leaf func(ssa.Value) bool) bool {
	v = stripConv(v)
	if call, ok := v.(*ssa.Call); ok && depth > 0 {
		if f := staticCallee(call); f != nil && p.inModule(f) && f.Blocks != nil && f.Signature.Results().Len() == 1 {
			rets := returnsOf(f)
			if len(rets) == 0 {
				return false
			}
			for _, r := range rets {
				if !p.traceReturns(r.Results[0], depth-1, leaf) {
					return false
				}
			}
			return true
		}
	}
	return leaf(v)
}

// isCallTo reports whether v is a call to the function pkgpath.name (e.g. "math", "Float64bits").
func isCallTo(v ssa.Value, pkgpath, name string) (*ssa.Call, bool) {
	call, ok := v.(*ssa.Call)
	if !ok {
		return nil, false
	}
	f := staticCallee(call)
	if f == nil || f.Package() == nil || f.Package().Pkg == nil {
		return nil, false
	}
	if f.Package().Pkg.Path() == pkgpath && f.Name() == name && f.Signature.Recv() == nil {
		return call, true
	}
	return nil, false
}

// invokesOf returns the invoke-mode calls of interface method m (identity of *types.Func, which
// also matches methods promoted through embedding) in the given functions.
func invokesOf(fns []*ssa.Function, ms ...*types.Func) []ssa.CallInstruction {
	var out []ssa.CallInstruction
	for _, fn := range fns {
		instrsOf(fn, func(in ssa.Instruction) {
			if call, ok := in.(ssa.CallInstruction); ok {
				if _, m := ifaceCall(call); m != nil {
					for _, want := range ms {
						if want != nil && m == want {
							out = append(out, call)
						}
					}
				}
			}
		})
	}
	return out
}

// guardedByTrueEdge: instr's block is dominated by the edge (branch idx) of an If whose condition
// satisfies cond. Returns the If.
func guardedByEdge(in ssa.Instruction, cond func(v ssa.Value) (match bool, onTrue bool)) *ssa.If {
	for _, b := range in.Parent().Blocks {
		iff, ok := condOf(b)
		if !ok {
			continue
		}
		for _, alt := range condAlternatives(iff.Cond, 3) {
			m, onTrue := cond(alt.v)
			if !m {
				continue
			}
			// alt.impliedBy says which outcome of the If implies a definite value of alt.v:
			// and-form: If true  => alt.v true ; or-form: If false => alt.v false ; plain: both
			idx := 1
			if onTrue {
				idx = 0
			}
			if alt.onlyWhen == 0 && !onTrue {
				continue // and-form tells nothing on the false edge
			}
			if alt.onlyWhen == 1 && onTrue {
				continue // or-form tells nothing on the true edge
			}
			if edgeDominates(b, idx, in.Block()) {
				return iff
			}
		}
	}
	return nil
}

type condAlt struct {
	v        ssa.Value
	onlyWhen int // -1: both edges informative (the condition itself); 0: only the true edge; 1: only the false edge
}

// condAlternatives unfolds short-circuit conditions that go/ssa materialises as phis:
// `A && B` is phi[false, B] (If true => B true), `A || B` is phi[true, B] (If false => B false).
func condAlternatives(c ssa.Value, depth int) []condAlt {
	out := []condAlt{{c, -1}}
	phi, ok := c.(*ssa.Phi)
	if !ok || depth <= 0 {
		return out
	}
	allFalse, allTrue := true, true
	var vals []ssa.Value
	for _, e := range phi.Edges {
		if k, isK := constBool(e); isK {
			if k {
				allFalse = false
			} else {
				allTrue = false
			}
			continue
		}
		vals = append(vals, e)
	}
	switch {
	case allFalse && len(vals) > 0: // and-form
		for _, v := range vals {
			for _, a := range condAlternatives(v, depth-1) {
				if a.onlyWhen == -1 || a.onlyWhen == 0 {
					out = append(out, condAlt{a.v, 0})
				}
			}
		}
	case allTrue && len(vals) > 0: // or-form
		for _, v := range vals {
			for _, a := range condAlternatives(v, depth-1) {
				if a.onlyWhen == -1 || a.onlyWhen == 1 {
					out = append(out, condAlt{a.v, 1})
				}
			}
		}
	}
	return out
}

// cmpOf decomposes v into a comparison, looking through a negation. ok=false if not a comparison.
func cmpOf(v ssa.Value) (op token.Token, x, y ssa.Value, ok bool) {
	neg := false
	for {
		if u, isU := v.(*ssa.UnOp); isU && u.Op == token.NOT {
			neg = !neg
			v = u.X
			continue
		}
		break
	}
	b, isB := v.(*ssa.BinOp)
	if !isB {
		return 0, nil, nil, false
	}
	op = b.Op
	switch op {
	case token.EQL, token.NEQ, token.LSS, token.LEQ, token.GTR, token.GEQ:
	default:
		return 0, nil, nil, false
	}
	if neg {
		op = negateCmp(op)
	}
	return op, b.X, b.Y, true
}

func negateCmp(op token.Token) token.Token {
	switch op {
	case token.EQL:
		return token.NEQ
	case token.NEQ:
		return token.EQL
	case token.LSS:
		return token.GEQ
	case token.LEQ:
		return token.GTR
	case token.GTR:
		return token.LEQ
	case token.GEQ:
		return token.LSS
	}
	return op
}

func flipCmp(op token.Token) token.Token {
	switch op {
	case token.LSS:
		return token.GTR
	case token.LEQ:
		return token.GEQ
	case token.GTR:
		return token.LSS
	case token.GEQ:
		return token.LEQ
	}
	return op
}

// usesValue reports whether v is (through conversions, arithmetic-free) derived from src.
func derivesFrom(v, src ssa.Value) bool {
	v = stripConv(v)
	if v == src {
		return true
	}
	if cv, ok := v.(*ssa.Convert); ok {
		return derivesFrom(cv.X, src)
	}
	return false
}

// checkSetOnlyAtConstruction (A4, class IMM): the field is assigned only while the struct it belongs
// to is still private to the function that allocated it (composite literal or fresh allocation in a
// constructor). Any later assignment changes, for every user of the object, what its methods iterate
// or delegate to (e.g. a children list that is emptied on Close turns every later call into a
// silent no-op that reports success).
func (c *Ctx) checkSetOnlyAtConstruction(rule, short, typ string, fields ...string) {
	for _, name := range fields {
		fld := c.field(short, typ, name)
		if fld == nil {
			c.missing(rule, short+"."+typ+"."+name)
			continue
		}
		key := pkgPath(short)[len(modPath):] + "." + typ + "." + name
		key = strings.TrimPrefix(key, "/")
		nStores, okAll := 0, true
		for _, ref := range c.fieldRefs(fld) {
			fa, ok := ref.(*ssa.FieldAddr)
			if !ok || fa.Referrers() == nil {
				continue
			}
			for _, u := range *fa.Referrers() {
				st, isSt := u.(*ssa.Store)
				if !isSt || st.Addr != ssa.Value(fa) {
					continue
				}
				nStores++
				root := canon(rootOf(fa.X))
				al, isAl := root.(*ssa.Alloc)
				if isAl && al.Parent() == st.Parent() {
					continue
				}
				// an element of a slice allocated in this function (filled before it is published)
				if ms, isMS := root.(*ssa.MakeSlice); isMS && ms.Parent() == st.Parent() {
					continue
				}
				// the struct came fresh out of an in-module constructor helper and is still being set up
				if call, isCall := root.(*ssa.Call); isCall {
					if g := staticCallee(call); g != nil && c.inModule(g) && g.Blocks != nil {
						fresh, nRet := true, 0
						for _, r := range returnsOf(g) {
							if len(r.Results) == 0 {
								fresh = false
								break
							}
							for _, va := range resultValues(r, 0) {
								nRet++
								if a2, ok := canon(va.Val).(*ssa.Alloc); !ok || a2.Parent() != g {
									fresh = false
								}
							}
						}
						if fresh && nRet > 0 {
							continue
						}
					}
				}
				okAll = false
				c.bad(rule, key, st.Pos(), "the field "+typ+"."+name+" is assigned after construction ("+c.fnKey(st.Parent())+"): every method that iterates or delegates to it changes behaviour for all later calls - with an emptied list they silently do nothing and report success", c.describe(st))
			}
		}
		if okAll {
			c.ok(rule, key, fld.Pos(), fmt.Sprintf("assigned only while the struct is private to its constructor (%d store(s))", nStores))
		}
	}
}
