package main

import (
	"fmt"
	"go/token"
	"go/types"

	"golang.org/x/tools/go/ssa"
)

// Pass coverage on SSA. go/ssa gives `for _, x := range L`, `for i := range L` and the classic index
// loop over a slice the same induction-variable form (fullIndexLoops) and a range over a map the
// form Range/Next, so "the pass visits every element of the collection once and delivers it once"
// is decided on the loop structure, not on the spelling of the loop.

// elemLoop is a loop that visits every element of one collection exactly once.
type elemLoop struct {
	loop   *loopInfo
	pos    token.Pos
	isElem func(v ssa.Value) bool // v is the element of the current iteration
	isKey  func(v ssa.Value) bool // v is the key / index of the current iteration
}

// elemLoopsOver lists the loops of fn that visit every element of a collection satisfying isList.
func elemLoopsOver(fn *ssa.Function, isList func(v ssa.Value) bool) []*elemLoop {
	var out []*elemLoop
	for _, fl := range fullIndexLoops(fn) {
		fl := fl
		if !isList(fl.lenArg) {
			continue
		}
		out = append(out, &elemLoop{
			loop: fl.loop, pos: loopPos(fl.loop),
			isElem: func(v ssa.Value) bool {
				v = canon(v)
				switch x := v.(type) {
				case *ssa.UnOp:
					if ia, ok := x.X.(*ssa.IndexAddr); ok && x.Op == token.MUL {
						return ia.Index == fl.idx && isList(ia.X)
					}
				case *ssa.IndexAddr: // &L[i] used as a pointer receiver
					return x.Index == fl.idx && isList(x.X)
				case *ssa.Index:
					return x.Index == fl.idx && isList(x.X)
				}
				return false
			},
			isKey: func(v ssa.Value) bool { return canon(v) == fl.idx },
		})
	}
	loops := loopsOf(fn)
	instrsOf(fn, func(in ssa.Instruction) {
		rg, ok := in.(*ssa.Range)
		if !ok || !isList(rg.X) || rg.Referrers() == nil {
			return
		}
		for _, r := range *rg.Referrers() {
			nx, isNext := r.(*ssa.Next)
			if !isNext {
				continue
			}
			for _, lp := range loops {
				if lp.Header != nx.Block() {
					continue
				}
				// the range operand must be evaluated outside the loop (once)
				if lp.Blocks[rg.Block()] {
					continue
				}
				extract := func(idx int) func(v ssa.Value) bool {
					return func(v ssa.Value) bool {
						e, isE := canon(v).(*ssa.Extract)
						return isE && e.Tuple == ssa.Value(nx) && e.Index == idx
					}
				}
				out = append(out, &elemLoop{loop: lp, pos: rg.Pos(), isElem: extract(2), isKey: extract(1)})
			}
		}
	})
	return out
}

// loopPos is the first valid source position inside the loop (range loops have synthetic headers).
func loopPos(lp *loopInfo) token.Pos {
	best := token.NoPos
	for b := range lp.Blocks {
		for _, in := range b.Instrs {
			if p := in.Pos(); p.IsValid() && (best == token.NoPos || p < best) {
				best = p
			}
		}
	}
	return best
}

func (l *elemLoop) isLatch(b *ssa.BasicBlock) bool {
	for _, x := range l.loop.Latch {
		if x == b {
			return true
		}
	}
	return false
}

// earlyExit returns the position of an edge that leaves the loop from somewhere else than its
// header (break / return / goto), or NoPos.
func (l *elemLoop) earlyExit() token.Pos {
	for b := range l.loop.Blocks {
		if b == l.loop.Header {
			continue
		}
		for _, s := range b.Succs {
			if !l.loop.Blocks[s] {
				p := b.Instrs[len(b.Instrs)-1].Pos()
				if !p.IsValid() {
					for i := len(b.Instrs) - 1; i >= 0 && !p.IsValid(); i-- {
						p = b.Instrs[i].Pos()
					}
				}
				if !p.IsValid() {
					p = l.pos
				}
				return p
			}
		}
		if len(b.Succs) == 0 {
			return b.Instrs[len(b.Instrs)-1].Pos()
		}
	}
	return token.NoPos
}

// recvField: v is (a load of) field fld of the function's receiver.
func recvField(fn *ssa.Function, fld *types.Var) func(v ssa.Value) bool {
	return func(v ssa.Value) bool {
		if len(fn.Params) == 0 {
			return false
		}
		f, base := loadedField(canon(v))
		return f == fld && base != nil && canon(base) == ssa.Value(fn.Params[0])
	}
}

// checkScopePassCoverage: in scope.report / scope.cachedReport exactly one loop visits every
// element of the collection of one metric kind, it cannot be left early, and every iteration calls
// the element's delivery function exactly once on the element of that iteration; no delivery
// function of that kind is called anywhere else in the pass (C01 O7 / C02 O5).
func (c *Ctx) checkScopePassCoverage(rule, mapField, sliceField, elemType string) {
	elem := c.named("", elemType)
	if elem == nil {
		c.missing(rule, "type tally."+elemType)
		return
	}
	lift := c.newLifter(c.reporterInvokePred(), 3)
	for _, pass := range []struct{ fn, field string }{{"report", mapField}, {"cachedReport", sliceField}} {
		key := "scope." + pass.fn + "/" + pass.field
		fn := c.fn("", "scope", pass.fn)
		fld := c.field("", "scope", pass.field)
		if fn == nil || fld == nil {
			c.missing(rule, "tally.scope."+pass.fn+" / field scope."+pass.field)
			continue
		}
		c.sawFunc(c.fnKey(fn))
		loops := elemLoopsOver(fn, recvField(fn, fld))
		// delivery calls of this kind anywhere in the pass
		var deliveries []*ssa.Call
		instrsOf(fn, func(in ssa.Instruction) {
			call, ok := in.(*ssa.Call)
			if !ok {
				return
			}
			f := staticCallee(call)
			if f == nil || f.Signature.Recv() == nil || deref(f.Signature.Recv().Type()) != types.Type(elem) {
				return
			}
			if lift.fnMay(f, 3) {
				deliveries = append(deliveries, call)
			}
		})
		if len(loops) != 1 {
			c.bad(rule, key, fn.Pos(), fmt.Sprintf("expected exactly one loop that visits every element of s.%s in %s, found %d (a loop over a sub-slice or derived collection does not count): metrics of this kind are never (or repeatedly) reported by this pass", pass.field, pass.fn, len(loops)))
			continue
		}
		lp := loops[0]
		if pos := lp.earlyExit(); pos != token.NoPos {
			c.bad(rule, key, pos, "the loop over "+pass.field+" can be left or cut short (break/return): some metrics are skipped by the pass")
			continue
		}
		// the loop is entered by every pass: no return avoids it (a pass that walks the metrics only when
		// some hint / dirty flag says so misses an update that is published after the hint was consumed)
		skipped := false
		for _, r := range returnsOf(fn) {
			if !lp.loop.Header.Dominates(r.Block()) {
				skipped = true
				c.bad(rule, key, r.Pos(), "the pass can finish without entering the loop over "+pass.field+" (it is conditional on something other than the metrics themselves): an update published after that condition was sampled is not delivered by the first pass that starts afterwards - possibly never", c.describe(r))
				break
			}
		}
		if skipped {
			continue
		}
		if len(deliveries) == 0 {
			c.bad(rule, key, lp.pos, "the loop over "+pass.field+" does not call the element's delivery function: metrics of this kind are never reported by this pass")
			continue
		}
		okAll := true
		for _, d := range deliveries {
			if !lp.loop.Blocks[d.Block()] {
				okAll = false
				c.bad(rule, key, d.Pos(), "a "+elemType+" delivery function is called outside the loop over "+pass.field+": a metric is reported twice per pass", c.describe(d))
			} else if !lp.isElem(d.Call.Args[0]) {
				okAll = false
				c.bad(rule, key, d.Pos(), "the delivery call inside the loop over "+pass.field+" is not made on the element of the current iteration", c.describe(d))
			}
		}
		if !okAll {
			continue
		}
		isDelivery := func(in ssa.Instruction) bool {
			for _, d := range deliveries {
				if ssa.Instruction(d) == in {
					return true
				}
			}
			return false
		}
		cnt := c.newPathCounter(isDelivery, 0).region(fn, lp.loop.Header, lp.loop.Blocks, lp.isLatch, 0)
		c.paths++
		switch {
		case cnt.max > 1:
			c.bad(rule, key, lp.pos, fmt.Sprintf("an iteration of the loop over %s can call up to %d delivery functions on the element (expected one)", pass.field, cnt.max))
		case cnt.min < 1:
			c.bad(rule, key, deliveries[0].Pos(), "the element's delivery call is conditional (or skipped by continue): some metrics are skipped by the pass")
		default:
			c.ok(rule, key, lp.pos, "one unconditional delivery call per element, loop over the whole field, no early exit")
		}
	}
}

// checkRegistryPassCoverage: the registry pass visits every shard (r.subscopes), inside it every
// scope of the shard (bucket.s of the shard of that iteration), and reports each visited scope
// exactly once per iteration; neither loop can be left early.
func (c *Ctx) checkRegistryPassCoverage(rule, pass, reportMethod string) {
	fn := c.fn("", "scopeRegistry", pass)
	fSub, fS := c.field("", "scopeRegistry", "subscopes"), c.field("", "scopeBucket", "s")
	rep := c.fn("", "scope", reportMethod)
	if fn == nil || fSub == nil || fS == nil || rep == nil {
		c.missing(rule, "tally.scopeRegistry."+pass+" / subscopes / scopeBucket.s / scope."+reportMethod)
		return
	}
	key := c.fnKey(fn)
	c.sawFunc(key)
	outers := elemLoopsOver(fn, recvField(fn, fSub))
	if len(outers) != 1 {
		c.bad(rule, key, fn.Pos(), fmt.Sprintf("the pass does not contain exactly one loop over all registry shards (r.subscopes), found %d: scopes of some shards are never (or repeatedly) reported", len(outers)))
		return
	}
	outer := outers[0]
	inners := elemLoopsOver(fn, func(v ssa.Value) bool {
		f, base := loadedField(canon(v))
		return f == fS && base != nil && outer.isElem(base)
	})
	var inner *elemLoop
	n := 0
	for _, l := range inners {
		if outer.loop.Blocks[l.loop.Header] {
			inner = l
			n++
		}
	}
	if n != 1 {
		c.bad(rule, key, outer.pos, fmt.Sprintf("inside the shard loop the pass does not contain exactly one loop over every scope of that shard (bucket.s), found %d", n))
		return
	}
	// the shard loop is reached on every path through the pass: a pass that returns before it (a
	// try-lock that "coalesces" overlapping passes, an idle hint) delivers nothing although it
	// started after the last update
	for _, r := range returnsOf(fn) {
		if !outer.loop.Header.Dominates(r.Block()) {
			c.bad(rule, key, r.Pos(), "the registry pass can return without visiting the shards (a return that the shard loop does not dominate): a pass that starts after the last update / increment may deliver nothing")
			return
		}
	}
	// the shard loop may only be left through its header
	if pos := outer.earlyExit(); pos != token.NoPos {
		c.bad(rule, key, pos, "the shard loop (or the per-scope loop) can be left early: later shards/scopes are not reported")
		return
	}
	if pos := inner.earlyExit(); pos != token.NoPos {
		c.bad(rule, key, pos, "the per-scope loop can be left early: later scopes of the shard are not reported")
		return
	}
	// report events: rep called on the visited scope, directly or through a function value /
	// helper that reports its scope argument exactly once on every path
	isReport := func(in ssa.Instruction) bool {
		call, ok := in.(*ssa.Call)
		if !ok || !inner.loop.Blocks[call.Block()] {
			return false
		}
		f := staticCallee(call)
		if f == nil {
			return false
		}
		if f == rep {
			return inner.isElem(call.Call.Args[0])
		}
		if !c.inModule(f) || f.Blocks == nil {
			return false
		}
		// f(…, s, …): f reports that parameter exactly once on all paths
		all := append([]ssa.Value{}, call.Call.Args...)
		for i, a := range all {
			if !inner.isElem(a) || i >= len(f.Params) {
				continue
			}
			p := f.Params[i]
			cnt := c.newPathCounter(func(x ssa.Instruction) bool {
				cc, isC := x.(*ssa.Call)
				return isC && staticCallee(cc) == rep && canon(cc.Call.Args[0]) == ssa.Value(p)
			}, 0).fn(f, 0)
			if cnt.min == 1 && cnt.max == 1 {
				return true
			}
		}
		return false
	}
	// any report of a scope inside the pass that is not such an event is a second delivery
	extra := token.NoPos
	instrsOf(fn, func(in ssa.Instruction) {
		if call, ok := in.(*ssa.Call); ok && staticCallee(call) == rep && !isReport(in) {
			extra = call.Pos()
		}
	})
	if extra != token.NoPos {
		c.bad(rule, key, extra, "a scope's "+reportMethod+" is called on something else than the scope visited by the per-scope loop")
		return
	}
	cnt := c.newPathCounter(isReport, 0).region(fn, inner.loop.Header, inner.loop.Blocks, inner.isLatch, 0)
	c.paths++
	switch {
	case cnt.max == 0:
		c.bad(rule, key, inner.pos, "the visited scope's "+reportMethod+" is not called in the per-scope loop")
	case cnt.min < 1:
		c.bad(rule, key, inner.pos, "a scope can be skipped (continue / condition) before it is reported: what it recorded is not delivered by this pass")
	case cnt.max > 1:
		c.bad(rule, key, inner.pos, fmt.Sprintf("a scope can be reported up to %d times in one pass", cnt.max))
	default:
		c.ok(rule, key, inner.pos, "all shards, all scopes of a shard, each reported exactly once")
	}
}

// checkHistogramBucketCoverage: histogram.report / histogram.cachedReport visit EVERY bucket on every
// path: exactly one loop over all of h.buckets (or h.samples), not left early, whose header dominates
// every return of the function. A report that visits only the buckets some side structure (a pending
// mask, a dirty list) names loses the samples of the buckets that structure cannot represent.
func (c *Ctx) checkHistogramBucketCoverage(rule string) {
	fB, fS := c.field("", "histogram", "buckets"), c.field("", "histogram", "samples")
	if fB == nil || fS == nil {
		c.missing(rule, "tally.histogram.buckets / samples")
		return
	}
	for _, name := range []string{"report", "cachedReport"} {
		fn := c.fn("", "histogram", name)
		if fn == nil {
			c.missing(rule, "tally.histogram."+name)
			continue
		}
		key := c.fnKey(fn)
		c.sawFunc(key)
		isB, isS := recvField(fn, fB), recvField(fn, fS)
		loops := elemLoopsOver(fn, func(v ssa.Value) bool { return isB(v) || isS(v) })
		if len(loops) != 1 {
			c.bad(rule, key, fn.Pos(), fmt.Sprintf("the histogram pass does not contain exactly one loop over all buckets (h.buckets / h.samples), found %d: some buckets are never (or repeatedly) reported", len(loops)))
			continue
		}
		lp := loops[0]
		if pos := lp.earlyExit(); pos != token.NoPos {
			c.bad(rule, key, pos, "the loop over the histogram's buckets can be left early: the samples of later buckets are not delivered")
			continue
		}
		bad := false
		for _, r := range returnsOf(fn) {
			if !lp.loop.Header.Dominates(r.Block()) {
				bad = true
				c.bad(rule, key, r.Pos(), "the histogram pass can return without walking all buckets (a return the bucket loop does not dominate): samples of buckets that the shortcut does not cover are never delivered")
				break
			}
		}
		if !bad {
			c.ok(rule, key, lp.pos, "one loop over all buckets, never left early, on every path through the pass")
		}
	}
}
