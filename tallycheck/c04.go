package main

import (
	"fmt"
	"go/token"
	"go/types"
	"sort"
	"strings"

	"golang.org/x/tools/go/ssa"
)

func init() { register("C04", checkC04) }

func checkC04(c *Ctx) {
	c.Explanation = "Decides the structure of name/tag derivation: (O1) fullyQualifiedName returns its argument when the prefix is empty and otherwise prefix + separator + name in that order; (O2) the child scope built by the registry takes every field from its stated source (prefix: the computed prefix; separator, sanitizer, reporters, default buckets, registry, bucket cache, test flag: the parent; tags: mergeRightTags(parent.tags, copyAndSanitizeMap(given tags))), Tagged passes the scope's own prefix and its argument, SubScope passes fullyQualifiedName(Sanitizer.Name(argument)) and no tags; (O3) in mergeRightTags the entries of the right map are written after those of the left onto a fresh map and the early returns hand back the non-empty side; the registry key writer searches the maps from the rightmost; (O4) scope.tags is assigned only from copyAndSanitizeMap / mergeRightTags, copyAndSanitizeMap returns a fresh map filled from its argument, every map update or delete on a string map in the library targets a map made in the same function or a field of an object under construction, and prefix/separator/tags are written only in constructors (copied, never mutated, immutable for the scope's lifetime)."
	c.Explanation += " Added by round 8: (O4 snapshot-copies-tags, shared with C11) Snapshot attaches a per-scope copy of the tag map."
	c.NotDecided = []string{"string equality of delivered names for arbitrary derivation programs beyond what O1-O3 imply"}

	scopeT := c.named("", "scope")
	if scopeT == nil {
		c.missing("O1 concat-shape", "tally.scope")
		return
	}
	fld := func(n string) *types.Var { return c.field("", "scope", n) }
	// ---- O1 ---------------------------------------------------------------------------------
	fqn := c.fn("", "scope", "fullyQualifiedName")
	if fqn == nil {
		c.missing("O1 concat-shape", "tally.scope.fullyQualifiedName")
	} else {
		key := c.fnKey(fqn)
		c.sawFunc(key)
		recv, name := ssa.Value(fqn.Params[0]), ssa.Value(fqn.Params[1])
		isLoad := func(v ssa.Value, f *types.Var) bool {
			lf, base := loadedField(stripConv(v))
			return lf == f && canon(base) == recv
		}
		okAll := true
		nBare, nConcat := 0, 0
		emptyPrefix := func(cond ssa.Value) (bool, bool) {
			op, x, y, ok := cmpOf(cond)
			if !ok {
				return false, false
			}
			// len(s.prefix) == 0   or   s.prefix == ""
			if ln, isLn := stripConv(x).(*ssa.Call); isLn && isBuiltin(ln, "len") && isLoad(ln.Call.Args[0], fld("prefix")) {
				if k, isK := constInt(y); isK && k == 0 {
					switch op {
					case token.EQL, token.LEQ:
						return true, true
					case token.NEQ, token.GTR:
						return true, false
					}
				}
			}
			if isLoad(x, fld("prefix")) {
				if s, isS := constString(y); isS && s == "" {
					return true, op == token.EQL
				}
			}
			return false, false
		}
		for _, r := range returnsOf(fqn) {
			v := stripConv(r.Results[0])
			if v == name {
				nBare++
				if guardedByEdge(r, emptyPrefix) == nil {
					okAll = false
					c.bad("O1 concat-shape", key, r.Pos(), "the bare name is returned on a path where the prefix may be non-empty: the scope's prefix is dropped from the metric name", c.describe(r))
				}
				continue
			}
			b1, ok1 := v.(*ssa.BinOp)
			okShape := false
			if ok1 && b1.Op == token.ADD && stripConv(b1.Y) == name {
				if b0, ok0 := stripConv(b1.X).(*ssa.BinOp); ok0 && b0.Op == token.ADD && isLoad(b0.X, fld("prefix")) && isLoad(b0.Y, fld("separator")) {
					okShape = true
				}
			}
			if !okShape {
				okAll = false
				c.bad("O1 concat-shape", key, r.Pos(), "the qualified name is not prefix + separator + name in that order", c.describe(r))
			}
			nConcat++
		}
		if nBare == 0 || nConcat == 0 {
			okAll = false
			c.bad("O1 concat-shape", key, fqn.Pos(), "fullyQualifiedName lacks the empty-prefix case or the concatenation case (an empty root prefix must not contribute a leading separator)")
		}
		if okAll {
			c.ok("O1 concat-shape", key, fqn.Pos(), "empty prefix -> name; otherwise prefix + separator + name")
		}
	}

	// ---- O2 inheritance table --------------------------------------------------------------------
	sub := c.fn("", "scopeRegistry", "Subscope")
	merge := c.fn("", "", "mergeRightTags")
	copySan := c.fn("", "scope", "copyAndSanitizeMap")
	if sub == nil || merge == nil || copySan == nil {
		c.missing("O2 inheritance", "tally.scopeRegistry.Subscope / mergeRightTags / scope.copyAndSanitizeMap")
	} else {
		key := c.fnKey(sub)
		c.sawFunc(key)
		var parent, prefixP, tagsP *ssa.Parameter
		for _, p := range sub.Params[1:] {
			switch {
			case deref(p.Type()) == types.Type(scopeT):
				parent = p
			case types.Identical(p.Type(), types.Typ[types.String]):
				prefixP = p
			default:
				if _, isMap := p.Type().Underlying().(*types.Map); isMap {
					tagsP = p
				}
			}
		}
		// the child literal
		var child *ssa.Alloc
		instrsOf(sub, func(in ssa.Instruction) {
			if al, ok := in.(*ssa.Alloc); ok && al.Heap && deref(al.Type()) == types.Type(scopeT) {
				child = al
			}
		})
		if child == nil || parent == nil || prefixP == nil || tagsP == nil {
			c.bad("O2 inheritance", key, sub.Pos(), "the registry does not build a child scope from (parent, prefix, tags)")
		} else {
			got := map[string]ssa.Value{}
			for _, r := range *child.Referrers() {
				if fa, isFA := r.(*ssa.FieldAddr); isFA && fa.Referrers() != nil {
					n := structFieldOf(fa.X.Type(), fa.Field).Name()
					for _, u := range *fa.Referrers() {
						if st, isSt := u.(*ssa.Store); isSt && st.Addr == ssa.Value(fa) {
							got[n] = st.Val
						}
					}
				}
			}
			fromParent := func(v ssa.Value, f string) bool {
				lf, base := loadedField(stripConv(v))
				return lf != nil && lf.Name() == f && canon(base) == ssa.Value(parent)
			}
			var wrong []string
			for _, f := range []string{"separator", "reporter", "cachedReporter", "baseReporter", "defaultBuckets", "sanitizer", "registry", "bucketCache", "testScope"} {
				if v, has := got[f]; !has || !fromParent(v, f) {
					wrong = append(wrong, f)
				}
			}
			if v, has := got["prefix"]; !has || canon(v) != ssa.Value(prefixP) {
				wrong = append(wrong, "prefix")
			}
			// tags <- mergeRightTags(parent.tags, copyAndSanitizeMap(tags))
			okTags := false
			if v, has := got["tags"]; has {
				if call, isCall := canon(v).(*ssa.Call); isCall && staticCallee(call) == merge {
					left, right := call.Call.Args[0], call.Call.Args[1]
					if fromParent(left, "tags") {
						if cc, isCC := canon(right).(*ssa.Call); isCC && staticCallee(cc) == copySan && canon(cc.Call.Args[0]) == ssa.Value(parent) && canon(cc.Call.Args[1]) == ssa.Value(tagsP) {
							okTags = true
						}
					}
				}
			}
			if !okTags {
				wrong = append(wrong, "tags")
			}
			if _, has := got["root"]; has {
				wrong = append(wrong, "root(set on a child)")
			}
			// constructor agreement: whatever the root constructor configures on the root scope is also
			// given to a child (from the parent) - a field added to the root constructor only leaves
			// derived scopes with its zero value
			if rootCtor := c.fn("", "", "newRootScope"); rootCtor != nil {
				rootOnly := map[string]bool{"root": true, "status": true}
				var rootAlloc *ssa.Alloc
				instrsOf(rootCtor, func(in ssa.Instruction) {
					if al, ok := in.(*ssa.Alloc); ok && al.Heap && deref(al.Type()) == types.Type(scopeT) {
						rootAlloc = al
					}
				})
				if rootAlloc != nil {
					reported := map[string]bool{}
					instrsOf(rootCtor, func(in ssa.Instruction) {
						st, isSt := in.(*ssa.Store)
						if !isSt {
							return
						}
						fa, isFA := st.Addr.(*ssa.FieldAddr)
						if !isFA || canon(fa.X) != ssa.Value(rootAlloc) {
							return
						}
						n := structFieldOf(fa.X.Type(), fa.Field).Name()
						if _, has := got[n]; !has && !rootOnly[n] && !reported[n] {
							reported[n] = true
							wrong = append(wrong, n+"(configured on the root only)")
						}
					})
				}
			}
			sort.Strings(wrong)
			c.check(len(wrong) == 0, "O2 inheritance", key, child.Pos(), "child fields come from their stated sources (13 fields)",
				fmt.Sprintf("child scope field(s) %v do not come from their stated source (parent's field of the same name; prefix: the computed prefix; tags: mergeRightTags(parent.tags, copyAndSanitizeMap(tags))): metrics of derived scopes are delivered under the wrong name, tags, separator or to the wrong reporter", wrong))
		}
		// callers
		subscope := c.fn("", "scope", "subscope")
		if tg := c.fn("", "scope", "Tagged"); tg != nil && subscope != nil {
			ok := false
			instrsOf(tg, func(in ssa.Instruction) {
				if call, isCall := in.(*ssa.Call); isCall && staticCallee(call) == subscope {
					lf, base := loadedField(stripConv(call.Call.Args[1]))
					if lf != nil && lf.Name() == "prefix" && canon(base) == ssa.Value(tg.Params[0]) && canon(call.Call.Args[2]) == ssa.Value(tg.Params[1]) && canon(call.Call.Args[0]) == ssa.Value(tg.Params[0]) {
						ok = true
					}
				}
			})
			c.check(ok, "O2 inheritance", c.fnKey(tg), tg.Pos(), "Tagged derives from the receiver with its own prefix and the given tags", "Tagged does not derive the child from (receiver, receiver's prefix, given tags)")
		}
		if ss := c.fn("", "scope", "SubScope"); ss != nil && subscope != nil && fqn != nil {
			ok := false
			instrsOf(ss, func(in ssa.Instruction) {
				if call, isCall := in.(*ssa.Call); isCall && staticCallee(call) == subscope {
					if fc, isFC := canon(call.Call.Args[1]).(*ssa.Call); isFC && staticCallee(fc) == fqn && canon(fc.Call.Args[0]) == ssa.Value(ss.Params[0]) {
						e := c.newQualEngine()
						if q, isSan := e.sanitizerCall(canon(fc.Call.Args[1])); isSan && q == qN && isNilConst(call.Call.Args[2]) {
							if sc := canon(fc.Call.Args[1]).(*ssa.Call); canon(sc.Call.Args[len(sc.Call.Args)-1]) == ssa.Value(ss.Params[1]) {
								ok = true
							}
						}
					}
				}
			})
			c.check(ok, "O2 inheritance", c.fnKey(ss), ss.Pos(), "SubScope derives with fullyQualifiedName(Sanitizer.Name(name)) and no tags", "SubScope does not derive the child with prefix fullyQualifiedName(Sanitizer.Name(name)) and nil tags")
		}
		if sb := subscope; sb != nil {
			ok := false
			instrsOf(sb, func(in ssa.Instruction) {
				if call, isCall := in.(*ssa.Call); isCall && staticCallee(call) == sub {
					a := call.Call.Args
					if len(a) == 4 && canon(a[1]) == ssa.Value(sb.Params[0]) && canon(a[2]) == ssa.Value(sb.Params[1]) && canon(a[3]) == ssa.Value(sb.Params[2]) {
						if lf, base := loadedField(stripConv(a[0])); lf != nil && lf.Name() == "registry" && canon(base) == ssa.Value(sb.Params[0]) {
							ok = true
						}
					}
				}
			})
			c.check(ok, "O2 inheritance", c.fnKey(sb), sb.Pos(), "subscope forwards (receiver, prefix, tags) to its registry", "scope.subscope does not forward (receiver as parent, prefix, tags) to its own registry")
		}
	}

	// ---- O1b the root's prefix is the configured prefix, sanitized and otherwise unchanged -----------
	c.checkRootPrefix("O1 root-prefix")

	// ---- O3 overlay order -----------------------------------------------------------------------
	if merge != nil {
		c.checkMergeRight("O3 overlay-order", merge)
	}
	c.checkKeyWriterPrecedence("O3 overlay-order")
	// names and tags are delivered byte for byte, so the identity key must be built byte for byte too
	c.checkKeyBytesFaithful("O3 byte-faithful-key")
	c.checkPrivateKeyBuffer("O3 private-key-buffer")

	// ---- O4 copy-on-ingress / immutability ---------------------------------------------------------
	c.checkTagsIngress("O4 copy-on-ingress", merge, copySan)
	// the names and tags delivered are the derivation's with the sanitizer's own rule applied to each part
	// (name rule for names, key rule for keys, value rule for values): shared with C06 O1
	c.shared(checkC06, map[string]string{"O1 sanitize-before-sink": "O6 own-sanitizer-rule"})
	// the scope a derivation is handed is the one registered under that derivation's canonical key
	c.checkSubscopeSource("O2 scope-by-canonical-key")
	c.checkStringMapMutations("O4 no-mutation")
	// ... and no caller is handed the live tag map: the snapshot attaches a per-scope copy (shared with C11 O1)
	c.shared(checkC11, map[string]string{"O1 snapshot-entries": "O4 snapshot-copies-tags"})
	for _, f := range []string{"prefix", "separator", "tags"} {
		c.checkConstructorOnly("O4 immutable", "", "scope", f)
	}
}

// checkMergeRight: fresh result; left entries written before right entries; early returns hand back
// the non-empty side.
func (c *Ctx) checkMergeRight(rule string, fn *ssa.Function) {
	key := c.fnKey(fn)
	c.sawFunc(key)
	left, right := ssa.Value(fn.Params[0]), ssa.Value(fn.Params[1])
	var mk *ssa.MakeMap
	var upL, upR []*ssa.MapUpdate
	instrsOf(fn, func(in ssa.Instruction) {
		if m, ok := in.(*ssa.MakeMap); ok {
			mk = m
		}
		if mu, ok := in.(*ssa.MapUpdate); ok {
			// key and value come from ranging which parameter?
			src := func(v ssa.Value) ssa.Value {
				if ex, isEx := stripConv(v).(*ssa.Extract); isEx {
					if nx, isNx := ex.Tuple.(*ssa.Next); isNx {
						if rg, isRg := nx.Iter.(*ssa.Range); isRg {
							return canon(rg.X)
						}
					}
				}
				return nil
			}
			ks, vs := src(mu.Key), src(mu.Value)
			switch {
			case ks == left && vs == left:
				upL = append(upL, mu)
			case ks == right && vs == right:
				upR = append(upR, mu)
			}
		}
	})
	ok := mk != nil && len(upL) == 1 && len(upR) == 1
	why := "mergeRightTags does not copy both maps entry by entry onto a fresh map"
	if ok {
		if upL[0].Map != ssa.Value(mk) || upR[0].Map != ssa.Value(mk) {
			ok = false
			why = "the merged entries are written into one of the argument maps instead of a fresh map (the parent's or the caller's tags are mutated)"
		} else if reachAvoiding(upR[0], false, func(i ssa.Instruction) bool { return i == ssa.Instruction(upL[0]) }, nil) != nil && !dominates(upL[0], upR[0]) {
			ok = false
			why = "entries of the left (parent) map can be written after those of the right (child) map: for a key tagged at both levels the older value wins"
		} else {
			// the loop over left must be finished before the loop over right starts: the right update
			// must not be able to reach the left update
			if reachAvoiding(upR[0], false, func(i ssa.Instruction) bool { return i == ssa.Instruction(upL[0]) }, nil) != nil {
				ok = false
				why = "entries of the left (parent) map can be written after those of the right (child) map: for a key tagged at both levels the older value wins"
			}
		}
	}
	if ok {
		// returns: result, or the non-empty side guarded by the other side being empty
		for _, r := range returnsOf(fn) {
			v := canon(r.Results[0])
			switch {
			case v == ssa.Value(mk), isNilConst(v):
			case v == left:
				if guardedByEdge(r, lenZero(right)) == nil {
					ok = false
					why = "the left map is returned although the right one may have entries (the child's tags are dropped)"
				}
			case v == right:
				if guardedByEdge(r, lenZero(left)) == nil {
					ok = false
					why = "the right map is returned although the left one may have entries (the inherited tags are dropped)"
				}
			default:
				ok = false
				why = "unexpected return value"
			}
		}
	}
	c.check(ok, rule, key, fn.Pos(), "left entries, then right entries, onto a fresh map; early returns hand back the non-empty side", why)
}

func lenZero(m ssa.Value) func(ssa.Value) (bool, bool) {
	return func(cond ssa.Value) (bool, bool) {
		op, x, y, ok := cmpOf(cond)
		if !ok {
			return false, false
		}
		ln, isLn := stripConv(x).(*ssa.Call)
		k, isK := constInt(y)
		if !isLn || !isBuiltin(ln, "len") || canon(ln.Call.Args[0]) != m || !isK || k != 0 {
			return false, false
		}
		switch op {
		case token.EQL, token.LEQ:
			return true, true
		case token.NEQ, token.GTR:
			return true, false
		}
		return false, false
	}
}

// checkKeyWriterPrecedence: the key writer looks a key up in the maps from the last to the first
// and stops at the first hit.
func (c *Ctx) checkKeyWriterPrecedence(rule string) {
	fn := c.fn("", "", "keyForPrefixedStringMapsAsKey")
	if fn == nil {
		c.missing(rule, "tally.keyForPrefixedStringMapsAsKey")
		return
	}
	key := c.fnKey(fn)
	c.sawFunc(key)
	var maps *ssa.Parameter
	for _, p := range fn.Params {
		if sl, ok := p.Type().Underlying().(*types.Slice); ok {
			if _, isMap := sl.Elem().Underlying().(*types.Map); isMap {
				maps = p
			}
		}
	}
	// The search may live in a helper that is handed the maps unchanged (`value(k, maps)`): the
	// rule is then decided in that helper, on its own slice-of-maps parameter.
	if maps != nil {
		hasLookup := false
		instrsOf(fn, func(in ssa.Instruction) {
			if lk, isLk := in.(*ssa.Lookup); isLk {
				if ld, isLd := lk.X.(*ssa.UnOp); isLd {
					if ia, isIA := ld.X.(*ssa.IndexAddr); isIA && canon(ia.X) == ssa.Value(maps) {
						hasLookup = true
					}
				}
			}
		})
		if !hasLookup {
			var helper *ssa.Function
			var hp *ssa.Parameter
			instrsOf(fn, func(in ssa.Instruction) {
				call, isCall := in.(*ssa.Call)
				if !isCall {
					return
				}
				g := staticCallee(call)
				if g == nil || !c.inModule(g) || g.Blocks == nil {
					return
				}
				for i, a := range call.Call.Args {
					if canon(a) == ssa.Value(maps) && i < len(g.Params) {
						helper, hp = g, g.Params[i]
					}
				}
			})
			if helper != nil {
				fn, maps = helper, hp
				c.sawFunc(c.fnKey(fn))
			}
		}
	}
	ok := false
	why := "no lookup of the key in maps[j] found"
	instrsOf(fn, func(in ssa.Instruction) {
		lk, isLk := in.(*ssa.Lookup)
		if !isLk {
			return
		}
		if !lk.CommaOk {
			if ld0, isLd0 := lk.X.(*ssa.UnOp); isLd0 {
				if ia0, isIA0 := ld0.X.(*ssa.IndexAddr); isIA0 && maps != nil && canon(ia0.X) == ssa.Value(maps) {
					why = "the value for a key is taken from maps[j][k] without the comma-ok test: whether a map 'has' the key is decided by the value's content, so a later map that sets the key to the empty string does not take precedence"
				}
			}
			return
		}
		ld, isLd := lk.X.(*ssa.UnOp)
		if !isLd {
			return
		}
		ia, isIA := ld.X.(*ssa.IndexAddr)
		if !isIA || maps == nil || canon(ia.X) != ssa.Value(maps) {
			return
		}
		phi, isPhi := ia.Index.(*ssa.Phi)
		if !isPhi {
			why = "the maps are not searched by a loop index"
			return
		}
		startLast, stepDown := false, false
		for _, e := range phi.Edges {
			if bo, isB := e.(*ssa.BinOp); isB && bo.Op == token.SUB {
				if ln, isLn := stripConv(bo.X).(*ssa.Call); isLn && isBuiltin(ln, "len") && canon(ln.Call.Args[0]) == ssa.Value(maps) {
					if k, isK := constInt(bo.Y); isK && k == 1 {
						startLast = true
					}
				}
				if bo.X == ssa.Value(phi) {
					if k, isK := constInt(bo.Y); isK && k == 1 {
						stepDown = true
					}
				}
			}
		}
		if !startLast || !stepDown {
			why = "the maps are not searched from the last one downwards: for a key present in several maps an earlier (left) map's value is written, contradicting the tag merge (rightmost wins)"
			return
		}
		// on a hit the search stops: the hit edge does not return to the loop header
		var okV ssa.Value
		for _, r := range *lk.Referrers() {
			if e, isE := r.(*ssa.Extract); isE && e.Index == 1 {
				okV = e
			}
		}
		if okV == nil {
			return
		}
		for _, b := range fn.Blocks {
			if iff, isIf := condOf(b); isIf {
				if m, onTrue := boolValueCond(okV)(iff.Cond); m {
					hit := b.Succs[1]
					if onTrue {
						hit = b.Succs[0]
					}
					if reachAvoiding(hit.Instrs[0], true, func(i ssa.Instruction) bool { return i == ssa.Instruction(lk) }, func(i ssa.Instruction) bool {
						// leaving the inner loop = reaching the outer loop's header is fine; we only
						// forbid another lookup for the same key: detect by passing the phi's block again
						return false
					}) == nil {
						ok = true
					} else {
						// the lookup is reachable again from the hit edge only through the outer loop
						// (next key): accept when the inner phi's block is not re-entered from the hit
						// edge without passing the outer header
						inner := phi.Block()
						re := reachAvoiding(hit.Instrs[0], true, func(i ssa.Instruction) bool { return i.Block() == inner && i == inner.Instrs[0] }, func(i ssa.Instruction) bool {
							// barrier: the outer loop's header = a block that dominates inner and has a back edge
							bb := i.Block()
							return i == bb.Instrs[0] && bb != inner && bb.Dominates(inner) && len(bb.Preds) > 1
						})
						ok = re == nil
						if !ok {
							why = "after the first hit the search continues to earlier maps (a later hit overwrites nothing but appends a second value)"
						}
					}
				}
			}
		}
	})
	c.check(ok, rule, key, fn.Pos(), "the key writer searches maps from the rightmost and stops at the first hit", why)
}

// checkTagsIngress: scope.tags is assigned only from copyAndSanitizeMap / mergeRightTags results;
// copyAndSanitizeMap returns a fresh map filled from its argument only.
func (c *Ctx) checkTagsIngress(rule string, merge, copySan *ssa.Function) {
	fTags := c.field("", "scope", "tags")
	if fTags == nil || merge == nil || copySan == nil {
		c.missing(rule, "tally.scope.tags")
		return
	}
	n := 0
	for _, fn := range c.funcsOfPkg("") {
		instrsOf(fn, func(in ssa.Instruction) {
			st, ok := in.(*ssa.Store)
			if !ok {
				return
			}
			if f, _ := addrField(st.Addr); f != fTags {
				return
			}
			n++
			key := c.fnKey(fn)
			call, isCall := canon(st.Val).(*ssa.Call)
			okSrc := isCall && (staticCallee(call) == merge || staticCallee(call) == copySan)
			if okSrc && staticCallee(call) == merge {
				// the merge hands back one of its sides unchanged when the other is empty: each side
				// must itself be private (a scope's own tags, or a fresh sanitized copy)
				for _, a := range call.Call.Args {
					av := canon(a)
					if f, _ := loadedField(av); f == fTags {
						continue
					}
					if ac, isAC := av.(*ssa.Call); isAC && staticCallee(ac) == copySan {
						continue
					}
					if isNilConst(av) {
						continue
					}
					okSrc = false
				}
			}
			c.check(okSrc, rule, key, st.Pos(), "scope.tags <- copyAndSanitizeMap / mergeRightTags of private maps", "a scope's tags are assigned from something other than copyAndSanitizeMap(tags) or mergeRightTags(<scope's own tags>, copyAndSanitizeMap(tags)): the caller's map is retained (mutating it later changes the scope's tags) or tags bypass the sanitizer", c.describe(st))
		})
	}
	c.floor(rule, n, 2)
	// copyAndSanitizeMap: returns a MakeMap; its updates come from ranging the parameter
	key := c.fnKey(copySan)
	c.sawFunc(key)
	ok := false
	if rets := returnsOf(copySan); len(rets) == 1 {
		if mk, isMk := canon(rets[0].Results[0]).(*ssa.MakeMap); isMk {
			ok = true
			n := 0
			for _, r := range *mk.Referrers() {
				if mu, isMu := r.(*ssa.MapUpdate); isMu {
					n++
					_ = mu
				}
			}
			if n == 0 {
				ok = false
			}
			// ranges over its own parameter, no early exit
			ranged := false
			instrsOf(copySan, func(in ssa.Instruction) {
				if rg, isRg := in.(*ssa.Range); isRg && canon(rg.X) == ssa.Value(copySan.Params[1]) {
					ranged = true
				}
			})
			ok = ok && ranged
		}
	}
	c.check(ok, rule, key, copySan.Pos(), "copyAndSanitizeMap returns a fresh map filled from every entry of its argument", "copyAndSanitizeMap does not return a fresh map filled from its argument (the caller's map would be shared)")
}

// checkStringMapMutations: every MapUpdate / delete on a map[string]string in the library packages
// targets a map made in the same function or a field of an object under construction.
func (c *Ctx) checkStringMapMutations(rule string) {
	isStrMap := func(t types.Type) bool {
		m, ok := t.Underlying().(*types.Map)
		if !ok {
			return false
		}
		kb, okK := m.Key().Underlying().(*types.Basic)
		vb, okV := m.Elem().Underlying().(*types.Basic)
		return okK && okV && kb.Kind() == types.String && vb.Kind() == types.String
	}
	pkgs := []string{"", "m3", "prometheus", "statsd", "multi", "instrument", "internal/cache", "internal/identity"}
	// taint: string maps that may be a caller's tag map or a scope's published tags
	taint := map[ssa.Value]bool{}
	sites := c.staticCallSites()
	tagFields := map[*types.Var]bool{}
	for _, tf := range [][2]string{{"scope", "tags"}, {"timer", "tags"}, {"histogram", "tags"}, {"scopeRegistry", "cardinalityMetricsTags"}, {"ScopeOptions", "Tags"}, {"ScopeOptions", "CardinalityMetricsTags"}} {
		if f := c.field("", tf[0], tf[1]); f != nil {
			tagFields[f] = true
		}
	}
	var fns []*ssa.Function
	for _, pk := range pkgs {
		fns = append(fns, c.funcsOfPkg(pk)...)
	}
	for changed := true; changed; {
		changed = false
		mark := func(v ssa.Value) {
			if v != nil && !taint[v] {
				taint[v] = true
				changed = true
			}
		}
		for _, fn := range fns {
			apiEntry := fn.Parent() == nil && (len(sites[fn]) == 0 || (fn.Object() != nil && fn.Object().Exported()))
			for _, p := range fn.Params {
				if isStrMap(p.Type()) && apiEntry {
					mark(p)
				}
			}
			instrsOf(fn, func(in ssa.Instruction) {
				switch x := in.(type) {
				case *ssa.UnOp:
					if x.Op == token.MUL && isStrMap(x.Type()) {
						if f, base := addrField(x.X); f != nil && tagFields[f] {
							// published tags; an object under construction in this function is exempt
							if al, isAl := canon(rootOf(base)).(*ssa.Alloc); !(isAl && al.Parent() == fn) {
								mark(x)
							}
						}
						if s := spilled(x.X); s != nil && taint[s] {
							mark(x)
						}
						if al, isAl := x.X.(*ssa.Alloc); isAl {
							for _, st := range cellStores(al) {
								if taint[st.Val] {
									mark(x)
								}
							}
						}
					}
				case *ssa.Phi:
					for _, e := range x.Edges {
						if taint[e] {
							mark(x)
						}
					}
				case *ssa.ChangeType:
					if taint[x.X] {
						mark(x)
					}
				case *ssa.Call:
					if g := staticCallee(x); g != nil && c.inModule(g) && g.Blocks != nil {
						for i, a := range x.Call.Args {
							if taint[a] && i < len(g.Params) {
								mark(g.Params[i])
							}
						}
						// a callee that returns its (tainted) parameter
						for _, r := range returnsOf(g) {
							for _, res := range r.Results {
								if taint[canon(res)] || taint[res] {
									if isStrMap(x.Type()) {
										mark(x)
									}
								}
							}
						}
					}
				}
			})
		}
	}
	n, nBad := 0, 0
	for _, fn := range fns {
		instrsOf(fn, func(in ssa.Instruction) {
			var m ssa.Value
			switch x := in.(type) {
			case *ssa.MapUpdate:
				m = x.Map
			case *ssa.Call:
				if isBuiltin(x, "delete") {
					m = x.Call.Args[0]
				}
			}
			if m == nil || !isStrMap(m.Type()) {
				return
			}
			n++
			if !(taint[m] || taint[canon(m)]) {
				return
			}
			if freshMap(m, fn, 6, map[ssa.Value]bool{}) {
				return
			}
			nBad++
			c.bad(rule, c.fnKey(fn), in.Pos(), "a tag map that was handed in through the API, or a scope's published tags, is modified: tag maps must be copied, never mutated, and a scope's tags never change", c.describe(in))
		})
	}
	c.extra["string_map_updates"] = n
	c.extra["tainted_tag_map_values"] = len(taint)
	if nBad == 0 {
		c.ok(rule, "library packages", token.NoPos, fmt.Sprintf("none of the %d updates/deletes on string maps targets an API-supplied tag map or a scope's published tags (%d such values tracked)", n, len(taint)))
	}
	c.floor(rule, n, 3)
}

func freshMap(v ssa.Value, fn *ssa.Function, depth int, seen map[ssa.Value]bool) bool {
	if depth <= 0 {
		return false
	}
	v = stripConv(v)
	if seen[v] {
		return true
	}
	seen[v] = true
	switch x := v.(type) {
	case *ssa.MakeMap:
		return true
	case *ssa.Phi:
		for _, e := range x.Edges {
			if !freshMap(e, fn, depth-1, seen) {
				return false
			}
		}
		return true
	case *ssa.UnOp:
		if x.Op == token.MUL {
			if al, isAl := x.X.(*ssa.Alloc); isAl {
				sts := cellStores(al)
				if len(sts) == 0 {
					return false
				}
				for _, st := range sts {
					if !freshMap(st.Val, fn, depth-1, seen) {
						return false
					}
				}
				return true
			}
			// field of an object under construction
			if _, base := addrField(x.X); base != nil {
				if al, isAl := canon(rootOf(base)).(*ssa.Alloc); isAl && al.Parent() == fn {
					return true
				}
			}
		}
	}
	return false
}

// checkConstructorOnly: the field is stored only into objects allocated in the same function.
func (c *Ctx) checkConstructorOnly(rule, short, typ, name string) {
	f := c.field(short, typ, name)
	if f == nil {
		c.missing(rule, short+"."+typ+"."+name)
		return
	}
	n, nBad := 0, 0
	for _, fn := range c.AllFuncs {
		instrsOf(fn, func(in ssa.Instruction) {
			st, ok := in.(*ssa.Store)
			if !ok {
				return
			}
			sf, base := addrField(st.Addr)
			if sf != f {
				return
			}
			n++
			if al, isAl := canon(rootOf(base)).(*ssa.Alloc); isAl && al.Parent() == fn {
				return
			}
			nBad++
			c.bad(rule, typ+"."+name+"@"+c.fnKey(fn), st.Pos(), "scope."+name+" is written outside a constructor: the name/tags delivered for an existing scope change during its lifetime", c.describe(st))
		})
	}
	if nBad == 0 {
		c.ok(rule, typ+"."+name, f.Pos(), fmt.Sprintf("written only while the scope is under construction (%d store(s))", n))
	}
	_ = strings.Join
}

// checkRootPrefix: every store into scope.prefix outside the registry's child constructor is
// Sanitizer.Name(<ScopeOptions.Prefix>) itself - not a trimmed, padded or otherwise edited form of
// it (the delivered name is root prefix + separator + ..., for every prefix).
func (c *Ctx) checkRootPrefix(rule string) {
	fPrefix := c.field("", "scope", "prefix")
	fOptPrefix := c.field("", "ScopeOptions", "Prefix")
	nameM := c.ifaceMethod("", "Sanitizer", "Name")
	sub := c.fn("", "scopeRegistry", "Subscope")
	if fPrefix == nil || fOptPrefix == nil || nameM == nil {
		c.missing(rule, "tally.scope.prefix / ScopeOptions.Prefix / Sanitizer.Name")
		return
	}
	n := 0
	for _, fn := range c.funcsOfPkg("") {
		if fn == sub {
			continue // child scopes: O2 inheritance
		}
		instrsOf(fn, func(in ssa.Instruction) {
			st, ok := in.(*ssa.Store)
			if !ok {
				return
			}
			if f, _ := addrField(st.Addr); f != fPrefix {
				return
			}
			n++
			key := c.fnKey(fn)
			c.sawFunc(key)
			okV := false
			why := "the root scope's prefix is not Sanitizer.Name(options.Prefix)"
			if call, isCall := canon(st.Val).(*ssa.Call); isCall {
				if _, m := ifaceCall(call); m == nameM && len(call.Call.Args) == 1 {
					if f, _ := loadedField(canon(call.Call.Args[0])); f == fOptPrefix {
						okV = true
					} else {
						why = "the root scope's prefix is the sanitized form of something other than options.Prefix itself (trimmed, padded or rewritten before sanitizing)"
					}
				} else {
					why = "the root scope's prefix is post-processed after sanitizing (e.g. a separator is trimmed): names are no longer root prefix + separator + name for every prefix"
				}
			}
			c.check(okV, rule, key, st.Pos(), "root prefix = Sanitizer.Name(options.Prefix), unchanged", why, c.describe(st))
		})
	}
	c.floor(rule, n, 1)
}
