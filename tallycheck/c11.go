package main

import (
	"fmt"
	"go/token"
	"go/types"

	"golang.org/x/tools/go/ssa"
)

func init() { register("C11", checkC11) }

// rangeSource: v is the key (idx 1) or value (idx 2) of a range over a map; returns the map operand.
func rangeSource(v ssa.Value) (ssa.Value, int) {
	if ex, ok := stripConv(v).(*ssa.Extract); ok {
		if nx, isNx := ex.Tuple.(*ssa.Next); isNx {
			if rg, isRg := nx.Iter.(*ssa.Range); isRg {
				return rg.X, ex.Index
			}
		}
	}
	return nil, 0
}

func checkC11(c *Ctx) {
	c.Explanation = "Decides the structure of test-scope snapshots: (O1) for each of the four metric kinds the Snapshot callback ranges over the visited scope's map of that kind and stores one entry whose name is the visited scope's fullyQualifiedName(key), whose tags are a fresh map filled from the visited scope's tags, whose value comes from the snapshot method of the element being visited, under the key KeyForPrefixedStringMap(that name, those tags), into a map of a freshly created snapshot; every map/slice stored into a snapshot struct is fresh (independent copy); (O2) the point-in-time reads: counter = Load(curr) - Load(prev), gauge = Float64frombits(Load(curr)), timer = copy of the values into a fresh slice of the same length under the read lock, histogram maps buckets[i]'s bound of the matching kind to samples[i]'s count for the same i and is nil for the other kind; (O3) each per-kind walk and read holds that kind's lock (field discipline over package tally); (O4) a closed test scope found in the registry is returned as is: its metrics are cleared only on the not-a-test-scope edge, and children inherit the test flag."
	c.Explanation += " Added later: the histogram a snapshot walks has the bounds it was asked for (cache hits validated element-wise) and keeps them (shared with C03 / C20)."
	c.Explanation += " Added by round 8: (O1 visits-registered-scopes) ForEachScope calls its callback only with entries of a range over a shard map; (O2 placed-by-search, shared with C03) one search over the histogram's own bounds and one increment per sample."
	c.NotDecided = []string{"equality with a reference tally for arbitrary histories"}
	snapFn := c.fn("", "scope", "Snapshot")
	fqn := c.fn("", "scope", "fullyQualifiedName")
	keyFn := c.fn("", "", "KeyForPrefixedStringMap")
	newSnap := c.fn("", "", "newSnapshot")
	if snapFn == nil || fqn == nil || keyFn == nil || newSnap == nil {
		c.missing("O1 snapshot-entries", "tally.scope.Snapshot / fullyQualifiedName / KeyForPrefixedStringMap / newSnapshot")
		return
	}
	// the per-scope callback: the closure of Snapshot that takes a *scope
	var cb *ssa.Function
	for _, f := range snapFn.AnonFuncs {
		if len(f.Params) == 1 && deref(f.Params[0].Type()) == types.Type(c.named("", "scope")) {
			cb = f
		}
	}
	if cb == nil {
		c.bad("O1 snapshot-entries", c.fnKey(snapFn), snapFn.Pos(), "Snapshot does not visit the registered scopes with a per-scope callback")
		return
	}
	c.sawFunc(c.fnKey(snapFn))
	c.sawFunc(c.fnKey(cb))
	ss := ssa.Value(cb.Params[0])
	fTags := c.field("", "scope", "tags")

	// the snapshot object is fresh and returned
	okFresh := false
	for _, r := range returnsOf(snapFn) {
		if call, ok := canon(r.Results[0]).(*ssa.Call); ok && staticCallee(call) == newSnap {
			okFresh = true
		}
	}
	okNew := true
	instrsOf(newSnap, func(in ssa.Instruction) {
		if st, ok := in.(*ssa.Store); ok {
			if f, _ := addrField(st.Addr); f != nil {
				if _, isMk := st.Val.(*ssa.MakeMap); !isMk {
					okNew = false
				}
			}
		}
	})
	c.check(okFresh && okNew, "O1 snapshot-fresh", c.fnKey(snapFn), snapFn.Pos(), "Snapshot returns a snapshot object created by this call, with freshly made maps",
		"Snapshot does not return a snapshot object with maps created by this call: successive snapshots share storage")

	// the tag copy: a MakeMap whose updates come from ranging ss.tags
	var tagsMap *ssa.MakeMap
	var mapUpdates []*ssa.MapUpdate
	instrsOfDeep(cb, func(in ssa.Instruction) {
		if mu, isMu := in.(*ssa.MapUpdate); isMu {
			mapUpdates = append(mapUpdates, mu)
		}
	})
	instrsOfDeep(cb, func(in ssa.Instruction) {
		mk, ok := in.(*ssa.MakeMap)
		if !ok {
			return
		}
		// (a copy that a nested literal captures lives in a cell: canon looks through it)
		for _, mu := range mapUpdates {
			if isMu := true; isMu && canon(mu.Map) == ssa.Value(mk) {
				ks, ki := rangeSource(mu.Key)
				vs, vi := rangeSource(mu.Value)
				if ks != nil && ks == vs && ki == 1 && vi == 2 {
					if f, base := loadedField(ks); f == fTags {
						tagsMap = mk
						c.check(canon(base) == ss, "O1 snapshot-entries", c.fnKey(cb)+":tags-source", mu.Pos(), "the per-scope tag copy is filled from the visited scope's tags",
							"the tag copy stored in snapshot entries is filled from the tags of the scope Snapshot was called on, not from the scope being visited: entries of subscopes carry the wrong tags", c.describe(mu))
					}
				}
			}
		}
	})
	if tagsMap == nil {
		c.bad("O1 snapshot-entries", c.fnKey(cb)+":tags-source", cb.Pos(), "the callback does not build a fresh copy of the visited scope's tags (the live tag map would be shared with the snapshot)")
	}

	type kind struct {
		mapField, snapType, snapMapField string
		valueFields                      map[string]string // snapshot field -> element method
		elemType                         string
	}
	kinds := []kind{
		{"counters", "counterSnapshot", "counters", map[string]string{"value": "snapshot"}, "counter"},
		{"gauges", "gaugeSnapshot", "gauges", map[string]string{"value": "snapshot"}, "gauge"},
		{"timers", "timerSnapshot", "timers", map[string]string{"values": "snapshot"}, "timer"},
		{"histograms", "histogramSnapshot", "histograms", map[string]string{"values": "snapshotValues", "durations": "snapshotDurations"}, "histogram"},
	}
	nKinds := 0
	for _, k := range kinds {
		st := c.named("", k.snapType)
		fMap := c.field("", "scope", k.mapField)
		fSnapMap := c.field("", "snapshot", k.snapMapField)
		if st == nil || fMap == nil || fSnapMap == nil {
			c.missing("O1 snapshot-entries", "tally."+k.snapType)
			continue
		}
		key := c.fnKey(cb) + ":" + k.mapField
		var obj *ssa.Alloc
		instrsOfDeep(cb, func(in ssa.Instruction) {
			if al, ok := in.(*ssa.Alloc); ok && deref(al.Type()) == types.Type(st) {
				obj = al
			}
		})
		if obj == nil {
			c.bad("O1 snapshot-entries", key, cb.Pos(), "no "+k.snapType+" entry is created: metrics of kind "+k.mapField+" are missing from snapshots")
			continue
		}
		nKinds++
		got := map[string]ssa.Value{}
		for _, r := range *obj.Referrers() {
			if fa, isFA := r.(*ssa.FieldAddr); isFA && fa.Referrers() != nil {
				n := structFieldOf(fa.X.Type(), fa.Field).Name()
				for _, u := range *fa.Referrers() {
					if s, isSt := u.(*ssa.Store); isSt && s.Addr == ssa.Value(fa) {
						got[n] = s.Val
					}
				}
			}
		}
		okAll := true
		fail := func(msg string) {
			okAll = false
			c.bad("O1 snapshot-entries", key, obj.Pos(), msg)
		}
		// name
		var nameV ssa.Value
		var elem ssa.Value
		if call, ok := canon(got["name"]).(*ssa.Call); ok && staticCallee(call) == fqn {
			nameV = call
			if canon(call.Call.Args[0]) != ss {
				fail("the entry's name is qualified with the scope Snapshot was called on instead of the visited scope (wrong prefix for subscopes)")
			}
			src, idx := rangeSource(call.Call.Args[1])
			if f, base := loadedField(src); src == nil || idx != 1 || f != fMap || canon(base) != ss {
				fail("the entry's name is not built from the key of the visited scope's " + k.mapField + " map")
			} else {
				// the element of the same range
				rg := stripConv(call.Call.Args[1]).(*ssa.Extract).Tuple
				for _, r := range *rg.Referrers() {
					if ex, isEx := r.(*ssa.Extract); isEx && ex.Index == 2 {
						elem = ex
					}
				}
			}
		} else {
			fail("the entry's name is not fullyQualifiedName(key)")
		}
		// tags
		if tagsMap == nil || canon(got["tags"]) != ssa.Value(tagsMap) {
			fail("the entry's tags are not the fresh per-scope copy (the live tag map is shared, or another scope's tags are used)")
		}
		// values
		for sf, meth := range k.valueFields {
			m := c.fn("", k.elemType, meth)
			call, ok := canon(got[sf]).(*ssa.Call)
			if m == nil || !ok || staticCallee(call) != m {
				fail("the entry's " + sf + " is not taken from the element's " + meth + "()")
				continue
			}
			if elem == nil || canon(call.Call.Args[0]) != elem {
				fail("the entry's " + sf + " is read from a different metric than the one whose name it carries")
			}
		}
		// inserted into snap.<kind> under KeyForPrefixedStringMap(name, tags)
		inserted := false
		instrsOfDeep(cb, func(in ssa.Instruction) {
			mu, ok := in.(*ssa.MapUpdate)
			if !ok {
				return
			}
			if f, _ := loadedField(mu.Map); f != fSnapMap {
				return
			}
			if canon(rootOf(stripConv(mu.Value))) != ssa.Value(obj) && stripConv(mu.Value) != ssa.Value(obj) {
				if mi, isMI := mu.Value.(*ssa.MakeInterface); !isMI || mi.X != ssa.Value(obj) {
					return
				}
			}
			if kc, isCall := canon(mu.Key).(*ssa.Call); isCall && staticCallee(kc) == keyFn {
				if canon(kc.Call.Args[0]) == nameV && tagsMap != nil && canon(kc.Call.Args[1]) == ssa.Value(tagsMap) {
					inserted = true
				}
			}
		})
		if !inserted {
			fail("the entry is not stored in snapshot." + k.snapMapField + " under KeyForPrefixedStringMap(its name, its tags): entries overwrite each other or land in the wrong collection")
		}
		if okAll {
			c.ok("O1 snapshot-entries", key, obj.Pos(), "one entry per metric of the visited scope: name, fresh tags, value(s) from the same element, keyed by name+tags")
		}
	}
	c.floor("O1 snapshot-entries", nKinds, 4)

	// ---- O2 point-in-time reads ----------------------------------------------------------------
	c.checkSnapshotReads("O2 reads")
	c.checkTimerSinkAppendOnly("O2 sink-append-only")
	// every metric handle a scope hands out is the registered one (the snapshot walks the registered
	// metrics only; a test scope's timer keeps its values in the timer object) - shared with C09 O1
	c.checkDoubleChecked("O1 registered-metrics", c.newLockEngine())
	// one entry per metric needs one scope per identity: the root must be found in whichever shard a
	// derivation ending in the root's identity hashes to (shared with C05 O1)
	c.checkRootInEveryShard("O1 root-in-every-shard")
	// "maps every bucket upper bound to the number of samples placed there": the histogram the
	// snapshot walks has the bounds it was asked for (a cache hit is validated element-wise, shared
	// with C03 O6 / C20 O4) and keeps them (the bound table is written only where it is allocated,
	// shared with C20 O6)
	c.checkBucketCacheGet("O1 histogram-own-bounds")
	c.checkBucketsEqual("O1 histogram-own-bounds-equal")
	c.checkBoundTablePrivate("O1 histogram-keeps-bounds")
	// "keyed by its full name and tags ... an independent copy": the tags of a scope are its private copy of
	// what the caller passed (shared with C04 O4)
	if merge, copySan := c.fn("", "", "mergeRightTags"), c.fn("", "scope", "copyAndSanitizeMap"); merge != nil && copySan != nil {
		c.checkTagsIngress("O1 own-tags", merge, copySan)
	} else {
		c.missing("O1 own-tags", "tally.mergeRightTags / scope.copyAndSanitizeMap")
	}
	// "for a test scope and every scope derived from it": a derived scope is configured like its parent
	// (shared with C04 O2, including the agreement between the root constructor and the child constructor)
	c.shared(checkC04, map[string]string{"O2 inheritance": "O1 derived-like-parent"})
	// "the number of samples placed there by C03": the placement itself (shared with C03 O1/O2)
	c.shared(checkC03, map[string]string{"O1 search-predicate": "O2 placed-by-search", "O1 search-range": "O2 placed-by-search", "O2 one-increment": "O2 placed-by-search", "O4 index-guard": "O2 placed-by-search"})
	// "whose counter value is the sum of increments": Inc is one atomic add of its argument on every path and
	// nothing else writes curr (shared with C01 O4; round 10)
	c.shared(checkC01, map[string]string{"O4 inc": "O2 counter-sums-increments"})
	// "one entry per metric" of every scope derived from the test scope: the walk visits the registry's own
	// tables (where derivation registers scopes), under their lock
	c.checkForEachScopeSource("O1 visits-registered-scopes")

	// ---- O3 locks ---------------------------------------------------------------------------------
	eng := c.newLockEngine()
	c.checkFieldDiscipline("O3 field-discipline", []string{""}, eng, 40)

	// ---- O4 test scopes are not pruned ---------------------------------------------------------------
	fTest := c.field("", "scope", "testScope")
	sub := c.fn("", "scopeRegistry", "Subscope")
	clearFn := c.fn("", "scope", "clearMetrics")
	if fTest == nil || sub == nil || clearFn == nil {
		c.missing("O4 test-scope-exempt", "tally.scope.testScope / scopeRegistry.Subscope")
	} else {
		isTest := func(cond ssa.Value) (bool, bool) {
			neg := false
			for {
				if u, ok := cond.(*ssa.UnOp); ok && u.Op == token.NOT {
					neg = !neg
					cond = u.X
					continue
				}
				break
			}
			f, _ := loadedField(cond)
			return f == fTest, neg // match, "not a test scope" on true edge
		}
		n := 0
		okAll := true
		entry := entryInstr(sub)
		instrsOf(sub, func(in ssa.Instruction) {
			call, ok := in.(*ssa.Call)
			if !ok || (staticCallee(call) != clearFn && !isBuiltin(call, "delete")) {
				// removal helper calls
				if ok && staticCallee(call) != nil && staticCallee(call).Name() == "removeWithRLock" {
				} else {
					return
				}
			}
			n++
			// no branch-consistent path reaches the removal through the "is a test scope" outcome
			skip := map[*ssa.BasicBlock]int{}
			tested := false
			for _, b := range sub.Blocks {
				if iff, isIf := condOf(b); isIf {
					if m, notTestOnTrue := isTest(iff.Cond); m {
						tested = true
						if notTestOnTrue {
							skip[b] = 0
						} else {
							skip[b] = 1
						}
					}
				}
			}
			if !tested || reachAvoidingCorr(entry, true, skip, func(i ssa.Instruction) bool { return i == in }, nil) != nil {
				okAll = false
				c.bad("O4 test-scope-exempt", c.fnKey(sub), in.Pos(), "a closed test scope found in the registry can be unregistered/cleared when it is requested again: its metrics vanish from later snapshots", c.describe(in))
			}
		})
		if okAll && n > 0 {
			c.ok("O4 test-scope-exempt", c.fnKey(sub), sub.Pos(), fmt.Sprintf("all %d removal/clear sites of the re-acquire path are reachable only for non-test scopes", n))
		}
		c.floor("O4 test-scope-exempt", n, 1)
	}
}

func (c *Ctx) checkSnapshotReads(rule string) {
	fCurr, fPrev := c.field("", "counter", "curr"), c.field("", "counter", "prev")
	isLoadOf := func(v ssa.Value, f *types.Var) bool {
		call, ok := stripConv(v).(*ssa.Call)
		if !ok {
			return false
		}
		op := atomicOpOf(call)
		return op != nil && op.Field == f && op.Kind == "load"
	}
	// selfCall looks through `return recv.other()` (a same-receiver accessor such as value()): the
	// returned expression and the no-write rule are then decided on that accessor as well.
	selfCall := func(fn *ssa.Function) (ssa.Value, []*ssa.Function) {
		fns := []*ssa.Function{fn}
		for depth := 0; depth < 3; depth++ {
			cur := fns[len(fns)-1]
			rets := returnsOf(cur)
			if len(rets) != 1 || len(rets[0].Results) != 1 {
				return nil, fns
			}
			v := rets[0].Results[0]
			if call, isC := stripConv(v).(*ssa.Call); isC {
				if f := staticCallee(call); f != nil && c.inModule(f) && f.Blocks != nil && f.Signature.Recv() != nil &&
					len(cur.Params) > 0 && len(call.Call.Args) == 1 && canon(call.Call.Args[0]) == ssa.Value(cur.Params[0]) {
					fns = append(fns, f)
					continue
				}
			}
			return v, fns
		}
		return nil, fns
	}
	noWrites := func(fns []*ssa.Function) bool {
		ok := true
		for _, f := range fns {
			instrsOf(f, func(in ssa.Instruction) {
				if op := atomicOpOf(in); op != nil && op.Kind != "load" {
					ok = false
				}
			})
		}
		return ok
	}
	if fn := c.fn("", "counter", "snapshot"); fn != nil {
		ok := false
		if v, fns := selfCall(fn); v != nil && noWrites(fns) {
			if bo, isB := v.(*ssa.BinOp); isB && bo.Op == token.SUB && isLoadOf(bo.X, fCurr) && isLoadOf(bo.Y, fPrev) {
				ok = true
			}
		}
		// no writes
		instrsOf(fn, func(in ssa.Instruction) {
			if op := atomicOpOf(in); op != nil && op.Kind != "load" {
				ok = false
			}
		})
		c.check(ok, rule, c.fnKey(fn), fn.Pos(), "counter snapshot = Load(curr) - Load(prev), no write", "the counter snapshot is not Load(curr) - Load(prev) (or it modifies the counter: taking a snapshot must not consume what a report would deliver)")
	} else {
		c.missing(rule, "tally.counter.snapshot")
	}
	fG := c.field("", "gauge", "curr")
	if fn := c.fn("", "gauge", "snapshot"); fn != nil {
		ok := false
		if v, fns := selfCall(fn); v != nil && noWrites(fns) {
			if call, isC := isCallTo(v, "math", "Float64frombits"); isC && isLoadOf(call.Call.Args[0], fG) {
				ok = true
			}
		}
		c.check(ok, rule, c.fnKey(fn), fn.Pos(), "gauge snapshot = Float64frombits(Load(curr)), no write", "the gauge snapshot is not Float64frombits(Load(curr)) (or it consumes the updated flag)")
	} else {
		c.missing(rule, "tally.gauge.snapshot")
	}
	// timer: fresh slice of len(values), copy(snap, values)
	fVals := c.field("", "timerValues", "values")
	if fn := c.fn("", "timer", "snapshot"); fn != nil {
		ok := false
		if rets := returnsOf(fn); len(rets) == 1 && len(resultValues(rets[0], 0)) == 1 {
			if mk, isMk := canon(resultValues(rets[0], 0)[0].Val).(*ssa.MakeSlice); isMk {
				lenOK := false
				if ln, isLn := stripConv(mk.Len).(*ssa.Call); isLn && isBuiltin(ln, "len") {
					if f, _ := loadedField(ln.Call.Args[0]); f == fVals {
						lenOK = true
					}
				}
				copied := false
				instrsOf(fn, func(in ssa.Instruction) {
					if call, isCall := in.(*ssa.Call); isCall && isBuiltin(call, "copy") && canon(call.Call.Args[0]) == ssa.Value(mk) {
						if f, _ := loadedField(call.Call.Args[1]); f == fVals {
							copied = true
						}
					}
				})
				ok = lenOK && copied
			}
		}
		c.check(ok, rule, c.fnKey(fn), fn.Pos(), "timer snapshot = copy of all values into a fresh slice of the same length", "the timer snapshot does not copy all recorded values into a fresh slice (the live slice is shared, or values are dropped)")
	} else {
		c.missing(rule, "tally.timer.snapshot")
	}
	// histogram
	fB, fS, fHT := c.field("", "histogram", "buckets"), c.field("", "histogram", "samples"), c.field("", "histogram", "htype")
	kindConst := func(name string) int64 {
		if k, ok := c.pkg("").Types.Scope().Lookup(name).(*types.Const); ok {
			s := k.Val().ExactString()
			if s == "0" {
				return 0
			}
			return 1
		}
		return -1
	}
	csnap := c.fn("", "counter", "snapshot")
	for _, h := range []struct{ meth, bound, konst string }{{"snapshotValues", "valueUpperBound", "valueHistogramType"}, {"snapshotDurations", "durationUpperBound", "durationHistogramType"}} {
		fn := c.fn("", "histogram", h.meth)
		if fn == nil {
			c.missing(rule, "tally.histogram."+h.meth)
			continue
		}
		key := c.fnKey(fn)
		recv := ssa.Value(fn.Params[0])
		var mk *ssa.MakeMap
		var mu *ssa.MapUpdate
		instrsOf(fn, func(in ssa.Instruction) {
			if m, ok := in.(*ssa.MakeMap); ok {
				mk = m
			}
			if u, ok := in.(*ssa.MapUpdate); ok {
				mu = u
			}
		})
		ok := mk != nil && mu != nil && mu.Map == ssa.Value(mk)
		why := "the histogram snapshot does not fill a fresh map"
		if ok {
			// key = buckets[i].<bound>, value = samples[i].counter.snapshot(), same i
			var ki, vi ssa.Value
			if f, base := loadedField(stripConv(mu.Key)); f != nil && f.Name() == h.bound {
				if ia, isIA := base.(*ssa.IndexAddr); isIA {
					if bf, bb := loadedField(ia.X); bf == fB && canon(bb) == recv {
						ki = ia.Index
					}
				}
			}
			if call, isCall := stripConv(mu.Value).(*ssa.Call); isCall && staticCallee(call) == csnap {
				if f, base := loadedField(call.Call.Args[0]); f != nil && f.Name() == "counter" {
					if ia, isIA := base.(*ssa.IndexAddr); isIA {
						if sf, sb := loadedField(ia.X); sf == fS && canon(sb) == recv {
							vi = ia.Index
						}
					}
				}
			}
			if ki == nil || vi == nil || ki != vi {
				ok = false
				why = "the snapshot does not map buckets[i]." + h.bound + " to samples[i]'s count for the same i (counts are attributed to the wrong bound, or the other kind's bound is used)"
			}
			// the loop covers every bucket: range over h.buckets (index loop up to len(h.buckets))
			if ok {
				phi, isPhi := ki.(*ssa.BinOp)
				_ = phi
				_ = isPhi
			}
			// guard: nil for the other kind
			want := kindConst(h.konst)
			guard := false
			for _, r := range returnsOf(fn) {
				if isNilConst(r.Results[0]) {
					if guardedByEdge(r, func(cond ssa.Value) (bool, bool) {
						op, x, y, okc := cmpOf(cond)
						if !okc {
							return false, false
						}
						f, base := loadedField(stripConv(x))
						k, isK := constInt(y)
						if f != fHT || canon(base) != recv || !isK || k != want {
							return false, false
						}
						return true, op == token.NEQ
					}) != nil {
						guard = true
					}
				} else if canon(r.Results[0]) != ssa.Value(mk) {
					ok = false
					why = "the histogram snapshot returns something other than its fresh map"
				}
			}
			if !guard && ok {
				ok = false
				why = "the snapshot is not nil for a histogram of the other kind (htype != " + h.konst + ")"
			}
		}
		c.check(ok, rule, key, fn.Pos(), "fresh map buckets[i]."+h.bound+" -> samples[i] count (same i); nil for the other kind", why)
	}
}

// checkForEachScopeSource: ForEachScope - the walk behind Snapshot - hands its callback the scopes of
// the registry's shard maps (scopeBucket.s, where Subscope registers every derived scope under the
// shard's lock) and nothing else: every call of the callback receives the value of a range over a
// loaded scopeBucket.s, and at least one such call exists. A walk over a second list kept beside the
// maps shows what that list holds, not what is registered (a list appended to under one shard's lock
// loses scopes created concurrently in two shards; a list that is pruned differently hides scopes).
func (c *Ctx) checkForEachScopeSource(rule string) {
	fn := c.fn("", "scopeRegistry", "ForEachScope")
	fS := c.field("", "scopeBucket", "s")
	if fn == nil || fS == nil || len(fn.Params) < 2 {
		c.missing(rule, "tally.scopeRegistry.ForEachScope / scopeBucket.s")
		return
	}
	key := c.fnKey(fn)
	c.sawFunc(key)
	n := 0
	okAll := true
	seen := map[*ssa.Function]bool{}
	// isCB(v): v is the callback in function g - the value itself, a load of the cell it was spilled to
	// (canon), or, inside a function literal, the free variable bound to it (or a load of that variable)
	var visit func(g *ssa.Function, isCB func(ssa.Value) bool, depth int)
	visit = func(g *ssa.Function, isCB func(ssa.Value) bool, depth int) {
		if g == nil || g.Blocks == nil || seen[g] {
			return
		}
		seen[g] = true
		instrsOf(g, func(in ssa.Instruction) {
			if mc, isMC := in.(*ssa.MakeClosure); isMC {
				lit, _ := mc.Fn.(*ssa.Function)
				for bi, b := range mc.Bindings {
					bound := isCB(b)
					if !bound {
						// captured by reference: the binding is the cell the callback was stored to
						if al, isAl := b.(*ssa.Alloc); isAl && al.Referrers() != nil {
							for _, u := range *al.Referrers() {
								if st, isSt := u.(*ssa.Store); isSt && st.Addr == ssa.Value(al) && isCB(st.Val) {
									bound = true
								}
							}
						}
					}
					if !bound || lit == nil || bi >= len(lit.FreeVars) {
						continue
					}
					fv := lit.FreeVars[bi]
					if depth >= 3 {
						okAll = false
						c.bad(rule, key, in.Pos(), "the walk's callback is captured too deeply to be followed", c.describe(in))
						continue
					}
					visit(lit, func(v ssa.Value) bool {
						if v == ssa.Value(fv) {
							return true
						}
						if ld, isLd := v.(*ssa.UnOp); isLd && ld.Op == token.MUL && ld.X == ssa.Value(fv) {
							return true
						}
						return false
					}, depth+1)
				}
				return
			}
			ci, isCall := in.(ssa.CallInstruction)
			if !isCall {
				return
			}
			com := ci.Common()
			if !com.IsInvoke() && isCB(com.Value) {
				n++
				// argument: value of a range over a loaded scopeBucket.s
				arg := canon(com.Args[0])
				fromShard := false
				if ex, isEx := arg.(*ssa.Extract); isEx && ex.Index == 2 {
					if nx, isNx := ex.Tuple.(*ssa.Next); isNx {
						if rg, isRg := nx.Iter.(*ssa.Range); isRg {
							if f, _ := loadedField(rg.X); f == fS {
								fromShard = true
							}
						}
					}
				}
				if !fromShard {
					okAll = false
					c.bad(rule, key, in.Pos(), "the walk calls its callback with a scope that is not an entry of a shard map (scopeBucket.s): the snapshot shows the scopes of some other list, which need not be the registered ones (scopes created concurrently, or kept after Close, can be missing)", c.describe(in))
				}
				return
			}
			// handed on to a helper: follow it
			for i, a := range com.Args {
				if !isCB(a) {
					continue
				}
				h := staticCallee(ci)
				if h == nil || !c.inModule(h) || depth >= 3 || i >= len(h.Params) {
					okAll = false
					c.bad(rule, key, in.Pos(), "the walk hands its callback to code that is not followed", c.describe(in))
					continue
				}
				hp := ssa.Value(h.Params[i])
				visit(h, func(v ssa.Value) bool { return canon(v) == hp }, depth+1)
			}
		})
	}
	cb0 := ssa.Value(fn.Params[1])
	visit(fn, func(v ssa.Value) bool { return canon(v) == cb0 }, 0)
	if n == 0 {
		okAll = false
		c.bad(rule, key, fn.Pos(), "ForEachScope never calls its callback")
	}
	if okAll {
		c.ok(rule, key, fn.Pos(), fmt.Sprintf("the %d call(s) of the callback receive the entries of a range over a shard's scope map", n))
	}
}
