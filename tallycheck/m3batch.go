package main

import (
	"fmt"
	"go/token"
	"go/types"

	"golang.org/x/tools/go/ssa"
)

// A15 ACCUMULATE/FLUSH typestate of the M3 batching loop (shared by C12 and C13).
//
// Discovered roles (nothing is located by name except the anchor fields):
//
//	loop    the loop whose header receives from reporter.metCh
//	elem    the dequeued element (a sizedMetric)
//	B       the header phi holding the open batch ([]Metric), C the header phi holding its bytes
//	APP     append(<B-chain>, <metric of elem>)       ADD  <C-chain> + <size of elem>
//	FL      call of the emit-and-empty function with the batch      CHK  <C-chain>+size (>|>=) freeBytes
type batchLoop struct {
	fn       *ssa.Function
	recv     *ssa.UnOp
	loop     *loopInfo
	elemCell *ssa.Alloc
	elemVal  ssa.Value
	B, C     *ssa.Phi
	bChain   map[ssa.Value]bool
	cChain   map[ssa.Value]bool
	apps     []*ssa.Call
	adds     []*ssa.BinOp
	fls      []*ssa.Call
	flushFn  *ssa.Function
	chk      *ssa.If
	chkTrue  int // successor index taken on overflow
}

func (c *Ctx) elemField(bl *batchLoop, v ssa.Value, name string) bool {
	f, base := loadedField(stripConv(v))
	if f == nil || f.Name() != name {
		return false
	}
	if bl.elemCell != nil && base == ssa.Value(bl.elemCell) {
		return true
	}
	return bl.elemVal != nil && canon(base) == bl.elemVal
}

func (c *Ctx) findBatchLoop(rule string) *batchLoop {
	fMetCh := c.field("m3", "reporter", "metCh")
	if fMetCh == nil {
		c.missing(rule, "m3.reporter.metCh")
		return nil
	}
	var bl *batchLoop
	for _, fn := range c.funcsOfPkg("m3") {
		for _, co := range chanOpsOf(fn) {
			if co.Field == fMetCh && co.Kind == "recv" {
				if u, ok := co.Instr.(*ssa.UnOp); ok && u.CommaOk {
					if bl != nil {
						c.bad(rule, "m3.reporter.metCh", co.Instr.Pos(), "more than one function receives from the metric queue: two consumers split the stream and the batching invariant is not per-queue any more")
						return nil
					}
					bl = &batchLoop{fn: fn, recv: u}
				}
			}
		}
	}
	if bl == nil {
		c.bad(rule, "m3.reporter.metCh", token.NoPos, "no function receives from the metric queue with a `for ... range` loop: queued metrics are never emitted")
		return nil
	}
	fn := bl.fn
	c.sawFunc(c.fnKey(fn))
	bl.loop = innermostLoop(loopsOf(fn), bl.recv.Block())
	if bl.loop == nil || bl.loop.Header != bl.recv.Block() {
		c.undecided(rule, c.fnKey(fn), bl.recv.Pos(), "the receive from the metric queue is not the header of a loop")
		return nil
	}
	// element
	for _, r := range *bl.recv.Referrers() {
		if e, ok := r.(*ssa.Extract); ok && e.Index == 0 {
			bl.elemVal = e
			for _, u := range *e.Referrers() {
				if st, isSt := u.(*ssa.Store); isSt {
					if al, isAl := st.Addr.(*ssa.Alloc); isAl {
						bl.elemCell = al
					}
				}
			}
		}
	}
	if bl.elemVal == nil {
		c.undecided(rule, c.fnKey(fn), bl.recv.Pos(), "the dequeued element is not used")
		return nil
	}
	// header phis
	for _, in := range bl.loop.Header.Instrs {
		phi, ok := in.(*ssa.Phi)
		if !ok {
			continue
		}
		if sl, isSl := phi.Type().Underlying().(*types.Slice); isSl {
			if n, isN := sl.Elem().(*types.Named); isN && n.Obj().Name() == "Metric" {
				bl.B = phi
			}
		}
	}
	if bl.B == nil {
		c.undecided(rule, c.fnKey(fn), bl.recv.Pos(), "no loop-carried batch ([]Metric) found in the batching loop")
		return nil
	}
	chainOf := func(start *ssa.Phi) map[ssa.Value]bool {
		ch := map[ssa.Value]bool{}
		var visit func(v ssa.Value)
		visit = func(v ssa.Value) {
			if ch[v] {
				return
			}
			if p, ok := v.(*ssa.Phi); ok && bl.loop.Blocks[p.Block()] {
				ch[v] = true
				for _, e := range p.Edges {
					visit(e)
				}
			}
		}
		visit(start)
		return ch
	}
	bl.bChain = chainOf(bl.B)
	// APP: append(<B-chain>, elem metric)
	instrsOf(fn, func(in ssa.Instruction) {
		call, ok := in.(*ssa.Call)
		if !ok || !bl.loop.Blocks[call.Block()] {
			return
		}
		if base, _, _, isApp := appendedValues(call); isApp && bl.bChain[base] {
			bl.apps = append(bl.apps, call)
		}
		// FL: in-module call taking a B-chain value
		if f := staticCallee(call); f != nil && c.inModule(f) {
			for _, a := range call.Call.Args {
				if bl.bChain[a] {
					bl.fls = append(bl.fls, call)
					bl.flushFn = f
				}
			}
		}
	})
	// FL after the loop
	instrsOf(fn, func(in ssa.Instruction) {
		call, ok := in.(*ssa.Call)
		if !ok || bl.loop.Blocks[call.Block()] || bl.flushFn == nil || staticCallee(call) != bl.flushFn {
			return
		}
		bl.fls = append(bl.fls, call)
	})
	// C: the header phi of integer type fed by an ADD with the element's size
	for _, in := range bl.loop.Header.Instrs {
		phi, ok := in.(*ssa.Phi)
		if !ok {
			continue
		}
		if b, isB := phi.Type().Underlying().(*types.Basic); !isB || b.Info()&types.IsInteger == 0 {
			continue
		}
		ch := chainOf(phi)
		isC := false
		instrsOf(fn, func(i ssa.Instruction) {
			if bo, isBO := i.(*ssa.BinOp); isBO && bo.Op == token.ADD && (ch[bo.X] || ch[bo.Y]) {
				if c.elemField(bl, bo.X, "size") || c.elemField(bl, bo.Y, "size") {
					isC = true
				}
			}
		})
		if isC {
			bl.C = phi
			bl.cChain = ch
		}
	}
	if bl.C != nil {
		instrsOf(fn, func(i ssa.Instruction) {
			if bo, isBO := i.(*ssa.BinOp); isBO && bo.Op == token.ADD && bl.loop.Blocks[bo.Block()] {
				x, y := bo.X, bo.Y
				if bl.cChain[y] {
					x, y = y, x
				}
				if bl.cChain[x] && c.elemField(bl, y, "size") {
					bl.adds = append(bl.adds, bo)
				}
			}
		})
	}
	return bl
}

// checkBatching runs the A15 obligations. which selects the clauses: "size" (C12: bytes >= sum of
// charged sizes, overflow test before append, flush before overflow) and/or "once" (C13: nothing
// dropped or duplicated, final flush, emitter hands back an empty batch).
func (c *Ctx) checkBatching(rulePrefix string, size, once bool) {
	rule := rulePrefix + " batching"
	bl := c.findBatchLoop(rule)
	if bl == nil {
		return
	}
	fn := bl.fn
	key := c.fnKey(fn)
	fFree := c.field("m3", "reporter", "freeBytes")
	header0 := bl.loop.Header.Instrs[0]
	isApp := func(i ssa.Instruction) bool {
		for _, a := range bl.apps {
			if ssa.Instruction(a) == i {
				return true
			}
		}
		return false
	}
	isFL := func(i ssa.Instruction) bool {
		for _, f := range bl.fls {
			if ssa.Instruction(f) == i {
				return true
			}
		}
		return false
	}
	if len(bl.apps) == 0 {
		c.bad(rule, key+":append", fn.Pos(), "the batching loop never appends a dequeued metric to the open batch: nothing is ever emitted")
		return
	}
	if bl.flushFn == nil {
		c.bad(rule, key+":flush", fn.Pos(), "the batching loop never hands the open batch to an emitter")
		return
	}
	c.sawFunc(c.fnKey(bl.flushFn))

	if once {
		// (e) every dequeued "set" element reaches exactly one APP in its iteration
		skip := map[*ssa.BasicBlock]int{}
		for _, b := range fn.Blocks {
			if !bl.loop.Blocks[b] {
				continue
			}
			iff, ok := condOf(b)
			if !ok {
				continue
			}
			neg := false
			v := iff.Cond
			for {
				if u, isU := v.(*ssa.UnOp); isU && u.Op == token.NOT {
					neg = !neg
					v = u.X
					continue
				}
				break
			}
			if c.elemField(bl, v, "set") {
				if neg {
					skip[b] = 0
				} else {
					skip[b] = 1
				}
			}
		}
		start := bl.recv.Block().Succs[0].Instrs[0] // body (ok == true)
		if esc := reachAvoidingF(start, true, skip, func(i ssa.Instruction) bool { return i == header0 }, isApp); esc != nil {
			c.bad(rule, key+":no-drop", bl.recv.Pos(), "a dequeued metric (set == true) can reach the next iteration without being appended to a batch: the metric that does not fit (or some other one) is dropped",
				"dequeued at: "+c.describe(bl.recv))
		} else {
			c.ok(rule, key+":no-drop", bl.recv.Pos(), "every dequeued metric is appended to a batch before the next one is dequeued")
		}
		isLatch := func(b *ssa.BasicBlock) bool {
			for _, l := range bl.loop.Latch {
				if l == b {
					return true
				}
			}
			return false
		}
		cnt := c.newPathCounter(isApp, 0).region(fn, bl.loop.Header, bl.loop.Blocks, isLatch, 0)
		c.paths++
		c.check(cnt.max <= 1, rule, key+":no-dup", bl.apps[0].Pos(), "at most one append per dequeued metric",
			fmt.Sprintf("a dequeued metric can be appended %d times in one iteration (duplicate)", cnt.max))
		// the appended element is the dequeued metric
		for _, a := range bl.apps {
			_, elems, _, _ := appendedValues(a)
			okE := len(elems) == 1
			if okE {
				// elems[0] is (a load of a local copy of) elem.m
				v := stripConv(elems[0])
				okE = false
				if c.elemField(bl, v, "m") || c.elemField(bl, canon(v), "m") {
					okE = true
				} else if al := cellOf(v); al != nil {
					sts, _ := reachingStores(al, v.(*ssa.UnOp))
					okE = len(sts) == 1 && c.elemField(bl, sts[0].Val, "m")
				}
			}
			c.check(okE, rule, key+":element", a.Pos(), "the appended metric is the dequeued element's metric",
				"what is appended to the batch is not the dequeued element's metric", c.describe(a))
		}
		// (f) loop exit reaches FL with the open batch
		exit := bl.recv.Block().Succs[1].Instrs[0]
		flWithBatch := func(i ssa.Instruction) bool {
			if !isFL(i) {
				return false
			}
			for _, a := range i.(*ssa.Call).Call.Args {
				if a == ssa.Value(bl.B) {
					return true
				}
			}
			return false
		}
		if esc := reachAvoiding(exit, true, isReturn, flWithBatch); esc != nil {
			c.bad(rule, key+":final-flush", esc.Pos(), "when the queue is closed the loop can end without emitting the open batch: the last metrics reported before Close are lost", c.describe(esc))
		} else {
			c.ok(rule, key+":final-flush", exit.Pos(), "the open batch is emitted when the queue is closed")
		}
		// (g) the emitter passes the whole batch and hands back an empty one
		c.checkFlushFn(rule, bl.flushFn)
	}

	if size {
		if bl.C == nil {
			c.bad(rule, key+":counter", bl.apps[0].Pos(), "no loop-carried byte counter is advanced by the dequeued element's charged size: the open batch's size is not tracked, packets grow without bound")
			return
		}
		// R3: each back edge that carries an appended batch carries counter + size of that element
		okPairs := true
		pairs := 0
		var checkPhiPair func(pb, pc *ssa.Phi)
		seen := map[*ssa.Phi]bool{}
		checkPhiPair = func(pb, pc *ssa.Phi) {
			if seen[pb] {
				return
			}
			seen[pb] = true
			for i, vb := range pb.Edges {
				pred := pb.Block().Preds[i]
				if !bl.loop.Blocks[pred] {
					continue // entry edge
				}
				var vc ssa.Value
				if pc != nil {
					vc = pc.Edges[i]
				}
				pairs++
				switch {
				case isAppValue(bl, vb):
					// counter must be ADD(chain, size)
					okAdd := false
					for _, ad := range bl.adds {
						if vc == ssa.Value(ad) {
							okAdd = true
						}
					}
					if !okAdd {
						okPairs = false
						c.bad(rule, key+":charge", pb.Pos(), "a metric is appended to the open batch but the byte counter carried into the next iteration is not increased by that metric's charged size: the overflow test no longer bounds the packet",
							"batch value: "+vb.Name()+" = "+vb.String(), "counter value: "+fmt.Sprint(vc))
					}
				case isFlushValue(bl, vb):
					// counter may be reset or keep its value: the emitter hands back an empty batch
					// (checked below, returns-empty)
				default:
					// batch unchanged (or an inner phi): the counter must not be reset nor decreased
					if vc != nil {
						if k, isK := constInt(vc); isK && k == 0 && pc != nil {
							okPairs = false
							c.bad(rule, key+":reset", pc.Pos(), "the byte counter is reset to 0 on a path where the open batch was not emitted: the next packets are over-filled")
						}
					}
					if ib, isPhi := vb.(*ssa.Phi); isPhi && bl.bChain[ib] {
						var ic *ssa.Phi
						if p2, isP2 := vc.(*ssa.Phi); isP2 && p2.Block() == ib.Block() {
							ic = p2
						}
						checkPhiPair(ib, ic)
					}
				}
				// every value entering the counter chain is 0, chain, or ADD(chain, size)
				if vc != nil && !bl.cChain[vc] {
					if k, isK := constInt(vc); isK && k == 0 {
						continue
					}
					isAdd := false
					for _, ad := range bl.adds {
						if vc == ssa.Value(ad) {
							isAdd = true
						}
					}
					if !isAdd {
						okPairs = false
						c.bad(rule, key+":counter-arith", pb.Pos(), "the byte counter is updated by something other than `+ <charged size of the dequeued element>` or a reset after emitting", fmt.Sprint(vc))
					}
				}
			}
		}
		checkPhiPair(bl.B, bl.C)
		// a reset after emitting is only right if nothing stays in the batch the emitter hands back
		c.checkFlushReturnsEmpty(rule, bl.flushFn, "the emitter can hand back a batch that still holds metrics (not batch[:0] / fresh) while the byte counter is reset after emitting: the retained metrics are not charged, the next datagram exceeds the maximum packet size")
		if okPairs {
			c.ok(rule, key+":charge", bl.C.Pos(), fmt.Sprintf("bytes >= sum of charged sizes of the open batch is preserved on all %d loop-carried updates", pairs))
		}
		// (c),(d) overflow test before append; its overflow edge passes FL before APP
		var chkBlocks []*ssa.BasicBlock
		overflowIdx := map[*ssa.BasicBlock]int{}
		for _, b := range fn.Blocks {
			if !bl.loop.Blocks[b] {
				continue
			}
			iff, ok := condOf(b)
			if !ok {
				continue
			}
			op, x, y, isCmp := cmpOf(iff.Cond)
			if !isCmp {
				continue
			}
			// normalise: sum OP free
			if f, _ := loadedField(stripConv(x)); f == fFree && fFree != nil {
				x, y = y, x
				op = flipCmp(op)
			}
			f, _ := loadedField(stripConv(y))
			sum, isSum := stripConv(x).(*ssa.BinOp)
			if f != fFree || !isSum || sum.Op != token.ADD {
				continue
			}
			a, bb := sum.X, sum.Y
			if bl.cChain[bb] {
				a, bb = bb, a
			}
			if !bl.cChain[a] || !c.elemField(bl, bb, "size") {
				continue
			}
			switch op {
			case token.GTR, token.GEQ:
				chkBlocks = append(chkBlocks, b)
				overflowIdx[b] = 0
			case token.LEQ, token.LSS:
				chkBlocks = append(chkBlocks, b)
				overflowIdx[b] = 1
			}
		}
		if len(chkBlocks) == 0 {
			c.bad(rule, key+":overflow-test", bl.recv.Pos(), "the batching loop has no test `bytes + <charged size> > freeBytes` (or >=) over the loop-carried counter and the dequeued element's size: packets are never cut at the size limit")
		} else {
			// no path header -> APP that avoids both FL and the "fits" edge of the test
			skip := map[*ssa.BasicBlock]int{}
			for _, b := range chkBlocks {
				skip[b] = 1 - overflowIdx[b] // remove the "fits" edge
			}
			start := bl.recv.Block().Succs[0].Instrs[0]
			if esc := reachAvoidingF(start, true, skip, isApp, func(i ssa.Instruction) bool { return isFL(i) || i == header0 }); esc != nil {
				c.bad(rule, key+":flush-before-overflow", esc.Pos(), "a metric can be appended to the open batch although `bytes + size` exceeded the free space and the batch was not emitted first: the datagram exceeds the maximum packet size", c.describe(esc))
			} else {
				c.ok(rule, key+":flush-before-overflow", chkBlocks[0].Instrs[len(chkBlocks[0].Instrs)-1].Pos(), "append happens only after the overflow test said 'fits' or after the open batch was emitted")
			}
		}
	}
}

func isAppValue(bl *batchLoop, v ssa.Value) bool {
	for _, a := range bl.apps {
		if v == ssa.Value(a) {
			return true
		}
	}
	return false
}

func isFlushValue(bl *batchLoop, v ssa.Value) bool {
	for _, f := range bl.fls {
		if v == ssa.Value(f) {
			return true
		}
	}
	return false
}

// checkFlushFn: the emitter passes its whole batch parameter as Metrics of the emitted batch and
// returns an empty batch (param[:0], a fresh slice, or the parameter itself only when it is empty).
func (c *Ctx) checkFlushFn(rule string, fn *ssa.Function) {
	batch := c.checkFlushReturnsEmpty(rule, fn, "the emitter hands back a batch that is not empty (not batch[:0] / fresh): its metrics are emitted again with the next batch (duplicates)")
	if batch == nil {
		return
	}
	c.checkFlushEmitsAll(rule, fn, batch)
}

// checkFlushReturnsEmpty: every return of the emitter is batch[:0], a fresh slice, nil, or the
// parameter itself only when it is known empty.
func (c *Ctx) checkFlushReturnsEmpty(rule string, fn *ssa.Function, badMsg string) *ssa.Parameter {
	key := c.fnKey(fn)
	var batch *ssa.Parameter
	for _, p := range fn.Params {
		if sl, ok := p.Type().Underlying().(*types.Slice); ok {
			if n, isN := sl.Elem().(*types.Named); isN && n.Obj().Name() == "Metric" {
				batch = p
			}
		}
	}
	if batch == nil {
		c.undecided(rule, key, fn.Pos(), "emitter without a batch parameter")
		return nil
	}
	okRet := true
	for _, r := range returnsOf(fn) {
		if len(r.Results) != 1 {
			okRet = false
			continue
		}
		v := stripConv(r.Results[0])
		if sl, isSl := v.(*ssa.Slice); isSl && canon(sl.X) == ssa.Value(batch) {
			if k, isK := constInt(sl.High); isK && k == 0 {
				continue
			}
		}
		if _, isMS := v.(*ssa.MakeSlice); isMS {
			continue
		}
		if isNilConst(v) {
			continue
		}
		if canon(v) == ssa.Value(batch) {
			// allowed only when the batch is known empty: guarded by len(batch) == 0
			g := guardedByEdge(r, func(cond ssa.Value) (bool, bool) {
				op, x, y, ok := cmpOf(cond)
				if !ok {
					return false, false
				}
				ln, isLn := stripConv(x).(*ssa.Call)
				k, isK := constInt(y)
				if !isLn || !isBuiltin(ln, "len") || canon(ln.Call.Args[0]) != ssa.Value(batch) || !isK || k != 0 {
					return false, false
				}
				switch op {
				case token.EQL, token.LEQ:
					return true, true
				case token.NEQ, token.GTR:
					return true, false
				}
				return false, false
			})
			if g != nil {
				continue
			}
		}
		okRet = false
		c.bad(rule, key+":returns-empty", r.Pos(), badMsg, c.describe(r))
	}
	if okRet {
		c.ok(rule, key+":returns-empty", fn.Pos(), "the emitter returns an empty batch")
	}
	return batch
}

// checkFlushEmitsAll: the emitter passes its whole batch parameter as Metrics of the emitted batch,
// with the reporter's common tags.
func (c *Ctx) checkFlushEmitsAll(rule string, fn *ssa.Function, batch *ssa.Parameter) {
	key := c.fnKey(fn)
	// emits the whole batch with the reporter's common tags (C13 O6)
	fCommon := c.field("m3", "reporter", "commonTags")
	fMetrics, fCT := c.field("m3/thrift/v2", "MetricBatch", "Metrics"), c.field("m3/thrift/v2", "MetricBatch", "CommonTags")
	okM, okC := false, false
	instrsOf(fn, func(in ssa.Instruction) {
		st, ok := in.(*ssa.Store)
		if !ok {
			return
		}
		f, _ := addrField(st.Addr)
		if f == fMetrics && fMetrics != nil && canon(st.Val) == ssa.Value(batch) {
			okM = true
		}
		if f == fCT && fCT != nil {
			if lf, base := loadedField(st.Val); lf == fCommon && canon(base) == ssa.Value(fn.Params[0]) {
				okC = true
			}
		}
	})
	emits := 0
	instrsOf(fn, func(in ssa.Instruction) {
		if call, ok := in.(*ssa.Call); ok {
			if f := staticCallee(call); f != nil && f.Name() == "EmitMetricBatchV2" {
				emits++
			}
		}
	})
	c.check(okM && okC && emits == 1, rule, key+":emits", fn.Pos(), "emits MetricBatch{Metrics: <whole batch>, CommonTags: r.commonTags} exactly once",
		"the emitter does not send the whole batch with the reporter's common tags in one EmitMetricBatchV2 call")
}
