// tallycheck decides the structural obligations of the tally properties C01..C20 by static
// analysis of the repository's current source. See /verif/DESIGN.md.
package main

import (
	"flag"
	"fmt"
	"os"
	"runtime/debug"
	"sort"
	"strconv"
	"strings"
	"time"
)

type propFn func(c *Ctx)

var props = map[string]propFn{}

func register(id string, f propFn) { props[id] = f }

func main() {
	var (
		repo    = flag.String("repo", "/repo", "repository to analyse")
		prop    = flag.String("prop", "", "property id (C01..C20) or 'all'")
		tier    = flag.String("tier", "quick", "quick|thorough")
		evDir   = flag.String("evidence", "", "directory for evidence files ('' = none)")
		known   = flag.String("known", "", "known findings file")
		explain = flag.String("explain", "", "print only obligations whose construct key contains this string, with trails")
		list    = flag.Bool("list", false, "list properties")
		dumpInv = flag.Bool("dump-inventory", false, "print the function inventory of -repo (used to regenerate inventory.txt)")
		dumpFH  = flag.Bool("dump-field-hints", false, "print the field-type table of -repo (used to regenerate fieldhints.txt)")
		noInl   = flag.Bool("no-inlined-view", false, "do not fall back to the inlined view")
	)
	flag.Parse()
	if *list {
		var ids []string
		for id := range props {
			ids = append(ids, id)
		}
		sort.Strings(ids)
		fmt.Println(strings.Join(ids, " "))
		return
	}
	if *dumpFH {
		p, err := loadProgram(*repo, "", false)
		if err != nil {
			fmt.Printf("ERROR load: %v\n", err)
			os.Exit(2)
		}
		for _, k := range dumpFieldHints(p) {
			fmt.Println(k)
		}
		return
	}
	if *dumpInv {
		p, err := loadSyntaxOnly(*repo, "", nil)
		if err != nil {
			fmt.Printf("ERROR load: %v\n", err)
			os.Exit(2)
		}
		p386, err := loadSyntaxOnly(*repo, "386", nil)
		if err != nil {
			fmt.Printf("ERROR load: %v\n", err)
			os.Exit(2)
		}
		seen := map[string]bool{}
		for _, k := range append(dumpInventory(p), dumpInventory(p386)...) {
			if !seen[k] {
				seen[k] = true
				fmt.Println(k)
			}
		}
		return
	}
	seed, _ := strconv.Atoi(os.Getenv("VERIF_SEED"))
	var ids []string
	if *prop == "all" {
		for id := range props {
			ids = append(ids, id)
		}
		sort.Strings(ids)
	} else {
		for _, id := range strings.Split(*prop, ",") {
			if _, ok := props[id]; !ok {
				fmt.Printf("ERROR unknown property %q\n", id)
				os.Exit(2)
			}
			ids = append(ids, id)
		}
	}
	kf, err := loadKnown(*known)
	if err != nil {
		fmt.Printf("ERROR known findings: %v\n", err)
		os.Exit(2)
	}
	configs := []string{"GOARCH=amd64"}
	archs := []string{""}
	if *tier == "thorough" {
		archs = append(archs, "386")
		configs = append(configs, "GOARCH=386")
	}
	exit := 0
	for ai, arch := range archs {
		start := time.Now()
		p, err := loadProgram(*repo, arch, false)
		if err != nil {
			fmt.Printf("ERROR load (%s): %v\n", arch, err)
			os.Exit(2)
		}
		var inl *Program
		var inlNames []string
		inlTried := false
		for _, id := range ids {
			st := time.Now()
			if len(ids) == 1 {
				st = start
			}
			c := newCtx(p, id, *tier, kf)
			func() {
				defer func() {
					if r := recover(); r != nil {
						fmt.Printf("ERROR panic in %s: %v\n%s\n", id, r, debug.Stack())
						os.Exit(2)
					}
				}()
				props[id](c)
				// Inlined view (see inlineview.go): only consulted when the tree as written has
				// unresolved obligations and contains helpers the reference tree did not have.
				if c.unresolved() > 0 && !*noInl {
					if !inlTried {
						inlTried = true
						var ierr error
						inl, inlNames, ierr = buildInlinedView(*repo, arch, p)
						if ierr != nil {
							fmt.Printf("NOTE inlined view unavailable: %v\n", ierr)
							inl = nil
						}
					}
					if inl != nil {
						c2 := newCtx(inl, id, *tier, kf)
						func() {
							defer func() {
								if r := recover(); r != nil {
									fmt.Printf("NOTE property=%s: the rules panicked on the inlined view (%v); the tree as written is reported\n", id, r)
									c2.undecided("inlined-view", "panic", 0, fmt.Sprint(r))
								}
							}()
							props[id](c2)
						}()
						if c2.unresolved() == 0 {
							fmt.Printf("NOTE property=%s: %d obligation(s) were not discharged on the tree as written but all are discharged on the semantically identical view with new helpers inlined (%s); the inlined view is reported\n", id, c.unresolved(), strings.Join(inlNames, ", "))
							c2.extra["view"] = "inlined: calls of helpers that are not in the reference inventory were inlined before deciding (" + strings.Join(inlNames, ", ") + ")"
							c = c2
						} else {
							fmt.Printf("NOTE property=%s: inlined view (%s) also has %d undischarged obligation(s); the tree as written is reported\n", id, strings.Join(inlNames, ", "), c2.unresolved())
							if os.Getenv("VERIF_DEBUG_INLINE") != "" {
								for _, o := range c2.Obls {
									if o.Status != stOK {
										fmt.Printf("  INLINED-VIEW %s %s [%s] %s %s\n", o.Status, o.Rule, o.Key, o.Pos, o.Msg)
									}
								}
							}
						}
					}
				}
			}()
			if *explain != "" {
				for _, o := range c.Obls {
					if strings.Contains(o.Key, *explain) || strings.Contains(o.Rule, *explain) {
						fmt.Printf("%s %s [%s] %s %s\n", o.Status, o.Rule, o.Key, o.Pos, o.Msg)
						for _, t := range o.Trail {
							fmt.Printf("    %s\n", t)
						}
					}
				}
				continue
			}
			if len(archs) > 1 && ai == 0 {
				c.extra["configs_note"] = "obligations re-decided under GOARCH=386 as well; a violation in either configuration fails the run"
			}
			if arch != "" {
				fmt.Printf("CONFIG GOARCH=%s\n", arch)
			}
			code := c.finish(*evDir, ai == 0, seed, st, configs)
			if code > exit {
				exit = code
			}
		}
	}
	os.Exit(exit)
}
