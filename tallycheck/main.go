// tallycheck decides the structural obligations of the tally properties C01..C20 by static
// analysis of the repository's current source. See /verif/DESIGN.md.
package main

import (
	"flag"
	"fmt"
	"os"
	"runtime/debug"
	"sort"
	"strconv"
	"strings"
	"time"
)

type propFn func(c *Ctx)

var props = map[string]propFn{}

func register(id string, f propFn) { props[id] = f }

func main() {
	var (
		repo    = flag.String("repo", "/repo", "repository to analyse")
		prop    = flag.String("prop", "", "property id (C01..C20) or 'all'")
		tier    = flag.String("tier", "quick", "quick|thorough")
		evDir   = flag.String("evidence", "", "directory for evidence files ('' = none)")
		known   = flag.String("known", "", "known findings file")
		explain = flag.String("explain", "", "print only obligations whose construct key contains this string, with trails")
		list    = flag.Bool("list", false, "list properties")
	)
	flag.Parse()
	if *list {
		var ids []string
		for id := range props {
			ids = append(ids, id)
		}
		sort.Strings(ids)
		fmt.Println(strings.Join(ids, " "))
		return
	}
	seed, _ := strconv.Atoi(os.Getenv("VERIF_SEED"))
	var ids []string
	if *prop == "all" {
		for id := range props {
			ids = append(ids, id)
		}
		sort.Strings(ids)
	} else {
		for _, id := range strings.Split(*prop, ",") {
			if _, ok := props[id]; !ok {
				fmt.Printf("ERROR unknown property %q\n", id)
				os.Exit(2)
			}
			ids = append(ids, id)
		}
	}
	kf, err := loadKnown(*known)
	if err != nil {
		fmt.Printf("ERROR known findings: %v\n", err)
		os.Exit(2)
	}
	configs := []string{"GOARCH=amd64"}
	archs := []string{""}
	if *tier == "thorough" {
		archs = append(archs, "386")
		configs = append(configs, "GOARCH=386")
	}
	exit := 0
	for ai, arch := range archs {
		start := time.Now()
		p, err := loadProgram(*repo, arch, false)
		if err != nil {
			fmt.Printf("ERROR load (%s): %v\n", arch, err)
			os.Exit(2)
		}
		for _, id := range ids {
			st := time.Now()
			if len(ids) == 1 {
				st = start
			}
			c := newCtx(p, id, *tier, kf)
			func() {
				defer func() {
					if r := recover(); r != nil {
						fmt.Printf("ERROR panic in %s: %v\n%s\n", id, r, debug.Stack())
						os.Exit(2)
					}
				}()
				props[id](c)
			}()
			if *explain != "" {
				for _, o := range c.Obls {
					if strings.Contains(o.Key, *explain) || strings.Contains(o.Rule, *explain) {
						fmt.Printf("%s %s [%s] %s %s\n", o.Status, o.Rule, o.Key, o.Pos, o.Msg)
						for _, t := range o.Trail {
							fmt.Printf("    %s\n", t)
						}
					}
				}
				continue
			}
			if len(archs) > 1 && ai == 0 {
				c.extra["configs_note"] = "obligations re-decided under GOARCH=386 as well; a violation in either configuration fails the run"
			}
			if arch != "" {
				fmt.Printf("CONFIG GOARCH=%s\n", arch)
			}
			code := c.finish(*evDir, ai == 0, seed, st, configs)
			if code > exit {
				exit = code
			}
		}
	}
	os.Exit(exit)
}
