package main

import (
	"fmt"
	"go/constant"
	"go/token"
	"go/types"
	"os"
	"sort"
	"strings"

	"golang.org/x/tools/go/ssa"
)

func init() { register("C17", checkC17) }

// nilTest recognises `v != nil` / `v == nil`; returns (match, nonNilOnTrue).
func nilTest(v ssa.Value) func(ssa.Value) (bool, bool) {
	return func(cond ssa.Value) (bool, bool) {
		op, x, y, ok := cmpOf(cond)
		if !ok {
			return false, false
		}
		if isNilConst(x) {
			x, y = y, x
		}
		if !isNilConst(y) {
			return false, false
		}
		if canon(x) != canon(v) && accessPath(x) != accessPath(v) {
			return false, false
		}
		return true, op == token.NEQ
	}
}

// nonNilOnEdge: v is known non-nil when control flows pred -> succ.
func nonNilOnEdge(v ssa.Value, pred, succ *ssa.BasicBlock) bool {
	v = stripConv(v)
	if ld, ok := v.(*ssa.UnOp); ok && ld.Op == token.MUL {
		if _, isG := ld.X.(*ssa.Global); isG {
			return true // package-level error value
		}
	}
	if _, ok := v.(*ssa.MakeInterface); ok {
		return true
	}
	if call, ok := v.(*ssa.Call); ok {
		if f := staticCallee(call); f != nil && (f.Name() == "New" || f.Name() == "Errorf") {
			return true
		}
	}
	fn := pred.Parent()
	for _, b := range fn.Blocks {
		iff, ok := condOf(b)
		if !ok {
			continue
		}
		if m, nnTrue := nilTest(v)(iff.Cond); m {
			idx := 1
			if nnTrue {
				idx = 0
			}
			if (b == pred && b.Succs[idx] == succ && b.Succs[0] != b.Succs[1]) || edgeDominates(b, idx, pred) {
				return true
			}
		}
	}
	return false
}

func checkC17(c *Ctx) {
	c.Explanation = "Decides the structure of the Prometheus reporter: (O1) a vector taken from the by-name timer cache is returned with a nil error only after that very variant field was tested non-nil (kind reuse yields an error, never a nil vector); (O2) in the four Allocate* functions every path on which registration failed calls onRegisterError exactly once and returns the no-op metric, the vector is used only on the err == nil edge, no path returns a nil handle, and the handle returned has the fields set that the matching Report*/bucket method reads; (O3) the four *Vec functions probe, register and insert under one exclusive lock with the same id; (O4) ReportSamples observes the bucket's upper bound once per sample (loop from 0 while i < value), duration bounds and timer values are converted to seconds (divided by float64(time.Second)) at all observation sites; (O5) the error callback table of Configuration.NewReporter: a programmatic OnError wins; \"stderr\", \"log\", \"none\" select callbacks that do not panic; anything else the panicking default."
	c.Explanation += " Added later: (O6) the vector id is injective over (name, set of label names) for Prometheus-valid names; (O7) registerer, gatherer and error callback of a reporter are never nil and a default only fills a gap."
	c.Explanation += " Added by round 8: (O8 own-bounds, shared with C03; O8 tags-as-derived, shared with C04) histograms are binned by their own bounds and derived scopes carry the overlay of their parent's tags and their own."
	c.Explanation += " Added by round 9: (O4 registered-bounds) HistogramOpts.Buckets is histogramVec's own bounds parameter, which is buckets.AsValues() of the specification; (O8 placed-by-search, shared with C03) placement by one search over the histogram's own bounds."
	c.NotDecided = []string{"gathered values", "Prometheus's own cumulative bucketing and registration rules"}
	const pk = "prometheus"
	fSummary, fHistogram := c.field(pk, "promTimerVec", "summary"), c.field(pk, "promTimerVec", "histogram")
	fOnErr := c.field(pk, "reporter", "onRegisterError")
	if fSummary == nil || fHistogram == nil || fOnErr == nil {
		c.missing("O1 union-nil", "prometheus.promTimerVec{summary,histogram} / reporter.onRegisterError")
		return
	}

	// ---- O1 ---------------------------------------------------------------------------------
	n1 := 0
	for _, fn := range c.funcsOfPkg(pk) {
		for _, r := range returnsOf(fn) {
			if len(r.Results) != 2 {
				continue
			}
			for _, tup := range resultTuples(r) {
				if !isNilConst(tup[1].Val) {
					continue
				}
				f, base := loadedField(stripConv(tup[0].Val))
				if f != fSummary && f != fHistogram {
					continue
				}
				n1++
				key := c.fnKey(fn) + ":" + f.Name()
				c.sawFunc(c.fnKey(fn))
				at := tup[0].At
				// the path base.f must have been tested non-nil on the way
				want := accessPath(base) + "." + f.Name()
				g := guardedByEdge(at, func(cond ssa.Value) (bool, bool) {
					op, x, y, ok := cmpOf(cond)
					if !ok {
						return false, false
					}
					if isNilConst(x) {
						x, y = y, x
					}
					if !isNilConst(y) {
						return false, false
					}
					xf, xb := loadedField(stripConv(x))
					if xf == nil || accessPath(xb)+"."+xf.Name() != want {
						return false, false
					}
					return true, op == token.NEQ
				})
				c.check(g != nil, "O1 union-nil", key, at.Pos(), "the cached entry's "+f.Name()+" variant is tested non-nil before it is returned with a nil error",
					"a cached timer entry's "+f.Name()+" vector is returned with a nil error without testing that this variant is set: when the name was registered as the other kind (summary vs histogram) the caller dereferences nil - a panic even with a non-panicking error callback", c.describe(at))
			}
		}
	}
	// joined results (an inlined or (value, found, err) helper): the returned vector and error are phis;
	// judge them per feasible path
	for _, fn := range c.funcsOfPkg(pk) {
		for _, r := range returnsOf(fn) {
			if len(r.Results) != 2 || len(fn.Blocks) == 0 {
				continue
			}
			type seenKey struct {
				f    *types.Var
				path string
			}
			done := map[seenKey]bool{}
			for _, tup := range resultTuples(r) {
				res0, res1, atBlock := tup[0].Val, tup[1].Val, tup[0].At.Block()
				_, p0 := stripConv(res0).(*ssa.Phi)
				_, p1 := stripConv(res1).(*ssa.Phi)
				if !p0 && !p1 {
					continue
				}
				walkThreaded(pstate{b: fn.Blocks[0]}, func(st pstate) bool {
					if st.b != atBlock {
						return true
					}
					v0, v1 := st.resolve(res0), st.resolve(res1)
					if !isNilConst(v1) {
						return true
					}
					f, base := loadedField(v0)
					if f != fSummary && f != fHistogram {
						return true
					}
					want := accessPath(base) + "." + f.Name()
					tested := false
					for _, fa := range st.facts {
						if fa.v == nil || !fa.truth {
							continue
						}
						if xf, xb := loadedField(stripConv(fa.v)); xf != nil && accessPath(xb)+"."+xf.Name() == want {
							tested = true
						}
					}
					k := seenKey{f, want}
					if done[k] && tested {
						return true
					}
					if !done[k] {
						n1++
					}
					done[k] = true
					key := c.fnKey(fn) + ":" + f.Name()
					c.sawFunc(c.fnKey(fn))
					c.check(tested, "O1 union-nil", key, r.Pos(), "the cached entry's "+f.Name()+" variant is tested non-nil before it is returned with a nil error",
						"a cached timer entry's "+f.Name()+" vector is returned with a nil error without testing that this variant is set: when the name was registered as the other kind (summary vs histogram) the caller dereferences nil - a panic even with a non-panicking error callback", c.describe(r))
					return true
				}, nil)
			}
		}
	}
	c.floor("O1 union-nil", n1, 2)

	// ---- O2 allocators --------------------------------------------------------------------------
	type alloc struct {
		method string
		handle []string // handle methods whose field reads must be covered
		vecFns []string
	}
	allocs := []alloc{
		{"AllocateCounter", []string{"ReportCount"}, []string{"counterVec"}},
		{"AllocateGauge", []string{"ReportGauge"}, []string{"gaugeVec"}},
		{"AllocateTimer", []string{"ReportTimer"}, []string{"histogramVec", "summaryVec"}},
		{"AllocateHistogram", []string{"ValueBucket", "DurationBucket", "ReportSamples"}, []string{"histogramVec"}},
	}
	for _, a := range allocs {
		fn := c.fn(pk, "reporter", a.method)
		if fn == nil {
			c.missing("O2 allocator", "prometheus.reporter."+a.method)
			continue
		}
		c.checkPromAllocator("O2 allocator", fn, fOnErr, a.handle)
	}

	// ---- O3 exclusive get-or-register -------------------------------------------------------------
	for _, v := range []struct{ fn, mapField string }{{"counterVec", "counters"}, {"gaugeVec", "gauges"}, {"summaryVec", "timers"}, {"histogramVec", "timers"}} {
		fn := c.fn(pk, "reporter", v.fn)
		fm := c.field(pk, "reporter", v.mapField)
		if fn == nil || fm == nil {
			c.missing("O3 exclusive-section", "prometheus.reporter."+v.fn)
			continue
		}
		c.checkExclusiveGetOrCreate("O3 exclusive-section", fn, fm)
	}

	// ---- O4 observations -----------------------------------------------------------------------------
	c.checkPromObservations("O4 observe")
	c.checkPromBucketBound("O4 bucket-bound")

	// ---- O5 configuration table ------------------------------------------------------------------------
	c.checkPromConfig("O5 callback-table")
	c.checkPromConfiguredBuckets("O5 configured-buckets")
	c.checkPromSeriesStay("O9 series-stay-registered")

	// ---- O6 vector identity -----------------------------------------------------------------------------
	c.checkVectorIdentity("O6 vector-identity")

	// ---- O7 collaborators ---------------------------------------------------------------------------------
	c.checkPromCollaborators("O7 collaborators")

	// ---- O8 what reaches the reporter ---------------------------------------------------------------------
	// "for every counter the sum of its increments, for every gauge its last update": the core's delivery
	// protocols (shared with C01 / C02, as in C09 O5)
	c.shared(checkC02, map[string]string{"O2 delivery": "O8 gauge-protocol", "O2 update-order": "O8 gauge-protocol", "O2 raise-after-store": "O8 gauge-protocol", "O4 flag-writers": "O8 gauge-protocol"})
	c.shared(checkC01, map[string]string{"O2 delta-rmw": "O8 counter-protocol", "O3 delivery": "O8 counter-protocol"})
	// "for every histogram the cumulative count at each bound": the core bins a histogram by the bounds it
	// was created with, which are the bounds the vector was registered with (shared with C03 O6)
	c.shared(checkC03, map[string]string{"O6 own-buckets": "O8 own-bounds", "O6 own-buckets-equal": "O8 own-bounds",
		"O1 search-predicate": "O8 placed-by-search", "O1 search-range": "O8 placed-by-search", "O2 one-increment": "O8 placed-by-search", "O4 index-guard": "O8 placed-by-search"})
	// ... and those are the bounds the vector is registered with
	c.checkPromRegisteredBounds("O4 registered-bounds")
	// "same name and tag keys with different tag values are separate series": a derived scope's tags are its
	// parent's overlaid with its own, values included (shared with C04 O3)
	c.shared(checkC04, map[string]string{"O3 overlay-order": "O8 tags-as-derived"})
}

func (c *Ctx) checkPromAllocator(rule string, fn *ssa.Function, fOnErr *types.Var, handleMethods []string) {
	key := c.fnKey(fn)
	c.sawFunc(key)
	recv := ssa.Value(fn.Params[0])
	okAll := true
	fail := func(pos token.Pos, k, msg string, trail ...string) {
		okAll = false
		c.bad(rule, key+k, pos, msg, trail...)
	}
	// error values: Extract #1 of in-module *Vec calls, and phis of them
	var vecCalls []*ssa.Call
	instrsOf(fn, func(in ssa.Instruction) {
		if call, ok := in.(*ssa.Call); ok {
			if f := staticCallee(call); f != nil && c.inModule(f) && f.Signature.Results().Len() == 2 {
				vecCalls = append(vecCalls, call)
			}
		}
	})
	if len(vecCalls) == 0 {
		fail(fn.Pos(), "", "the allocator does not obtain a vector")
		return
	}
	// callback calls
	isCB := func(in ssa.Instruction) bool {
		call, ok := in.(*ssa.Call)
		if !ok || call.Call.IsInvoke() || staticCallee(call) != nil {
			return false
		}
		f, base := loadedField(call.Call.Value)
		return f == fOnErr && canon(base) == recv
	}
	cbs := findInstrs(fn, isCB)
	cnt := c.newPathCounter(isCB, 0).fn(fn, 0)
	c.paths++
	if len(cbs) == 0 || cnt.max > 1 {
		fail(fn.Pos(), ":callback", fmt.Sprintf("the error callback is called %d..%d times per call (a rejected registration must be reported exactly once)", cnt.min, cnt.max))
	}
	for _, cb := range cbs {
		errArg := cb.(*ssa.Call).Call.Args[0]
		if guardedByEdge(cb, nilTest(errArg)) == nil && !provablyNonNil(errArg, 3) {
			fail(cb.Pos(), ":callback", "the error callback is not restricted to err != nil", c.describe(cb))
		}
		// after the callback every path returns the no-op metric
		for _, r := range returnsOf(fn) {
			if dominates(cb, r) {
				mi, isMI := stripConv2(r.Results[0]).(*ssa.MakeInterface)
				isNoop := false
				if isMI {
					if n, isN := mi.X.Type().(*types.Named); isN && n.Obj().Name() == "noopMetric" {
						isNoop = true
					}
				}
				if !isNoop {
					fail(r.Pos(), ":noop", "after the error callback returned the allocator does not return the no-op metric", c.describe(r))
				}
			}
		}
	}
	// each vector is used only on its err == nil edge, and on the err != nil side the callback is reached
	for _, vc := range vecCalls {
		var vec, errV ssa.Value
		for _, r := range *vc.Referrers() {
			if e, ok := r.(*ssa.Extract); ok {
				if e.Index == 0 {
					vec = e
				} else {
					errV = e
				}
			}
		}
		if errV == nil {
			fail(vc.Pos(), ":err", "the error of "+staticCallee(vc).Name()+" is ignored", c.describe(vc))
			continue
		}
		if vec != nil && vec.Referrers() != nil {
			for _, u := range *vec.Referrers() {
				if _, isDbg := u.(*ssa.DebugRef); isDbg {
					continue
				}
				if guardedByEdge(u, func(cond ssa.Value) (bool, bool) { m, nn := nilTest(errV)(cond); return m, !nn }) == nil {
					// the test may be on a phi of the error (AllocateTimer); accept a guard on any phi fed by errV
					okPhi := false
					if errV.Referrers() != nil {
						for _, pr := range *errV.Referrers() {
							if phi, isPhi := pr.(*ssa.Phi); isPhi {
								if guardedByEdge(u, func(cond ssa.Value) (bool, bool) { m, nn := nilTest(phi)(cond); return m, !nn }) != nil {
									okPhi = true
								}
							}
						}
					}
					if !okPhi {
						fail(u.Pos(), ":vec", "the vector returned by "+staticCallee(vc).Name()+" is used on a path where its error may be non-nil (nil dereference when registration failed)", c.describe(u))
					}
				}
			}
		}
	}
	// series selection: <vec>.With(tags) with the allocator's own tags parameter
	var tagsParam *ssa.Parameter
	for _, p := range fn.Params {
		if _, isMap := p.Type().Underlying().(*types.Map); isMap {
			tagsParam = p
		}
	}
	nWith := 0
	instrsOf(fn, func(in ssa.Instruction) {
		call, ok := in.(*ssa.Call)
		if !ok {
			return
		}
		if f := staticCallee(call); f != nil && f.Name() == "With" && f.Signature.Recv() != nil && len(call.Call.Args) == 2 {
			nWith++
			if tagsParam == nil || canon(call.Call.Args[1]) != ssa.Value(tagsParam) {
				fail(in.Pos(), ":series", "the series is not selected with the allocator's own tags (vec.With(tags)): metrics with the same name and tag keys but different tag values share one series", c.describe(in))
			}
		}
	})
	if nWith == 0 {
		fail(fn.Pos(), ":series", "no series is selected from the vector (vec.With(tags))")
	}
	// no nil handle is returned
	for _, r := range returnsOf(fn) {
		if !c.neverNilResult(r) {
			fail(r.Pos(), ":non-nil", "a nil handle can be returned: the caller dereferences it on first use", c.describe(r))
		}
	}
	// field agreement: fields the handle methods read are set in the returned handle
	need := map[string]bool{}
	for _, hm := range handleMethods {
		for _, recvT := range []string{"cachedMetric", "cachedHistogramBucket"} {
			if m := c.fn("prometheus", recvT, hm); m != nil {
				for _, f := range c.promFieldsRead(m, 2) {
					need[f] = true
				}
			}
		}
	}
	delete(need, "metric")
	delete(need, "upperBound")
	set := c.promFieldsSet(fn)
	// timers: either flavour must be self-consistent: reportTimer + (histogram | summary)
	var missing []string
	for f := range need {
		if !set[f] {
			missing = append(missing, f)
		}
	}
	sort.Strings(missing)
	if strings.HasSuffix(fn.Name(), "Timer") {
		// the bound method stored in reportTimer must read a field that the same handle sets
		missing = c.timerFlavoursConsistent(fn)
	}
	if len(missing) > 0 {
		fail(fn.Pos(), ":fields", fmt.Sprintf("the handle returned by %s does not set field(s) %v that its report method reads: reporting through it dereferences nil", fn.Name(), missing))
	}
	if okAll {
		c.ok(rule, key, fn.Pos(), "error -> callback once -> no-op metric; vector used only when err == nil; never nil; handle fields match the methods that read them")
	}
}

func stripConv2(v ssa.Value) ssa.Value {
	for {
		switch x := v.(type) {
		case *ssa.ChangeType:
			v = x.X
		case *ssa.ChangeInterface:
			v = x.X
		default:
			return v
		}
	}
}

// neverNilResult: the returned interface value cannot be nil: every phi leaf is a MakeInterface, or
// a nil leaf arrives on an edge on which the error phi of the same block is known non-nil while the
// return is restricted to that error phi == nil.
func (c *Ctx) neverNilResult(r *ssa.Return) bool {
	if c.neverNilResultLocal(r) {
		return true
	}
	// path-sensitive: on every feasible path to this return the returned value resolves to a
	// non-nil interface (results of an inlined multi-return helper are phis correlated with its error)
	fn := r.Parent()
	ok, n := true, 0
	walkThreaded(pstate{b: fn.Blocks[0]}, func(st pstate) bool {
		if st.b != r.Block() {
			return true
		}
		n++
		if !deepNonNil(st, r.Results[0], 3) {
			ok = false
		}
		if os.Getenv("VERIF_DEBUG_NONNIL") != "" {
			fmt.Fprintf(os.Stderr, "nonnil %s block %d joins %v -> %v (resolved %v)\n", fn.Name(), st.b.Index, st.joins, ok, st.resolveI(r.Results[0]))
		}
		return ok
	}, nil)
	return ok && n > 0
}

func (c *Ctx) neverNilResultLocal(r *ssa.Return) bool {
	v := stripConv2(r.Results[0])
	if _, ok := v.(*ssa.MakeInterface); ok {
		return deepNonNil(pstate{}, v, 3)
	}
	phi, ok := v.(*ssa.Phi)
	if !ok {
		return false
	}
	// find an error phi in the same block whose == nil edge dominates the return
	var errPhi *ssa.Phi
	for _, in := range phi.Block().Instrs {
		p, isPhi := in.(*ssa.Phi)
		if !isPhi || p == phi {
			continue
		}
		if guardedByEdge(r, func(cond ssa.Value) (bool, bool) { m, nn := nilTest(p)(cond); return m, !nn }) != nil {
			errPhi = p
		}
	}
	for i, e := range phi.Edges {
		e = stripConv2(e)
		if _, isMI := e.(*ssa.MakeInterface); isMI && deepNonNil(pstate{}, e, 3) {
			continue
		}
		if isNilConst(e) && errPhi != nil && nonNilOnEdge(errPhi.Edges[i], phi.Block().Preds[i], phi.Block()) {
			continue
		}
		return false
	}
	return true
}

// promFieldsRead: names of cachedMetric fields read by m (following in-package static calls and
// bound-method closures stored in fields is done by the caller).
func (c *Ctx) promFieldsRead(m *ssa.Function, depth int) []string {
	seen := map[string]bool{}
	var visit func(f *ssa.Function, d int)
	visit = func(f *ssa.Function, d int) {
		if f == nil || d < 0 || f.Blocks == nil {
			return
		}
		instrsOf(f, func(in ssa.Instruction) {
			switch x := in.(type) {
			case *ssa.FieldAddr:
				if n, ok := deref(x.X.Type()).(*types.Named); ok && n.Obj().Name() == "cachedMetric" {
					seen[structFieldOf(x.X.Type(), x.Field).Name()] = true
				}
			case *ssa.Field:
				if n, ok := deref(x.X.Type()).(*types.Named); ok && n.Obj().Name() == "cachedMetric" {
					seen[structFieldOf(x.X.Type(), x.Field).Name()] = true
				}
			case *ssa.Call:
				if g := staticCallee(x); g != nil && c.inModule(g) {
					visit(g, d-1)
				}
			}
		})
	}
	visit(m, depth)
	var out []string
	for k := range seen {
		out = append(out, k)
	}
	sort.Strings(out)
	return out
}

// promFieldsSet: cachedMetric fields stored (non-nil) in fn.
func (c *Ctx) promFieldsSet(fn *ssa.Function) map[string]bool {
	set := map[string]bool{}
	instrsOf(fn, func(in ssa.Instruction) {
		if st, ok := in.(*ssa.Store); ok {
			if f, base := addrField(st.Addr); f != nil && !isNilConst(st.Val) {
				if n, isN := deref(base.Type()).(*types.Named); isN && n.Obj().Name() == "cachedMetric" {
					set[f.Name()] = true
				}
			}
		}
	})
	return set
}

// timerFlavoursConsistent: for every cachedMetric built in AllocateTimer the bound method stored in
// reportTimer reads only fields that the same object has set.
func (c *Ctx) timerFlavoursConsistent(fn *ssa.Function) []string {
	var missing []string
	nObj := 0
	instrsOf(fn, func(in ssa.Instruction) {
		al, ok := in.(*ssa.Alloc)
		if !ok {
			return
		}
		if n, isN := deref(al.Type()).(*types.Named); !isN || n.Obj().Name() != "cachedMetric" {
			return
		}
		nObj++
		set := map[string]bool{}
		var bound *ssa.Function
		for _, r := range *al.Referrers() {
			fa, isFA := r.(*ssa.FieldAddr)
			if !isFA || fa.Referrers() == nil {
				continue
			}
			name := structFieldOf(fa.X.Type(), fa.Field).Name()
			for _, u := range *fa.Referrers() {
				if st, isSt := u.(*ssa.Store); isSt && st.Addr == ssa.Value(fa) && !isNilConst(st.Val) {
					set[name] = true
					if name == "reportTimer" {
						if mc, isMC := st.Val.(*ssa.MakeClosure); isMC {
							bound, _ = mc.Fn.(*ssa.Function)
							if len(mc.Bindings) != 1 || mc.Bindings[0] != ssa.Value(al) {
								missing = append(missing, "reportTimer(bound to another object)")
							}
						}
					}
				}
			}
		}
		if !set["reportTimer"] || bound == nil {
			missing = append(missing, "reportTimer")
			return
		}
		// the bound wrapper calls the real method
		var target *ssa.Function
		instrsOf(bound, func(i ssa.Instruction) {
			if call, isCall := i.(ssa.CallInstruction); isCall {
				if g := staticCallee(call); g != nil && c.inModule(g) {
					target = g
				}
			}
		})
		for _, f := range c.promFieldsRead(target, 1) {
			if !set[f] {
				missing = append(missing, f+" (read by "+target.Name()+")")
			}
		}
	})
	if nObj == 0 {
		missing = append(missing, "no handle is built")
	}
	return missing
}

// checkExclusiveGetOrCreate (A3, single critical section): Lock dominates lookup, registration and
// insert; Unlock is deferred; lookup and insert use the same key value.
func (c *Ctx) checkExclusiveGetOrCreate(rule string, fn *ssa.Function, fm *types.Var) {
	key := c.fnKey(fn)
	c.sawFunc(key)
	var lock ssa.Instruction
	hasDeferUnlock := false
	instrsOf(fn, func(in ssa.Instruction) {
		if lo := lockOpOf(in); lo != nil && canon(rootOf(lo.Addr)) == ssa.Value(fn.Params[0]) {
			switch {
			case lo.Op == "Lock" && lock == nil:
				if _, isDefer := in.(*ssa.Defer); !isDefer {
					lock = in
				}
			case lo.Op == "Unlock":
				if _, isDefer := in.(*ssa.Defer); isDefer {
					hasDeferUnlock = true
				}
			}
		}
	})
	if lock == nil {
		c.bad(rule, key, fn.Pos(), "the get-or-register function does not take the reporter's exclusive lock: two first users register the same vector twice (the second registration fails and the callback fires)")
		return
	}
	okAll := hasDeferUnlock
	why := "the exclusive lock is not released by a deferred Unlock (an early return leaves it held)"
	var lkKey, muKey ssa.Value
	instrsOf(fn, func(in ssa.Instruction) {
		switch x := in.(type) {
		case *ssa.Lookup:
			if f, _ := loadedField(x.X); f == fm {
				lkKey = x.Index
				if !dominates(lock, in) {
					okAll = false
					why = "the cache is probed before the exclusive lock is taken"
				}
			}
		case *ssa.MapUpdate:
			if f, _ := loadedField(x.Map); f == fm {
				muKey = x.Key
				if !dominates(lock, in) {
					okAll = false
					why = "the cache is written outside the exclusive lock"
				}
			}
		case *ssa.Call:
			if _, m := ifaceCall(x); m != nil && m.Name() == "Register" && !dominates(lock, in) {
				okAll = false
				why = "the vector is registered outside the exclusive lock"
			}
		}
		// no release in the middle
		if lo := lockOpOf(in); lo != nil && lo.Op == "Unlock" {
			if _, isDefer := in.(*ssa.Defer); !isDefer {
				okAll = false
				why = "the exclusive lock is released in the middle of probe/register/insert"
			}
		}
	})
	// what is cached must be a vector that was registered successfully: never nil, never on the
	// error edge of Register (a cached nil is later returned as a hit with a nil error)
	var regErr ssa.Value
	instrsOf(fn, func(in ssa.Instruction) {
		if call, ok := in.(*ssa.Call); ok {
			if _, m := ifaceCall(call); m != nil && m.Name() == "Register" {
				regErr = call
			}
		}
	})
	instrsOf(fn, func(in ssa.Instruction) {
		mu, ok := in.(*ssa.MapUpdate)
		if !ok {
			return
		}
		if f, _ := loadedField(mu.Map); f != fm {
			return
		}
		if isNilConst(mu.Value) {
			okAll = false
			why = "a nil vector is stored in the by-name cache: the next request for that id is served the nil entry with a nil error and the caller dereferences it"
			return
		}
		if regErr != nil && guardedByEdge(in, func(cond ssa.Value) (bool, bool) { m, nn := nilTest(regErr)(cond); return m, !nn }) == nil {
			okAll = false
			why = "a vector is cached on a path where its registration may have failed"
		}
	})
	if lkKey == nil || muKey == nil || canon(lkKey) != canon(muKey) {
		okAll = false
		why = "the cache is not probed and filled under the same id"
	}
	c.check(okAll, rule, key, lock.Pos(), "probe, register and insert in one exclusive section under the same id", why)
}

func (c *Ctx) checkPromObservations(rule string) {
	const pk = "prometheus"
	// ReportSamples: loop 0 <= i < value, one Observe(b.upperBound) per iteration
	if fn := c.fn(pk, "cachedHistogramBucket", "ReportSamples"); fn != nil {
		key := c.fnKey(fn)
		c.sawFunc(key)
		var obs []*ssa.Call
		instrsOf(fn, func(in ssa.Instruction) {
			if call, ok := in.(*ssa.Call); ok {
				if _, m := ifaceCall(call); m != nil && m.Name() == "Observe" {
					obs = append(obs, call)
				}
			}
		})
		ok := len(obs) == 1
		why := fmt.Sprintf("ReportSamples contains %d Observe calls", len(obs))
		if ok {
			o := obs[0]
			lp := innermostLoop(loopsOf(fn), o.Block())
			if f, base := loadedField(o.Call.Args[0]); f == nil || f.Name() != "upperBound" || canon(rootOf(base)) != ssa.Value(fn.Params[0]) {
				ok = false
				why = "the observed value is not the bucket's own upper bound"
			} else if lp == nil {
				ok = false
				why = "the observation is not repeated once per sample"
			} else {
				// induction: phi(0, i+1), condition i < value
				okLoop := false
				for _, in := range lp.Header.Instrs {
					phi, isPhi := in.(*ssa.Phi)
					if !isPhi {
						continue
					}
					zero, step := false, false
					for _, e := range phi.Edges {
						if k, isK := constInt(e); isK && k == 0 {
							zero = true
						}
						if bo, isB := e.(*ssa.BinOp); isB && bo.Op == token.ADD && bo.X == ssa.Value(phi) {
							if k, isK := constInt(bo.Y); isK && k == 1 {
								step = true
							}
						}
					}
					if iff, isIf := condOf(lp.Header); isIf && zero && step {
						op, x, y, isCmp := cmpOf(iff.Cond)
						if isCmp && op == token.GTR {
							x, y, op = y, x, token.LSS
						}
						if isCmp && op == token.LSS && x == ssa.Value(phi) && canon(y) == ssa.Value(fn.Params[1]) {
							okLoop = true
						}
					}
					// counting down: n = samples; n > 0; n-- runs max(samples, 0) times as well
					fromParam, down := false, false
					for _, e := range phi.Edges {
						if canon(e) == ssa.Value(fn.Params[1]) {
							fromParam = true
						}
						if bo, isB := e.(*ssa.BinOp); isB && bo.X == ssa.Value(phi) {
							if k, isK := constInt(bo.Y); isK && ((bo.Op == token.SUB && k == 1) || (bo.Op == token.ADD && k == -1)) {
								down = true
							}
						}
					}
					if iff, isIf := condOf(lp.Header); isIf && fromParam && down && len(phi.Edges) == 2 {
						op, x, y, isCmp := cmpOf(iff.Cond)
						if isCmp && op == token.LSS {
							x, y, op = y, x, token.GTR
						}
						if isCmp && x == ssa.Value(phi) {
							if k, isK := constInt(y); isK && ((op == token.GTR && k == 0) || (op == token.GEQ && k == 1)) {
								okLoop = true
							}
						}
					}
				}
				isLatch := func(b *ssa.BasicBlock) bool {
					for _, l := range lp.Latch {
						if l == b {
							return true
						}
					}
					return false
				}
				cnt := c.newPathCounter(func(i ssa.Instruction) bool { return i == ssa.Instruction(o) }, 0).region(fn, lp.Header, lp.Blocks, isLatch, 0)
				if !okLoop || cnt.min != 1 || cnt.max != 1 {
					ok = false
					why = "the loop is not `for i := 0; i < samples; i++ { Observe(upperBound) }` (one observation per sample)"
				}
			}
		}
		c.check(ok, rule, key, fn.Pos(), "exactly `samples` observations of the bucket's upper bound", why+": the histogram's counts differ from the number of recorded samples")
	} else {
		c.missing(rule, "prometheus.cachedHistogramBucket.ReportSamples")
	}
	// A19: every float64(Duration) that reaches an Observe / a bucket bound is divided by float64(time.Second)
	n := 0
	for _, fn := range c.funcsOfPkg(pk) {
		instrsOf(fn, func(in ssa.Instruction) {
			cv, ok := in.(*ssa.Convert)
			if !ok {
				return
			}
			src, isN := cv.X.Type().(*types.Named)
			if !isN || src.Obj().Pkg() == nil || src.Obj().Pkg().Path() != "time" || src.Obj().Name() != "Duration" {
				return
			}
			if b, isB := cv.Type().Underlying().(*types.Basic); !isB || b.Kind() != types.Float64 {
				return
			}
			if _, isConst := cv.X.(*ssa.Const); isConst {
				return
			}
			n++
			key := c.fnKey(fn)
			c.sawFunc(key)
			okDiv := false
			if cv.Referrers() != nil {
				for _, u := range *cv.Referrers() {
					if bo, isBO := u.(*ssa.BinOp); isBO && bo.Op == token.QUO && bo.X == ssa.Value(cv) {
						if k, isK := bo.Y.(*ssa.Const); isK && k.Value != nil && constant.Compare(constant.ToFloat(k.Value), token.EQL, constant.MakeFloat64(1e9)) {
							okDiv = true
						}
					}
				}
			}
			c.check(okDiv, rule+"-seconds", key, cv.Pos(), "duration converted to seconds (divided by float64(time.Second))",
				"a time.Duration is converted to float64 without dividing by float64(time.Second): Prometheus receives nanoseconds where seconds are expected", c.describe(cv))
		})
	}
	// the library's own conversion (DurationBuckets.AsValues, which produced the bounds the vector was
	// registered with) is float64(d)/float64(time.Second); Duration.Seconds() and friends round
	// differently (sec + nsec/1e9), so a bound replayed through them can fall one ulp above the
	// registered bound and be counted in the next bucket
	for _, fn := range c.funcsOfPkg(pk) {
		instrsOf(fn, func(in ssa.Instruction) {
			call, ok := in.(*ssa.Call)
			if !ok {
				return
			}
			g := staticCallee(call)
			if g == nil || g.Pkg == nil || g.Pkg.Pkg.Path() != "time" || g.Signature.Recv() == nil {
				return
			}
			if rn, isN := g.Signature.Recv().Type().(*types.Named); !isN || rn.Obj().Name() != "Duration" {
				return
			}
			switch g.Name() {
			case "Seconds", "Minutes", "Hours", "Milliseconds", "Microseconds", "Nanoseconds":
			default:
				return
			}
			// does the result reach an observation or a stored bound?
			seen := map[ssa.Value]bool{}
			var sink ssa.Instruction
			var follow func(v ssa.Value, depth int)
			follow = func(v ssa.Value, depth int) {
				if depth == 0 || seen[v] || v.Referrers() == nil || sink != nil {
					return
				}
				seen[v] = true
				for _, r := range *v.Referrers() {
					switch x := r.(type) {
					case *ssa.Convert:
						follow(x, depth-1)
					case *ssa.BinOp:
						follow(x, depth-1)
					case *ssa.Phi:
						follow(x, depth-1)
					case *ssa.MakeInterface:
						follow(x, depth-1)
					case *ssa.Store:
						if x.Val == v {
							if _, isFA := x.Addr.(*ssa.FieldAddr); isFA {
								sink = x
							}
							if _, isIA := x.Addr.(*ssa.IndexAddr); isIA {
								sink = x
							}
						}
					case ssa.CallInstruction:
						com := x.Common()
						if com.IsInvoke() && com.Method.Name() == "Observe" {
							sink = r
						} else if h := com.StaticCallee(); h != nil && h.Name() == "Observe" {
							sink = r
						}
					}
				}
			}
			follow(call, 5)
			if sink != nil {
				n++
				c.sawFunc(c.fnKey(fn))
				c.bad(rule+"-seconds", c.fnKey(fn)+":"+g.Name(), in.Pos(), "a duration is converted with Duration."+g.Name()+"() on its way to a Prometheus observation or bucket bound, while the bounds the vector was registered with come from float64(d)/float64(time.Second) (DurationBuckets.AsValues): the two round differently, so a sample replayed at a bucket's upper bound can land in the next bucket and the cumulative counts come up short", c.describe(in), "reaches: "+c.describe(sink))
			}
		})
	}
	c.floor(rule+"-seconds", n, 2)
}

func (c *Ctx) checkPromConfig(rule string) {
	fn := c.fn("prometheus", "Configuration", "NewReporter")
	if fn == nil {
		c.missing(rule, "prometheus.Configuration.NewReporter")
		return
	}
	key := c.fnKey(fn)
	c.sawFunc(key)
	fOnError := c.field("prometheus", "Configuration", "OnError")
	fOptErr := c.field("prometheus", "Options", "OnRegisterError")
	fCfgOptErr := c.field("prometheus", "ConfigurationOptions", "OnError")
	if fOnError == nil || fOptErr == nil || fCfgOptErr == nil {
		c.missing(rule, "prometheus Configuration.OnError / Options.OnRegisterError / ConfigurationOptions.OnError")
		return
	}
	panics := func(f *ssa.Function) bool {
		p := false
		instrsOf(f, func(in ssa.Instruction) {
			if _, ok := in.(*ssa.Panic); ok {
				p = true
			}
			if call, ok := in.(*ssa.Call); ok {
				if g := staticCallee(call); g != nil && (g.Name() == "Fatal" || g.Name() == "Fatalf" || g.Name() == "Exit" || g.Name() == "Panicf" || g.Name() == "Panic") {
					p = true
				}
			}
		})
		return p
	}
	table := map[string]bool{} // case string -> callback panics
	defaultPanics, haveDefault, progWins := false, false, false
	instrsOf(fn, func(in ssa.Instruction) {
		st, ok := in.(*ssa.Store)
		if !ok {
			return
		}
		if f, _ := addrField(st.Addr); f != fOptErr {
			return
		}
		// programmatic callback
		if lf, _ := loadedField(stripConv(st.Val)); lf == fCfgOptErr {
			if guardedByEdge(st, func(cond ssa.Value) (bool, bool) {
				op, x, y, okc := cmpOf(cond)
				if !okc || !isNilConst(y) {
					return false, false
				}
				xf, _ := loadedField(stripConv(x))
				return xf == fCfgOptErr, op == token.NEQ
			}) != nil {
				progWins = true
			} else {
				// ... or it is installed first, unconditionally, and every other store into the option
				// only fills the gap it left: `opts.X = configOpts.OnError; if opts.X == nil { opts.X = ... }`
				first := true
				onlyGaps := true
				instrsOf(fn, func(o ssa.Instruction) {
					os2, isSt := o.(*ssa.Store)
					if !isSt || os2 == st {
						return
					}
					if f2, _ := addrField(os2.Addr); f2 != fOptErr {
						return
					}
					if !dominates(st, os2) {
						first = false
					}
					if guardedByEdge(os2, func(cond ssa.Value) (bool, bool) {
						op, x, y, okc := cmpOf(cond)
						if !okc || !isNilConst(y) {
							return false, false
						}
						xf, _ := loadedField(stripConv(x))
						return xf == fCfgOptErr || xf == fOptErr, op == token.EQL
					}) == nil {
						onlyGaps = false
					}
				})
				if first && onlyGaps {
					progWins = true
				}
			}
			return
		}
		// the stored callback may be selected earlier and arrive through phis (a selection helper
		// that was inlined): each leaf is classified where it is committed
		type leaf struct {
			v  ssa.Value
			at *ssa.BasicBlock
		}
		var leaves []leaf
		var collect func(v ssa.Value, at *ssa.BasicBlock, depth int)
		collect = func(v ssa.Value, at *ssa.BasicBlock, depth int) {
			if phi, isPhi := stripConv(v).(*ssa.Phi); isPhi && depth > 0 {
				for i, e := range phi.Edges {
					collect(e, phi.Block().Preds[i], depth-1)
				}
				return
			}
			leaves = append(leaves, leaf{stripConv(v), at})
		}
		collect(st.Val, st.Block(), 4)
		for _, lf := range leaves {
			// the programmatic callback as one of the joined leaves: committed on the `!= nil` edge
			if f2, _ := loadedField(lf.v); f2 == fCfgOptErr {
				for _, b := range fn.Blocks {
					iff, isIf := condOf(b)
					if !isIf {
						continue
					}
					op, x, y, okc := cmpOf(iff.Cond)
					if !okc || !isNilConst(y) {
						continue
					}
					if xf, _ := loadedField(stripConv(x)); xf != fCfgOptErr {
						continue
					}
					idx := 1
					if op == token.NEQ {
						idx = 0
					}
					if edgeDominates(b, idx, lf.at) || b.Succs[idx] == lf.at || b == lf.at {
						progWins = true
					}
				}
				continue
			}
			var cb *ssa.Function
			switch v := lf.v.(type) {
			case *ssa.MakeClosure:
				cb, _ = v.Fn.(*ssa.Function)
			case *ssa.Function:
				cb = v
			}
			if cb == nil {
				continue
			}
			// which case selects it: a dominating `c.OnError == "lit"` true edge, else default
			lit := ""
			found := false
			for _, b := range fn.Blocks {
				iff, isIf := condOf(b)
				if !isIf {
					continue
				}
				op, x, y, isCmp := cmpOf(iff.Cond)
				if !isCmp || op != token.EQL {
					continue
				}
				s, isS := constString(y)
				xf, _ := loadedField(stripConv(x))
				if !isS || xf != fOnError {
					if s2, isS2 := constString(x); isS2 {
						if yf, _ := loadedField(stripConv(y)); yf == fOnError {
							s, isS, xf = s2, true, fOnError
						}
					}
				}
				if isS && xf == fOnError && edgeDominates(b, 0, lf.at) {
					lit, found = s, true
				}
			}
			if found {
				table[lit] = panics(cb)
			} else {
				haveDefault = true
				defaultPanics = panics(cb)
			}
		}
	})
	okAll := true
	for _, k := range []string{"stderr", "log", "none"} {
		p, has := table[k]
		if !has {
			okAll = false
			c.bad(rule, key+":"+k, fn.Pos(), fmt.Sprintf("onError: %q does not select a callback of its own", k))
		} else if p {
			okAll = false
			c.bad(rule, key+":"+k, fn.Pos(), fmt.Sprintf("the callback selected by onError: %q panics: a rejected registration crashes although the configuration asked for a non-panicking callback", k))
		}
	}
	for k := range table {
		if k != "stderr" && k != "log" && k != "none" {
			okAll = false
			c.bad(rule, key+":"+k, fn.Pos(), fmt.Sprintf("unexpected onError case %q", k))
		}
	}
	if !haveDefault || !defaultPanics {
		okAll = false
		c.bad(rule, key+":default", fn.Pos(), "the default error callback (no or unknown onError) does not panic as documented")
	}
	if !progWins {
		okAll = false
		c.bad(rule, key+":programmatic", fn.Pos(), "a callback given in ConfigurationOptions.OnError does not take precedence (it must be installed whenever it is non-nil)")
	}
	if okAll {
		c.ok(rule, key, fn.Pos(), "configOpts.OnError wins; stderr/log/none -> non-panicking callbacks; otherwise the panicking default")
	}
}

// promNameAlphabet: the characters a Prometheus-valid metric name ([a-zA-Z_:][a-zA-Z0-9_:]*) or label
// name ([a-zA-Z_][a-zA-Z0-9_]*) can contain.
func inPromAlphabet(r rune) bool {
	return r == '_' || r == ':' || (r >= 'a' && r <= 'z') || (r >= 'A' && r <= 'Z') || (r >= '0' && r <= '9')
}

// checkVectorIdentity (O6): the id under which the reporter caches a vector is injective over
// (name, set of label names) for all Prometheus-valid names - otherwise a metric gets another metric's
// vector and With(tags) panics on the label mismatch. Decided shape: the id is
// KeyForPrefixedStringMap(name, {key: const for key in tagKeys}) and the three separators that
// function writes are outside the Prometheus name alphabet; for another construction: every constant
// separator it writes contains a character outside that alphabet, and the keys are sorted.
func (c *Ctx) checkVectorIdentity(rule string) {
	const pk = "prometheus"
	fn := c.fn(pk, "", "canonicalMetricID")
	kfn := c.fn("", "", "KeyForPrefixedStringMap")
	if fn == nil || kfn == nil || len(fn.Params) != 2 {
		c.missing(rule, "prometheus.canonicalMetricID(name, tagKeys) / tally.KeyForPrefixedStringMap")
		return
	}
	key := c.fnKey(fn)
	c.sawFunc(key)
	name, keys := fn.Params[0], fn.Params[1]
	// separators of the key generator
	sepOK := true
	var seps []string
	for _, n := range []string{"prefixSplitter", "keyPairSplitter", "keyNameSplitter"} {
		k, _ := c.pkg("").Types.Scope().Lookup(n).(*types.Const)
		if k == nil {
			c.missing(rule, "tally."+n)
			return
		}
		v, exact := constant.Int64Val(constant.ToInt(k.Val()))
		if !exact || inPromAlphabet(rune(v)) {
			sepOK = false
		}
		seps = append(seps, fmt.Sprintf("%q", rune(v)))
	}
	if !sepOK {
		c.bad(rule, "tally key separators", kfn.Pos(), "a separator of the key generator ("+strings.Join(seps, ", ")+") is a character Prometheus metric or label names can contain: different (name, label names) pairs get the same vector id")
		return
	}
	// shape (a)
	shapeA := func() (bool, string) {
		rets := returnsOf(fn)
		if len(rets) == 0 {
			return false, "no return"
		}
		for _, r := range rets {
			call, ok := stripConvAll(r.Results[0]).(*ssa.Call)
			if !ok || staticCallee(call) != kfn {
				return false, "a result is not KeyForPrefixedStringMap(...)"
			}
			if canon(call.Call.Args[0]) != ssa.Value(name) {
				return false, "the prefix is not the metric name"
			}
			mk, isMk := canon(call.Call.Args[1]).(*ssa.MakeMap)
			if !isMk {
				return false, "the label-name set is not a map built in this function"
			}
			nUpd := 0
			okAll := true
			for _, ref := range *mk.Referrers() {
				mu, isMU := ref.(*ssa.MapUpdate)
				if !isMU {
					continue
				}
				nUpd++
				inLoop := false
				for _, fl := range fullIndexLoops(fn) {
					if canon(fl.lenArg) == ssa.Value(keys) && fl.loop.Blocks[mu.Block()] && fl.elemOf(mu.Key) && dominatesAllLatches(mu.Block(), fl.loop) {
						inLoop = true
					}
				}
				if !inLoop {
					okAll = false
				}
			}
			if nUpd != 1 || !okAll {
				return false, "the set is not filled with every element of tagKeys (one insertion per element, on every iteration)"
			}
		}
		return true, ""
	}
	if ok, _ := shapeA(); ok {
		c.ok(rule, key, fn.Pos(), "vector id = KeyForPrefixedStringMap(name, set of all label names); separators "+strings.Join(seps, ", ")+" cannot occur in Prometheus names")
		return
	}
	_, whyA := shapeA()
	// shape (b): another construction
	var consts []string
	bad := ""
	addConst := func(v ssa.Value) {
		k, ok := v.(*ssa.Const)
		if !ok || k.Value == nil {
			return
		}
		var s string
		switch k.Value.Kind() {
		case constant.String:
			s = constant.StringVal(k.Value)
		case constant.Int:
			if b, isB := k.Type().Underlying().(*types.Basic); isB && (b.Kind() == types.Byte || b.Kind() == types.Rune || b.Kind() == types.UntypedRune) {
				iv, _ := constant.Int64Val(k.Value)
				s = string(rune(iv))
			} else {
				return
			}
		default:
			return
		}
		consts = append(consts, fmt.Sprintf("%q", s))
		out := false
		for _, r := range s {
			if !inPromAlphabet(r) {
				out = true
			}
		}
		if !out {
			bad = fmt.Sprintf("%q", s)
		}
	}
	sorted := false
	bare := false
	instrsOf(fn, func(in ssa.Instruction) {
		switch x := in.(type) {
		case *ssa.BinOp:
			if x.Op == token.ADD {
				if b, ok := x.Type().Underlying().(*types.Basic); ok && b.Info()&types.IsString != 0 {
					addConst(x.X)
					addConst(x.Y)
				}
			}
		case *ssa.Call:
			nm := ""
			if g := staticCallee(x); g != nil {
				nm = g.Name()
				if g.Pkg != nil && (g.Pkg.Pkg.Path() == "sort" || g.Pkg.Pkg.Path() == "slices") || nm == "insertionSort" {
					sorted = true
				}
			}
			if strings.HasPrefix(nm, "Write") || isBuiltin(x, "append") || nm == "Join" {
				for _, a := range x.Call.Args {
					addConst(a)
				}
			}
		case *ssa.Return:
			if canon(stripConvAll(x.Results[0])) == ssa.Value(name) {
				bare = true
			}
		}
	})
	_ = bare
	switch {
	case bad != "":
		c.bad(rule, key, fn.Pos(), "the vector id separates the metric name from the label names with "+bad+", which consists of characters a Prometheus metric name can contain: e.g. the metric `a:b` without labels and the metric `a` with label `b` get the same id, the second one is handed the first one's vector and With(tags) panics on the label mismatch", "constants written: "+strings.Join(consts, " "), "not the reference shape: "+whyA)
	case len(consts) == 0:
		c.bad(rule, key, fn.Pos(), "the vector id is not built by KeyForPrefixedStringMap over the name and all label names, and writes no separator between them: different (name, label names) pairs get the same id", "not the reference shape: "+whyA)
	case !sorted:
		c.bad(rule, key, fn.Pos(), "the vector id is built from the label names in the order given (map iteration order) without sorting: the same metric gets different ids and is registered twice (the second registration fails)", "not the reference shape: "+whyA)
	default:
		c.ok(rule, key, fn.Pos(), "vector id built with separators "+strings.Join(consts, " ")+" that cannot occur in Prometheus names, over sorted label names")
	}
}

func stripConvAll(v ssa.Value) ssa.Value {
	for {
		v = stripConv(v)
		if cv, ok := v.(*ssa.Convert); ok {
			v = cv.X
			continue
		}
		return v
	}
}

func dominatesAllLatches(b *ssa.BasicBlock, l *loopInfo) bool {
	// ... and the loop is left only through its header (no break / return in the body)
	for blk := range l.Blocks {
		if blk == l.Header {
			continue
		}
		for _, sc := range blk.Succs {
			if !l.Blocks[sc] {
				return false
			}
		}
	}
	for _, la := range l.Latch {
		if !b.Dominates(la) {
			return false
		}
	}
	return true
}

// checkPromCollaborators (O7): the registerer every vector is registered with, the gatherer the HTTP
// handler gathers from and the error callback are never nil in a reporter NewReporter returns, and a
// default only fills a gap. Decided on the value that initialises the reporter's field, in either
// form the defaulting can take:
//   - option cells (`if opts.X == nil { opts.X = default }`, also through whole-struct copies of the
//     options): the load is preceded by a test `cell.X == nil` from whose nil edge every path to the
//     load stores into cell.X; every store into an option cell's X is on the nil edge of a test of that
//     cell's X (a caller's choice is never overridden) and stores a value that cannot be nil;
//   - local variables (phis): every phi edge carries the caller's value on a path where it was found
//     non-nil, or a value that cannot be nil on a path where the variable was found nil.
//
// "Cannot be nil": a closure / function, a package-level default of the Prometheus client (assumed),
// a call result, the result of a type assertion on its ok edge (a failed assertion yields a typed nil
// that compares unequal to nil later and is dereferenced when gathering).
func (c *Ctx) checkPromCollaborators(rule string) {
	const pk = "prometheus"
	fn := c.fn(pk, "", "NewReporter")
	if fn == nil || len(fn.Params) != 1 {
		c.missing(rule, "prometheus.NewReporter(opts)")
		return
	}
	c.sawFunc(c.fnKey(fn))
	for _, pr := range [][2]string{{"Registerer", "registerer"}, {"Gatherer", "gatherer"}, {"OnRegisterError", "onRegisterError"}} {
		fOpt := c.field(pk, "Options", pr[0])
		fRep := c.field(pk, "reporter", pr[1])
		if fOpt == nil || fRep == nil {
			c.missing(rule, "prometheus.Options."+pr[0]+" / reporter."+pr[1])
			continue
		}
		key := c.fnKey(fn) + ":" + pr[0]
		var problems []string
		var at ssa.Instruction
		fail := func(in ssa.Instruction, msg string) {
			problems = append(problems, msg)
			if in != nil {
				at = in
			}
		}
		// ---- helpers ---------------------------------------------------------------------------
		optCell := func(a ssa.Value) *ssa.Alloc { // a is &cell.X of a local options cell
			f, base := addrField(a)
			if f != fOpt {
				return nil
			}
			al, _ := base.(*ssa.Alloc)
			return al
		}
		cellLoad := func(v ssa.Value) *ssa.Alloc {
			if u, ok := v.(*ssa.UnOp); ok && u.Op == token.MUL {
				return optCell(u.X)
			}
			return nil
		}
		isOrig := func(v ssa.Value) bool { // the caller's own option, read from the parameter
			v = stripConv2(v)
			if f, ok := v.(*ssa.Field); ok {
				return structFieldOf(f.X.Type(), f.Field) == fOpt
			}
			return cellLoad(v) != nil
		}
		// nil test of value class `is`: returns (match, index of the successor taken when it IS nil)
		nilTestOf := func(cond ssa.Value, is func(ssa.Value) bool) (bool, int) {
			o, x, y, ok := cmpOf(cond)
			if !ok || (o != token.EQL && o != token.NEQ) {
				return false, 0
			}
			if isNilConst(x) {
				x, y = y, x
			}
			if !isNilConst(y) || !is(x) {
				return false, 0
			}
			if o == token.EQL {
				return true, 0
			}
			return true, 1
		}
		// the CFG edge pred -> to lies behind outcome `wantNil` of a nil test on a value of class `is`
		behind := func(pred, to *ssa.BasicBlock, is func(ssa.Value) bool, wantNil bool) bool {
			for _, b := range pred.Parent().Blocks {
				iff, isIf := condOf(b)
				if !isIf {
					continue
				}
				m, nilIdx := nilTestOf(iff.Cond, is)
				if !m {
					continue
				}
				idx := nilIdx
				if !wantNil {
					idx = 1 - nilIdx
				}
				if b == pred && b.Succs[idx] == to && b.Succs[1-idx] != to {
					return true
				}
				if edgeDominates(b, idx, pred) {
					return true
				}
			}
			return false
		}
		blockBehind := func(blk *ssa.BasicBlock, is func(ssa.Value) bool, wantNil bool) bool {
			for _, b := range blk.Parent().Blocks {
				iff, isIf := condOf(b)
				if !isIf {
					continue
				}
				m, nilIdx := nilTestOf(iff.Cond, is)
				if !m {
					continue
				}
				idx := nilIdx
				if !wantNil {
					idx = 1 - nilIdx
				}
				if edgeDominates(b, idx, blk) {
					return true
				}
			}
			return false
		}
		// structurally non-nil at a use on the edge pred -> to (to == nil: at block pred)
		var solid func(v ssa.Value, pred, to *ssa.BasicBlock) (bool, string)
		solid = func(v ssa.Value, pred, to *ssa.BasicBlock) (bool, string) {
			v = stripConv2(v)
			switch x := v.(type) {
			case *ssa.MakeClosure, *ssa.Function, *ssa.Call, *ssa.Alloc:
				return true, ""
			case *ssa.MakeInterface:
				if !nilable(x.X.Type()) {
					return true, ""
				}
				return solid(x.X, pred, to) // an interface wrapping a nil pointer is as bad as nil
			case *ssa.UnOp:
				if g, isG := x.X.(*ssa.Global); isG && x.Op == token.MUL && g.Pkg != fn.Pkg {
					return true, "" // a package-level default of the Prometheus client (assumption: not nil)
				}
			case *ssa.Extract:
				if ta, isTA := x.Tuple.(*ssa.TypeAssert); isTA && ta.CommaOk && x.Index == 0 {
					okEdge := false
					for _, b := range pred.Parent().Blocks {
						iff, isIf := condOf(b)
						if !isIf {
							continue
						}
						e, isE := iff.Cond.(*ssa.Extract)
						if !isE || e.Tuple != x.Tuple || e.Index != 1 {
							continue
						}
						if edgeDominates(b, 0, pred) || (to != nil && b == pred && b.Succs[0] == to && b.Succs[1] != to) {
							okEdge = true
						}
					}
					if okEdge {
						return true, ""
					}
					return false, "the result of a type assertion is used without being on its ok edge: a failed assertion yields a typed nil, which a later `== nil` test does not see, and gathering dereferences it"
				}
			}
			return false, "a value that is not known to be non-nil becomes the reporter's " + pr[1]
		}
		// ---- option cells ----------------------------------------------------------------------
		nCellStores := 0
		calleeOf := func(v ssa.Value) *ssa.Function {
			call, ok := v.(*ssa.Call)
			if !ok {
				return nil
			}
			g := call.Call.StaticCallee()
			if g == nil {
				if mc, isMC := call.Call.Value.(*ssa.MakeClosure); isMC {
					g, _ = mc.Fn.(*ssa.Function)
				}
			}
			if g == nil || g.Blocks == nil || (g.Pkg != fn.Pkg && g.Parent() == nil) {
				return nil
			}
			return g
		}
		fns := []*ssa.Function{fn}
		instrsOf(fn, func(in ssa.Instruction) {
			if st, ok := in.(*ssa.Store); ok {
				if _, isAl := st.Addr.(*ssa.Alloc); isAl {
					if g := calleeOf(st.Val); g != nil {
						fns = append(fns, g)
					}
				}
			}
		})
		for _, f := range fns {
			instrsOf(f, func(in ssa.Instruction) {
				st, ok := in.(*ssa.Store)
				if !ok {
					return
				}
				cell := optCell(st.Addr)
				if cell == nil {
					return
				}
				nCellStores++
				sameCell := func(v ssa.Value) bool { return cellLoad(v) == cell }
				if !blockBehind(st.Block(), sameCell, true) {
					fail(st, "a value is stored into the option "+pr[0]+" on a path where the caller's own "+pr[0]+" was not found to be nil: the caller's choice is overridden (or a missing one is not replaced)")
				}
				if ok, why := solid(st.Val, st.Block(), nil); !ok {
					fail(st, why)
				}
			})
		}
		var cellCovered func(cell *ssa.Alloc, load ssa.Instruction, depth int) bool
		cellCovered = func(cell *ssa.Alloc, load ssa.Instruction, depth int) bool {
			if depth == 0 {
				return false
			}
			sameCell := func(v ssa.Value) bool { return cellLoad(v) == cell }
			var whole []*ssa.Store
			for _, r := range *cell.Referrers() {
				if st, ok := r.(*ssa.Store); ok && st.Addr == ssa.Value(cell) {
					whole = append(whole, st)
				}
			}
			for _, b := range load.Parent().Blocks {
				iff, isIf := condOf(b)
				if !isIf {
					continue
				}
				m, nilIdx := nilTestOf(iff.Cond, sameCell)
				if !m || !dominates(iff, load) {
					continue
				}
				clobbered := false
				for _, w := range whole {
					if !dominates(w, iff) && !dominates(load, w) {
						clobbered = true
					}
				}
				succ := b.Succs[nilIdx]
				if clobbered || len(succ.Instrs) == 0 {
					continue
				}
				if reachAvoiding(succ.Instrs[0], true, func(i ssa.Instruction) bool { return i == load }, func(i ssa.Instruction) bool {
					st, ok := i.(*ssa.Store)
					return ok && optCell(st.Addr) == cell
				}) == nil {
					return true
				}
			}
			// the options were copied as a whole from another cell that was defaulted before the copy
			var last *ssa.Store
			for _, w := range whole {
				if dominates(w, load) && (last == nil || dominates(last, w)) {
					last = w
				}
			}
			if last != nil {
				if u, ok := last.Val.(*ssa.UnOp); ok && u.Op == token.MUL {
					if src, isAl := u.X.(*ssa.Alloc); isAl && src != cell {
						return cellCovered(src, u, depth-1)
					}
				}
				// ... or are the result of a helper that returns its own, defaulted options
				if g := calleeOf(last.Val); g != nil {
					rets := returnsOf(g)
					okAll := len(rets) > 0
					for _, r := range rets {
						okRet := false
						if len(r.Results) == 1 {
							if u, ok := r.Results[0].(*ssa.UnOp); ok && u.Op == token.MUL {
								if src, isAl := u.X.(*ssa.Alloc); isAl {
									okRet = cellCovered(src, u, depth-1)
								}
							}
						}
						if !okRet {
							okAll = false
						}
					}
					return okAll
				}
			}
			return false
		}
		// ---- local variables (phis) ------------------------------------------------------------
		chain := map[ssa.Value]bool{}
		var collect func(v ssa.Value)
		collect = func(v ssa.Value) {
			v = stripConv2(v)
			if chain[v] {
				return
			}
			if phi, ok := v.(*ssa.Phi); ok {
				chain[v] = true
				for _, e := range phi.Edges {
					collect(e)
				}
			}
		}
		inChainOrOrig := func(v ssa.Value) bool {
			v = stripConv2(v)
			return chain[v] || isOrig(v)
		}
		var valueOK func(v ssa.Value, pred, to *ssa.BasicBlock, seen map[ssa.Value]bool) bool
		valueOK = func(v ssa.Value, pred, to *ssa.BasicBlock, seen map[ssa.Value]bool) bool {
			v = stripConv2(v)
			if phi, ok := v.(*ssa.Phi); ok {
				if seen[v] {
					return true
				}
				seen[v] = true
				// the whole variable was found non-nil on the way here
				if to != nil && behind(pred, to, func(x ssa.Value) bool { return stripConv2(x) == v }, false) {
					return true
				}
				okAll := true
				for i, e := range phi.Edges {
					if !valueOK(e, phi.Block().Preds[i], phi.Block(), seen) {
						okAll = false
					}
				}
				return okAll
			}
			if isOrig(v) {
				if cell := cellLoad(v); cell != nil {
					if cellCovered(cell, v.(ssa.Instruction), 4) {
						return true
					}
				}
				// the caller's value, on a path where it (or the variable holding it) was found non-nil
				if to != nil && behind(pred, to, func(x ssa.Value) bool {
					return stripConv2(x) == v || (isOrig(x) && isOrig(v) && cellLoad(x) == cellLoad(v)) || chain[stripConv2(x)]
				}, false) {
					return true
				}
				fail(asInstr(v), "the caller's "+pr[0]+" becomes the reporter's "+pr[1]+" on a path where it was not found to be non-nil and no default replaced it: a reporter built from Options without "+pr[0]+" dereferences nil when it registers, gathers or reports a registration error")
				return false
			}
			// a default: cannot be nil, and only fills a gap
			if ok, why := solid(v, pred, to); !ok {
				fail(asInstr(v), why)
				return false
			}
			if to != nil && !behind(pred, to, inChainOrOrig, true) {
				fail(asInstr(v), "a default replaces the "+pr[0]+" on a path where the caller's own "+pr[0]+" was not found to be nil: the caller's choice is overridden")
				return false
			}
			return true
		}
		// ---- the value that reaches the reporter -------------------------------------------------
		var init *ssa.Store
		instrsOf(fn, func(in ssa.Instruction) {
			if st, ok := in.(*ssa.Store); ok {
				if f, _ := addrField(st.Addr); f == fRep {
					init = st
				}
			}
		})
		if init == nil {
			fail(nil, "no initialisation of reporter."+pr[1]+" found in NewReporter")
		} else {
			v := stripConv2(init.Val)
			collect(v)
			switch {
			case cellLoad(v) != nil:
				if !cellCovered(cellLoad(v), v.(ssa.Instruction), 4) {
					fail(init, "no test `opts."+pr[0]+" == nil` whose nil edge always stores a default precedes the construction of the reporter: a reporter built from Options without "+pr[0]+" dereferences nil when it registers, gathers or reports a registration error")
				}
			default:
				if _, isPhi := v.(*ssa.Phi); isPhi {
					valueOK(v, init.Block(), nil, map[ssa.Value]bool{})
				} else if isOrig(v) {
					fail(init, "reporter."+pr[1]+" is the caller's "+pr[0]+" as given: a reporter built from Options without "+pr[0]+" dereferences nil when it registers, gathers or reports a registration error")
				} else if ok, why := solid(v, init.Block(), nil); !ok {
					fail(init, why)
				}
			}
		}
		if len(problems) > 0 {
			pos := fn.Pos()
			tr := ""
			if at != nil {
				pos, tr = at.Pos(), c.describe(at)
			}
			c.bad(rule, key, pos, problems[0], tr)
		} else {
			c.ok(rule, key, init.Pos(), fmt.Sprintf("reporter.%s is the caller's %s where that is non-nil and otherwise a default that cannot be nil; defaults only fill a gap (%d stores into option cells)", pr[1], pr[0], nCellStores))
		}
	}
}

// checkPromBucketBound (O4): the bound a Prometheus bucket handle replays its samples at is the
// bucket's UPPER bound parameter on every path (Prometheus buckets are cumulative with inclusive `le`:
// a sample replayed at any smaller value - the lower bound of the overflow bucket, say - is also
// counted at the bounds below the bucket it was recorded in).
func (c *Ctx) checkPromBucketBound(rule string) {
	const pk = "prometheus"
	fUB := c.field(pk, "cachedHistogramBucket", "upperBound")
	if fUB == nil {
		c.missing(rule, "prometheus.cachedHistogramBucket.upperBound")
		return
	}
	n := 0
	for _, name := range []string{"ValueBucket", "DurationBucket"} {
		fn := c.fn(pk, "cachedMetric", name)
		if fn == nil || len(fn.Params) != 3 {
			c.missing(rule, "prometheus.cachedMetric."+name+"(lower, upper)")
			continue
		}
		key := c.fnKey(fn)
		c.sawFunc(key)
		lower, upper := ssa.Value(fn.Params[1]), ssa.Value(fn.Params[2])
		var stores []*ssa.Store
		instrsOf(fn, func(in ssa.Instruction) {
			if st, ok := in.(*ssa.Store); ok {
				if f, _ := addrField(st.Addr); f == fUB {
					stores = append(stores, st)
				}
			}
		})
		if len(stores) == 0 {
			c.bad(rule, key, fn.Pos(), "the bucket handle's bound is not set")
			continue
		}
		ok := true
		for _, st := range stores {
			n++
			usesUpper, usesOther := false, ""
			seen := map[ssa.Value]bool{}
			var walk func(v ssa.Value, d int)
			walk = func(v ssa.Value, d int) {
				if d == 0 || seen[v] {
					return
				}
				seen[v] = true
				v = canon(v)
				switch x := v.(type) {
				case *ssa.Parameter:
					if v == upper {
						usesUpper = true
					} else if v == lower {
						usesOther = "the lower bound"
					} else {
						usesOther = "another parameter"
					}
				case *ssa.Const:
				case *ssa.Convert:
					walk(x.X, d-1)
				case *ssa.ChangeType:
					walk(x.X, d-1)
				case *ssa.BinOp:
					walk(x.X, d-1)
					walk(x.Y, d-1)
				case *ssa.Phi:
					for _, e := range x.Edges {
						walk(e, d-1)
					}
				case *ssa.Call:
					for _, a := range x.Call.Args {
						walk(a, d-1)
					}
				case *ssa.UnOp:
					if x.Op == token.MUL {
						if al, isAl := x.X.(*ssa.Alloc); isAl && al.Referrers() != nil {
							for _, r := range *al.Referrers() {
								if s2, isSt := r.(*ssa.Store); isSt && s2.Addr == ssa.Value(al) {
									walk(s2.Val, d-1)
								}
							}
							return
						}
					}
					usesOther = "a value read from memory"
				default:
					usesOther = fmt.Sprintf("%T", v)
				}
			}
			walk(st.Val, 10)
			if !usesUpper || usesOther != "" {
				ok = false
				c.bad(rule, key, st.Pos(), "the bound the bucket handle replays its samples at is not computed from the bucket's upper bound alone (it depends on "+nz(usesOther, "nothing of the upper bound")+"): samples replayed below their bucket's upper bound are also counted at the smaller bounds (cumulative `le` buckets)", c.describe(st))
			}
		}
		if ok {
			c.ok(rule, key, fn.Pos(), "the handle's bound is computed from the upper-bound parameter only, on every path")
		}
	}
	c.floor(rule, n, 2)
}

func nz(s, alt string) string {
	if s == "" {
		return alt
	}
	return s
}

// checkPromSeriesStay (O9): a vector, once registered, stays registered and cached for the reporter's
// lifetime - nothing in the package unregisters a collector or deletes from the by-id maps. (The root
// scope closes a reporter that implements io.Closer right after the final report pass: a Close that
// unregisters makes everything that pass delivered disappear from the next gather.)
func (c *Ctx) checkPromSeriesStay(rule string) {
	const pk = "prometheus"
	fields := map[*types.Var]bool{}
	for _, n := range []string{"counters", "gauges", "timers"} {
		if f := c.field(pk, "reporter", n); f != nil {
			fields[f] = true
		}
	}
	if len(fields) != 3 {
		c.missing(rule, "prometheus.reporter.{counters,gauges,timers}")
		return
	}
	nFuncs, nBad := 0, 0
	for _, fn := range c.funcsOfPkg(pk) {
		fn := fn
		nFuncs++
		instrsOf(fn, func(in ssa.Instruction) {
			ci, ok := in.(ssa.CallInstruction)
			if !ok {
				return
			}
			com := ci.Common()
			name := ""
			if com.IsInvoke() {
				name = com.Method.Name()
			} else if g := com.StaticCallee(); g != nil {
				name = g.Name()
			}
			if name == "Unregister" {
				nBad++
				c.bad(rule, c.fnKey(fn)+":unregister", in.Pos(), "a registered collector is unregistered: the values the last report pass delivered to it are gone from the next gather (the root scope closes an io.Closer reporter right after its final pass)", c.describe(in))
			}
			if b, isB := com.Value.(*ssa.Builtin); isB && b.Name() == "delete" && len(com.Args) > 0 {
				if f, _ := loadedField(stripConv(com.Args[0])); fields[f] {
					nBad++
					c.bad(rule, c.fnKey(fn)+":delete", in.Pos(), "an entry is deleted from the reporter's by-id vector cache: the next use of that metric registers a second collector for the same name (rejected by Prometheus) instead of finding the existing one", c.describe(in))
				}
			}
		})
	}
	if nBad == 0 {
		c.ok(rule, pk, token.NoPos, fmt.Sprintf("no Unregister call and no deletion from the vector caches in %d functions", nFuncs))
	}
}

// checkPromConfiguredBuckets (O5): the default timer buckets / objectives handed to NewReporter by the
// configuration are exactly the configured ones: the bucket slice is built by appending onto an EMPTY
// slice (a slice pre-sized with make(n) and then appended to starts with n zero bounds - Prometheus
// panics on the duplicate bound, past the error callback).
func (c *Ctx) checkPromConfiguredBuckets(rule string) {
	const pk = "prometheus"
	fn := c.fn(pk, "Configuration", "NewReporter")
	fOpt := c.field(pk, "Options", "DefaultHistogramBuckets")
	if fn == nil || fOpt == nil {
		c.missing(rule, "prometheus.Configuration.NewReporter / Options.DefaultHistogramBuckets")
		return
	}
	key := c.fnKey(fn) + ":buckets"
	var st *ssa.Store
	instrsOf(fn, func(in ssa.Instruction) {
		if s, ok := in.(*ssa.Store); ok {
			if f, _ := addrField(s.Addr); f == fOpt {
				st = s
			}
		}
	})
	if st == nil {
		c.bad(rule, key, fn.Pos(), "the configured default histogram buckets are not handed to the reporter")
		return
	}
	nApp := 0
	why := ""
	seen := map[ssa.Value]bool{}
	var walk func(v ssa.Value, d int) bool
	walk = func(v ssa.Value, d int) bool {
		v = canon(stripConv(v))
		if d == 0 {
			why = "origin not traced"
			return false
		}
		if seen[v] {
			return true
		}
		seen[v] = true
		switch x := v.(type) {
		case *ssa.Phi:
			for _, e := range x.Edges {
				if !walk(e, d-1) {
					return false
				}
			}
			return true
		case *ssa.Call:
			if isBuiltin(x, "append") {
				nApp++
				return walk(x.Call.Args[0], d-1)
			}
		}
		if emptyPrivateSlice(v) {
			return true
		}
		if ms, ok := v.(*ssa.MakeSlice); ok {
			why = "the slice the bounds are appended to is created with a non-zero length (" + c.describe(ms) + "): the reporter gets that many zero bounds in front of the configured ones - two equal bounds make Prometheus panic when the first timer is created, past the error callback"
			return false
		}
		why = fmt.Sprintf("the bucket slice does not start empty (%T)", v)
		return false
	}
	ok := walk(st.Val, 10) && nApp > 0
	if ok {
		c.ok(rule, key, st.Pos(), "default timer buckets = the configured bounds appended, in order, onto an empty slice")
	} else {
		if why == "" {
			why = "the configured bounds are not appended to the slice"
		}
		c.bad(rule, key, st.Pos(), "the default timer buckets handed to the reporter are not exactly the configured bounds: "+why, c.describe(st))
	}
}

// checkPromRegisteredBounds: the bounds a histogram vector is registered with are the bounds the core
// bins by - the reporter hands Prometheus the caller's list as it is. In histogramVec the Buckets field
// of the HistogramOpts literal is the function's own []float64 parameter, and AllocateHistogram passes
// buckets.AsValues() of the specification it was given. A list that is filtered, merged or rounded on
// the way registers a vector that lacks bounds the core will still report samples at.
func (c *Ctx) checkPromRegisteredBounds(rule string) {
	const pk = "prometheus"
	hv := c.fn(pk, "reporter", "histogramVec")
	ah := c.fn(pk, "reporter", "AllocateHistogram")
	if hv == nil || ah == nil {
		c.missing(rule, "prometheus.reporter.histogramVec / AllocateHistogram")
		return
	}
	// histogramVec: the []float64 parameter
	var bp *ssa.Parameter
	for _, p := range hv.Params {
		if sl, ok := p.Type().Underlying().(*types.Slice); ok {
			if b, isB := sl.Elem().Underlying().(*types.Basic); isB && b.Kind() == types.Float64 {
				bp = p
			}
		}
	}
	key := c.fnKey(hv)
	c.sawFunc(key)
	n := 0
	if bp == nil {
		c.bad(rule, key, hv.Pos(), "histogramVec has no []float64 parameter for the bounds")
	} else {
		okAll := true
		instrsOf(hv, func(in ssa.Instruction) {
			st, ok := in.(*ssa.Store)
			if !ok {
				return
			}
			f, _ := addrField(st.Addr)
			if f == nil || f.Name() != "Buckets" || f.Pkg() == nil || !strings.HasSuffix(f.Pkg().Path(), "client_golang/prometheus") {
				return
			}
			n++
			if canon(st.Val) != ssa.Value(bp) {
				okAll = false
				c.bad(rule, key, st.Pos(), "the vector is registered with bounds that are not the list histogramVec was given (filtered, merged, rounded or re-sorted on the way): Prometheus lacks - or has other - bounds than those the core reports samples at, so the cumulative count at a bound of the specification is missing or wrong", c.describe(st))
			}
		})
		if okAll && n > 0 {
			c.ok(rule, key, hv.Pos(), "HistogramOpts.Buckets is the bounds parameter itself")
		}
	}
	// AllocateHistogram: the argument is spec.AsValues()
	key2 := c.fnKey(ah)
	c.sawFunc(key2)
	mVals := c.ifaceMethod("", "Buckets", "AsValues")
	var spec ssa.Value
	for _, p := range ah.Params {
		if nt, ok := p.Type().(*types.Named); ok && nt.Obj().Name() == "Buckets" {
			spec = p
		}
	}
	found, okArg := false, true
	instrsOf(ah, func(in ssa.Instruction) {
		call, ok := in.(*ssa.Call)
		if !ok || staticCallee(call) != hv {
			return
		}
		found = true
		n++
		for i, p := range hv.Params {
			if p != bp || i >= len(call.Call.Args) {
				continue
			}
			src, isCall := canon(call.Call.Args[i]).(*ssa.Call)
			if !isCall {
				okArg = false
				continue
			}
			recv, m := ifaceCall(src)
			if m == nil || m != mVals || canon(recv) != spec {
				okArg = false
			}
		}
	})
	c.check(found && okArg, rule, key2, ah.Pos(), "AllocateHistogram registers the vector with buckets.AsValues() of the specification it was given",
		"AllocateHistogram does not hand histogramVec the AsValues() of its own specification: the vector's bounds are not the histogram's")
	c.floor(rule, n, 2)
}
