package main

import (
	_ "embed"
	"fmt"
	"go/ast"
	"go/token"
	"go/types"
	"os"
	"sort"
	"strings"

	"golang.org/x/tools/go/callgraph"
	"golang.org/x/tools/go/callgraph/cha"
	"golang.org/x/tools/go/callgraph/vta"
	"golang.org/x/tools/go/packages"
	"golang.org/x/tools/go/ssa"
	"golang.org/x/tools/go/ssa/ssautil"
)

// modPath is the import path of the module under analysis.
const modPath = "github.com/uber-go/tally/v4"

// Program is the type-checked, SSA-built view of /repo that every rule reads.
type Program struct {
	RepoDir string
	Fset    *token.FileSet
	Pkgs    []*packages.Package          // packages of the module under analysis only
	ByPath  map[string]*packages.Package // import path -> package (module packages)
	SSA     *ssa.Program
	SSAPkg  map[string]*ssa.Package
	// AllFuncs lists every source-level function (incl. anonymous ones) of the
	// module packages, sorted by position, for deterministic iteration.
	AllFuncs []*ssa.Function
	GOARCH   string
	cg       *callgraph.Graph // VTA call graph, built on first use
}

// pkgPath maps a short name ("", "m3", "m3/thriftudp") to the import path.
func pkgPath(short string) string {
	if short == "" || short == "tally" {
		return modPath
	}
	return modPath + "/" + short
}

func loadProgram(repoDir, goarch string, tests bool) (*Program, error) {
	return loadProgramOverlay(repoDir, goarch, tests, nil)
}

// loadProgramOverlay is loadProgram with some files replaced by in-memory contents (inlined view).
func loadProgramOverlay(repoDir, goarch string, tests bool, overlay map[string][]byte) (*Program, error) {
	env := append(os.Environ(),
		"GOFLAGS=-mod=mod", "GOPROXY=off", "GOSUMDB=off", "GOWORK=off", "GOTOOLCHAIN=local")
	if goarch != "" {
		env = append(env, "GOARCH="+goarch)
	}
	fset := token.NewFileSet()
	cfg := &packages.Config{
		Mode:  packages.LoadAllSyntax,
		Dir:   repoDir,
		Fset:  fset,
		Env:   env,
		Tests: tests,

		Overlay: overlay,
	}
	pkgs, err := packages.Load(cfg, "./...")
	if err != nil {
		return nil, fmt.Errorf("packages.Load: %v", err)
	}
	var errs []string
	packages.Visit(pkgs, nil, func(p *packages.Package) {
		if !strings.HasPrefix(p.PkgPath, modPath) {
			return
		}
		for _, e := range p.Errors {
			errs = append(errs, e.Error())
		}
	})
	if len(errs) > 0 {
		return nil, fmt.Errorf("type errors in %s: %s", repoDir, strings.Join(errs, "; "))
	}
	prog, _ := ssautil.AllPackages(pkgs, ssa.InstantiateGenerics)
	prog.Build()

	p := &Program{
		RepoDir: repoDir,
		Fset:    fset,
		ByPath:  map[string]*packages.Package{},
		SSA:     prog,
		SSAPkg:  map[string]*ssa.Package{},
		GOARCH:  goarch,
	}
	for _, pk := range pkgs {
		if !strings.HasPrefix(pk.PkgPath, modPath) {
			continue
		}
		// With Tests=true the same path appears several times; prefer the
		// non-test variant for anchors.
		if strings.Contains(pk.ID, "[") || strings.HasSuffix(pk.ID, ".test") || strings.HasSuffix(pk.PkgPath, "_test") {
			continue
		}
		if _, dup := p.ByPath[pk.PkgPath]; dup {
			continue
		}
		p.Pkgs = append(p.Pkgs, pk)
		p.ByPath[pk.PkgPath] = pk
		if sp := prog.Package(pk.Types); sp != nil {
			p.SSAPkg[pk.PkgPath] = sp
		}
	}
	sort.Slice(p.Pkgs, func(i, j int) bool { return p.Pkgs[i].PkgPath < p.Pkgs[j].PkgPath })
	if len(p.Pkgs) < 18 {
		return nil, fmt.Errorf("only %d packages of %s loaded from %s (expected >= 18)", len(p.Pkgs), modPath, repoDir)
	}
	for fn := range ssautil.AllFunctions(prog) {
		if fn.Synthetic != "" || fn.Blocks == nil {
			continue // wrappers, thunks, bodiless
		}
		pk := fn.Package()
		if pk == nil || pk.Pkg == nil {
			continue
		}
		if _, ok := p.ByPath[pk.Pkg.Path()]; !ok {
			continue
		}
		p.AllFuncs = append(p.AllFuncs, fn)
	}
	sort.Slice(p.AllFuncs, func(i, j int) bool {
		a, b := p.AllFuncs[i], p.AllFuncs[j]
		pa, pb := fset.Position(a.Pos()), fset.Position(b.Pos())
		if pa.Filename != pb.Filename {
			return pa.Filename < pb.Filename
		}
		if pa.Offset != pb.Offset {
			return pa.Offset < pb.Offset
		}
		return a.String() < b.String()
	})
	return p, nil
}

// ---- lookups -------------------------------------------------------------------------------

func (p *Program) pkg(short string) *packages.Package { return p.ByPath[pkgPath(short)] }

func (p *Program) ssaPkg(short string) *ssa.Package { return p.SSAPkg[pkgPath(short)] }

// named returns the named type pkg.name, or nil.
func (p *Program) named(short, name string) *types.Named {
	pk := p.pkg(short)
	if pk == nil {
		return nil
	}
	obj := pk.Types.Scope().Lookup(name)
	if obj == nil {
		return nil
	}
	tn, ok := obj.(*types.TypeName)
	if !ok {
		return nil
	}
	n, _ := tn.Type().(*types.Named)
	return n
}

// field returns the struct field pkg.typ.name (a *types.Var), or nil.
func (p *Program) field(short, typ, name string) *types.Var {
	n := p.named(short, typ)
	if n == nil {
		return nil
	}
	st, ok := n.Underlying().(*types.Struct)
	if !ok {
		return nil
	}
	for i := 0; i < st.NumFields(); i++ {
		if st.Field(i).Name() == name {
			return st.Field(i)
		}
	}
	// Renamed?  The reference tree's field had a type no other field of the struct has
	// (fieldhints.txt); when exactly one field of today's struct has that type and its name is not
	// itself a reference name of the struct, it is that field under another name.
	want, ok := fieldHints[pkgPath(short)+" "+typ+" "+name]
	if !ok {
		return nil
	}
	var found *types.Var
	for i := 0; i < st.NumFields(); i++ {
		f := st.Field(i)
		if types.TypeString(f.Type(), nil) != want {
			continue
		}
		if _, isRef := fieldHints[pkgPath(short)+" "+typ+" "+f.Name()]; isRef {
			return nil
		}
		if found != nil {
			return nil
		}
		found = f
	}
	return found
}

//go:embed fieldhints.txt
var fieldHintsText string

// fieldHints maps "pkgpath type field" of the reference tree to the field's type, for the fields
// whose type is unique within their struct.
var fieldHints = func() map[string]string {
	m := map[string]string{}
	for _, ln := range strings.Split(fieldHintsText, "\n") {
		parts := strings.SplitN(ln, "\t", 2)
		if len(parts) == 2 {
			m[parts[0]] = parts[1]
		}
	}
	return m
}()

// dumpFieldHints prints the table behind fieldHints for the loaded packages.
func dumpFieldHints(p *Program) []string {
	var out []string
	for _, pk := range p.Pkgs {
		sc := pk.Types.Scope()
		for _, nm := range sc.Names() {
			tn, ok := sc.Lookup(nm).(*types.TypeName)
			if !ok {
				continue
			}
			st, ok := tn.Type().Underlying().(*types.Struct)
			if !ok {
				continue
			}
			count := map[string]int{}
			for i := 0; i < st.NumFields(); i++ {
				count[types.TypeString(st.Field(i).Type(), nil)]++
			}
			for i := 0; i < st.NumFields(); i++ {
				ts := types.TypeString(st.Field(i).Type(), nil)
				if count[ts] == 1 {
					out = append(out, pk.PkgPath+" "+nm+" "+st.Field(i).Name()+"\t"+ts)
				}
			}
		}
	}
	sort.Strings(out)
	return out
}

// fn returns the function pkg.name (recv == "") or the method recv.name declared in pkg
// (pointer or value receiver), or nil.
func (p *Program) fn(short, recv, name string) *ssa.Function {
	sp := p.ssaPkg(short)
	if sp == nil {
		return nil
	}
	if recv == "" {
		return sp.Func(name)
	}
	n := p.named(short, recv)
	if n == nil {
		return nil
	}
	for _, t := range []types.Type{types.NewPointer(n), n} {
		ms := p.SSA.MethodSets.MethodSet(t)
		for i := 0; i < ms.Len(); i++ {
			sel := ms.At(i)
			if sel.Obj().Name() == name && sel.Obj().Pkg() == n.Obj().Pkg() {
				// Only methods declared directly on this type (not promoted).
				if len(sel.Index()) == 1 {
					if f := p.SSA.MethodValue(sel); f != nil {
						// unwrap the pointer-receiver wrapper of a value method
						if f.Synthetic != "" {
							if fo, ok := sel.Obj().(*types.Func); ok {
								if g := p.SSA.FuncValue(fo); g != nil {
									return g
								}
							}
						}
						return f
					}
				}
			}
		}
	}
	return nil
}

// iface returns the interface type pkg.name.
func (p *Program) iface(short, name string) *types.Interface {
	n := p.named(short, name)
	if n == nil {
		return nil
	}
	it, _ := n.Underlying().(*types.Interface)
	return it
}

// ifaceMethod returns the *types.Func of interface pkg.name's method m (incl. embedded).
func (p *Program) ifaceMethod(short, name, m string) *types.Func {
	it := p.iface(short, name)
	if it == nil {
		return nil
	}
	for i := 0; i < it.NumMethods(); i++ {
		if it.Method(i).Name() == m {
			return it.Method(i)
		}
	}
	return nil
}

// funcsOfPkg returns the source functions (incl. closures) of a module package.
func (p *Program) funcsOfPkg(short string) []*ssa.Function {
	var out []*ssa.Function
	want := pkgPath(short)
	for _, f := range p.AllFuncs {
		if f.Package() != nil && f.Package().Pkg.Path() == want {
			out = append(out, f)
		}
	}
	return out
}

// inModule reports whether fn belongs to the module under analysis.
func (p *Program) inModule(fn *ssa.Function) bool {
	if fn == nil || fn.Package() == nil || fn.Package().Pkg == nil {
		return false
	}
	_, ok := p.ByPath[fn.Package().Pkg.Path()]
	return ok
}

// pos renders a position relative to the repository root.
func (p *Program) pos(pos token.Pos) string {
	if !pos.IsValid() {
		return "-"
	}
	ps := p.Fset.Position(pos)
	f := strings.TrimPrefix(ps.Filename, p.RepoDir+"/")
	return fmt.Sprintf("%s:%d", f, ps.Line)
}

// funcDecl finds the AST declaration of an ssa function (nil for closures).
func (p *Program) funcDecl(fn *ssa.Function) *ast.FuncDecl {
	if fn == nil {
		return nil
	}
	if d, ok := fn.Syntax().(*ast.FuncDecl); ok {
		return d
	}
	return nil
}

// typesInfo returns the types.Info of the package that declares fn.
func (p *Program) typesInfo(fn *ssa.Function) *types.Info {
	if fn == nil || fn.Package() == nil {
		return nil
	}
	pk := p.ByPath[fn.Package().Pkg.Path()]
	if pk == nil {
		return nil
	}
	return pk.TypesInfo
}

// fnKey is the stable construct key of a function: pkg-relative path + name.
func (p *Program) fnKey(fn *ssa.Function) string {
	if fn == nil {
		return "<nil>"
	}
	s := fn.String()
	s = strings.ReplaceAll(s, modPath+"/", "")
	s = strings.ReplaceAll(s, modPath+".", "tally.")
	s = strings.ReplaceAll(s, modPath, "tally")
	return s
}

// ---- closed-world check on the VTA call graph --------------------------------------------------

// dynamicCallers returns the call sites that may reach fn other than by a static call (interface
// dispatch, function values, method values, go/defer of values), according to the VTA call graph
// over the whole program (CHA as the initial graph). Rules that enumerate "all callers" of a
// function from its static call sites use it to make sure that enumeration is complete.
func (p *Program) dynamicCallers(fn *ssa.Function) []ssa.CallInstruction {
	if p.cg == nil {
		p.cg = vta.CallGraph(ssautil.AllFunctions(p.SSA), cha.CallGraph(p.SSA))
	}
	n := p.cg.Nodes[fn]
	if n == nil {
		return nil
	}
	var out []ssa.CallInstruction
	for _, e := range n.In {
		if e.Site == nil {
			continue
		}
		if e.Site.Common().StaticCallee() == fn {
			continue
		}
		// calls made from synthetic wrappers (bound-method thunks, interface method wrappers) are
		// attributed to the wrapper; follow them back to real callers
		if e.Caller != nil && e.Caller.Func != nil && e.Caller.Func.Synthetic != "" {
			for _, e2 := range e.Caller.In {
				if e2.Site != nil {
					out = append(out, e2.Site)
				}
			}
			continue
		}
		out = append(out, e.Site)
	}
	return out
}
