package main

import (
	"encoding/json"
	"fmt"
	"go/token"
	"os"
	"path/filepath"
	"sort"
	"strings"
	"time"
)

// Status of one obligation.
const (
	stOK        = "OK"
	stViolation = "VIOLATION"
	stUndecided = "UNDECIDED"
	stKnown     = "KNOWN-FINDING"
)

// Obligation is one decided instance of a rule: rule + construct (never line or text).
type Obligation struct {
	Rule   string   `json:"rule"`      // e.g. "C01.O2 atomic-rmw"
	Key    string   `json:"construct"` // stable construct key
	Status string   `json:"status"`
	Pos    string   `json:"pos"`
	Msg    string   `json:"msg"`
	Trail  []string `json:"trail,omitempty"`
}

// KnownFinding is one hand-written entry of /verif/known_findings.json.
type KnownFinding struct {
	Property  string `json:"property"`
	Rule      string `json:"rule"`
	Key       string `json:"construct_key"`
	WhatFails string `json:"what_fails"`
	Status    string `json:"status"` // open | fixed
	FixCommit string `json:"fix_commit,omitempty"`
}

// Ctx is handed to every property function.
type Ctx struct {
	*Program
	Prop        string
	Tier        string
	Obls        []*Obligation
	Known       []KnownFinding
	Assumptions []string
	NotDecided  []string
	Explanation string
	// statistics for the evidence file
	funcsSeen map[string]bool
	callSites int
	paths     int
	floors    map[string][2]int // rule -> {found, floor}
	extra     map[string]interface{}
	// sharing obligations of another property (see shared): only the rules listed are kept, under
	// their new names
	ruleRename   map[string]string
	sharingDepth int
}

// shared runs the obligations of another property's check function inside this property, keeping
// only the rules named in rename (old rule name -> rule name in this property). The other property's
// explanation / assumptions are not taken over.
func (c *Ctx) shared(from func(*Ctx), rename map[string]string) {
	if c.sharingDepth >= 1 {
		return // nested sharing (A shares B, B shares C / A): only the rules named by the outermost call are taken over
	}
	c.sharingDepth++
	defer func() { c.sharingDepth-- }()
	expl, nd, as := c.Explanation, c.NotDecided, c.Assumptions
	prev := c.ruleRename
	c.ruleRename = rename
	from(c)
	c.ruleRename = prev
	c.Explanation, c.NotDecided, c.Assumptions = expl, nd, as
}

func newCtx(p *Program, prop, tier string, known []KnownFinding) *Ctx {
	return &Ctx{Program: p, Prop: prop, Tier: tier, Known: known,
		funcsSeen: map[string]bool{}, floors: map[string][2]int{}, extra: map[string]interface{}{}}
}

func (c *Ctx) add(status, rule, key string, pos token.Pos, msg string, trail ...string) *Obligation {
	if c.ruleRename != nil {
		nr, keep := c.ruleRename[rule]
		if !keep {
			return &Obligation{}
		}
		rule = nr
	}
	o := &Obligation{Rule: c.Prop + "." + rule, Key: key, Status: status, Pos: c.pos(pos), Msg: msg, Trail: trail}
	c.Obls = append(c.Obls, o)
	return o
}

func (c *Ctx) ok(rule, key string, pos token.Pos, msg string) {
	c.add(stOK, rule, key, pos, msg)
}

func (c *Ctx) bad(rule, key string, pos token.Pos, msg string, trail ...string) {
	c.add(stViolation, rule, key, pos, msg, trail...)
}

func (c *Ctx) undecided(rule, key string, pos token.Pos, msg string, trail ...string) {
	c.add(stUndecided, rule, key, pos, msg, trail...)
}

// check records OK when cond holds and a violation otherwise.
func (c *Ctx) check(cond bool, rule, key string, pos token.Pos, okMsg, badMsg string, trail ...string) bool {
	if cond {
		c.ok(rule, key, pos, okMsg)
	} else {
		c.bad(rule, key, pos, badMsg, trail...)
	}
	return cond
}

// floor asserts that a rule matched at least min constructs; a rule that matches nothing must
// not pass vacuously.
func (c *Ctx) floor(rule string, found, min int) {
	if c.ruleRename != nil {
		nr, keep := c.ruleRename[rule]
		if !keep {
			return
		}
		rule = nr
		c.floors[c.Prop+"."+rule] = [2]int{found, min}
		if found < min {
			prev := c.ruleRename
			c.ruleRename = nil
			c.bad(rule, "floor", token.NoPos,
				fmt.Sprintf("rule matched %d construct(s), at least %d were confirmed by hand on the reference tree: a required construct has disappeared or no longer has the expected shape", found, min))
			c.ruleRename = prev
		}
		return
	}
	c.floors[c.Prop+"."+rule] = [2]int{found, min}
	if found < min {
		c.bad(rule, "floor", token.NoPos,
			fmt.Sprintf("rule matched %d construct(s), at least %d were confirmed by hand on the reference tree: a required construct has disappeared or no longer has the expected shape", found, min))
	}
}

// missing reports an anchor that could not be resolved.
func (c *Ctx) missing(rule, what string) {
	c.undecided(rule, "anchor:"+what, token.NoPos, "anchor not resolved: "+what+" (renamed or removed); the obligation cannot be decided")
}

func (c *Ctx) sawFunc(key string) { c.funcsSeen[key] = true }

// ---- output ---------------------------------------------------------------------------------

type evidenceFile struct {
	PropertyID  string                 `json:"property_id"`
	Tier        string                 `json:"tier"`
	Seed        int                    `json:"seed"`
	Level       string                 `json:"level"`
	Coverage    map[string]interface{} `json:"coverage"`
	Assumptions []string               `json:"assumptions"`
	WallS       float64                `json:"wall_s"`
	Violations  int                    `json:"violations"`
}

func loadKnown(path string) ([]KnownFinding, error) {
	if path == "" {
		return nil, nil
	}
	b, err := os.ReadFile(path)
	if err != nil {
		if os.IsNotExist(err) {
			return nil, nil
		}
		return nil, err
	}
	var k struct {
		Findings []KnownFinding `json:"findings"`
	}
	if err := json.Unmarshal(b, &k); err != nil {
		return nil, fmt.Errorf("%s: %v", path, err)
	}
	return k.Findings, nil
}

// unresolved counts the obligations that are neither discharged nor listed as open known findings.
func (c *Ctx) unresolved() int {
	n := 0
	for _, o := range c.Obls {
		if o.Status == stOK || o.Status == stKnown {
			continue
		}
		isKnown := false
		for _, k := range c.Known {
			if k.Status == "open" && k.Property == c.Prop && k.Rule == o.Rule && k.Key == o.Key {
				isKnown = true
			}
		}
		if !isKnown {
			n++
		}
	}
	return n
}

// finish prints the obligation lines, writes evidence and replay files, returns the exit code.
func (c *Ctx) finish(evDir string, writeEvidence bool, seed int, start time.Time, configs []string) int {
	sort.SliceStable(c.Obls, func(i, j int) bool {
		if c.Obls[i].Rule != c.Obls[j].Rule {
			return c.Obls[i].Rule < c.Obls[j].Rule
		}
		return c.Obls[i].Key < c.Obls[j].Key
	})
	// known findings
	for _, o := range c.Obls {
		if o.Status != stViolation {
			continue
		}
		for _, k := range c.Known {
			if k.Status == "open" && k.Property == c.Prop && k.Rule == o.Rule && k.Key == o.Key {
				o.Status = stKnown
				o.Msg = k.WhatFails + " — " + o.Msg
			}
		}
	}
	viol, known, okN := 0, 0, 0
	distinct := map[string]bool{}
	var violFiles []string
	if evDir != "" {
		_ = os.MkdirAll(filepath.Join(evDir, "violations"), 0o755)
		if writeEvidence {
			old, _ := filepath.Glob(filepath.Join(evDir, "violations", c.Prop+"-*.txt"))
			for _, f := range old {
				_ = os.Remove(f)
			}
		}
	}
	for _, o := range c.Obls {
		distinct[o.Rule+"|"+o.Key] = true
		shown := o.Status
		if shown == stKnown {
			shown = "KNOWN"
		}
		fmt.Printf("%s %s [%s] %s %s\n", shown, o.Rule, o.Key, o.Pos, o.Msg)
		switch o.Status {
		case stOK:
			okN++
		case stKnown:
			known++
			fmt.Printf("KNOWN-FINDING: property=%s %s (rule %s, construct %s, %s)\n", c.Prop, firstSentence(o.Msg), o.Rule, o.Key, o.Pos)
		default:
			viol++
			path := ""
			if evDir != "" {
				path = filepath.Join(evDir, "violations", fmt.Sprintf("%s-%s%d.txt", c.Prop, c.GOARCH, viol))
				var sb strings.Builder
				fmt.Fprintf(&sb, "property:  %s\nstatus:    %s\nrule:      %s\nconstruct: %s\nposition:  %s\nreason:    %s\n", c.Prop, o.Status, o.Rule, o.Key, o.Pos, o.Msg)
				for _, t := range o.Trail {
					fmt.Fprintf(&sb, "  trail:   %s\n", t)
				}
				fmt.Fprintf(&sb, "replay:    cd /verif && ./check %s --explain '%s'\n", c.Prop, o.Key)
				_ = os.WriteFile(path, []byte(sb.String()), 0o644)
				violFiles = append(violFiles, path)
			}
			fmt.Printf("VIOLATION property=%s replay=%s\n", c.Prop, path)
		}
	}
	if evDir != "" && writeEvidence {
		samples := []interface{}{}
		for i, o := range c.Obls {
			if i < 400 {
				samples = append(samples, o)
			}
		}
		floors := map[string]interface{}{}
		for k, v := range c.floors {
			floors[k] = map[string]int{"found": v[0], "floor": v[1]}
		}
		var fns []string
		for k := range c.funcsSeen {
			fns = append(fns, k)
		}
		sort.Strings(fns)
		// the rules actually evaluated in this run, with how many obligations each produced (measured)
		ruleCounts := map[string]int{}
		for _, o := range c.Obls {
			ruleCounts[o.Rule]++
		}
		cov := map[string]interface{}{
			"rules_evaluated":     ruleCounts,
			"obligations":         len(c.Obls),
			"discharged":          okN,
			"known_findings":      known,
			"explanation":         c.Explanation,
			"rule":                "static analysis of /repo's current source (go/packages + go/types + go/ssa): each obligation is rule + construct, decided on every path / call site / writer of the construct; an obligation is non-trivial when it matched at least one construct in the tree",
			"samples":             samples,
			"evaluations":         len(c.Obls),
			"distinct_nontrivial": len(distinct),
			"packages":            len(c.Pkgs),
			"functions_in_module": len(c.AllFuncs),
			"functions_analysed":  fns,
			"call_sites":          c.callSites,
			"paths":               c.paths,
			"configs":             configs,
			"floors":              floors,
			"not_decided":         c.NotDecided,
			"exhaustive":          true,
			"checker_cmd":         "tallycheck -repo " + c.RepoDir + " -prop " + c.Prop + " -tier " + c.Tier,
			"trusted_base":        []string{"go/types and go/ssa of golang.org/x/tools v0.29.0", "Go memory model", "standard library (sort, sync, sync/atomic, bytes)"},
		}
		for k, v := range c.extra {
			cov[k] = v
		}
		ev := evidenceFile{PropertyID: c.Prop, Tier: c.Tier, Seed: seed, Level: "other", Coverage: cov,
			Assumptions: c.Assumptions, WallS: time.Since(start).Seconds(), Violations: viol}
		if ev.Assumptions == nil {
			ev.Assumptions = []string{}
		}
		b, _ := json.MarshalIndent(ev, "", " ")
		_ = os.WriteFile(filepath.Join(evDir, c.Prop+".json"), append(b, '\n'), 0o644)
	}
	fmt.Printf("SUMMARY property=%s tier=%s obligations=%d discharged=%d known_findings=%d violations=%d packages=%d functions=%d wall=%.1fs\n",
		c.Prop, c.Tier, len(c.Obls), okN, known, viol, len(c.Pkgs), len(c.AllFuncs), time.Since(start).Seconds())
	if viol > 0 {
		return 1
	}
	return 0
}

func firstSentence(s string) string {
	if i := strings.Index(s, " — "); i > 0 {
		return s[:i]
	}
	return s
}
