package main

import (
	"fmt"
	"go/constant"
	"go/token"
	"go/types"
	"math"
	"sort"

	"golang.org/x/tools/go/ssa"
)

func init() { register("C18", checkC18) }

// variadicElems returns the elements of a variadic argument slice built by go/ssa
// (new [n]T; &a[i] = v; slice a[:]) in index order.
func variadicElems(v ssa.Value) ([]ssa.Value, bool) {
	sl, ok := v.(*ssa.Slice)
	if !ok {
		return nil, false
	}
	al, ok := sl.X.(*ssa.Alloc)
	if !ok || al.Referrers() == nil {
		return nil, false
	}
	byIdx := map[int64]ssa.Value{}
	for _, r := range *al.Referrers() {
		ia, isIA := r.(*ssa.IndexAddr)
		if !isIA || ia.Referrers() == nil {
			continue
		}
		k, isK := constInt(ia.Index)
		if !isK {
			return nil, false
		}
		for _, u := range *ia.Referrers() {
			if st, isSt := u.(*ssa.Store); isSt && st.Addr == ssa.Value(ia) {
				byIdx[k] = st.Val
			}
		}
	}
	out := make([]ssa.Value, len(byIdx))
	for k, v := range byIdx {
		if int(k) >= len(out) {
			return nil, false
		}
		out[k] = v
	}
	return out, true
}

// strComp is one component of a string that is assembled from parts: a literal or a value.
type strComp struct {
	lit string
	val ssa.Value
}

// stringComponents flattens fmt.Sprintf(format-with-%s-verbs-only, parts...) or a concatenation
// a + b + ... into its components, in order (adjacent literals merged).
func stringComponents(v ssa.Value) ([]strComp, bool) {
	var out []strComp
	add := func(cp strComp) {
		if cp.val == nil && cp.lit == "" {
			return
		}
		if cp.val == nil && len(out) > 0 && out[len(out)-1].val == nil {
			out[len(out)-1].lit += cp.lit
			return
		}
		out = append(out, cp)
	}
	var flat func(v ssa.Value, depth int) bool
	flat = func(v ssa.Value, depth int) bool {
		if depth == 0 {
			return false
		}
		v = canon(stripConv(v))
		if sv, ok := constString(v); ok {
			add(strComp{lit: sv})
			return true
		}
		if bo, ok := v.(*ssa.BinOp); ok && bo.Op == token.ADD {
			if b, isB := bo.Type().Underlying().(*types.Basic); isB && b.Info()&types.IsString != 0 {
				return flat(bo.X, depth-1) && flat(bo.Y, depth-1)
			}
		}
		if sp, ok := isCallTo(v, "fmt", "Sprintf"); ok {
			format, isF := constString(sp.Call.Args[0])
			elems, isV := variadicElems(sp.Call.Args[1])
			if !isF || !isV {
				return false
			}
			k := 0
			for i := 0; i < len(format); i++ {
				if format[i] != '%' {
					add(strComp{lit: string(format[i])})
					continue
				}
				if i+1 >= len(format) {
					return false
				}
				i++
				switch format[i] {
				case '%':
					add(strComp{lit: "%"})
				case 's', 'v':
					if k >= len(elems) {
						return false
					}
					e := stripConv(elems[k])
					k++
					if b, isB := e.Type().Underlying().(*types.Basic); !isB || b.Info()&types.IsString == 0 {
						return false
					}
					if !flat(e, depth-1) {
						return false
					}
				default:
					return false
				}
			}
			return k == len(elems)
		}
		add(strComp{val: v})
		return true
	}
	if !flat(v, 6) {
		return nil, false
	}
	return out, true
}

// renderTable extracts {special constant -> returned string} from a renderer function with one
// numeric parameter, and the fall-through return value(s).
type renderTable struct {
	special map[string]string // constant (exact string) -> result
	other   []ssa.Value
	fn      *ssa.Function
}

func (c *Ctx) renderTableOf(fn *ssa.Function) (*renderTable, string) {
	if fn == nil || len(fn.Params) != 2 {
		return nil, "renderer not found or unexpected signature"
	}
	p := fn.Params[1]
	t := &renderTable{special: map[string]string{}, fn: fn}
	for _, r := range returnsOf(fn) {
		s, isStr := constString(r.Results[0])
		if !isStr {
			t.other = append(t.other, r.Results[0])
			continue
		}
		// find the guarding equality param == K
		var kval constant.Value
		g := guardedByEdge(r, func(cond ssa.Value) (bool, bool) {
			op, x, y, ok := cmpOf(cond)
			if !ok || (op != token.EQL && op != token.NEQ) {
				return false, false
			}
			if _, isC := stripConv(x).(*ssa.Const); isC {
				x, y = y, x
			}
			if canon(x) != ssa.Value(p) {
				return false, false
			}
			k, isC := stripConv(y).(*ssa.Const)
			if !isC || k.Value == nil {
				return false, false
			}
			kval = k.Value
			return true, op == token.EQL
		})
		if g == nil || kval == nil {
			return nil, "a constant string is returned on a path not selected by `bound == constant`"
		}
		t.special[kval.ExactString()] = s
	}
	return t, ""
}

func (c *Ctx) checkRenderTable(rule, key string, t *renderTable, want map[string]string, allowExtra map[string]string) bool {
	ok := true
	for k, v := range want {
		got, has := t.special[k]
		if !has {
			ok = false
			c.bad(rule, key, t.fn.Pos(), fmt.Sprintf("the open end %s is not rendered specially (expected %q): the bucket name carries a huge number instead", k, v))
		} else if got != v {
			ok = false
			c.bad(rule, key, t.fn.Pos(), fmt.Sprintf("the open end %s is rendered as %q, expected %q: the first and last bucket of every histogram get the wrong (possibly colliding) name", k, got, v))
		}
	}
	for k, v := range t.special {
		if _, isWant := want[k]; isWant {
			continue
		}
		if av, allowed := allowExtra[k]; allowed && av == v {
			continue
		}
		ok = false
		c.bad(rule, key, t.fn.Pos(), fmt.Sprintf("an ordinary bound (%s) is rendered as the constant %q", k, v))
	}
	return ok
}

func checkC18(c *Ctx) {
	c.Explanation = "Decides the StatsD reporter structurally: (O1) each of the five Report* methods makes exactly one call on the Statter on every path, of the stated kind (Inc/Gauge/TimingDuration/Inc), with the name (for histograms fmt.Sprintf(\"%s.%s-%s\", name, render(lower), render(upper)) with lower before upper and the renderer of the matching kind), the value parameter (gauge: converted to int64), and the configured sample rate; tags are not used; (O2) the two renderers map exactly {+max -> \"infinity\", -max -> \"-infinity\"} and otherwise format the bound with the configured precision / Duration.String(), and agree with the M3 reporter's renderers on the open ends; (O3) Reporting() is the constant true, Tagging() false, Capabilities() returns the reporter, unset sample rate -> 1, unset precision -> default, bucket format = \"%.\" + precision + \"f\"."
	c.NotDecided = []string{"distinctness of bucket names at a given precision (a statement about %.Nf formatting)"}

	const pk = "statsd"
	recv := "cactusStatsReporter"
	fStatter, fRate, fFmt := c.field(pk, recv, "statter"), c.field(pk, recv, "sampleRate"), c.field(pk, recv, "bucketFmt")
	if fStatter == nil || fRate == nil || fFmt == nil {
		c.missing("O1 one-call", "statsd.cactusStatsReporter{statter,sampleRate,bucketFmt}")
		return
	}
	isStatterCall := func(in ssa.Instruction) bool {
		call, ok := in.(ssa.CallInstruction)
		if !ok {
			return false
		}
		r, m := ifaceCall(call)
		if m == nil {
			return false
		}
		f, _ := loadedField(r)
		return f == fStatter
	}
	type spec struct {
		method, statter string
		valueParam      int // index into Params (0 = receiver)
		convInt         bool
		renderer        string // "" for plain name
	}
	specs := []spec{
		{"ReportCounter", "Inc", 3, false, ""},
		{"ReportGauge", "Gauge", 3, true, ""},
		{"ReportTimer", "TimingDuration", 3, false, ""},
		{"ReportHistogramValueSamples", "Inc", 6, false, "valueBucketString"},
		{"ReportHistogramDurationSamples", "Inc", 6, false, "durationBucketString"},
	}
	for _, s := range specs {
		fn := c.fn(pk, recv, s.method)
		if fn == nil {
			c.missing("O1 one-call", "statsd."+recv+"."+s.method)
			continue
		}
		key := c.fnKey(fn)
		c.sawFunc(key)
		cnt := c.newPathCounter(isStatterCall, 2).fn(fn, 2)
		c.paths++
		if cnt.min != 1 || cnt.max != 1 {
			c.bad("O1 one-call", key, fn.Pos(), fmt.Sprintf("the method makes between %d and %d calls on the statsd client (exactly one is required)", cnt.min, cnt.max))
			continue
		}
		calls := findInstrs(fn, isStatterCall)
		if len(calls) != 1 {
			c.undecided("O1 one-call", key, fn.Pos(), "the single client call is made inside a helper; shape not recognised")
			continue
		}
		call := calls[0].(ssa.CallInstruction)
		c.callSites++
		_, m := ifaceCall(call)
		args := call.Common().Args
		okAll := true
		fail := func(msg string) {
			okAll = false
			c.bad("O1 one-call", key, calls[0].Pos(), msg, c.describe(calls[0]))
		}
		if m.Name() != s.statter {
			fail("the client method called is " + m.Name() + ", expected " + s.statter)
		}
		if len(args) < 3 || len(args) > 4 {
			fail("unexpected client call arity")
			continue
		}
		if len(args) == 4 && !isNilConst(args[3]) {
			fail("tags are passed to the statsd client (the reporter advertises no tagging; tags must be ignored)")
		}
		// value
		v := stripConv(args[1])
		if s.convInt {
			cv, isConv := v.(*ssa.Convert)
			if !isConv || canon(cv.X) != ssa.Value(fn.Params[s.valueParam]) {
				fail("the gauge value sent is not int64(value parameter)")
			} else if b, isB := cv.Type().Underlying().(*types.Basic); !isB || b.Kind() != types.Int64 {
				fail("the gauge value is not truncated to int64")
			}
		} else if canon(v) != ssa.Value(fn.Params[s.valueParam]) {
			fail("the value sent is not the method's value parameter unchanged")
		}
		// rate
		if f, base := loadedField(args[2]); f != fRate || canon(base) != ssa.Value(fn.Params[0]) {
			fail("the sample rate sent is not the reporter's configured sampleRate")
		}
		// name
		if s.renderer == "" {
			if canon(args[0]) != ssa.Value(fn.Params[1]) {
				fail("the stat name sent is not the method's name parameter unchanged")
			}
		} else {
			comps, okC := stringComponents(args[0])
			rf := c.fn(pk, recv, s.renderer)
			switch {
			case !okC:
				fail("the bucket stat name is not built from its parts by fmt.Sprintf with %s verbs or by string concatenation")
			case len(comps) != 5 || comps[0].val == nil || comps[1].val != nil || comps[2].val == nil || comps[3].val != nil || comps[4].val == nil || comps[1].lit != "." || comps[3].lit != "-":
				var shape []string
				for _, cp := range comps {
					if cp.val == nil {
						shape = append(shape, fmt.Sprintf("%q", cp.lit))
					} else {
						shape = append(shape, "<value>")
					}
				}
				fail(fmt.Sprintf("the bucket stat name has the shape %v, expected <name> \".\" <lower> \"-\" <upper>", shape))
			default:
				if canon(comps[0].val) != ssa.Value(fn.Params[1]) {
					fail("the first component of the bucket stat name is not the name parameter")
				}
				for i, want := range []int{4, 5} {
					rc, isCall := stripConv(canon(comps[2+2*i].val)).(*ssa.Call)
					which := []string{"lower", "upper"}[i]
					if !isCall || rf == nil || staticCallee(rc) != rf {
						fail("the " + which + " bound of the bucket stat name is not rendered by " + s.renderer + " (the renderer of the matching kind)")
					} else if canon(rc.Call.Args[1]) != ssa.Value(fn.Params[want]) {
						fail("the " + which + " bound position of the bucket stat name does not carry the " + which + " bound parameter (lower and upper swapped or repeated)")
					}
				}
			}
		}
		// tags unused
		if refs := fn.Params[2].Referrers(); refs != nil {
			for _, r := range *refs {
				if _, isDbg := r.(*ssa.DebugRef); !isDbg {
					fail("the tags parameter is used by the StatsD reporter (tags must be ignored)")
				}
			}
		}
		if okAll {
			c.ok("O1 one-call", key, calls[0].Pos(), "exactly one "+s.statter+"(name, value, sampleRate) call")
		}
	}

	// ---- O2 renderers ---------------------------------------------------------------------
	maxF := constant.MakeFloat64(math.MaxFloat64).ExactString()
	minF := constant.MakeFloat64(-math.MaxFloat64).ExactString()
	maxI := constant.MakeInt64(math.MaxInt64).ExactString()
	minI := constant.MakeInt64(math.MinInt64).ExactString()
	wantV := map[string]string{maxF: "infinity", minF: "-infinity"}
	wantD := map[string]string{maxI: "infinity", minI: "-infinity"}
	vt, why := c.renderTableOf(c.fn(pk, recv, "valueBucketString"))
	if vt == nil {
		c.bad("O2 infinity-table", "statsd.valueBucketString", token.NoPos, why)
	} else if c.checkRenderTable("O2 infinity-table", "statsd.valueBucketString", vt, wantV, nil) {
		// fall-through: Sprintf(r.bucketFmt, param)
		okOther := len(vt.other) == 1
		if okOther {
			sp, isSp := isCallTo(stripConv(vt.other[0]), "fmt", "Sprintf")
			okOther = false
			if isSp {
				if f, _ := loadedField(sp.Call.Args[0]); f == fFmt {
					if el, okE := variadicElems(sp.Call.Args[1]); okE && len(el) == 1 && canon(el[0]) == ssa.Value(vt.fn.Params[1]) {
						okOther = true
					}
				}
			}
		}
		c.check(okOther, "O2 infinity-table", "statsd.valueBucketString", vt.fn.Pos(), "{+max: infinity, -max: -infinity}; other bounds Sprintf(bucketFmt, bound)",
			"ordinary value bounds are not rendered by fmt.Sprintf(r.bucketFmt, bound) (the configured precision)")
	}
	dt, why := c.renderTableOf(c.fn(pk, recv, "durationBucketString"))
	if dt == nil {
		c.bad("O2 infinity-table", "statsd.durationBucketString", token.NoPos, why)
	} else if c.checkRenderTable("O2 infinity-table", "statsd.durationBucketString", dt, wantD, nil) {
		okOther := len(dt.other) == 1
		if okOther {
			call, isCall := stripConv(dt.other[0]).(*ssa.Call)
			okOther = false
			if isCall {
				if f := staticCallee(call); f != nil && f.String() == "(time.Duration).String" && canon(call.Call.Args[0]) == ssa.Value(dt.fn.Params[1]) {
					okOther = true
				}
			}
		}
		c.check(okOther, "O2 infinity-table", "statsd.durationBucketString", dt.fn.Pos(), "{MaxInt64: infinity, MinInt64: -infinity}; other bounds Duration.String()",
			"ordinary duration bounds are not rendered in Go duration syntax (bound.String())")
	}
	// sibling agreement with the M3 reporter's renderers on the open ends
	c.checkM3Renderers("O2 sibling-m3")

	// ---- O3 capabilities and defaults ------------------------------------------------------
	for _, cm := range []struct {
		m    string
		want bool
	}{{"Reporting", true}, {"Tagging", false}} {
		fn := c.fn(pk, recv, cm.m)
		if fn == nil {
			c.missing("O3 capabilities", "statsd."+recv+"."+cm.m)
			continue
		}
		ok := false
		if rets := returnsOf(fn); len(rets) == 1 {
			if v, isB := constBool(rets[0].Results[0]); isB && v == cm.want {
				ok = true
			}
		}
		c.check(ok, "O3 capabilities", c.fnKey(fn), fn.Pos(), fmt.Sprintf("%s() is the constant %v", cm.m, cm.want), fmt.Sprintf("%s() is not the constant %v (the reporter advertises reporting without tagging)", cm.m, cm.want))
	}
	if fn := c.fn(pk, recv, "Capabilities"); fn != nil {
		ok := false
		if rets := returnsOf(fn); len(rets) == 1 {
			ok = canon(rets[0].Results[0]) == ssa.Value(fn.Params[0])
		}
		c.check(ok, "O3 capabilities", c.fnKey(fn), fn.Pos(), "Capabilities() returns the reporter itself", "Capabilities() does not return the reporter's own capabilities")
	}
	c.checkStatsdDefaults("O3 defaults")
}

// checkStatsdDefaults: NewReporter: SampleRate == 0 -> 1; precision == 0 -> default;
// bucketFmt = "%." + Itoa(int(precision)) + "f"; fields are stored from the options.
func (c *Ctx) checkStatsdDefaults(rule string) {
	fn := c.fn("statsd", "", "NewReporter")
	if fn == nil {
		c.missing(rule, "statsd.NewReporter")
		return
	}
	key := c.fnKey(fn)
	c.sawFunc(key)
	optRate, optPrec := c.field("statsd", "Options", "SampleRate"), c.field("statsd", "Options", "HistogramBucketNamePrecision")
	fRate, fFmt, fStatter := c.field("statsd", "cactusStatsReporter", "sampleRate"), c.field("statsd", "cactusStatsReporter", "bucketFmt"), c.field("statsd", "cactusStatsReporter", "statter")
	if optRate == nil || optPrec == nil {
		c.missing(rule, "statsd.Options fields")
		return
	}
	defPrec, _ := c.pkg("statsd").Types.Scope().Lookup("DefaultHistogramBucketNamePrecision").(*types.Const)
	localDefault := map[*types.Var]*ssa.Phi{}
	// default stores: *(&opts.F) = K guarded by opts.F == 0
	checkDefault := func(optF *types.Var, want func(k *ssa.Const) bool, what string) {
		n := 0
		okAll := true
		instrsOf(fn, func(in ssa.Instruction) {
			st, ok := in.(*ssa.Store)
			if !ok {
				return
			}
			f, _ := addrField(st.Addr)
			if f != optF {
				return
			}
			n++
			k, isK := stripConv(st.Val).(*ssa.Const)
			if !isK || !want(k) {
				okAll = false
				c.bad(rule, key+":"+optF.Name(), st.Pos(), "the default for "+what+" is not the documented one", c.describe(st))
				return
			}
			g := guardedByEdge(st, func(cond ssa.Value) (bool, bool) {
				op, x, y, okc := cmpOf(cond)
				if !okc || (op != token.EQL && op != token.NEQ) {
					return false, false
				}
				lf, _ := loadedField(x)
				z := y
				if lf == nil {
					lf, _ = loadedField(y)
					z = x
				}
				if lf != optF {
					return false, false
				}
				zc, isC := stripConv(z).(*ssa.Const)
				if !isC {
					return false, false
				}
				if zf, okz := constFloat(zc); !okz || zf != 0 {
					return false, false
				}
				return true, op == token.EQL
			})
			if g == nil {
				okAll = false
				c.bad(rule, key+":"+optF.Name(), st.Pos(), "the default for "+what+" is applied on a path other than `option unset (== 0)`: a configured value is overwritten", c.describe(st))
			}
		})
		if n == 0 {
			// local form: v := opts.F; if v == 0 { v = K }  - a phi of the option and the default, the
			// default arriving on the `== 0` edge, used for the reporter's field
			found := false
			instrsOf(fn, func(in ssa.Instruction) {
				phi, isPhi := in.(*ssa.Phi)
				if !isPhi || len(phi.Edges) != 2 || found {
					return
				}
				for i, e := range phi.Edges {
					k, isK := stripConv(e).(*ssa.Const)
					o := phi.Edges[1-i]
					if lf, _ := loadedField(canon(stripConv(o))); !isK || lf != optF || !want(k) {
						continue
					}
					// the default arrives only when the option compared equal to zero
					pred := phi.Block().Preds[i]
					isZeroTest := func(cond ssa.Value) (bool, bool) {
						op, x, y, okc := cmpOf(cond)
						if !okc || (op != token.EQL && op != token.NEQ) {
							return false, false
						}
						if _, isC := stripConv(x).(*ssa.Const); isC {
							x, y = y, x
						}
						if canon(stripConv(x)) != canon(stripConv(o)) {
							if lf2, _ := loadedField(canon(stripConv(x))); lf2 != optF {
								return false, false
							}
						}
						zc, isC := stripConv(y).(*ssa.Const)
						if !isC {
							return false, false
						}
						if zf, okz := constFloat(zc); !okz || zf != 0 {
							return false, false
						}
						return true, op == token.EQL
					}
					okEdge := guardedByEdge(pred.Instrs[len(pred.Instrs)-1], isZeroTest) != nil
					if !okEdge {
						// the phi's own block is the join right after `if v == 0 { }`: the default edge is
						// the test block's true edge itself when the then-branch is empty of blocks
						if iff, isIf := condOf(phi.Block().Preds[1-i]); isIf {
							if m, onTrue := isZeroTest(iff.Cond); m {
								idx := 1
								if onTrue {
									idx = 0
								}
								okEdge = edgeDominates(phi.Block().Preds[1-i], idx, pred) || phi.Block().Preds[1-i].Succs[idx] == pred
							}
						}
					}
					if okEdge {
						found = true
						localDefault[optF] = phi
					}
				}
			})
			if !found {
				okAll = false
				c.bad(rule, key+":"+optF.Name(), fn.Pos(), "no default is applied for an unset "+what)
			}
		}
		if okAll {
			c.ok(rule, key+":"+optF.Name(), fn.Pos(), "unset "+what+" gets its documented default, set values are kept")
		}
	}
	checkDefault(optRate, func(k *ssa.Const) bool { f, ok := constFloat(k); return ok && f == 1 }, "the sample rate")
	checkDefault(optPrec, func(k *ssa.Const) bool {
		return defPrec != nil && k.Value != nil && constant.Compare(constant.ToInt(k.Value), token.EQL, constant.ToInt(defPrec.Val()))
	}, "the bucket name precision")
	// field stores of the constructed reporter
	var notes []string
	okFields := map[string]bool{}
	instrsOf(fn, func(in ssa.Instruction) {
		st, ok := in.(*ssa.Store)
		if !ok {
			return
		}
		f, _ := addrField(st.Addr)
		switch f {
		case fRate:
			if lf, _ := loadedField(st.Val); lf == optRate && localDefault[optRate] == nil {
				okFields["sampleRate"] = true
			}
			if d := localDefault[optRate]; d != nil && canon(stripConv(st.Val)) == ssa.Value(d) {
				okFields["sampleRate"] = true
			}
		case fStatter:
			if canon(st.Val) == ssa.Value(fn.Params[0]) {
				okFields["statter"] = true
			}
		case fFmt:
			// "%." + strconv.Itoa(int(opts.Precision)) + "f"
			if b1, isB := st.Val.(*ssa.BinOp); isB && b1.Op == token.ADD {
				if s2, isS := constString(b1.Y); isS && s2 == "f" {
					if b0, isB0 := b1.X.(*ssa.BinOp); isB0 && b0.Op == token.ADD {
						s0, isS0 := constString(b0.X)
						it, isIt := isCallTo(b0.Y, "strconv", "Itoa")
						if isS0 && s0 == "%." && isIt {
							if cv, isCv := it.Call.Args[0].(*ssa.Convert); isCv {
								if lf, _ := loadedField(cv.X); lf == optPrec && localDefault[optPrec] == nil {
									okFields["bucketFmt"] = true
								}
								if d := localDefault[optPrec]; d != nil && canon(stripConv(cv.X)) == ssa.Value(d) {
									okFields["bucketFmt"] = true
								}
							}
						}
					}
				}
			}
		}
	})
	for _, f := range []string{"sampleRate", "statter", "bucketFmt"} {
		if !okFields[f] {
			notes = append(notes, f)
		}
	}
	sort.Strings(notes)
	c.check(len(notes) == 0, rule, key+":fields", fn.Pos(), "reporter fields are the statter argument, the (defaulted) sample rate and \"%.<precision>f\"",
		fmt.Sprintf("reporter field(s) %v are not initialised from the constructor's arguments as documented", notes))
}

// checkM3Renderers: the M3 reporter's two bucket-bound renderers map exactly {+max: "infinity",
// -max: "-infinity"} (durations additionally 0: "0"); a renderer whose table cannot be read (a constant
// string returned on a path that no `bound == constant` test selects) is a violation, not a skip.
func (c *Ctx) checkM3Renderers(rule string) {
	maxF := constant.MakeFloat64(math.MaxFloat64).ExactString()
	minF := constant.MakeFloat64(-math.MaxFloat64).ExactString()
	maxI := constant.MakeInt64(math.MaxInt64).ExactString()
	minI := constant.MakeInt64(math.MinInt64).ExactString()
	zero := constant.MakeInt64(0).ExactString()
	for _, r := range []struct {
		name  string
		want  map[string]string
		extra map[string]string
	}{
		{"valueBucketString", map[string]string{maxF: "infinity", minF: "-infinity"}, nil},
		{"durationBucketString", map[string]string{maxI: "infinity", minI: "-infinity"}, map[string]string{zero: "0"}},
	} {
		fn := c.fn("m3", "reporter", r.name)
		if fn == nil {
			c.missing(rule, "m3.reporter."+r.name)
			continue
		}
		c.sawFunc(c.fnKey(fn))
		mt, why := c.renderTableOf(fn)
		if mt == nil {
			c.bad(rule, "m3."+r.name, fn.Pos(), "the M3 bucket-bound renderer does not select its constant strings by `bound == constant` tests ("+why+"): ordinary bounds are rendered as an open end, or an open end as a number - bucket tags of different buckets coincide")
			continue
		}
		c.check(c.checkRenderTable(rule, "m3."+r.name, mt, r.want, r.extra), rule, "m3."+r.name+":agree", mt.fn.Pos(), "M3 renderer: exactly {+max: infinity, -max: -infinity}", "M3 and StatsD renderers disagree on the open ends")
	}
}
