package main

import (
	"fmt"
	"go/ast"
	"go/token"
	"go/types"

	"golang.org/x/tools/go/ssa"
)

// A7 FORWARDER-SHAPE (AST + types).

type fwdMode int

const (
	fwdPlain       fwdMode = iota // for ... { x.M(params) }
	fwdCollect                    // list = append(list, x.M(params)); returned inside a composite
	fwdErrExit                    // if err := x.M(params); err != nil { return ..., err }
	fwdBoolAnd                    // if ok := x.M(); !ok { return false } ... return true
	fwdCapsAnd                    // acc.f = acc.f && x.M().F() for every capability
	fwdAllFirstErr                // every child is called whatever the others answered; the first error is returned
)

type fwdSpec struct {
	fn        *ssa.Function
	list      *types.Var // field of the receiver holding the children; nil = the receiver itself
	target    string     // method called on each child
	mode      fwdMode
	perIter   int    // forwarded calls per iteration
	retField  string // fwdCollect: field of the returned composite that must receive the list ("" = positional #0)
	keyPrefix string
}

type fwdResult struct {
	ok      bool
	listVar types.Object // fwdCollect: the accumulated list
}

func (c *Ctx) checkForwarder(rule string, sp fwdSpec) fwdResult {
	fn := sp.fn
	key := sp.keyPrefix + c.fnKey(fn)
	c.sawFunc(c.fnKey(fn))
	decl := c.funcDecl(fn)
	info := c.typesInfo(fn)
	if decl == nil || info == nil || decl.Recv == nil || len(decl.Recv.List) != 1 || len(decl.Recv.List[0].Names) != 1 {
		c.undecided(rule, key, fn.Pos(), "no syntax / unnamed receiver")
		return fwdResult{}
	}
	recvObj := info.Defs[decl.Recv.List[0].Names[0]]
	var params []types.Object
	for _, f := range decl.Type.Params.List {
		for _, n := range f.Names {
			params = append(params, info.Defs[n])
		}
		if len(f.Names) == 0 {
			params = append(params, nil)
		}
	}
	fail := func(pos token.Pos, msg string) fwdResult {
		c.bad(rule, key, pos, msg)
		return fwdResult{}
	}
	isList := func(e ast.Expr) bool {
		e = ast.Unparen(e)
		if sp.list == nil {
			id, ok := e.(*ast.Ident)
			return ok && info.Uses[id] == recvObj
		}
		se, ok := e.(*ast.SelectorExpr)
		if !ok || selField(info, se) != sp.list {
			return false
		}
		id, ok := ast.Unparen(se.X).(*ast.Ident)
		return ok && info.Uses[id] == recvObj
	}
	// the loop must be a top-level statement of the body
	var loopBody *ast.BlockStmt
	var elemObj, idxObj types.Object
	var loopPos token.Pos
	nLoops := 0
	for _, st := range decl.Body.List {
		switch x := st.(type) {
		case *ast.RangeStmt:
			if !isList(x.X) {
				continue
			}
			nLoops++
			loopBody, loopPos = x.Body, x.Pos()
			if id, ok := x.Value.(*ast.Ident); ok && id.Name != "_" {
				elemObj = info.Defs[id]
			}
			if id, ok := x.Key.(*ast.Ident); ok && id.Name != "_" {
				idxObj = info.Defs[id]
			}
		case *ast.ForStmt:
			// for i := 0; i < len(S); i++
			as, ok1 := x.Init.(*ast.AssignStmt)
			cond, ok2 := x.Cond.(*ast.BinaryExpr)
			inc, ok3 := x.Post.(*ast.IncDecStmt)
			if !ok1 || !ok2 || !ok3 || len(as.Lhs) != 1 || len(as.Rhs) != 1 || as.Tok != token.DEFINE || inc.Tok != token.INC || cond.Op != token.LSS {
				continue
			}
			id, okI := as.Lhs[0].(*ast.Ident)
			lit, okL := as.Rhs[0].(*ast.BasicLit)
			call, okC := cond.Y.(*ast.CallExpr)
			if !okI || !okL || lit.Value != "0" || !okC || len(call.Args) != 1 || !isList(call.Args[0]) {
				continue
			}
			if fid, okF := call.Fun.(*ast.Ident); !okF || fid.Name != "len" {
				continue
			}
			ci, okCI := cond.X.(*ast.Ident)
			ii, okII := inc.X.(*ast.Ident)
			if !okCI || !okII || info.Uses[ci] != info.Defs[id] || info.Uses[ii] != info.Defs[id] {
				continue
			}
			nLoops++
			loopBody, loopPos = x.Body, x.Pos()
			idxObj = info.Defs[id]
		}
	}
	if nLoops != 1 {
		return fail(fn.Pos(), fmt.Sprintf("expected exactly one top-level loop over all children (range / index loop over the whole list), found %d: some children are skipped or visited twice", nLoops))
	}
	// element expression: the value variable, or S[i]
	isElem := func(e ast.Expr) bool {
		e = ast.Unparen(e)
		if id, ok := e.(*ast.Ident); ok && elemObj != nil && info.Uses[id] == elemObj {
			return true
		}
		if ix, ok := e.(*ast.IndexExpr); ok && idxObj != nil && isList(ix.X) {
			if id, ok2 := ast.Unparen(ix.Index).(*ast.Ident); ok2 && info.Uses[id] == idxObj {
				return true
			}
		}
		return false
	}
	// loop variables must not be reassigned
	reassigned := false
	ast.Inspect(loopBody, func(n ast.Node) bool {
		switch x := n.(type) {
		case *ast.AssignStmt:
			for _, l := range x.Lhs {
				if id, ok := l.(*ast.Ident); ok && x.Tok != token.DEFINE {
					if o := info.Uses[id]; o != nil && (o == elemObj || o == idxObj) {
						reassigned = true
					}
				}
			}
		case *ast.IncDecStmt:
			if id, ok := x.X.(*ast.Ident); ok {
				if o := info.Uses[id]; o != nil && (o == elemObj || o == idxObj) {
					reassigned = true
				}
			}
		}
		return true
	})
	if reassigned {
		return fail(loopPos, "the loop variable is modified inside the loop: children are skipped or repeated")
	}
	// forwarded calls anywhere in the function
	isFwdCall := func(call *ast.CallExpr) (onElem bool, ok bool) {
		se, isSel := call.Fun.(*ast.SelectorExpr)
		if !isSel || se.Sel.Name != sp.target {
			return false, false
		}
		sel := info.Selections[se]
		if sel == nil || sel.Kind() != types.MethodVal {
			return false, false
		}
		// a call of the target method on something of the children's element type
		return isElem(se.X), true
	}
	var inLoop, outLoop []*ast.CallExpr
	ast.Inspect(decl.Body, func(n ast.Node) bool {
		if call, ok := n.(*ast.CallExpr); ok {
			if onElem, isF := isFwdCall(call); isF {
				inside := call.Pos() >= loopBody.Pos() && call.End() <= loopBody.End()
				if inside && onElem {
					inLoop = append(inLoop, call)
				} else {
					// a call of the same method that is not on the loop element: extra delivery
					if se := call.Fun.(*ast.SelectorExpr); !isRecvDelegation(info, se, recvObj) || inside {
						outLoop = append(outLoop, call)
					}
				}
			}
		}
		return true
	})
	if len(outLoop) > 0 {
		return fail(outLoop[0].Pos(), "a child's "+sp.target+" is called outside the per-child loop position (a child is called twice, or a specific child is singled out)")
	}
	if len(inLoop) != sp.perIter {
		return fail(loopPos, fmt.Sprintf("the loop makes %d %s call(s) per child, expected %d", len(inLoop), sp.target, sp.perIter))
	}
	for _, call := range inLoop {
		if len(call.Args) != len(params) || call.Ellipsis != token.NoPos {
			return fail(call.Pos(), "the forwarded call does not pass exactly the method's parameters")
		}
		for i, a := range call.Args {
			id, ok := ast.Unparen(a).(*ast.Ident)
			if !ok || params[i] == nil || info.Uses[id] != params[i] {
				return fail(a.Pos(), fmt.Sprintf("argument %d of the forwarded call is not the method's parameter #%d unchanged: children receive a different call than the one made on the multi reporter", i+1, i+1))
			}
		}
	}
	// parameters must not be modified before/inside the loop
	modified := false
	ast.Inspect(decl.Body, func(n ast.Node) bool {
		if as, ok := n.(*ast.AssignStmt); ok && as.Tok != token.DEFINE {
			for _, l := range as.Lhs {
				if id, ok2 := l.(*ast.Ident); ok2 {
					for _, p := range params {
						if p != nil && info.Uses[id] == p {
							modified = true
						}
					}
				}
			}
		}
		return true
	})
	if modified {
		return fail(loopPos, "a parameter is reassigned in the forwarding method: children receive a different value")
	}

	// statements of the loop body per mode
	res := fwdResult{}
	for _, st := range loopBody.List {
		switch sp.mode {
		case fwdPlain:
			es, ok := st.(*ast.ExprStmt)
			if !ok || es.X != ast.Expr(inLoop[0]) {
				return fail(st.Pos(), "the loop body contains something other than the forwarded call (conditional, early exit or extra work per child)")
			}
		case fwdCollect:
			as, ok := st.(*ast.AssignStmt)
			okShape := false
			if ok && len(as.Lhs) == 1 && len(as.Rhs) == 1 && as.Tok == token.ASSIGN {
				lid, okL := as.Lhs[0].(*ast.Ident)
				app, okA := as.Rhs[0].(*ast.CallExpr)
				if okL && okA && len(app.Args) == 2 && app.Ellipsis == token.NoPos {
					if fid, okF := app.Fun.(*ast.Ident); okF && fid.Name == "append" {
						aid, okAI := app.Args[0].(*ast.Ident)
						if okAI && info.Uses[aid] == info.Uses[lid] && app.Args[1] == ast.Expr(inLoop[0]) {
							okShape = true
							res.listVar = info.Uses[lid]
						}
					}
				}
			}
			if !okShape {
				return fail(st.Pos(), "the loop body is not `list = append(list, child."+sp.target+"(params))`: a child's handle is dropped or collected conditionally")
			}
		case fwdErrExit:
			if !c.errExitStmt(info, st, inLoop[0]) {
				return fail(st.Pos(), "the loop body is not `forward to the child; leave only on its error` (plus a call-free result fold)")
			}
		case fwdBoolAnd:
			if !c.boolExitStmt(info, st, inLoop[0]) {
				return fail(st.Pos(), "the loop body is not `if !child."+sp.target+"() { return false }`")
			}
		case fwdCapsAnd:
			// acc.f = acc.f && child.M().F()
			as, ok := st.(*ast.AssignStmt)
			okShape := false
			if ok && len(as.Lhs) == 1 && len(as.Rhs) == 1 && as.Tok == token.ASSIGN {
				if be, okB := as.Rhs[0].(*ast.BinaryExpr); okB && be.Op == token.LAND {
					if types.ExprString(as.Lhs[0]) == types.ExprString(be.X) {
						if outer, okO := be.Y.(*ast.CallExpr); okO && len(outer.Args) == 0 {
							if ose, okS := outer.Fun.(*ast.SelectorExpr); okS {
								for _, ic := range inLoop {
									if ose.X == ast.Expr(ic) {
										// accumulated field and queried capability must agree
										if lse, okLS := as.Lhs[0].(*ast.SelectorExpr); okLS && sameCapability(lse.Sel.Name, ose.Sel.Name) {
											okShape = true
										}
									}
								}
							}
						}
					}
				}
			}
			if !okShape {
				return fail(st.Pos(), "the loop body is not `acc.<capability> = acc.<capability> && child.Capabilities().<Capability>()`")
			}
		}
	}
	if sp.mode == fwdCollect && res.listVar != nil {
		// the collecting list must start empty and private to this call: `var l []T`, `l := make([]T, 0, n)`
		// or an empty literal - never a field, parameter or other shared slice (appending to a shared
		// backing array makes every returned handle alias the children of the last one)
		fresh := false
		ast.Inspect(decl.Body, func(n ast.Node) bool {
			switch x := n.(type) {
			case *ast.ValueSpec:
				for i, nm := range x.Names {
					if info.Defs[nm] == res.listVar {
						if len(x.Values) == 0 {
							fresh = true
						} else if i < len(x.Values) {
							fresh = emptyFreshSlice(x.Values[i])
						}
					}
				}
			case *ast.AssignStmt:
				if x.Tok == token.DEFINE {
					for i, l := range x.Lhs {
						if id, ok := l.(*ast.Ident); ok && info.Defs[id] == res.listVar && i < len(x.Rhs) {
							fresh = emptyFreshSlice(x.Rhs[i])
						}
					}
				}
			}
			return true
		})
		if !fresh {
			return fail(loopPos, "the list the children's handles are collected into does not start as an empty slice private to this call (it is taken from a field or another shared slice): handles returned by different calls share one backing array and report to the wrong children")
		}
		// and it must not be reassigned elsewhere
		nAssign := 0
		ast.Inspect(decl.Body, func(n ast.Node) bool {
			if as, ok := n.(*ast.AssignStmt); ok && as.Tok == token.ASSIGN {
				for _, l := range as.Lhs {
					if id, isId := l.(*ast.Ident); isId && info.Uses[id] == res.listVar {
						nAssign++
					}
				}
			}
			return true
		})
		if nAssign != 1 {
			return fail(loopPos, "the collecting list is assigned outside the per-child append")
		}
	}
	if sp.mode != fwdErrExit && sp.mode != fwdBoolAnd {
		if pos, esc := hasLoopEscape(loopBody); esc {
			return fail(pos, "the loop over the children can be left early")
		}
	}
	res.ok = true
	c.ok(rule, key, loopPos, fmt.Sprintf("one loop over all children, %d %s call(s) per child with the method's own parameters, nothing else", sp.perIter, sp.target))
	return res
}

func sameCapability(field, method string) bool {
	return (field == "reporting" && method == "Reporting") || (field == "tagging" && method == "Tagging")
}

// isRecvDelegation: se is recv.<field>.<method> (a pass-through to the base list), not a child call.
func isRecvDelegation(info *types.Info, se *ast.SelectorExpr, recv types.Object) bool {
	inner, ok := ast.Unparen(se.X).(*ast.SelectorExpr)
	if !ok {
		return false
	}
	id, ok := ast.Unparen(inner.X).(*ast.Ident)
	return ok && info.Uses[id] == recv
}

// errExitStmt accepts:
//
//	if err := call; err != nil { return [..,] err }
//	v, err := call ; if err != nil { return ... }   (as two statements, the second is call-free)
//	if v > n { n = v }                               (call-free fold)
func (c *Ctx) errExitStmt(info *types.Info, st ast.Stmt, fwd *ast.CallExpr) bool {
	callFree := func(n ast.Node) bool {
		free := true
		ast.Inspect(n, func(m ast.Node) bool {
			if ce, ok := m.(*ast.CallExpr); ok {
				if id, isId := ce.Fun.(*ast.Ident); !(isId && (id.Name == "len" || id.Name == "cap")) {
					free = false
				}
			}
			return true
		})
		return free
	}
	onlyReturnsErr := func(body *ast.BlockStmt) bool {
		if len(body.List) != 1 {
			return false
		}
		r, ok := body.List[0].(*ast.ReturnStmt)
		return ok && callFree(r)
	}
	switch x := st.(type) {
	case *ast.IfStmt:
		if x.Else != nil {
			return false
		}
		if as, ok := x.Init.(*ast.AssignStmt); ok && len(as.Rhs) == 1 && as.Rhs[0] == ast.Expr(fwd) {
			be, okB := x.Cond.(*ast.BinaryExpr)
			if !okB || be.Op != token.NEQ || !callFree(be) {
				return false
			}
			return onlyReturnsErr(x.Body)
		}
		if x.Init != nil {
			return false
		}
		// call-free if: either an error exit on a previously assigned err, or a result fold
		if !callFree(x.Cond) || !callFree(x.Body) {
			return false
		}
		if be, okB := x.Cond.(*ast.BinaryExpr); okB && be.Op == token.NEQ {
			if id, okI := be.Y.(*ast.Ident); okI && id.Name == "nil" {
				return onlyReturnsErr(x.Body)
			}
		}
		// fold: body consists of plain assignments only
		for _, s := range x.Body.List {
			if _, okA := s.(*ast.AssignStmt); !okA {
				return false
			}
		}
		return true
	case *ast.AssignStmt:
		return len(x.Rhs) == 1 && x.Rhs[0] == ast.Expr(fwd)
	}
	return false
}

// boolExitStmt accepts `if v := call; !v { return false }` and `if !call { return false }`.
func (c *Ctx) boolExitStmt(info *types.Info, st ast.Stmt, fwd *ast.CallExpr) bool {
	x, ok := st.(*ast.IfStmt)
	if !ok || x.Else != nil || len(x.Body.List) != 1 {
		return false
	}
	r, okR := x.Body.List[0].(*ast.ReturnStmt)
	if !okR || len(r.Results) != 1 {
		return false
	}
	if id, okI := r.Results[0].(*ast.Ident); !okI || id.Name != "false" {
		return false
	}
	un, okU := x.Cond.(*ast.UnaryExpr)
	if !okU || un.Op != token.NOT {
		return false
	}
	if as, okA := x.Init.(*ast.AssignStmt); okA && len(as.Rhs) == 1 && as.Rhs[0] == ast.Expr(fwd) && len(as.Lhs) == 1 {
		lid, okL := as.Lhs[0].(*ast.Ident)
		cid, okC := un.X.(*ast.Ident)
		return okL && okC && info.Defs[lid] != nil && info.Uses[cid] == info.Defs[lid]
	}
	return x.Init == nil && un.X == ast.Expr(fwd)
}

// emptyFreshSlice: make([]T, 0[, n]), []T{} or nil.
func emptyFreshSlice(e ast.Expr) bool {
	switch x := ast.Unparen(e).(type) {
	case *ast.CallExpr:
		if id, ok := x.Fun.(*ast.Ident); ok && id.Name == "make" && len(x.Args) >= 2 {
			if lit, isLit := x.Args[1].(*ast.BasicLit); isLit && lit.Value == "0" {
				return true
			}
		}
	case *ast.CompositeLit:
		return len(x.Elts) == 0
	case *ast.Ident:
		return x.Name == "nil"
	}
	return false
}
