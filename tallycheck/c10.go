package main

import (
	"fmt"
	"go/token"
	"go/types"

	"golang.org/x/tools/go/ssa"
)

func init() { register("C10", checkC10) }

// isGlobalCall: instr calls the function value held in package variable pkg.name.
func isGlobalCall(v ssa.Value, pkgpath, name string) bool {
	call, ok := v.(*ssa.Call)
	if !ok {
		return false
	}
	ld, ok := call.Call.Value.(*ssa.UnOp)
	if !ok || ld.Op != token.MUL {
		return false
	}
	g, ok := ld.X.(*ssa.Global)
	return ok && g.Name() == name && g.Pkg != nil && g.Pkg.Pkg.Path() == pkgpath
}

// reachableStatic returns the in-module functions reachable from roots through static calls,
// directly called or created closures, deferred calls and go statements.
func (p *Program) reachableStatic(roots []*ssa.Function) map[*ssa.Function]bool {
	seen := map[*ssa.Function]bool{}
	var visit func(f *ssa.Function)
	visit = func(f *ssa.Function) {
		if f == nil || seen[f] || f.Blocks == nil || !p.inModule(f) {
			return
		}
		seen[f] = true
		instrsOf(f, func(in ssa.Instruction) {
			if ci, ok := in.(ssa.CallInstruction); ok {
				visit(staticCallee(ci))
			}
			if mc, ok := in.(*ssa.MakeClosure); ok {
				if g, isF := mc.Fn.(*ssa.Function); isF {
					visit(g)
				}
			}
			// function values passed as arguments
			for _, op := range in.Operands(nil) {
				if op != nil && *op != nil {
					if g, isF := (*op).(*ssa.Function); isF {
						visit(g)
					}
				}
			}
		})
	}
	for _, r := range roots {
		visit(r)
	}
	return seen
}

func checkC10(c *Ctx) {
	c.Explanation = "Decides the timer path structurally: (O1) timer.Record makes exactly one delivery on every path - the cached timer when present, else the reporter with the timer's own name and tags - passing its parameter unchanged, with no go statement, channel send or store before returning (synchronous, unbuffered); (O2) no function reachable from a report pass delivers or buffers timer values (so passes neither repeat nor buffer them); (O3) Start captures the clock at call time with the receiver as recorder, Stop calls RecordStopwatch(start) once, RecordStopwatch computes now.Sub(start) and records it once; (O4) instrument Exec invokes the function exactly once between Start and Stop, increments exactly one of the two counters chosen by err != nil and returns that error / nil; NewCall wires error/success to the matching tag constants; (O5) Scope.Timer (like the other get-or-create functions) returns a newly built timer only after inserting it under the write lock on the miss edge of the re-check, so racing first users all record on the registered timer."
	c.Explanation += " Added by round 8: (O4 newcall:timing) the latency timer is scope.SubScope(name).Timer(constant)."
	c.NotDecided = []string{"wall-clock accuracy of the measured duration"}

	mPlainT := c.ifaceMethod("", "StatsReporter", "ReportTimer")
	mCachedT := c.ifaceMethod("", "CachedTimer", "ReportTimer")
	if mPlainT == nil || mCachedT == nil {
		c.missing("O1 record", "StatsReporter.ReportTimer / CachedTimer.ReportTimer")
		return
	}
	isTimerDelivery := func(in ssa.Instruction) bool {
		ci, ok := in.(ssa.CallInstruction)
		if !ok {
			return false
		}
		_, m := ifaceCall(ci)
		return m != nil && (m == mPlainT || m == mCachedT)
	}

	// ---- O5 a timer handed out by a scope is the registered one (test scopes keep the values in the
	// timer object and Snapshot walks the registered timers only) - shared with C09 O1
	c.checkDoubleChecked("O5 registered-timer", c.newLockEngine())

	// ---- O1 timer.Record ----------------------------------------------------------------------
	rec := c.fn("", "timer", "Record")
	fName, fTags, fRep, fCached := c.field("", "timer", "name"), c.field("", "timer", "tags"), c.field("", "timer", "reporter"), c.field("", "timer", "cachedTimer")
	if rec == nil || fName == nil || fTags == nil || fRep == nil || fCached == nil {
		c.missing("O1 record", "tally.timer.Record / timer fields")
	} else {
		key := c.fnKey(rec)
		c.sawFunc(key)
		cnt := c.newPathCounter(isTimerDelivery, 2).fn(rec, 2)
		c.paths++
		okAll := c.check(cnt.min == 1 && cnt.max == 1, "O1 record", key, rec.Pos(), "exactly one timer delivery on every path",
			fmt.Sprintf("Record makes between %d and %d timer deliveries depending on the path (exactly one is required: each recorded value must be delivered once)", cnt.min, cnt.max))
		recv, val := ssa.Value(rec.Params[0]), ssa.Value(rec.Params[1])
		instrsOf(rec, func(in ssa.Instruction) {
			switch x := in.(type) {
			case *ssa.Go:
				okAll = false
				c.bad("O1 record", key+":sync", in.Pos(), "Record starts a goroutine: the delivery is not made synchronously before Record returns", c.describe(in))
			case *ssa.Send:
				okAll = false
				c.bad("O1 record", key+":sync", in.Pos(), "Record sends on a channel: the value is queued instead of being forwarded immediately", c.describe(in))
			case *ssa.Store:
				if _, isAlloc := x.Addr.(*ssa.Alloc); !isAlloc {
					okAll = false
					c.bad("O1 record", key+":sync", in.Pos(), "Record stores into shared state: timer values must not be buffered", c.describe(in))
				}
			case *ssa.MapUpdate:
				okAll = false
				c.bad("O1 record", key+":sync", in.Pos(), "Record updates a map: timer values must not be buffered", c.describe(in))
			}
			if !isTimerDelivery(in) {
				return
			}
			ci := in.(ssa.CallInstruction)
			r, m := ifaceCall(ci)
			args := ci.Common().Args
			c.callSites++
			if canon(args[len(args)-1]) != val {
				okAll = false
				c.bad("O1 record", key+":value", in.Pos(), "the delivered interval is not Record's parameter unchanged", c.describe(in))
			}
			if m == mCachedT {
				if f, base := loadedField(r); f != fCached || canon(base) != recv {
					okAll = false
					c.bad("O1 record", key+":cached", in.Pos(), "the cached delivery is not made on the timer's own cachedTimer", c.describe(in))
				}
				// guarded by cachedTimer != nil
				g := guardedByEdge(in, func(cond ssa.Value) (bool, bool) {
					op, x, y, ok := cmpOf(cond)
					if !ok {
						return false, false
					}
					if isNilConst(x) {
						x, y = y, x
					}
					f, base := loadedField(x)
					if f != fCached || canon(base) != recv || !isNilConst(y) {
						return false, false
					}
					return true, op == token.NEQ
				})
				if g == nil {
					okAll = false
					c.bad("O1 record", key+":cached", in.Pos(), "the cached timer is used without the `cachedTimer != nil` test (nil dereference for plain reporters) or on the wrong branch", c.describe(in))
				}
			} else {
				if f, base := loadedField(r); f != fRep || canon(base) != recv {
					okAll = false
					c.bad("O1 record", key+":plain", in.Pos(), "the plain delivery is not made on the timer's own reporter", c.describe(in))
				}
				fn0, b0 := loadedField(args[0])
				ft0, b1 := loadedField(args[1])
				if fn0 != fName || ft0 != fTags || canon(b0) != recv || canon(b1) != recv {
					okAll = false
					c.bad("O1 record", key+":plain", in.Pos(), "the plain delivery does not carry the timer's own name and tags", c.describe(in))
				}
			}
		})
		if okAll {
			c.ok("O1 record", key+":shape", rec.Pos(), "cached timer when present, else reporter(name, tags); parameter unchanged; no go/send/store")
		}
	}

	// ---- O2 report passes never deliver or buffer timers ----------------------------------------
	var roots []*ssa.Function
	for _, r := range [][2]string{{"scope", "reportRegistry"}, {"scope", "report"}, {"scope", "cachedReport"}, {"scopeRegistry", "Report"}, {"scopeRegistry", "CachedReport"}, {"scope", "reportLoopRun"}} {
		if f := c.fn("", r[0], r[1]); f != nil {
			roots = append(roots, f)
		} else {
			c.missing("O2 passes-skip-timers", "tally."+r[0]+"."+r[1])
		}
	}
	fValues := c.field("", "timerValues", "values")
	reach := c.reachableStatic(roots)
	nBad := 0
	for _, fn := range c.AllFuncs {
		if !reach[fn] {
			continue
		}
		c.sawFunc(c.fnKey(fn))
		instrsOf(fn, func(in ssa.Instruction) {
			if isTimerDelivery(in) {
				nBad++
				c.bad("O2 passes-skip-timers", c.fnKey(fn), in.Pos(), "a function reachable from a report pass delivers a timer value: values already forwarded by Record are delivered again by the pass", c.describe(in))
			}
			if call, ok := in.(ssa.CallInstruction); ok && rec != nil && staticCallee(call) == rec {
				nBad++
				c.bad("O2 passes-skip-timers", c.fnKey(fn), in.Pos(), "a function reachable from a report pass calls timer.Record", c.describe(in))
			}
			if st, ok := in.(*ssa.Store); ok && fValues != nil {
				if f, _ := addrField(st.Addr); f == fValues {
					if _, _, _, isApp := appendedValues(st.Val); isApp {
						nBad++
						c.bad("O2 passes-skip-timers", c.fnKey(fn), in.Pos(), "a function reachable from a report pass appends to a timer's value list (buffering)", c.describe(in))
					}
				}
			}
		})
	}
	c.extra["functions_reachable_from_passes"] = len(reach)
	if nBad == 0 {
		c.ok("O2 passes-skip-timers", "report passes", token.NoPos, fmt.Sprintf("none of the %d functions reachable from the report passes delivers, records or buffers a timer value", len(reach)))
	}
	c.floor("O2 passes-skip-timers", len(reach), 5)
	// no scope field may hold buffered timer values for a later pass: Record is the only deliverer
	nDel := 0
	for _, fn := range c.funcsOfPkg("") {
		instrsOf(fn, func(in ssa.Instruction) {
			if isTimerDelivery(in) {
				nDel++
				if fn != rec {
					c.bad("O2 single-deliverer", c.fnKey(fn), in.Pos(), "a timer delivery is made outside timer.Record: each recorded value may be delivered more than once", c.describe(in))
				}
			}
		})
	}
	c.floor("O2 single-deliverer", nDel, 2)
	if rec != nil {
		c.ok("O2 single-deliverer", c.fnKey(rec)+":only", rec.Pos(), fmt.Sprintf("all %d timer deliveries of package tally are inside timer.Record", nDel))
	}

	// ---- O3 stopwatch ---------------------------------------------------------------------------
	newSW := c.fn("", "", "NewStopwatch")
	for _, t := range []string{"timer", "histogram"} {
		start := c.fn("", t, "Start")
		if start == nil || newSW == nil {
			c.missing("O3 stopwatch", "tally."+t+".Start / NewStopwatch")
			continue
		}
		key := c.fnKey(start)
		c.sawFunc(key)
		ok := false
		if rets := returnsOf(start); len(rets) == 1 {
			if call, isCall := stripConv(rets[0].Results[0]).(*ssa.Call); isCall && staticCallee(call) == newSW {
				if isGlobalCall(call.Call.Args[0], modPath, "globalNow") && canon(call.Call.Args[1]) == ssa.Value(start.Params[0]) {
					ok = true
				}
			}
		}
		c.check(ok, "O3 stopwatch", key, start.Pos(), "Start returns NewStopwatch(globalNow(), receiver)",
			"Start does not capture the clock at call time with the receiver as recorder: the stopwatch measures from a different instant or records into a different metric")
		// RecordStopwatch
		rs := c.fn("", t, "RecordStopwatch")
		recName := map[string]string{"timer": "Record", "histogram": "RecordDuration"}[t]
		recFn := c.fn("", t, recName)
		if rs == nil || recFn == nil {
			c.missing("O3 stopwatch", "tally."+t+".RecordStopwatch")
			continue
		}
		key = c.fnKey(rs)
		c.sawFunc(key)
		var recCalls []*ssa.Call
		instrsOf(rs, func(in ssa.Instruction) {
			if call, isCall := in.(*ssa.Call); isCall && staticCallee(call) == recFn {
				recCalls = append(recCalls, call)
			}
		})
		cnt := c.newPathCounter(func(i ssa.Instruction) bool {
			call, isCall := i.(*ssa.Call)
			return isCall && staticCallee(call) == recFn
		}, 0).fn(rs, 0)
		okRS := len(recCalls) == 1 && cnt.min == 1 && cnt.max == 1
		why := "RecordStopwatch does not record the elapsed time exactly once"
		if okRS {
			call := recCalls[0]
			okRS = false
			why = "the recorded duration is not globalNow().Sub(start parameter) (operands swapped, or a different instant)"
			if canon(call.Call.Args[0]) == ssa.Value(rs.Params[0]) {
				if sub, isSub := stripConv(call.Call.Args[1]).(*ssa.Call); isSub {
					if f := staticCallee(sub); f != nil && f.String() == "(time.Time).Sub" {
						if isGlobalCall(sub.Call.Args[0], modPath, "globalNow") && canon(sub.Call.Args[1]) == ssa.Value(rs.Params[1]) {
							okRS = true
						}
					}
				}
			}
		}
		c.check(okRS, "O3 stopwatch", key, rs.Pos(), "records globalNow().Sub(start) exactly once on the receiver", why)
	}
	if newSW != nil {
		fStart, fRec := c.field("", "Stopwatch", "start"), c.field("", "Stopwatch", "recorder")
		okNew := false
		if rets := returnsOf(newSW); len(rets) == 1 && fStart != nil && fRec != nil {
			// the result struct's fields are stored from the parameters
			got := map[*types.Var]ssa.Value{}
			instrsOf(newSW, func(in ssa.Instruction) {
				if st, ok := in.(*ssa.Store); ok {
					if f, _ := addrField(st.Addr); f != nil {
						got[f] = st.Val
					}
				}
			})
			okNew = got[fStart] == ssa.Value(newSW.Params[0]) && got[fRec] == ssa.Value(newSW.Params[1])
		}
		c.check(okNew, "O3 stopwatch", c.fnKey(newSW), newSW.Pos(), "NewStopwatch stores (start, recorder)", "NewStopwatch does not store its start time and recorder")
		stop := c.fn("", "Stopwatch", "Stop")
		mRS := c.ifaceMethod("", "StopwatchRecorder", "RecordStopwatch")
		if stop == nil || mRS == nil {
			c.missing("O3 stopwatch", "tally.Stopwatch.Stop")
		} else {
			calls := invokesOf([]*ssa.Function{stop}, mRS)
			cnt := c.newPathCounter(func(i ssa.Instruction) bool {
				ci, ok := i.(ssa.CallInstruction)
				if !ok {
					return false
				}
				_, m := ifaceCall(ci)
				return m == mRS
			}, 0).fn(stop, 0)
			ok := len(calls) == 1 && cnt.min == 1 && cnt.max == 1
			if ok {
				r, _ := ifaceCall(calls[0])
				rf, rb := loadedField(r)
				af, ab := loadedField(calls[0].Common().Args[0])
				ok = rf == fRec && af == fStart && canon(rootOf(rb)) == ssa.Value(stop.Params[0]) && canon(rootOf(ab)) == ssa.Value(stop.Params[0])
			}
			c.check(ok, "O3 stopwatch", c.fnKey(stop), stop.Pos(), "Stop calls recorder.RecordStopwatch(start) exactly once",
				"Stop does not call its recorder's RecordStopwatch with its own start time exactly once")
		}
	}

	// ---- O4 instrumented call -------------------------------------------------------------------
	c.checkExec("O4 exec")
	c.checkNewCall("O4 newcall")
	c.checkTimerSinkAppendOnly("O6 sink-append-only")
	// "carrying d and the scope's name and tags": the timer (plain and cached) is created under the name
	// and tags every other metric of the scope is delivered with - shared with C06 O1
	c.shared(checkC06, map[string]string{"O1 sanitize-before-sink": "O7 scope-name-and-tags"})
	c.checkNoSwallowedPanic("O8 no-swallowed-panic")

}

func (c *Ctx) checkExec(rule string) {
	fn := c.fn("instrument", "call", "Exec")
	fErr, fOK, fTiming := c.field("instrument", "call", "err"), c.field("instrument", "call", "success"), c.field("instrument", "call", "timing")
	if fn == nil || fErr == nil || fOK == nil || fTiming == nil {
		c.missing(rule, "instrument.call.Exec / fields err, success, timing")
		return
	}
	key := c.fnKey(fn)
	c.sawFunc(key)
	recv, f := ssa.Value(fn.Params[0]), ssa.Value(fn.Params[1])
	var fCalls, starts, stops []ssa.Instruction
	incs := map[*types.Var][]ssa.Instruction{}
	mInc := c.ifaceMethod("", "Counter", "Inc")
	mStart := c.ifaceMethod("", "Timer", "Start")
	stopFn := c.fn("", "Stopwatch", "Stop")
	instrsOf(fn, func(in ssa.Instruction) {
		ci, ok := in.(ssa.CallInstruction)
		if !ok {
			return
		}
		if _, isGo := in.(*ssa.Go); isGo {
			return
		}
		if canon(ci.Common().Value) == f && !ci.Common().IsInvoke() {
			fCalls = append(fCalls, in)
		}
		if r, m := ifaceCall(ci); m != nil {
			if m == mStart {
				if lf, base := loadedField(r); lf == fTiming && canon(base) == recv {
					starts = append(starts, in)
				}
			}
			if m == mInc {
				if lf, base := loadedField(r); (lf == fErr || lf == fOK) && canon(base) == recv {
					incs[lf] = append(incs[lf], in)
				}
			}
		}
		if stopFn != nil && staticCallee(ci) == stopFn {
			stops = append(stops, in)
		}
	})
	isIn := func(set []ssa.Instruction) Pred {
		return func(i ssa.Instruction) bool {
			for _, s := range set {
				if s == i {
					return true
				}
			}
			return false
		}
	}
	cntF := c.newPathCounter(isIn(fCalls), 0).fn(fn, 0)
	okAll := c.check(len(fCalls) == 1 && cntF.min == 1 && cntF.max == 1, rule, key+":once", fn.Pos(), "the instrumented function is invoked exactly once on every path",
		fmt.Sprintf("the instrumented function is invoked between %d and %d times", cntF.min, cntF.max))
	if len(fCalls) != 1 {
		return
	}
	fc := fCalls[0]
	// Start before, Stop after on every path
	okBracket := len(starts) == 1 && len(stops) >= 1 && dominates(starts[0], fc)
	if okBracket {
		for _, s := range stops {
			if _, isDefer := s.(*ssa.Defer); isDefer {
				continue
			}
			if !dominates(fc, s) {
				okBracket = false
			}
		}
		// Stop is called on the stopwatch returned by Start
		for _, s := range stops {
			if canon(s.(ssa.CallInstruction).Common().Args[0]) != starts[0].(ssa.Value) {
				okBracket = false
			}
		}
		lift := c.newLifter(isIn(stops), 1)
		if esc := reachAvoiding(fc, false, isReturn, lift.Must); esc != nil {
			okBracket = false
		}
		cntS := c.newPathCounter(isIn(stops), 0).fn(fn, 0)
		if cntS.max != 1 || cntS.min != 1 {
			okBracket = false
		}
	}
	if !c.check(okBracket, rule, key+":bracket", fc.Pos(), "timing.Start() before the call, its Stop() exactly once after it on every path",
		"the latency stopwatch does not bracket the call (Start before, one Stop after on every path): the recorded latency is wrong, missing or doubled") {
		okAll = false
	}
	// counters
	var errV ssa.Value
	if v, ok := fc.(ssa.Value); ok {
		errV = v
	}
	errNonNil := func(cond ssa.Value) (bool, bool) {
		op, x, y, ok := cmpOf(cond)
		if !ok {
			return false, false
		}
		if isNilConst(x) {
			x, y = y, x
		}
		if canon(x) != errV || !isNilConst(y) {
			return false, false
		}
		return true, op == token.NEQ
	}
	errNil := func(cond ssa.Value) (bool, bool) { m, t := errNonNil(cond); return m, !t }
	okCnt := len(incs[fErr]) == 1 && len(incs[fOK]) == 1
	if !okCnt && errV != nil {
		// the counter may be selected first and incremented once (`outcome := c.success; if err != nil
		// { outcome = c.err }; outcome.Inc(1)`): judge every Inc by what its receiver is, and what is
		// known about the function's error, on each feasible path that reaches it
		var allInc []ssa.Instruction
		instrsOf(fn, func(in ssa.Instruction) {
			if ci, ok := in.(ssa.CallInstruction); ok {
				if _, isGo := in.(*ssa.Go); isGo {
					return
				}
				if _, m := ifaceCall(ci); m != nil && m == mInc {
					allInc = append(allInc, in)
				}
			}
		})
		okSel := len(allInc) > 0
		for _, inc := range allInc {
			ci := inc.(ssa.CallInstruction)
			if k, isK := constInt(ci.Common().Args[0]); !isK || k != 1 {
				okSel = false
			}
			rcv, _ := ifaceCall(ci)
			nStates := 0
			walkThreaded(pstate{b: fn.Blocks[0]}, func(st pstate) bool {
				if st.b != inc.Block() {
					return true
				}
				nStates++
				lf, base := loadedField(st.resolve(rcv))
				if (lf != fErr && lf != fOK) || canon(base) != recv {
					okSel = false
					return false
				}
				t, known := st.fact(errV)
				if !known || t != (lf == fErr) {
					okSel = false
					return false
				}
				return true
			}, nil)
			if nStates == 0 {
				okSel = false
			}
		}
		if okSel {
			cnt := c.newPathCounter(isIn(allInc), 0).fn(fn, 0)
			okSel = cnt.min == 1 && cnt.max == 1
		}
		if okSel {
			okCnt = true
			incs[fErr], incs[fOK] = nil, nil
		}
	}
	if okCnt && len(incs[fErr]) == 1 {
		e, s := incs[fErr][0], incs[fOK][0]
		okCnt = guardedByEdge(e, errNonNil) != nil && guardedByEdge(s, errNil) != nil
		for _, i := range []ssa.Instruction{e, s} {
			if k, isK := constInt(i.(ssa.CallInstruction).Common().Args[0]); !isK || k != 1 {
				okCnt = false
			}
		}
		all := append(append([]ssa.Instruction{}, incs[fErr]...), incs[fOK]...)
		cnt := c.newPathCounter(isIn(all), 0).fn(fn, 0)
		if cnt.min != 1 || cnt.max != 1 {
			okCnt = false
		}
	}
	if !c.check(okCnt, rule, key+":counters", fn.Pos(), "exactly one of err.Inc(1) (err != nil) and success.Inc(1) (err == nil) on every path",
		"Exec does not increment exactly one of the error and success counters, chosen by err != nil") {
		okAll = false
	}
	// returns
	okRet := true
	for _, r := range returnsOf(fn) {
		v := r.Results[0]
		switch {
		case isNilConst(v):
			if guardedByEdge(r, errNil) == nil {
				okRet = false
			}
		case canon(v) == errV:
			// returning f's error is right on every edge (it is nil on the success edge)
		default:
			okRet = false
		}
	}
	if !c.check(okRet, rule, key+":return", fn.Pos(), "returns the function's error unchanged (nil only when it returned nil)",
		"Exec does not return the instrumented function's error unchanged") {
		okAll = false
	}
	_ = okAll
}

func (c *Ctx) checkNewCall(rule string) {
	fn := c.fn("instrument", "", "NewCall")
	if fn == nil {
		c.missing(rule, "instrument.NewCall")
		return
	}
	key := c.fnKey(fn)
	c.sawFunc(key)
	konst := func(name string) string {
		k, ok := c.pkg("instrument").Types.Scope().Lookup(name).(*types.Const)
		if !ok {
			return "?" + name
		}
		return constantString(k)
	}
	want := map[string]string{"err": konst("resultTypeError"), "success": konst("resultTypeSuccess")}
	tagKey := konst("resultType")
	mTagged, mCounter := c.ifaceMethod("", "Scope", "Tagged"), c.ifaceMethod("", "Scope", "Counter")
	got := map[string]bool{}
	instrsOf(fn, func(in ssa.Instruction) {
		st, ok := in.(*ssa.Store)
		if !ok {
			return
		}
		f, _ := addrField(st.Addr)
		if f == nil || (f.Name() != "err" && f.Name() != "success") {
			return
		}
		// value = scope.Tagged(map{resultType: X}).Counter(name)
		cc, isCall := stripConv(st.Val).(*ssa.Call)
		if !isCall {
			return
		}
		r, m := ifaceCall(cc)
		if m != mCounter || canon(cc.Call.Args[0]) != ssa.Value(fn.Params[1]) {
			return
		}
		tc, isT := stripConv(r).(*ssa.Call)
		if !isT {
			return
		}
		if _, m2 := ifaceCall(tc); m2 != mTagged {
			return
		}
		mm, isMM := tc.Call.Args[0].(*ssa.MakeMap)
		if !isMM || mm.Referrers() == nil {
			return
		}
		n := 0
		okKV := false
		for _, u := range *mm.Referrers() {
			if mu, isMU := u.(*ssa.MapUpdate); isMU {
				n++
				k, _ := constString(mu.Key)
				v, _ := constString(mu.Value)
				if k == tagKey && v == want[f.Name()] {
					okKV = true
				}
			}
		}
		if n == 1 && okKV {
			got[f.Name()] = true
		}
	})
	// timing = scope.SubScope(name).Timer(<constant>): the latency's name is joined by the scope (with the
	// separator that scope was configured with), not assembled here with a separator of NewCall's choosing
	mSub, mTimer := c.ifaceMethod("", "Scope", "SubScope"), c.ifaceMethod("", "Scope", "Timer")
	timingOK, timingSeen := false, false
	var timingAt ssa.Instruction
	instrsOf(fn, func(in ssa.Instruction) {
		st, ok := in.(*ssa.Store)
		if !ok {
			return
		}
		f, _ := addrField(st.Addr)
		if f == nil || f.Name() != "timing" {
			return
		}
		timingSeen = true
		timingAt = st
		tc, isCall := stripConv(st.Val).(*ssa.Call)
		if !isCall {
			return
		}
		r, m := ifaceCall(tc)
		if m != mTimer {
			return
		}
		if k, isK := constString(tc.Call.Args[0]); !isK || k != konst("timingSuffix") {
			return
		}
		sc, isSub := stripConv(r).(*ssa.Call)
		if !isSub {
			return
		}
		r2, m2 := ifaceCall(sc)
		if m2 != mSub || canon(sc.Call.Args[0]) != ssa.Value(fn.Params[1]) || canon(r2) != ssa.Value(fn.Params[0]) {
			return
		}
		timingOK = true
	})
	if mSub != nil && mTimer != nil {
		pos := fn.Pos()
		if timingAt != nil {
			pos = timingAt.Pos()
		}
		_ = timingSeen
		c.check(timingOK, rule, key+":timing", pos, "timing <- scope.SubScope(name).Timer(latency): the latency is recorded under the given scope's own naming",
			"the latency timer is not scope.SubScope(name).Timer(<latency constant>): its name is assembled outside the scope (a fixed separator, another scope), so on a scope with another separator or prefix the one latency per call is recorded under a name that is not the scope's")
	}
	c.check(got["err"] && got["success"], rule, key, fn.Pos(), "err <- Tagged{result_type:error}.Counter(name), success <- Tagged{result_type:success}.Counter(name)",
		"NewCall does not wire the error/success counters to the result_type=error / result_type=success tags (swapped or mistagged counters)")
}

func constantString(k *types.Const) string {
	s := k.Val().ExactString()
	if len(s) >= 2 && s[0] == '"' {
		return s[1 : len(s)-1]
	}
	return s
}

// checkTimerSinkAppendOnly (O6): on a scope without a reporter the recorded durations live in
// timerValues.values until Snapshot copies them. Every assignment to that field must be
// `values = append(values, ...)` (or fresh storage): a re-slice such as values[:0] or values[:n] keeps
// the backing array, so later records overwrite durations that were recorded (or sealed elsewhere)
// before - the count stays right while early values are lost and later ones appear twice.
func (c *Ctx) checkTimerSinkAppendOnly(rule string) {
	fVals := c.field("", "timerValues", "values")
	if fVals == nil {
		c.missing(rule, "tally.timerValues.values")
		return
	}
	n := 0
	okAll := true
	for _, ref := range c.fieldRefs(fVals) {
		fa, ok := ref.(*ssa.FieldAddr)
		if !ok || fa.Referrers() == nil {
			continue
		}
		for _, u := range *fa.Referrers() {
			st, isSt := u.(*ssa.Store)
			if !isSt || st.Addr != ssa.Value(fa) {
				continue
			}
			n++
			fn := st.Parent()
			c.sawFunc(c.fnKey(fn))
			v := stripConv(st.Val)
			good := false
			switch x := v.(type) {
			case *ssa.MakeSlice:
				good = true
			case *ssa.Const:
				good = x.IsNil()
			case *ssa.Slice:
				// make([]T, 0, K) with constant K: a slice of a fresh array
				if al, isAl := x.X.(*ssa.Alloc); isAl && al.Parent() == fn {
					if _, isArr := deref(al.Type()).Underlying().(*types.Array); isArr {
						good = true
					}
				}
			case *ssa.Call:
				if isBuiltin(x, "append") {
					if f, _ := loadedField(x.Call.Args[0]); f == fVals {
						good = true
					}
				}
			}
			if !good {
				okAll = false
				c.bad(rule, c.fnKey(fn), st.Pos(), "timerValues.values is assigned something other than append(values, ...) or fresh storage (a re-slice keeps the old backing array): durations recorded earlier are overwritten by later ones although the number of values stays right", c.describe(st))
			}
		}
	}
	if okAll {
		c.ok(rule, "tally.timerValues.values", fVals.Pos(), fmt.Sprintf("every assignment (%d) appends to the list or starts from fresh storage", n))
	}
	c.floor(rule, n, 1)
}

// checkNoSwallowedPanic (O8): nothing in the core package recovers from a panic. A reporter that panics
// while a metric is being created must not leave a handle behind that was built "without" the reporter:
// such a timer is registered under its name and silently delivers nothing for every later Record.
// (Expected count of recover() calls: zero; the self-test keeps a mutant that adds one.)
func (c *Ctx) checkNoSwallowedPanic(rule string) {
	n, nBad := 0, 0
	for _, fn := range c.funcsOfPkg("") {
		fn := fn
		n++
		instrsOf(fn, func(in ssa.Instruction) {
			call, ok := in.(ssa.CallInstruction)
			if !ok {
				return
			}
			if b, isB := call.Common().Value.(*ssa.Builtin); isB && b.Name() == "recover" {
				nBad++
				c.bad(rule, c.fnKey(fn), in.Pos(), "the library recovers from a panic: a metric whose creation was interrupted by a panicking reporter is handed out (and stays registered) in a state in which it delivers nothing", c.describe(in))
			}
		})
	}
	if nBad == 0 {
		c.ok(rule, "tally", token.NoPos, fmt.Sprintf("no recover() in %d functions of the core package", n))
	}
}
